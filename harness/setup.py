"""MANIFEST.setup_cmd: regenerate coq/Gen from /repo, build the Coq development, the extraction and the OCaml driver."""
import os
import sys
sys.path.insert(0, os.path.dirname(os.path.abspath(__file__)))
import common as C

res = C.build()
print(f"built {len(res.ok_files)} files; failed: {sorted(res.failed)}; translator errors: {res.gen_errors}")
sys.exit(1 if (res.failed or res.gen_errors) else 0)
