"""MANIFEST.setup_cmd: regenerate coq/Gen from /repo, build the Coq development, the extraction and the OCaml driver.
Also the hygiene scan: no Admitted / admit / Axiom / Parameter / Conjecture / guard, positivity or universe switches
anywhere in the development."""
import os
import re
import sys
sys.path.insert(0, os.path.dirname(os.path.abspath(__file__)))
import common as C

FORBIDDEN = re.compile(r"\b(Admitted|admit|Axiom|Axioms|Parameter|Parameters|Conjecture|Hypothesis|Variable|Variables|Hypotheses)\b|"
                       r"Unset\s+Guard|Guard\s+Checking|bypass_check|Positivity\s+Checking|Universe\s+Checking|type-in-type|impredicative-set|Admit\s+Obligations")


def hygiene():
    """Hypothesis / Variable are allowed inside a Section only (they are discharged); everything else never."""
    bad = []
    for root, _, files in os.walk(C.COQ):
        for f in files:
            if not f.endswith(".v"):
                continue
            depth = 0
            path = os.path.join(root, f)
            text = re.sub(r"\(\*.*?\*\)", " ", open(path).read(), flags=re.S)      # comments (not nested ones)
            for ln, line in enumerate(text.splitlines(), 1):
                if re.match(r"\s*Section\b", line):
                    depth += 1
                elif re.match(r"\s*End\b", line) and depth > 0:
                    depth -= 1
                for m in FORBIDDEN.finditer(line):
                    w = m.group(0)
                    if w in ("Hypothesis", "Variable", "Variables", "Hypotheses") and depth > 0:
                        continue
                    bad.append(f"{os.path.relpath(path, C.COQ)}:{ln}: {w}")
    for f in ("_CoqProject",):
        t = open(os.path.join(C.COQ, f)).read()
        if "-type-in-type" in t or "-impredicative-set" in t or "-vos" in t:
            bad.append(f + ": forbidden flag")
    return bad


res = C.build()
bad = hygiene()
print(f"built {len(res.ok_files)} files; failed: {sorted(res.failed)}; translator errors: {res.gen_errors}; hygiene: {bad or 'clean'}")
sys.exit(1 if (res.failed or res.gen_errors or bad) else 0)
