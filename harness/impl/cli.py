"""Run the command-line tool: glyles.__main__.main(argv) in-process and `python -m glyles` as a subprocess.
payload: {"items": [{"files": {name: [lines]}, "args": [str], "subprocess": bool}], "tmp": dir}
Every file name in args is relative to a fresh directory; the output file is out.txt there."""
import json
import logging
import os
import shutil
import subprocess
import sys

sys.path.insert(0, os.path.dirname(os.path.abspath(__file__)))
from common_impl import emit, oracle, Capture  # noqa: E402


def run_case(case, tmp, idx):
    d = os.path.join(tmp, f"cli_{os.getpid()}_{idx}")
    shutil.rmtree(d, ignore_errors=True)
    os.makedirs(d)
    for name, lines in case["files"].items():
        with open(os.path.join(d, name), "w", newline="") as fh:
            for ln in lines:
                fh.write(ln + "\n")
    out = {"exc": None, "file": None, "stdout": ""}
    argv = ["-i"] + case["args"] + ["-o", "out.txt"]
    cwd = os.getcwd()
    os.chdir(d)
    try:
        if case.get("subprocess"):
            e = dict(os.environ)
            p = subprocess.run([sys.executable, "-m", "glyles"] + argv, stdout=subprocess.PIPE, stderr=subprocess.DEVNULL,
                               text=True, env=e, stdin=subprocess.DEVNULL, timeout=600)
            out["stdout"] = p.stdout
            out["returncode"] = p.returncode
        else:
            from glyles.__main__ import main
            logging.getLogger().disabled = False
            with Capture() as cap:
                try:
                    main(argv)
                except Exception as e:
                    out["exc"] = type(e).__name__ + ": " + str(e)[:200]
                except BaseException as e:
                    out["exc"] = "BASE:" + type(e).__name__
                out["stdout"] = cap.buf.getvalue()
            out["logger_disabled_after"] = bool(logging.getLogger().disabled)
        if os.path.exists("out.txt"):
            out["file"] = open("out.txt", newline="").read()
    finally:
        os.chdir(cwd)
    # the specification: every argument naming an existing file is a list of glycans, one per line, stripped
    exp = []
    for a in case["args"]:
        if a in case["files"]:
            exp.extend(ln.strip() for ln in case["files"][a])
        else:
            exp.append(a)
    out["expected"] = [[x, oracle(x, True)] for x in exp]
    shutil.rmtree(d, ignore_errors=True)
    return out


def main_():
    payload = json.load(sys.stdin)
    tmp = payload["tmp"]
    os.makedirs(tmp, exist_ok=True)
    logging.disable(logging.CRITICAL)
    sys.stderr = open(os.devnull, "w")
    res = []
    for i, c in enumerate(payload["items"]):
        try:
            res.append(run_case(c, tmp, i))
        except Exception as e:
            res.append({"harness_error": type(e).__name__ + ": " + str(e)})
    emit({"results": res})


if __name__ == "__main__":
    main_()
