"""Does the library accept a string (is a tree built)? payload {"items": [str], "convert": bool}"""
import json, logging, os, sys
sys.path.insert(0, os.path.dirname(os.path.abspath(__file__)))
from common_impl import emit
logging.disable(logging.CRITICAL)
sys.stderr = open(os.devnull, "w")
from glyles import Glycan, convert
payload = json.load(sys.stdin)
out = []
for s in payload["items"]:
    rec = {}
    try:
        g = Glycan(s, tree_only=True)
        rec["accepted"] = g.get_tree() is not None
    except Exception as e:
        rec["accepted"] = None
        rec["exc"] = type(e).__name__ + ": " + str(e)[:100]
    if payload.get("convert") and rec["accepted"] is False:
        try:
            rec["converted"] = convert(glycan=s, verbose=None)[0][1]
        except Exception as e:
            rec["converted"] = "EXC:" + type(e).__name__
    out.append(rec)
emit({"results": out})
