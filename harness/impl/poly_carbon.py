"""SMILESReaktor.parse_poly_carbon on names. payload {"items": [name, ...]}; per name {"text": str | None, "exc": str | None}"""
import json, logging, os, sys
sys.path.insert(0, os.path.dirname(os.path.abspath(__file__)))
from common_impl import emit
logging.disable(logging.CRITICAL)
sys.stderr = open(os.devnull, "w")
from glyles.glycans.mono.reactor import SMILESReaktor
payload = json.load(sys.stdin)
out = []
for name in payload["items"]:
    try:
        out.append({"text": SMILESReaktor.parse_poly_carbon(None, name), "exc": None})
    except Exception as e:
        out.append({"text": None, "exc": type(e).__name__})
emit({"results": out})
