"""Convert inputs with options; record what reached the exit gate (checked_smiles) and what it returned.
payload {"items": [{"iupac":..., "kw": {...}}]}"""
import re, json, logging, os, sys
sys.path.insert(0, os.path.dirname(os.path.abspath(__file__)))
from common_impl import emit
logging.disable(logging.CRITICAL)
sys.stderr = open(os.devnull, "w")
import glyles.glycans.poly.glycan as G
from glyles import Glycan
from rdkit import Chem, RDLogger
from rdkit.Chem.rdMolDescriptors import CalcMolFormula
RDLogger.DisableLog("rdApp.*")

gate_log = []
orig = getattr(G, "checked_smiles", None)
if orig is not None:
    def wrapped(s):
        out = orig(s)
        gate_log.append((s, out))
        return out
    G.checked_smiles = wrapped

def rdkit_view(s):
    try:
        m = Chem.MolFromSmiles(s)
    except Exception:
        m = None
    if m is None:
        return None
    return {"formula": re.sub(r"[+-]\d*$", "", CalcMolFormula(m)), "rings": m.GetNumBonds() - m.GetNumAtoms() + len(Chem.GetMolFrags(m)), "components": len(Chem.GetMolFrags(m)),
            "heavy": m.GetNumHeavyAtoms()}

payload = json.load(sys.stdin)
out = []
if payload.get("prelude"):
    from common_impl import failing_prelude
    failing_prelude()
for it in payload["items"]:
    del gate_log[:]
    rec = {"smiles": None, "exc": None}
    try:
        g = Glycan(it["iupac"], **it.get("kw", {}))
        rec["smiles"] = g.get_smiles()
        rec["second"] = g.get_smiles()
    except Exception as e:
        rec["exc"] = type(e).__name__ + ": " + str(e)[:200]
    rec["gate"] = [[a if isinstance(a, str) else repr(a), b] for a, b in gate_log]
    if rec["smiles"]:
        rec["rdkit"] = rdkit_view(rec["smiles"])
    out.append(rec)
emit({"results": out, "has_gate": orig is not None})
