"""The batch entry points on plain lists. payload {"items": [{"iupac": str, "full": bool}]}
per item: {"smiles": result of convert(...), "gen": result of convert_generator(...)} (None when the call raised)"""
import json, logging, os, sys
sys.path.insert(0, os.path.dirname(os.path.abspath(__file__)))
from common_impl import emit
logging.disable(logging.CRITICAL)
sys.stderr = open(os.devnull, "w")
from glyles import convert, convert_generator
payload = json.load(sys.stdin)
items = payload["items"]
out = [{"smiles": None, "gen": None} for _ in items]
for full in (True, False):
    idx = [i for i, it in enumerate(items) if bool(it.get("full", True)) == full]
    if not idx:
        continue
    texts = [items[i]["iupac"] for i in idx]
    try:
        res = convert(glycan_list=list(texts), full=full, returning=True, verbose=None)
        if res is not None and len(res) == len(idx):
            for i, (g, s) in zip(idx, res):
                out[i]["smiles"] = s
    except Exception as e:
        for i in idx:
            out[i]["exc"] = type(e).__name__
    try:
        res = list(convert_generator(glycan_list=list(texts), full=full, verbose=None))
        if len(res) == len(idx):
            for i, (g, s) in zip(idx, res):
                out[i]["gen"] = s
    except Exception as e:
        for i in idx:
            out[i]["gen_exc"] = type(e).__name__
emit({"results": out})
