"""Oracle check O1: what RDKit reads from a SMILES string. payload {"items": [smiles,...], "variants": bool}"""
import re, json, os, sys
sys.path.insert(0, os.path.dirname(os.path.abspath(__file__)))
from common_impl import emit
from rdkit import Chem, RDLogger
from rdkit.Chem.rdMolDescriptors import CalcMolFormula
RDLogger.DisableLog("rdApp.*")

def describe(s, variants, idx):
    out = {"smiles": s}
    try:
        m = Chem.MolFromSmiles(s)
    except Exception:
        m = None
    if m is None:
        out["ok"] = False
        return out
    out["ok"] = True
    out["formula"] = re.sub(r"[+-]\d*$", "", CalcMolFormula(m))
    out["charge"] = sum(a.GetFormalCharge() for a in m.GetAtoms())
    out["rings"] = m.GetNumBonds() - m.GetNumAtoms() + len(Chem.GetMolFrags(m))
    out["components"] = len(Chem.GetMolFrags(m))
    out["heavy"] = m.GetNumHeavyAtoms()
    out["symbols"] = sorted(set(a.GetSymbol() for a in m.GetAtoms()))
    if variants:
        out["canonical"] = Chem.MolToSmiles(m)
        n = m.GetNumAtoms()
        out["rooted"] = Chem.MolToSmiles(m, rootedAtAtom=(idx * 7 + 3) % n, canonical=False) if n else ""
        out["random"] = Chem.MolToSmiles(m, doRandom=True) if n else ""
        # invert one stereocentre
        centres = [a.GetIdx() for a in m.GetAtoms() if a.GetChiralTag() != Chem.ChiralType.CHI_UNSPECIFIED]
        if centres:
            m2 = Chem.Mol(m)
            a = m2.GetAtomWithIdx(centres[idx % len(centres)])
            a.InvertChirality()
            out["flipped"] = Chem.MolToSmiles(m2)
            m3 = Chem.Mol(m)
            for c in centres:
                m3.GetAtomWithIdx(c).InvertChirality()
            out["mirror"] = Chem.MolToSmiles(m3)
            # is the mirror image the same molecule (meso)?
            out["mirror_same"] = Chem.MolToSmiles(m3) == Chem.MolToSmiles(m)
            out["flipped_same"] = Chem.MolToSmiles(m2) == Chem.MolToSmiles(m)
            out["n_centres"] = len(centres)
    return out

payload = json.load(sys.stdin)
emit({"results": [describe(s, payload.get("variants", False), i) for i, s in enumerate(payload["items"])]})
