"""Convert glycans one by one through the public class. payload {"items": [{"iupac":..., "kw": {...}}]}
result per item: {"smiles": str or None, "exc": str or None}"""
import json, logging, os, sys
sys.path.insert(0, os.path.dirname(os.path.abspath(__file__)))
from common_impl import emit
logging.disable(logging.CRITICAL)
sys.stderr = open(os.devnull, "w")
from glyles import Glycan
payload = json.load(sys.stdin)
out = []
if payload.get("prelude"):
    from common_impl import failing_prelude
    failing_prelude()
for it in payload["items"]:
    try:
        g = Glycan(it["iupac"], **it.get("kw", {}))
        out.append({"smiles": g.get_smiles(), "exc": None})
    except Exception as e:
        out.append({"smiles": None, "exc": type(e).__name__ + ": " + str(e)[:200]})
emit({"results": out})
