"""Run glyles.convert / convert_generator on batches in every delivery mode and report what came back.
payload: {"items": [case, ...], "tmp": dir}
case: {"glycan": tagged or null, "glycan_list": [tagged] or null, "file_lines": [str] or null,
       "gen": [tagged] or null, "mode": "return" | "generator" | "file" | "stdout" | "baddir",
       "full": bool, "verbose": "none" | "info", "cpu_count": int, "abandon": int or null}
"""
import json
import logging
import os
import sys
import tempfile

sys.path.insert(0, os.path.dirname(os.path.abspath(__file__)))
from common_impl import decode, encode, emit, oracle, Capture  # noqa: E402


def run_case(case, tmp, idx):
    import glyles
    from glyles import convert, convert_generator
    kw = {}
    inputs = []          # the inputs in the documented order, as python values
    if case.get("glycan") is not None:
        v = decode(case["glycan"])
        kw["glycan"] = v
        if v is not None:
            inputs.append(v)
    if case.get("glycan_list") is not None:
        l = [decode(v) for v in case["glycan_list"]]
        kw["glycan_list"] = l
        inputs.extend(l)
    caller_list_before = list(kw["glycan_list"]) if "glycan_list" in kw else None
    if case.get("file_lines") is not None:
        path = os.path.join(tmp, f"in_{os.getpid()}_{idx}.txt")
        with open(path, "w", newline="") as fh:
            for ln in case["file_lines"]:
                fh.write(ln + "\n")
        kw["glycan_file"] = path
        inputs.extend(ln.strip() for ln in case["file_lines"])
    if case.get("gen") is not None:
        g = [decode(v) for v in case["gen"]]
        kw["glycan_generator"] = iter(g)
        inputs.extend(g)
    full = case.get("full", True)
    kw["full"] = full
    kw["cpu_count"] = case.get("cpu_count", 1)
    kw["verbose"] = None if case.get("verbose", "none") == "none" else logging.INFO
    mode = case["mode"]
    out = {"exc": None, "pairs": None, "stdout": "", "file": None}
    root = logging.getLogger()
    root.disabled = False
    stdout_obj = None
    with Capture() as cap:
        stdout_obj = sys.stdout
        try:
            if mode == "return":
                res = convert(returning=True, **kw)
                out["pairs"] = None if res is None else [[encode(a), b] for a, b in res]
                out["returned_none"] = res is None
            elif mode == "generator":
                gen = convert_generator(**kw)
                ab = case.get("abandon")
                res = []
                for k, pr in enumerate(gen):
                    res.append(pr)
                    if ab is not None and k + 1 >= ab:
                        gen.close()
                        break
                out["pairs"] = [[encode(a), b] for a, b in res]
            elif mode == "file":
                path = os.path.join(tmp, f"out_{os.getpid()}_{idx}.txt")
                if os.path.exists(path):
                    os.remove(path)
                res = convert(output_file=path, **kw)
                out["returned"] = encode(res)
                out["file"] = open(path, newline="").read() if os.path.exists(path) else None
            elif mode == "stdout":
                res = convert(returning=False, **kw)
                out["returned"] = encode(res)
            elif mode == "baddir":
                path = os.path.join(tmp, "no_such_dir_%d" % idx, "x.txt")
                res = convert(output_file=path, **kw)
                out["returned"] = encode(res)
        except Exception as e:
            out["exc"] = type(e).__name__ + ": " + str(e)[:200]
        except BaseException as e:      # SystemExit etc.
            out["exc"] = "BASE:" + type(e).__name__
        out["stdout_closed"] = bool(getattr(stdout_obj, "closed", False))
        out["stdout"] = cap.buf.getvalue() if not cap.buf.closed else "<closed>"
    out["logger_disabled_after"] = bool(root.disabled)
    root.disabled = False
    if caller_list_before is not None:
        out["caller_list_unchanged"] = (kw["glycan_list"] == caller_list_before)
    out["expected"] = [[encode(x), oracle(x, full)] for x in inputs]
    return out


def main():
    payload = json.load(sys.stdin)
    tmp = payload.get("tmp") or tempfile.mkdtemp(prefix="gv_batch_")
    os.makedirs(tmp, exist_ok=True)
    logging.disable(logging.CRITICAL)
    devnull = open(os.devnull, "w")
    sys.stderr = devnull
    res = []
    for i, c in enumerate(payload["items"]):
        try:
            res.append(run_case(c, tmp, i))
        except Exception as e:       # harness problem, reported as such
            res.append({"harness_error": type(e).__name__ + ": " + str(e)})
    emit({"results": res})


if __name__ == "__main__":
    main()
