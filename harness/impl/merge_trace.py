"""Convert glycans and record what the merger did at every node (wrappers installed from here, no source hooks):
per node: RDKit's raw rooted string, the relabelled string, the children's merged strings, the node's result.
payload {"items": [{"iupac":..., "kw": {...}}]}"""
import json, logging, os, sys
sys.path.insert(0, os.path.dirname(os.path.abspath(__file__)))
from common_impl import emit
logging.disable(logging.CRITICAL)
sys.stderr = open(os.devnull, "w")
import glyles.glycans.mono.monomer as MM
import glyles.glycans.poly.merger as MG
from glyles import Glycan

raw_log = []
orig_mts = MM.MolToSmiles
def mts(*a, **k):
    out = orig_mts(*a, **k)
    raw_log.append(out)
    return out
MM.MolToSmiles = mts

frames = []
nodes = []
orig_ts = MM.Monomer.to_smiles
def to_smiles(self, ring_index, root_idx=None, root_id=None):
    n0 = len(raw_log)
    out = orig_ts(self, ring_index, root_idx=root_idx, root_id=root_id)
    if frames and "me" not in frames[-1]:
        frames[-1]["me"] = out
        frames[-1]["raw"] = raw_log[n0] if len(raw_log) > n0 else None
        frames[-1]["ring_index"] = ring_index
    return out
MM.Monomer.to_smiles = to_smiles

orig_mi = MG.Merger.merge_int
def merge_int(self, t, node, start, ring_index):
    fr = {"node": node, "children": []}
    frames.append(fr)
    try:
        out = orig_mi(self, t, node, start, ring_index)
        fr["result"] = out[0]
    except Exception as e:
        fr["exc"] = type(e).__name__
        raise
    finally:
        frames.pop()
        nodes.append(fr)
        if frames:
            frames[-1]["children"].append(fr.get("result"))
    return out
MG.Merger.merge_int = merge_int

payload = json.load(sys.stdin)
out = []
for it in payload["items"]:
    del nodes[:]; del frames[:]; del raw_log[:]
    rec = {"smiles": None, "exc": None}
    try:
        rec["smiles"] = Glycan(it["iupac"], **it.get("kw", {})).get_smiles()
    except Exception as e:
        rec["exc"] = type(e).__name__ + ": " + str(e)[:200]
    rec["nodes"] = [dict(n) for n in nodes]
    out.append(rec)
emit({"results": out})
