"""Convert the lines of a glycan file through glyles.convert(glycan_file=...). payload {"items": [line, ...], "tmp": dir}
result: {"results": [{"echo": str, "smiles": str}, ...]} (as returned, in order)"""
import json, logging, os, sys
sys.path.insert(0, os.path.dirname(os.path.abspath(__file__)))
from common_impl import emit
logging.disable(logging.CRITICAL)
sys.stderr = open(os.devnull, "w")
from glyles import convert
payload = json.load(sys.stdin)
os.makedirs(payload["tmp"], exist_ok=True)
path = os.path.join(payload["tmp"], f"cf_{os.getpid()}.txt")
with open(path, "w") as fh:
    for ln in payload["items"]:
        fh.write(ln + "\n")
try:
    out = convert(glycan_file=path, returning=True)
    res = [{"echo": a, "smiles": b} for a, b in out]
except Exception as e:
    res = [{"echo": None, "smiles": None, "exc": type(e).__name__}] * len(payload["items"])
os.remove(path)
emit({"results": res})
