"""cpu time of single conversions of growing length (a measurement, reported in the evidence)"""
import json, os, sys, time
sys.path.insert(0, os.path.dirname(os.path.abspath(__file__)))
from common_impl import emit
import logging
logging.disable(logging.CRITICAL)
sys.stderr = open(os.devnull, "w")
from glyles import Glycan
payload = json.load(sys.stdin)
out = []
for n in payload["sizes"]:
    s = "Gal(b1-4)" * n + "Glc"
    t0 = time.process_time()
    Glycan(s).get_smiles()
    out.append(time.process_time() - t0)
emit({"sizes": payload["sizes"], "chars": [9 * n + 3 for n in payload["sizes"]], "cpu_s": out})
