"""summary / count / save_dot of glycans. payload {"items": [{"iupac":..., "queries": [str], "self": bool, "subchains": [str]}], "tmp": dir}"""
import json, logging, os, sys
sys.path.insert(0, os.path.dirname(os.path.abspath(__file__)))
from common_impl import emit
logging.disable(logging.CRITICAL)
sys.stderr = open(os.devnull, "w")
from glyles import Glycan
payload = json.load(sys.stdin)
tmp = payload["tmp"]
os.makedirs(tmp, exist_ok=True)
out = []

def cnt(g, q, **kw):
    try:
        return g.count(q, **kw)
    except Exception as e:
        return "EXC:" + type(e).__name__

for i, it in enumerate(payload["items"]):
    rec = {}
    try:
        g = Glycan(it["iupac"], **it.get("kw", {}))
        try:
            rec["smiles"] = g.get_smiles()
        except Exception as e:
            rec["smiles"] = None
            rec["smiles_exc"] = type(e).__name__
        t = g.get_tree()
        rec["nodes"] = [[int(n), t.nodes[n]["type"].get_name(full=True)] for n in t.nodes]
        rec["edges"] = [[int(a), int(b), t.get_edge_data(a, b)["type"]] for a, b in t.edges()]
        try:
            s = g.summary()
            s["weight"] = round(s["weight"], 2)
            rec["summary"] = s
        except Exception as e:
            rec["summary_exc"] = type(e).__name__
        rec["counts"] = {}
        for q in it.get("queries", []):
            rec["counts"][q] = {scope: [cnt(g, q, **{scope: True}), cnt(g, q, match_some_fg=True, **{scope: True}),
                                        cnt(g, q, match_all_fg=True, **{scope: True})]
                                for scope in ("match_nodes", "match_leaves", "match_root")}
        if it.get("self"):
            rec["self"] = [cnt(g, it["iupac"], match_nodes=True), cnt(g, it["iupac"], match_nodes=True, match_some_fg=True),
                           cnt(g, it["iupac"], match_nodes=True, match_all_fg=True), cnt(g, it["iupac"], match_nodes=True, match_edges=True)]
        rec["sub"] = {q: [cnt(g, q, match_nodes=True), cnt(g, q, match_nodes=True, match_edges=True)] for q in it.get("subchains", [])}
        rec["sub_all_fg"] = {q: cnt(g, q, match_nodes=True, match_all_fg=True) for q in it.get("subchains", [])}
        rec["self_after"] = cnt(g, it["iupac"], match_nodes=True, match_all_fg=True) if it.get("self") else None
        path = os.path.join(tmp, f"q_{os.getpid()}_{i}.dot")
        g.save_dot(path)
        rec["dot"] = open(path).read()
        os.remove(path)
    except Exception as e:
        rec["exc"] = type(e).__name__ + ": " + str(e)[:200]
    out.append(rec)
emit({"results": out})
