"""Parse strings with tree_only=True and report the exposed tree, and the ANTLR parse tree cut into items
(residue = rule deriv, linkage = rule con, brackets). payload {"items": [str], "kw": {...}}"""
import json, logging, os, sys
sys.path.insert(0, os.path.dirname(os.path.abspath(__file__)))
from common_impl import emit
logging.disable(logging.CRITICAL)
sys.stderr = open(os.devnull, "w")
from glyles import Glycan
from glyles.grammar.GlycanParser import GlycanParser
from antlr4 import TerminalNode

def text(node):
    if isinstance(node, TerminalNode):
        return str(node)
    return "".join(text(c) for c in node.getChildren())

def items(node, out):
    """flatten start/begin/branch down to deriv / con / bracket tokens"""
    if isinstance(node, TerminalNode):
        out.append(("T", str(node)))
        return
    if isinstance(node, GlycanParser.DerivContext):
        out.append(("R", text(node)))
        return
    if isinstance(node, GlycanParser.ConContext):
        out.append(("C", text(node)))
        return
    for c in node.getChildren():
        items(c, out)

def hx(t):
    return t.encode("latin-1", "replace").hex()

def ptree(node):
    """structure of begin / branch nodes for the walker model: B<n>; kids | R / C / T leaves"""
    if isinstance(node, TerminalNode):
        return "T" + hx(str(node)) + ";"
    if isinstance(node, GlycanParser.DerivContext):
        return "R" + hx(text(node)) + ";"
    if isinstance(node, GlycanParser.ConContext):
        return "C" + hx(text(node)) + ";"
    kids = list(node.getChildren())
    return "B%d;" % len(kids) + "".join(ptree(k) for k in kids)

payload = json.load(sys.stdin)
out = []
for s in payload["items"]:
    rec = {"accepted": False}
    try:
        g = Glycan(s, **payload.get("kw", {"tree_only": True}))
        t = g.get_tree()
        if t is not None:
            rec["accepted"] = True
            rec["nodes"] = [[int(n), t.nodes[n]["type"].get_name(full=True), t.nodes[n]["type"].get_name(), str(t.nodes[n]["type"].get_config())] for n in t.nodes]
            rec["edges"] = [[int(a), int(b), t.get_edge_data(a, b)["type"]] for a, b in t.edges()]
            it = []
            items(g.grammar_tree, it)
            rec["items"] = it
            begins = [c for c in g.grammar_tree.getChildren() if isinstance(c, GlycanParser.BeginContext)]
            others = [c for c in g.grammar_tree.getChildren() if isinstance(c, GlycanParser.BranchContext)]
            if len(begins) == 1 and not others:
                rec["ptree"] = ptree(begins[0])
            rec["tree_full"] = bool(g.tree_full)
            # the exposed tree must not change when the object is used
            for use in ("get_smiles", "summary", "get_smiles"):
                try:
                    getattr(g, use)()
                except Exception:
                    pass
            t2 = g.get_tree()
            rec["nodes_after"] = [[int(n), t2.nodes[n]["type"].get_name(full=True)] for n in t2.nodes] if t2 is not None else None
            rec["edges_after"] = [[int(a), int(b), t2.get_edge_data(a, b)["type"]] for a, b in t2.edges()] if t2 is not None else None
    except Exception as e:
        rec["exc"] = type(e).__name__ + ": " + str(e)[:200]
    out.append(rec)
emit({"results": out})
