"""The anomer-changing API of Monomer (alpha / beta / undefined), as the merger uses it.
payload {"items": [name, ...]}; per name: SMILES of the monomers of 'name a', 'name b', 'name' and of
alpha() / beta() / undefined() applied to each of them."""
import json, logging, os, sys
sys.path.insert(0, os.path.dirname(os.path.abspath(__file__)))
from common_impl import emit
logging.disable(logging.CRITICAL)
sys.stderr = open(os.devnull, "w")
from rdkit import Chem
from glyles import Glycan
payload = json.load(sys.stdin)
out = []
for name in payload["items"]:
    rec = {"name": name}
    try:
        forms = {}
        for lab, sfx in (("a", " a"), ("b", " b"), ("u", "")):
            g = Glycan(name + sfx, tree_only=False)
            forms[lab] = (g.get_tree().nodes[0]["type"], g.factory)
        rec["direct"] = {k: Chem.MolToSmiles(m.get_structure()) for k, (m, f) in forms.items()}
        rec["api"] = {}
        for k, (m, f) in forms.items():
            rec["api"][k] = {"a": Chem.MolToSmiles(m.alpha(f).get_structure()), "b": Chem.MolToSmiles(m.beta(f).get_structure()),
                             "u": Chem.MolToSmiles(m.undefined(f).get_structure())}
        mb, fb = forms["b"]
        rec["chained_b_alpha_undefined"] = Chem.MolToSmiles(mb.alpha(fb).undefined(fb).get_structure())
    except Exception as e:
        rec["exc"] = type(e).__name__ + ": " + str(e)[:150]
    out.append(rec)
emit({"results": out})
