"""Run a history of API calls in THIS interpreter and report, per call, its result and what it did to the process:
root-logger flag, text on standard output, the shared monosaccharide / functional-group tables, caller-owned lists.
payload {"calls": [call, ...], "tmp": dir}"""
import copy
import io
import json
import logging
import os
import sys

sys.path.insert(0, os.path.dirname(os.path.abspath(__file__)))
from common_impl import emit  # noqa: E402

logging.disable(logging.CRITICAL)
real_stderr = sys.stderr
sys.stderr = open(os.devnull, "w")

import glyles  # noqa: E402
from glyles import Glycan, convert, convert_generator  # noqa: E402
from glyles.glycans.factory.factory_p import PyranoseFactory  # noqa: E402
from glyles.glycans.factory.factory_f import FuranoseFactory  # noqa: E402
from glyles.glycans.factory.factory_o import OpenFactory  # noqa: E402
import glyles.glycans.mono.reactor as reactor  # noqa: E402
import glyles.glycans.utils as utils  # noqa: E402


def table_snapshot():
    out = {}
    for cls, nm in ((PyranoseFactory, "_PyranoseFactory__monomers"), (FuranoseFactory, "_FuranoseFactory__monomers"),
                    (OpenFactory, "_OpenFactory__monomers")):
        tbl = getattr(cls, nm)
        out[cls.__name__] = {k: {f: (str(v) if not callable(v) else "<fn>") for f, v in row.items()} for k, row in tbl.items()}
    out["functional_groups"] = dict(reactor.functional_groups)
    out["lists"] = {n: list(getattr(reactor, n)) for n in ("preserve_elem", "n_conflict", "o_conflict", "p_conflict", "c_conflict")}
    out["ketoses2"] = sorted(str(x) for x in utils.ketoses2)
    # interpreter-wide settings a library call has no business changing (the root logger's level and handlers are not among
    # them: verbose=<level> asks for logging.basicConfig(level=...))
    import warnings
    root = logging.getLogger()
    out["interpreter"] = {"recursionlimit": sys.getrecursionlimit(), "cwd": os.getcwd(), "environ": sorted(os.environ.items()),
                          "logging_disable_level": logging.root.manager.disable, "warnings_filters": len(warnings.filters),
                          "sys_path": list(sys.path), "switchinterval": sys.getswitchinterval(),
                          "int_max_str_digits": sys.get_int_max_str_digits() if hasattr(sys, "get_int_max_str_digits") else None}
    return out


def diff_tables(a, b):
    out = []
    for k in a:
        if a[k] != b[k]:
            if isinstance(a[k], dict):
                for kk in set(a[k]) | set(b[k]):
                    if a[k].get(kk) != b[k].get(kk):
                        out.append(f"{k}[{kk}]: {str(a[k].get(kk))[:80]} -> {str(b[k].get(kk))[:80]}")
            else:
                out.append(k)
    return out


def run_call(call, tmp, idx):
    res = {"op": call["op"]}
    root = logging.getLogger()
    root.disabled = False
    old_stdout = sys.stdout
    buf = io.StringIO()
    sys.stdout = buf
    caller_list = None
    try:
        if call["op"] in ("convert", "convert_generator"):
            kw = {}
            if "glycan" in call:
                kw["glycan"] = call["glycan"]
            if "glycan_list" in call:
                caller_list = list(call["glycan_list"])
                kw["glycan_list"] = caller_list
            if "file_lines" in call:
                fpath = os.path.join(tmp, f"hin_{os.getpid()}_{idx}.txt")
                with open(fpath, "w") as fh:
                    fh.write("".join(x + "\n" for x in call["file_lines"]))
                kw["glycan_file"] = fpath
            if "gen" in call:
                kw["glycan_generator"] = iter(list(call["gen"]))
            kw["verbose"] = None if call.get("verbose", "none") == "none" else logging.INFO
            kw["full"] = call.get("full", True)
            if call["op"] == "convert":
                mode = call.get("mode", "return")
                if mode == "return":
                    out = convert(**kw)
                    res["result"] = None if out is None else [[str(a), b] for a, b in out]
                elif mode == "stdout":
                    convert(returning=False, **kw)
                    res["result"] = "<stdout>"
                elif mode == "file":
                    path = os.path.join(tmp, f"h_{os.getpid()}_{idx}.txt")
                    convert(output_file=path, **kw)
                    res["result"] = open(path).read()
                    os.remove(path)
                elif mode == "missingfile":
                    kw.pop("glycan", None)
                    convert(glycan_file=os.path.join(tmp, "does_not_exist.txt"), **kw)
            else:
                gen = convert_generator(**kw)
                got = []
                for k, pr in enumerate(gen):
                    got.append([str(pr[0]), pr[1]])
                    if call.get("abandon") is not None and k + 1 >= call["abandon"]:
                        break
                if call.get("abandon") is not None:
                    if call.get("close", True):
                        gen.close()
                    del gen
                res["result"] = got
        elif call["op"] == "glycan":
            g = Glycan(call["iupac"], **call.get("kw", {}))
            rs = []
            for m in call.get("methods", ["get_smiles"]):
                try:
                    if m == "get_smiles":
                        rs.append(["get_smiles", g.get_smiles()])
                    elif m == "summary":
                        s = g.summary()
                        s["weight"] = round(s["weight"], 3)
                        rs.append(["summary", json.loads(json.dumps(s, sort_keys=True))])
                    elif m.startswith("count:"):
                        q = m.split(":", 1)[1]
                        rs.append([m, [g.count(q, match_nodes=True), g.count(q, match_nodes=True, match_some_fg=True),
                                       g.count(q, match_nodes=True, match_all_fg=True)]])
                    elif m.startswith("fgcount:"):
                        q = m.split(":", 1)[1]
                        rs.append([m, g.count_functional_groups(q.split("|") if "|" in q else q)])
                    elif m.startswith("proton:"):
                        rs.append([m, g.count_protonation(m.split(":", 1)[1] == "1")])
                    elif m == "save_dot":
                        path = os.path.join(tmp, f"h_{os.getpid()}_{idx}.dot")
                        g.save_dot(path)
                        rs.append(["save_dot", sorted(x.strip() for x in open(path).read().splitlines())])
                        os.remove(path)
                    elif m == "get_tree":
                        t = g.get_tree()
                        rs.append(["get_tree", None if t is None else sorted(t.nodes[n]["type"].get_name(True) for n in t.nodes)])
                except Exception as e:
                    rs.append([m, "EXC:" + type(e).__name__])
            res["result"] = rs
    except Exception as e:
        res["exc"] = type(e).__name__
    except BaseException as e:
        res["exc"] = "BASE:" + type(e).__name__
    finally:
        sys.stdout = old_stdout
    res["stdout"] = buf.getvalue()
    res["logger_disabled_after"] = bool(root.disabled)
    root.disabled = False
    if caller_list is not None:
        res["caller_list_unchanged"] = caller_list == list(call["glycan_list"])
    return res


def main():
    payload = json.load(sys.stdin)
    tmp = payload["tmp"]
    os.makedirs(tmp, exist_ok=True)
    snap0 = table_snapshot()
    out = []
    for i, c in enumerate(payload["calls"]):
        r = run_call(c, tmp, i)
        snap = table_snapshot()
        r["tables_changed"] = diff_tables(snap0, snap)
        out.append(r)
    emit({"results": out})


if __name__ == "__main__":
    main()
