"""Use one Glycan object repeatedly: get_smiles, summary, get_smiles, count, save_dot, get_smiles.
payload {"items": [{"iupac":..., "kw": {...}}], "tmp": dir}; result per item: {"smiles": [r1, r2, r3], "summary_ok": [bool, bool]}"""
import json, logging, os, sys
sys.path.insert(0, os.path.dirname(os.path.abspath(__file__)))
from common_impl import emit
logging.disable(logging.CRITICAL)
sys.stderr = open(os.devnull, "w")
from glyles import Glycan
payload = json.load(sys.stdin)
os.makedirs(payload.get("tmp", "/tmp"), exist_ok=True)
out = []
for i, it in enumerate(payload["items"]):
    rec = {"smiles": [], "summary_ok": [], "exc": None}
    try:
        g = Glycan(it["iupac"], **it.get("kw", {}))
        def sm():
            try:
                return g.get_smiles()
            except Exception as e:
                return "EXC:" + type(e).__name__
        def summ():
            try:
                g.summary(); return True
            except Exception as e:
                return type(e).__name__
        rec["smiles"].append(sm())
        rec["summary_ok"].append(summ())
        rec["smiles"].append(sm())
        try:
            g.count("Glc", match_nodes=True)
            p = os.path.join(payload.get("tmp", "/tmp"), f"or_{os.getpid()}_{i}.dot"); g.save_dot(p); os.remove(p)
        except Exception:
            pass
        rec["summary_ok"].append(summ())
        rec["smiles"].append(sm())
    except Exception as e:
        rec["exc"] = type(e).__name__
    out.append(rec)
emit({"results": out})
