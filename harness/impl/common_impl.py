"""helpers for the implementation-side runners (run under /venv/bin/python with PYTHONPATH=/repo)"""
import io
import json
import logging
import os
import sys


def decode(v):
    t = v["t"]
    if t == "none":
        return None
    if t == "int":
        return v["v"]
    if t == "float":
        return v["v"]
    if t == "str":
        return v["v"]
    if t == "list":
        return list(v["v"])
    if t == "bytes":
        return v["v"].encode()
    raise ValueError(t)


def encode(x):
    if x is None:
        return {"t": "none"}
    if isinstance(x, bool):
        return {"t": "bool", "v": x}
    if isinstance(x, int):
        return {"t": "int", "v": x}
    if isinstance(x, float):
        return {"t": "float", "v": x}
    if isinstance(x, str):
        return {"t": "str", "v": x}
    if isinstance(x, bytes):
        return {"t": "bytes", "v": x.decode("latin-1")}
    if isinstance(x, (list, tuple)):
        return {"t": "list", "v": [str(e) for e in x]}
    return {"t": "other", "v": repr(x)}


def emit(obj):
    sys.__stdout__.write("@@RESULT@@" + json.dumps(obj) + "\n")
    sys.__stdout__.flush()


def quiet():
    logging.disable(logging.CRITICAL)
    sys.stderr = open(os.devnull, "w")


_oracle_cache = {}


def oracle(x, full=True):
    """what the conversion of this single input gives on its own: SMILES, or "" on any Exception"""
    key = (repr(x), full)
    if key in _oracle_cache:
        return _oracle_cache[key]
    from glyles import Glycan
    try:
        out = Glycan(x, full=full).get_smiles()
    except Exception:
        out = ""
    _oracle_cache[key] = out
    return out


class Capture:
    """capture sys.stdout (python level) during a call"""
    def __enter__(self):
        self.old = sys.stdout
        self.buf = io.StringIO()
        sys.stdout = self.buf
        return self

    def __exit__(self, *a):
        sys.stdout = self.old
        return False


def failing_prelude():
    """failing calls of every public entry point: the conversions made afterwards run in a process that has seen them"""
    from glyles import Glycan
    # the conversions below are made in a process that has already seen failing calls of every public entry point
    from glyles import convert
    for call in (lambda: Glycan("Glc6Ac").count_functional_groups("C(=O"), lambda: Glycan("Glc").count_functional_groups(["Ac", "xyz(("]),
                 lambda: Glycan("xyz").count_functional_groups("Ac"), lambda: Glycan("Man(a1-4)").get_smiles(),
                 lambda: Glycan("Glc").count("Man((", match_nodes=True), lambda: Glycan("GlcS6").count_protonation(True),
                 lambda: Glycan("Glc(a1-9)Glc").get_smiles(), lambda: Glycan("Glc7S", full=False).summary(),
                 lambda: convert("Glc#", returning=True), lambda: convert(glycan_file="/nonexistent/x.txt", returning=True),
                 lambda: Glycan("Glc", root_orientation="x").get_smiles(), lambda: Glycan("Glc", start="q").get_smiles(),
                 lambda: Glycan("Xyl6Me").get_smiles(), lambda: Glycan("Pau3Me7Ac a").get_smiles(), lambda: Glycan("Glc9Ac8S", full=False).get_smiles(),
                 lambda: Glycan("ManHep-ol").get_smiles(), lambda: Glycan("L-Fuc4e").get_smiles()):
        try:
            call()
        except BaseException:
            pass
