"""Generator of well-formed glycan trees (G-tree): every linkage names the child's anomeric carbon and a parent
carbon that bears a free hydroxyl (or amine), each position used at most once."""

# name -> (anomeric carbon, positions with a free OH, positions with a free NH2, class)
RES = {}


def _add(names, c, oh, nh=(), cls=""):
    for n in names:
        RES[n] = (c, tuple(oh), tuple(nh), cls)


_add(["Glc", "Man", "Gal", "Gul", "Alt", "All", "Tal", "Ido"], 1, [2, 3, 4, 6], cls="hexp")
_add(["Fuc", "Rha", "Qui"], 1, [2, 3, 4], cls="dhexp")
_add(["Xyl", "Ara", "Rib", "Lyx"], 1, [2, 3, 4], cls="penp")
_add(["Araf", "Ribf", "Xylf", "Lyxf"], 1, [2, 3, 5], cls="penf")
_add(["Galf", "Glcf", "Manf"], 1, [2, 3, 5, 6], cls="hexf")
_add(["Fruf"], 2, [1, 3, 4, 6], cls="ketf")
_add(["GlcNAc", "GalNAc", "ManNAc"], 1, [3, 4, 6], cls="hexnac")
_add(["GlcN", "GalN"], 1, [3, 4, 6], nh=[2], cls="hexn")
_add(["Neu5Ac", "Neu5Gc"], 2, [4, 7, 8, 9], cls="sia")
_add(["Kdo"], 2, [4, 5, 7, 8], cls="kdo")
_add(["Kdn"], 2, [4, 5, 7, 8, 9], cls="kdn")
_add(["Glc6S", "Gal6S", "Man6P"], 1, [2, 3, 4], cls="hexp-mod")
_add(["Gal3S", "Glc3Ac"], 1, [2, 4, 6], cls="hexp-mod")
_add(["GlcNAc6S"], 1, [3, 4], cls="hexnac-mod")
_add(["Fuc2Ac"], 1, [3, 4], cls="dhexp-mod")
# bicyclic residues that can sit inside a chain (two ring-closure labels of their own)
_add(["3,6-Anhydro-Gal", "3,6-Anhydro-Glc"], 1, [2, 4], cls="anhydro-inner")

ROOT_ONLY = {
    "1,6-Anhydro-Glc": (None, (2, 3, 4), (), "anhydro"),
    "1,6-Anhydro-Gal": (None, (2, 3, 4), (), "anhydro"),
    "Glc-ol": (None, (1, 2, 3, 4, 5, 6), (), "alditol"),
    "Man-ol": (None, (1, 2, 3, 4, 5, 6), (), "alditol"),
    "Gal-ol": (None, (1, 2, 3, 4, 5, 6), (), "alditol"),
    "Xyl-ol": (None, (1, 2, 3, 4, 5), (), "alditol"),
}

CORE = ["Glc", "Man", "Gal", "Fuc", "Xyl", "GlcNAc", "GalNAc", "Neu5Ac", "Rha", "Araf", "Galf", "Kdo", "Fruf", "GlcN", "Rib",
        "Tal", "Ido", "Qui", "Ara", "Ribf", "Glcf", "ManNAc", "Neu5Gc", "Kdn", "All", "Gul", "Alt", "Lyx", "Xylf", "GalN"]


class Node:
    def __init__(self, name, kids=None):
        self.name = name
        self.kids = kids or []      # list of (anomer, child_pos, parent_pos, Node), in writing order: main chain first

    def size(self):
        return 1 + sum(k[3].size() for k in self.kids)

    def depth(self):
        return 0 if not self.kids else 1 + max(k[3].depth() for k in self.kids)

    def residues(self):
        out = [self.name]
        for k in self.kids:
            out.extend(k[3].residues())
        return out

    def to_json(self):
        return {"name": self.name, "kids": [[a, c, p, n.to_json()] for a, c, p, n in self.kids]}


def from_json(j):
    return Node(j["name"], [(a, c, p, from_json(n)) for a, c, p, n in j["kids"]])


def info(name):
    return RES.get(name) or ROOT_ONLY[name]


def render(node, style="full"):
    """IUPAC-condensed text. style: full '(a1-4)', nopar 'a1-4', short 'a4' (child position dropped)"""
    s = ""
    for i, (an, c, p, kid) in enumerate(node.kids):
        if style == "full":
            link = f"({an}{c}-{p})"
        elif style == "nopar":
            link = f"{an}{c}-{p}"
        else:
            link = f"{an}{p}"
        part = render(kid, style) + link
        s += part if i == 0 else "[" + part + "]"
    return s + node.name


def random_tree(r, n_res, names=None, max_kids=4, p_branch=0.35, allow_n_link=True, root_names=None, anomers="ab"):
    """a random tree with n_res residues"""
    names = names or CORE
    root = Node(r.choice(root_names) if root_names else r.choice(names))
    free = {id(root): _free(root.name, allow_n_link)}
    nodes = [root]
    while sum(1 for _ in nodes) < n_res:
        # prefer extending recent nodes (chains) but branch with probability p_branch
        cand = [n for n in nodes if free[id(n)] and len(n.kids) < max_kids]
        if not cand:
            break
        if r.random() < p_branch:
            parent = r.choice(cand)
        else:
            parent = cand[-1]
        pos = r.choice(free[id(parent)])
        free[id(parent)].remove(pos)
        name = r.choice(names)
        child = Node(name)
        c = RES[name][0]
        parent.kids.append((r.choice(anomers), c, pos, child))
        free[id(child)] = _free(name, allow_n_link)
        nodes.append(child)
    return root


def _free(name, allow_n_link):
    c, oh, nh, _ = info(name)
    return list(oh) + (list(nh) if allow_n_link else [])


def chain(names, anomers, positions):
    """linear chain: names[0] is the non-reducing end, names[-1] the root"""
    node = Node(names[0])
    for i in range(1, len(names)):
        parent = Node(names[i])
        parent.kids.append((anomers[i - 1], RES[names[i - 1]][0], positions[i - 1], node))
        node = parent
    return node
