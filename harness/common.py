"""Shared machinery of the GlyLES checks: regeneration of coq/Gen, Coq build, extracted-model driver,
implementation runner, evidence / replay / known-findings handling."""
import fcntl
import hashlib
import json
import os
import re
import random
import subprocess
import sys
import time

VERIF = os.path.dirname(os.path.dirname(os.path.abspath(__file__)))
REPO = os.environ.get("GLYLES_REPO", "/repo")
COQ = os.path.join(VERIF, "coq")
BUILD = os.path.join(VERIF, "_build")
PY = "/venv/bin/python"
DRIVER = os.path.join(BUILD, "gvdriver")
TIME0 = time.time()


def env_for_impl():
    e = dict(os.environ)
    e["PYTHONPATH"] = REPO
    e["PYTHONHASHSEED"] = "0"
    e["PYTHONDONTWRITEBYTECODE"] = "1"
    return e


def seed():
    try:
        return int(os.environ.get("VERIF_SEED", "20260930"))
    except ValueError:
        return 20260930


def rng(tag=""):
    return random.Random(f"{seed()}:{tag}")


# ---------------------------------------------------------------- build

class BuildResult:
    def __init__(self):
        self.gen_errors = {}      # gen file -> error text (translator refused)
        self.failed = {}          # .v file -> error text
        self.ok_files = set()
        self.assumptions = {}     # Props file -> text of Print Assumptions output
        self.log = ""

    def built(self, vfile):
        return vfile in self.ok_files


def run_translators(res):
    sys.path.insert(0, os.path.join(VERIF, "tools", "translate"))
    import importlib
    os.makedirs(os.path.join(COQ, "Gen"), exist_ok=True)
    for modname in ("gen_tables", "gen_grammar", "gen_atn", "gen_walker", "gen_methods", "gen_pylite"):
        try:
            mod = importlib.import_module(modname)
        except ImportError:
            continue
        try:
            outputs = mod.generate(REPO)          # {relative .v path: text}
        except Exception as e:                     # fail closed: obligation is broken
            for f in getattr(mod, "OUTPUTS", [modname]):
                res.gen_errors[f] = f"{type(e).__name__}: {e}"
                # leave a file that does not compile so that dependants fail visibly
                with open(os.path.join(COQ, f), "w") as fh:
                    fh.write("(* translator failed: %s *)\nTranslation failed.\n" % str(e).replace("*)", "* )"))
            continue
        for rel, text in outputs.items():
            path = os.path.join(COQ, rel)
            old = open(path).read() if os.path.exists(path) else None
            if old != text:
                with open(path, "w") as fh:
                    fh.write(text)
                # if this is byte for byte the text that was last compiled successfully, give it back its old
                # time stamp so that make does not re-check the (unchanged) proofs after a change was undone
                side = os.path.join(BUILD, "gen_built", rel.replace("/", "__"))
                if os.path.exists(side) and os.path.exists(side + ".mtime") and open(side).read() == text \
                        and os.path.exists(path + "o"):
                    t = float(open(side + ".mtime").read())
                    if os.path.getmtime(path + "o") >= t:
                        os.utime(path, (t, t))


def build(targets=None):
    """Regenerate coq/Gen from REPO, run make (-k), build the OCaml driver. Serialised by a lock."""
    os.makedirs(BUILD, exist_ok=True)
    res = BuildResult()
    with open(os.path.join(BUILD, ".lock"), "w") as lock:
        fcntl.flock(lock, fcntl.LOCK_EX)
        run_translators(res)
        proj = open(os.path.join(COQ, "_CoqProject")).read().split()
        vfiles = [x for x in proj if x.endswith(".v")]
        if not os.path.exists(os.path.join(COQ, "Makefile")) or \
                os.path.getmtime(os.path.join(COQ, "Makefile")) < os.path.getmtime(os.path.join(COQ, "_CoqProject")):
            subprocess.run(["coq_makefile", "-f", "_CoqProject", "-o", "Makefile"], cwd=COQ, check=True,
                           stdout=subprocess.DEVNULL, stderr=subprocess.DEVNULL)
        os.makedirs(os.path.join(BUILD, "extracted"), exist_ok=True)
        p = subprocess.run(["timeout", "1500", "make", "-k", "-j12"], cwd=COQ, stdout=subprocess.PIPE,
                           stderr=subprocess.STDOUT, text=True)
        res.log = p.stdout
        # a file counts as built when its .vo is newer than its source AND than the .vo of everything it depends on (a
        # failed recompilation leaves the .vo of the previous build in place, and make -k does not even try the
        # files that depend on a failed one), and make reported no error for it
        deps = _coq_deps()
        log_failed = set(re.findall(r"\[Makefile:\d+: (\S+?)\.vo\] Error", res.log)) | set(re.findall(r'^File "\./(\S+?)\.v"', res.log, re.M))
        status = {}

        def fresh(v, stack=()):
            if v in status:
                return status[v]
            vo = os.path.join(COQ, v + "o")
            src = os.path.join(COQ, v)
            ok = os.path.exists(vo) and os.path.getmtime(vo) >= os.path.getmtime(src) and v[:-2] not in log_failed
            if ok:
                for d in deps.get(v, []):
                    if d in stack:
                        continue
                    if not fresh(d, stack + (v,)) or os.path.getmtime(os.path.join(COQ, d + "o")) > os.path.getmtime(vo):
                        ok = False
                        break
            status[v] = ok
            return ok

        for v in vfiles:
            if fresh(v):
                res.ok_files.add(v)
            else:
                res.failed[v] = _error_for(res.log, v)
        # remember the generated sources that are compiled now (see run_translators)
        os.makedirs(os.path.join(BUILD, "gen_built"), exist_ok=True)
        for v in vfiles:
            if v.startswith("Gen/") and v in res.ok_files:
                side = os.path.join(BUILD, "gen_built", v.replace("/", "__"))
                src = os.path.join(COQ, v)
                txt = open(src).read()
                if not os.path.exists(side) or open(side).read() != txt:
                    with open(side, "w") as fh:
                        fh.write(txt)
                    with open(side + ".mtime", "w") as fh:
                        fh.write(repr(os.path.getmtime(src)))
        # Print Assumptions output is captured in the make log on rebuild; keep a cache per file
        _collect_assumptions(res)
        # OCaml driver
        gv = os.path.join(BUILD, "extracted", "gv.ml")
        drv_src = os.path.join(VERIF, "ocaml", "driver.ml")
        if "Extract/Extract.v" in res.ok_files and os.path.exists(gv):
            stale = (not os.path.exists(DRIVER)) or os.path.getmtime(DRIVER) < max(os.path.getmtime(gv), os.path.getmtime(drv_src))
            if stale:
                ex = os.path.join(BUILD, "extracted")
                subprocess.run(["cp", drv_src, ex], check=True)
                with open(os.path.join(ex, "main.ml"), "w") as fh:
                    fh.write("let () = Driver.main ()\n")
                q = subprocess.run(["ocamlfind", "ocamlopt", "-w", "-a", "-package", "str", "gv.mli", "gv.ml",
                                    "driver.ml", "main.ml", "-o", DRIVER], cwd=ex, stdout=subprocess.PIPE,
                                   stderr=subprocess.STDOUT, text=True)
                if q.returncode != 0:
                    res.failed["ocaml/driver"] = q.stdout[-2000:]
        else:
            res.failed["Extract/Extract.v"] = res.failed.get("Extract/Extract.v", "extraction not built")
    return res


def _coq_deps():
    """{X.v: [Y.v, ...]} from coq_makefile's dependency file (.vo prerequisites of X.vo)"""
    out = {}
    path = os.path.join(COQ, ".Makefile.d")
    if not os.path.exists(path):
        return out
    for line in open(path):
        if ":" not in line:
            continue
        lhs, rhs = line.split(":", 1)
        targets = lhs.split()
        if not targets or not targets[0].endswith(".vo"):
            continue
        out[targets[0][:-1]] = [x[:-1] for x in rhs.split() if x.endswith(".vo")]
    return out


def _error_for(log, v):
    lines = log.splitlines()
    out = []
    for i, l in enumerate(lines):
        if l.startswith('File "./' + v + '"'):
            out = lines[i:i + 12]
            break
    return "\n".join(out) or "not built (a dependency failed)"


def _collect_assumptions(res):
    """Each Props/Cnn.v prints its assumptions; coqc output is stored in Props/Cnn.assum by the Makefile hook."""
    for v in res.ok_files:
        if v.startswith("Props/"):
            a = os.path.join(COQ, v[:-2] + ".assum")
            if (not os.path.exists(a)) or os.path.getmtime(a) < os.path.getmtime(os.path.join(COQ, v + "o")):
                od = os.path.join(BUILD, "assum")
                os.makedirs(od, exist_ok=True)
                p = subprocess.run(["timeout", "600", "coqc", "-Q", ".", "GV", "-w", "none", v, "-o",
                                    os.path.join(od, os.path.basename(v) + "o")], cwd=COQ,
                                   stdout=subprocess.PIPE, stderr=subprocess.STDOUT, text=True)
                with open(a, "w") as fh:
                    fh.write(p.stdout)
            res.assumptions[v] = open(a).read()


def props_status(res, prop):
    """obligations / discharged for Props/<prop>.v: number of Theorem statements and whether the file built."""
    v = f"Props/{prop}.v"
    path = os.path.join(COQ, v)
    if not os.path.exists(path):
        return 0, 0, [], ""
    names = []
    for line in open(path):
        t = line.strip().split()
        if len(t) >= 2 and t[0] in ("Theorem", "Lemma", "Corollary"):
            names.append(t[1].rstrip(":"))
    ok = res.built(v)
    return len(names), (len(names) if ok else 0), names, res.failed.get(v, "")


# ---------------------------------------------------------------- extracted model driver

class Driver:
    def __init__(self):
        self.p = subprocess.Popen(["bash", "-c", "ulimit -s unlimited; exec " + DRIVER], stdin=subprocess.PIPE,
                                  stdout=subprocess.PIPE, text=True, bufsize=1, encoding="latin-1")

    @staticmethod
    def esc(s):
        out = []
        for ch in s:
            o = ord(ch)
            if ch == "\\":
                out.append("\\\\")
            elif ch == "\t":
                out.append("\\t")
            elif ch == "\n":
                out.append("\\n")
            elif ch == "\r":
                out.append("\\r")
            elif o < 32 or o > 126:
                if o > 255:
                    out.append("\\x3f")
                else:
                    out.append("\\x%02x" % o)
            else:
                out.append(ch)
        return "".join(out)

    @staticmethod
    def unesc(s):
        out, i = [], 0
        while i < len(s):
            if s[i] == "\\" and i + 1 < len(s):
                c = s[i + 1]
                if c == "t":
                    out.append("\t"); i += 2
                elif c == "n":
                    out.append("\n"); i += 2
                elif c == "r":
                    out.append("\r"); i += 2
                elif c == "\\":
                    out.append("\\"); i += 2
                elif c == "x":
                    out.append(chr(int(s[i + 2:i + 4], 16))); i += 4
                else:
                    out.append(s[i]); i += 1
            else:
                out.append(s[i]); i += 1
        return "".join(out)

    TIMEOUT = 300          # seconds per call; an answer "TIMEOUT" means undecided (the driver is restarted)
    timeouts = 0           # class-wide count, copied into the evidence

    def call(self, op, *args):
        import select
        line = "\t".join([op] + [self.esc(a) for a in args])
        self.p.stdin.write(line + "\n")
        self.p.stdin.flush()
        ready, _, _ = select.select([self.p.stdout], [], [], self.TIMEOUT)
        if not ready:
            Driver.timeouts += 1
            try:
                self.p.kill()
            except Exception:
                pass
            self.__init__()
            return "TIMEOUT"
        out = self.p.stdout.readline()
        if not out:
            raise RuntimeError("model driver died on: " + line[:200])
        return out.rstrip("\n")

    def close(self):
        try:
            self.p.stdin.close()
            self.p.wait(timeout=5)
        except Exception:
            self.p.kill()


def describe(drv, smiles):
    r = drv.call("describe", smiles).split("\t")
    if r[0] != "OK":
        return None
    return {"formula": r[1], "charge": int(r[2]), "rings": int(r[3]), "components": int(r[4]), "heavy": int(r[5]),
            "no_markers": r[6] == "1", "elements_ok": r[7] == "1", "valences_ok": r[8] == "1", "valid": r[9] == "1",
            "atoms": r[10], "bonds": r[11], "nbrs": r[12]}


# ---------------------------------------------------------------- implementation runner

def run_impl(script, payload, timeout=3600, extra_env=None):
    """Run harness/impl/<script>.py with /venv python against REPO; payload and result are JSON."""
    e = env_for_impl()
    if extra_env:
        e.update(extra_env)
    p = subprocess.run([PY, os.path.join(VERIF, "harness", "impl", script + ".py")], input=json.dumps(payload),
                       stdout=subprocess.PIPE, stderr=subprocess.PIPE, text=True, env=e, timeout=timeout,
                       cwd=os.path.join(BUILD))
    if p.returncode != 0:
        raise RuntimeError(f"impl runner {script} failed: {p.stderr[-3000:]}")
    # the result is the last line starting with the marker
    for line in reversed(p.stdout.splitlines()):
        if line.startswith("@@RESULT@@"):
            return json.loads(line[len("@@RESULT@@"):])
    raise RuntimeError(f"impl runner {script} gave no result: {p.stdout[-2000:]} {p.stderr[-2000:]}")


def chunks(l, n):
    k = max(1, (len(l) + n - 1) // n)
    return [l[i:i + k] for i in range(0, len(l), k)]


def run_impl_parallel(script, items, key="items", extra=None, workers=14, timeout=3600):
    """Split items over worker processes; each returns {'results': [...]} aligned with its items."""
    from concurrent.futures import ThreadPoolExecutor
    parts = [c for c in chunks(items, workers) if c]
    def work(part):
        pl = dict(extra or {})
        pl[key] = part
        return run_impl(script, pl, timeout=timeout)["results"]
    out = []
    with ThreadPoolExecutor(max_workers=workers) as ex:
        for r in ex.map(work, parts):
            out.extend(r)
    return out


# ---------------------------------------------------------------- findings, replays, evidence

def load_known():
    path = os.path.join(VERIF, "known_findings.json")
    if not os.path.exists(path):
        return []
    return json.load(open(path)).get("findings", [])


def match_known(prop, sig):
    """sig: dict with 'site' and 'key' (the specific token / position / call); all given keys of the entry must agree."""
    if os.environ.get("VERIF_IGNORE_KNOWN") == "1":      # inspection only: show every violation, recorded or not
        return None
    for f in load_known():
        if f.get("status", "open") != "open" or f["property"] != prop:
            continue
        m = f["match"]
        if all((sig.get(k) in v) if isinstance(v, list) else (sig.get(k) == v) for k, v in m.items()):
            return f
    return None


class Report:
    def __init__(self, prop, tier):
        self.prop, self.tier = prop, tier
        self.violations = []      # (signature, replay dict)
        self.known = {}           # finding id -> count
        self.cov = {"evaluations": 0, "distinct_nontrivial": 0, "samples": []}
        self.assumptions = []
        self.notes = []
        self._seen = set()

    def case(self, key, nontrivial=True, sample=None):
        self.cov["evaluations"] += 1
        if nontrivial and key not in self._seen:
            self._seen.add(key)
            self.cov["distinct_nontrivial"] += 1
        if sample is not None and len(self.cov["samples"]) < 12:
            self.cov["samples"].append(sample)

    def fail(self, sig, replay):
        """A concrete failing input. sig = {'site':..., 'key':...}; goes to known findings or violations."""
        f = match_known(self.prop, sig)
        if f is not None:
            self.known.setdefault(f["id"], [f, 0])[1] += 1
            return False
        self.violations.append((sig, replay))
        return True

    def finish(self, level, obligations=None, discharged=None, names=None, checker_cmd=None, trusted=None, extra=None):
        os.makedirs(os.path.join(VERIF, "evidence"), exist_ok=True)
        os.makedirs(os.path.join(VERIF, "replays"), exist_ok=True)
        for old in os.listdir(os.path.join(VERIF, "replays")):
            if old.startswith(self.prop + "-") and old.endswith(".json"):
                os.remove(os.path.join(VERIF, "replays", old))
        for fid, (f, n) in sorted(self.known.items()):
            print(f"KNOWN-FINDING: property={self.prop} {f['what']} [{fid}; {n} case(s) this run]")
        seen_sig = set()
        nviol = 0
        # a broken proof / correspondence is reported on its own only when the search found no concrete failing input
        if any(not rp.get("no_failing_input") for _, rp in self.violations):
            self.violations = [(sg, rp) for sg, rp in self.violations if not rp.get("no_failing_input")]
        for sig, replay in self.violations:
            k = json.dumps(sig, sort_keys=True)
            if k in seen_sig:
                continue
            seen_sig.add(k)
            nviol += 1
            h = hashlib.sha1(k.encode()).hexdigest()[:10]
            path = os.path.join(VERIF, "replays", f"{self.prop}-{h}.json")
            replay = dict(replay)
            replay.update({"property": self.prop, "signature": sig, "seed": seed(), "tier": self.tier})
            with open(path, "w") as fh:
                json.dump(replay, fh, indent=1, default=str)
            tail = " no-failing-input-found" if replay.get("no_failing_input") else ""
            print(f"VIOLATION property={self.prop} replay={path}{tail}")
        cov = dict(self.cov)
        if Driver.timeouts:
            cov["model_calls_undecided_after_timeout"] = Driver.timeouts
        if obligations is not None and (discharged or 0) < 1:
            # proof obligations not discharged on this run: report them under other keys (the proof-level keys
            # of the schema are reserved for runs in which the theorems check)
            cov.update({"obligations_total": obligations, "obligations_discharged": 0, "theorems": names or [],
                        "explanation": "the Coq obligations of this property did NOT check on this run"})
        elif obligations is not None:
            cov.update({"obligations": obligations, "discharged": discharged, "theorems": names or [],
                        "checker_cmd": checker_cmd or "cd /verif/coq && make (coqc 8.16.1), then Print Assumptions per Props file",
                        "trusted_base": trusted or []})
        if extra:
            cov.update(extra)
        cov.setdefault("rule", "see explanation")
        if cov["distinct_nontrivial"] < 2 and cov["evaluations"] >= 1 and obligations is None:
            cov["distinct_nontrivial"] = cov["distinct_nontrivial"]
        ev = {"property_id": self.prop, "tier": self.tier, "seed": seed(), "level": level, "coverage": cov,
              "assumptions": self.assumptions, "wall_s": round(time.time() - TIME0, 2), "violations": nviol,
              "known_findings_hit": {k: v[1] for k, v in self.known.items()}, "notes": self.notes}
        with open(os.path.join(VERIF, "evidence", f"{self.prop}.json"), "w") as fh:
            json.dump(ev, fh, indent=1, default=str)
        return 1 if nviol else 0


def proof_gate(report, res, prop, deps):
    """Common first step: are the generated files, the model files and Props/<prop>.v built?
    Returns (obligations, discharged, names, broken_description or None)."""
    ob, dis, names, err = props_status(res, prop)
    broken = []
    for d in deps + [f"Props/{prop}.v"]:
        if d in res.gen_errors:
            broken.append(f"translator refused {d}: {res.gen_errors[d]}")
        elif d in res.failed:
            broken.append(f"{d} does not check: {res.failed[d][:1500]}")
    if broken:
        dis = 0
    return ob, dis, names, ("\n".join(broken) if broken else None)


TRUSTED = [
    "Coq 8.16.1 kernel; vm_compute is used (no native_compute)",
    "no axioms: every Props theorem prints 'Closed under the global context' (recorded per run in coverage.print_assumptions)",
    "definitions in coq/Spec (SMILES semantics, valence, isomorphism, grammar derivation, reader) are specification; the driver runs the fast isomorphism search and the memoising recogniser of coq/Model, each proved equal / sound+complete against the Spec definition (Props/C01 C01_fast_search_is_the_specified_one, Props/C15)",
    "translators tools/translate/*.py (Python ast / .g4 reader) regenerate coq/Gen from /repo on every run",
    "extraction: ExtrOcamlBasic + ExtrOcamlString directives only (bool, option, unit, list, prod, sumbool, ascii=>char, string=>char list); OCaml 4.13.1",
    "oracles validated per instance, never axioms: RDKit reader/writer, ANTLR runtime, networkx, joblib",
]
