"""Input generators shared by the checks. Every random choice comes from the rng handed in."""
import string

GOOD = [
    "Glc", "Man", "Gal", "Fuc", "Xyl", "GlcNAc", "GalNAc", "Neu5Ac", "Kdo", "Fruf", "Rha", "Araf", "Ribf", "Glc a",
    "Man b", "Man(a1-4)Glc", "Gal(b1-4)Glc", "Gal(b1-4)GlcNAc", "Man(a1-3)[Man(a1-6)]Man", "Fuc(a1-2)Gal(b1-4)Glc",
    "Man(a1-3)[Man(a1-6)]Man(b1-4)GlcNAc(b1-4)GlcNAc", "Neu5Ac(a2-3)Gal(b1-4)Glc", "Glc6S", "Glc3P", "GlcN", "Gal(b1-3)GalNAc a",
    "Man(a1-2)Man(a1-2)Man(a1-3)Man", "Gal(b1-4)[Fuc(a1-3)]GlcNAc", "Xyl(b1-4)Xyl(b1-4)Xyl", "Glc(a1-4)Glc(a1-4)Glc(a1-4)Glc",
    "Man(a1-4)Man", "Tal", "All", "Gul b", "Ido", "Alt a", "GlcNAc(b1-4)GlcNAc", "Gal(a1-3)Gal", "Man(a1-6)Man",
]

TOKENS = ["Glc", "Man", "Gal", "(", ")", "[", "]", "a", "b", "1", "4", "-", "?", "{", "}", "Ac", "N", "S", "p", "f", " ", "#",
          ",", "6", "3", "2", "Neu", "5", "Kdo", "Hex", "ol", "A", "d", "=", "c", "t", "C", "O", "P", "Me", "Anhydro"]

CONTROL = ["\x0b", "\x0c", "\x1c", "\x1d", "\x1e", "\x85", " ", "\t", "\x00", "\x7f", "\r"]


def soup(r, maxlen=12):
    return "".join(r.choice(TOKENS) for _ in range(r.randint(1, maxlen)))


SMILES_LIKE = ["OCC(O)CO.OP(=O)(O)O", "C[SeH]", "[Na+].[Cl-]", "OC1OC(CO)C([GaH2])C(O)C1O", "CCO", "O", "C", "N", "OP(=O)(O)O", "c1ccccc1", "B",
               "Cl[Pt](Cl)(N)N", "OC1OC(CO)C(O)C(O)C1O", "O1C(O)[C@H](O)[C@@H](O)[C@H](O)[C@H]1CO", "CC(=O)O.[Na+]", "[TeH2]", "C1CC1", "OS(=O)(=O)O", "F", "I"]


def bad_string(r):
    k = r.randint(0, 10)
    if k == 10:
        return r.choice(SMILES_LIKE)             # text that a SMILES reader accepts is not a glycan
    if k == 0:
        return soup(r)
    if k == 1:
        g = r.choice(GOOD)
        return g[:r.randint(0, max(0, len(g) - 1))]          # truncation
    if k == 2:
        g = r.choice(GOOD)
        i = r.randint(0, len(g))
        return g[:i] + r.choice(CONTROL) + g[i:]               # control character inside
    if k == 3:
        return "".join(r.choice(string.printable[:95]) for _ in range(r.randint(1, 30)))
    if k == 4:
        return ("Glc(a1-4)" * r.randint(150, 220)) + "Glx"     # ~2000 characters, invalid tail
    if k == 5:
        return ""
    if k == 6:
        return r.choice(GOOD) + r.choice(["#", "#Man", " #", "##", "}", ")"])
    if k == 7:
        return r.choice(["Unk", "Glc(a1-?)Man", "{Man(a1-4)}Glc", "GlcLeu", "Man(?1-4)Glc", "Glc,Man", "Glc, Man"])
    if k == 8:
        return r.choice(GOOD).replace("(", "[", 1)
    return r.choice(GOOD) + r.choice(GOOD)


def bad_value(r):
    """returns a JSON-encodable tagged value that is not a convertible glycan"""
    k = r.randint(0, 11)
    if k == 0:
        return {"t": "none"}
    if k == 1:
        return {"t": "int", "v": r.randint(-3, 1000)}
    if k == 2:
        return {"t": "float", "v": 1.5}
    if k == 3:
        return {"t": "list", "v": ["Glc"]}
    if k == 4:
        return {"t": "bytes", "v": "Glc"}
    return {"t": "str", "v": bad_string(r)}


def good_value(r):
    return {"t": "str", "v": r.choice(GOOD)}


def mixed_values(r, n, p_bad=0.4):
    return [bad_value(r) if r.random() < p_bad else good_value(r) for _ in range(n)]


def file_line(r):
    """a line as it may stand in a glycan file: surrounding whitespace, control characters inside"""
    base = r.choice(GOOD) if r.random() < 0.6 else bad_string(r).replace("\n", "")
    base = base.replace("\r", "")
    if r.random() < 0.25:
        i = r.randint(0, len(base))
        base = base[:i] + r.choice(["\x0b", "\x0c", "\x1c", "\x1d", "\x1e", "\x85", " ", " ", "\t"]) + base[i:]
    pre = r.choice(["", "", "", " ", "\t", "  "])
    post = r.choice(["", "", "", " ", "\t", " \t"])
    return pre + base + post


import os as _os
import sys as _sys
import common as C       # noqa: E402
os = _os
sys = _sys


def grammar_sentences(r, n, prefer=None):
    """random sentences of rule 'deriv' (a residue with any of the modification forms of the grammar), drawn from the
    grammar file itself, alone and inside a small glycan"""
    sys.path.insert(0, os.path.join(C.VERIF, "tools", "translate"))
    import gen_grammar
    _, rules, implicit, table = gen_grammar._parse(C.REPO)
    rules = dict(rules)
    lits = {nm: ls for nm, kind, ls in table if kind == "lits"}

    def tok(name):
        if prefer and name in prefer:
            return r.choice(prefer[name])
        if name == "NUM":
            return r.choice(["1", "2", "3", "4", "5", "6", "7", "8", "9", "12", "15", "16", "18", "20"])
        ls = lits.get(name, [])
        if not ls:
            return ""
        # favour the short and the rare
        return r.choice(ls)

    def expand(e, depth):
        k = e[0]
        if k == "lit":
            return e[1]
        if k == "ref":
            if e[1][0].isupper():
                return tok(e[1])
            return expand(rules[e[1]], depth + 1) if depth < 8 else ""
        if k == "eps":
            return ""
        if k == "seq":
            return "".join(expand(x, depth) for x in e[1])
        if k == "alt":
            return expand(r.choice(e[1]), depth)
        if k == "opt":
            return expand(e[1], depth) if r.random() < 0.5 else ""
        if k == "star":
            return "".join(expand(e[1], depth) for _ in range(r.choice([0, 0, 1] if prefer else [0, 0, 1, 1, 2])))
        if k == "plus":
            return "".join(expand(e[1], depth) for _ in range(1 if prefer else r.choice([1, 1, 2])))
        return ""

    out = []
    for _ in range(n):
        d = expand(rules["deriv"], 0)
        if 0 < len(d) < 60:
            out.append(d)
            out.append(r.choice([d + "(a1-4)Glc", "Man(a1-3)" + d, d + "(b1-3)[Fuc(a1-4)]GlcNAc b"]))
    return out




def plausible(drv):
    """token preferences that make random sentences of rule deriv mostly convertible: positions 2-6, groups that have
    chemistry, common sugars"""
    fgs = [x.split("\x1e")[0] for x in drv.call("fgtokens").split("\x1f") if x and x.split("\x1e")[0]]
    lex_ok = [t for t in fgs if drv.call("lex", t).split("\x1e")[0] == "FG"]
    return {"NUM": ["2", "3", "4", "6", "2", "3", "4", "6", "5", "1"], "FG": lex_ok or ["Ac", "S", "Me"],
            "SAC": ["Glc", "Man", "Gal", "Fuc", "Xyl", "Rha", "Ara", "Rib", "Neu", "Kdo", "Fru", "Tal", "All", "Qui", "Ido", "Gul", "Alt", "Lyx"],
            "COUNT": ["Hep", "Oct"]}
