import importlib
import os
import sys
import traceback

sys.path.insert(0, os.path.dirname(os.path.abspath(__file__)))


def main():
    prop, tier = sys.argv[1], sys.argv[2]
    rest = sys.argv[3:]
    mod = importlib.import_module("checks." + prop.lower())
    if rest and rest[0] == "--replay":
        sys.exit(mod.replay(rest[1]))
    sys.exit(mod.run(tier))


if __name__ == "__main__":
    main()
