"""C08 The monosaccharide library is stereochemically coherent."""
import json
import os
import sys

sys.path.insert(0, os.path.dirname(os.path.dirname(os.path.abspath(__file__))))
import common as C          # noqa: E402

PROP = "C08"
DEPS = ["Gen/Tables.v", "Spec/Smiles.v", "Spec/Chem.v", "Spec/Iso.v", "Model/Library.v"]


def rows(drv):
    out = []
    for rec in drv.call("librows").split("\x1f"):
        t, key, name, cfg, iso, lac, smi = rec.split("\x1e")
        out.append({"table": t, "key": key, "name": name, "config": int(cfg), "isomer": int(iso), "lactole": int(lac), "smiles": smi})
    return out


def api_name(row):
    """how the row is requested through the public API"""
    n = row["name"]
    if row["table"] == "o":
        return None
    ring = "p" if row["table"] == "p" else "f"
    suffix = {0: "", 1: " a", 2: " b"}[row["config"]]
    return n + ring + suffix


def run(tier):
    res = C.build()
    report = C.Report(PROP, tier)
    ob, dis, names, broken = C.proof_gate(report, res, PROP, DEPS)
    if not os.path.exists(C.DRIVER):
        report.fail({"site": "build", "kind": "no-driver"}, {"no_failing_input": True, "what_no_longer_checks": str(res.failed)[:2000]})
        return report.finish("proof", ob, dis, names, trusted=C.TRUSTED)
    drv = C.Driver()
    # 1. the checks of the theorem, evaluated in the extracted code so that a failing row can be named
    issues = [x for x in drv.call("libissues", "full" if (tier == "thorough" or broken) else "fast").split("\x1f") if x]
    table = rows(drv)
    by_key = {(r["table"], r["key"]): r for r in table}
    for it in issues:
        kind, rest = it.split(":", 1)
        parts = rest.split("=")[0].split(":")            # 'p:API=f:API' | 'API:what' | 'A_API'
        bare = parts[1] if parts[0] in ("p", "f", "o") and len(parts) > 1 else parts[0]
        code = bare.split("_")[-1]
        report.fail({"site": "library", "kind": kind, "code": code},
                    {"issue": it, "rows": [r for r in table if r["key"].split("_")[-1] == code],
                     "replay_cmd": f"PYTHONPATH=/repo /venv/bin/python -c \"from glyles import Glycan; print(Glycan('{code.capitalize()}').get_smiles())\""})
    # 2. the API serves the rows that were checked: every key x ring letter x anomer through Glycan(...)
    reqs, meta = [], []
    for r in table:
        n = api_name(r)
        if n is None:
            continue
        reqs.append({"iupac": n})
        meta.append(("row", r, n))
        if r["isomer"] in (0, 1):
            own = "D-" if r["isomer"] == 0 else "L-"
            other = "L-" if r["isomer"] == 0 else "D-"
            reqs.append({"iupac": own + n}); meta.append(("own", r, own + n))
            reqs.append({"iupac": other + n}); meta.append(("other", r, other + n))
        if r["table"] == "p" and r["config"] == 0 and ("o", r["key"] + "-OL") in by_key:
            reqs.append({"iupac": r["name"] + "-ol"}); meta.append(("ol", by_key[("o", r["key"] + "-OL")], r["name"] + "-ol"))
            # the series prefix on the alditol follows the series of the sugar (its ring rows)
            if r["isomer"] in (0, 1):
                own = "D-" if r["isomer"] == 0 else "L-"
                other = "L-" if r["isomer"] == 0 else "D-"
                ro = by_key[("o", r["key"] + "-OL")]
                reqs.append({"iupac": own + r["name"] + "-ol"}); meta.append(("own", ro, own + r["name"] + "-ol"))
                reqs.append({"iupac": other + r["name"] + "-ol"}); meta.append(("other", ro, other + r["name"] + "-ol"))
    outs = C.run_impl_parallel("convert_many", reqs)
    n_api = 0
    for (kind, r, name), o in zip(meta, outs):
        key = f"{kind}:{name}"
        report.case(key, True, {"request": name, "row": r["key"], "kind": kind} if n_api < 6 else None)
        n_api += 1
        code = r["key"].split("_")[-1].split("-")[0]
        if o["exc"] or not o["smiles"]:
            if r["name"] in ("Unk",):
                continue
            report.fail({"site": "api", "kind": "empty", "code": code},
                        {"request": name, "observed": o, "row": r})
            continue
        if kind in ("row", "own", "ol"):
            ok = drv.call("same", r["smiles"], o["smiles"]) == "1"
            what = "is not the molecule of the table row"
        else:
            ok = drv.call("mirror", r["smiles"], o["smiles"]) == "1"
            what = "is not the mirror image of the table row"
        if not ok:
            report.fail({"site": "api", "kind": kind, "code": code},
                        {"request": name, "observed": o["smiles"], "row": r, "problem": f"Glycan('{name}') {what}",
                         "replay_cmd": f"PYTHONPATH=/repo /venv/bin/python -c \"from glyles import Glycan; print(Glycan('{name}').get_smiles())\""})
    # 2b. the alditol served for every code -- whether from a row of its own, an alias or anything else -- is the reduction
    #     of that code's ring entries (Spec/Skeleton.reduce_ring of the row, the former anomeric centre exempt)
    areqs, ameta = [], []
    for r in table:
        if r["table"] in ("p", "f") and r["config"] == 0 and r["name"] not in ("Unk", "Api", "Suc"):
            nm = r["name"] + ("f" if r["table"] == "f" else "") + "-ol"
            areqs.append({"iupac": nm}); ameta.append((r, nm))
    n_ald = 0
    for (r, nm), o in zip(ameta, C.run_impl_parallel("convert_many", areqs)):
        if not o["smiles"]:
            continue                                  # no alditol served for this ring form
        n_ald += 1
        report.case("alditol:" + nm, True)
        v = drv.call("skeleton", "ol", o["smiles"], r["smiles"])
        if v == "0":
            report.fail({"site": "api", "kind": "alditol-not-the-reduction", "code": r["key"]},
                        {"request": nm, "observed": o["smiles"], "ring_row": r,
                         "problem": f"Glycan('{nm}') is not the alditol that the library's own ring entry {r['key']} reduces to"})
    # 3. the anomer-changing API the merger uses on these entries (Monomer.alpha / beta / undefined): from any of the three
    #    forms of a code it gives the a row, the b row and the row without anomer
    import random as _random
    codes = sorted(set(api_name(r_) for r_ in table if r_["config"] == 0 and r_["table"] in ("p", "f") and api_name(r_) and r_["name"] not in ("Unk", "Api")))
    rr = C.rng(PROP + ":api")
    sample = codes if tier == "thorough" else rr.sample(codes, min(len(codes), 30))
    n_api3 = 0
    for rec in C.run_impl_parallel("monomer_api", sample):
        if rec.get("exc") or "api" not in rec:
            continue
        n_api3 += 1
        report.case("monomer-api:" + rec["name"], True)
        d_ = rec["direct"]
        for src, res_ in rec["api"].items():
            for tgt in ("a", "b", "u"):
                if d_[tgt] and res_[tgt] and drv.call("same", d_[tgt], res_[tgt]) != "1":
                    report.fail({"site": "monomer-api", "kind": f"{src}->{tgt}", "code": rec["name"]},
                                {"code": rec["name"], "from_form": src, "asked_for": tgt, "observed": res_[tgt], "expected_the_row": d_[tgt],
                                 "problem": "Monomer.alpha / beta / undefined does not give the library's entry of that anomeric form"})
        if d_["u"] and drv.call("same", d_["u"], rec["chained_b_alpha_undefined"]) != "1":
            report.fail({"site": "monomer-api", "kind": "b->a->u", "code": rec["name"]},
                        {"code": rec["name"], "observed": rec["chained_b_alpha_undefined"], "expected_the_row": d_["u"]})
    drv.close()
    if broken and not report.violations:
        report.fail({"site": "proof", "kind": "obligation-broken"},
                    {"no_failing_input": True, "what_no_longer_checks": broken, "theorems": names,
                     "searched": "all coherence checks evaluated in the extracted code and the complete API sweep: no incoherent row"})
    report.assumptions = ["Spec/Iso.v all_isos is the decision procedure; it lists exactly the constitution isomorphisms (Props/C08 C08_isomorphism_search_is_exact), so a negative answer is a proof of difference",
                          "reference compositions of the sugar classes are hand-written textbook values (Model/Library.v class_formula)"]
    extra = {"rule": "exhaustive: every row of the three tables (theorem) and every key x ring letter x anomer, its own and the opposite D/L prefix, and '-ol' where defined, through Glycan(...) (API sweep); distinct = distinct request strings",
             "exhaustive": True, "rows": len(table), "api_requests": n_api,
             "print_assumptions": res.assumptions.get(f"Props/{PROP}.v", "").strip().splitlines()[-4:]}
    return report.finish("proof", ob, dis, names, trusted=C.TRUSTED, extra=extra)


def replay(path):
    rp = json.load(open(path))
    print(json.dumps(rp, indent=1)[:3000])
    if "request" in rp:
        o = C.run_impl("convert_many", {"items": [{"iupac": rp["request"]}]})["results"][0]
        print("now:", o)
    return 1
