"""C05 Condensation mass balance."""
import json
import os
import sys

sys.path.insert(0, os.path.dirname(os.path.dirname(os.path.abspath(__file__))))
import common as C          # noqa: E402
import gtree as T           # noqa: E402
import chem                 # noqa: E402

PROP = "C05"
DEPS = ["Spec/Smiles.v", "Spec/Chem.v", "Proofs/SmilesFacts.v"]


def vocabulary(drv, r):
    """every code of the library in every ring form, with D/L prefixes, plus modified residues"""
    names = []
    for rec in drv.call("librows").split("\x1f"):
        t, key, name, cfg, iso, lac, smi = rec.split("\x1e")
        if int(cfg) != 0 or t == "o" or name in ("Unk", "Suc"):
            continue
        names.append(name + ("p" if t == "p" else "f"))
    names = sorted(set(names))
    fgs = [x.split("\x1e")[0] for x in drv.call("fgtokens").split("\x1f") if x]
    return names, fgs


def make_trees(r, tier, names, fgs, drv=None):
    trees = []
    n = 70 if tier == "quick" else 700
    for i in range(n):
        size = r.randint(2, 6) if tier == "quick" else r.randint(2, 12)
        if i % 3 == 0:
            trees.append(("core", T.random_tree(r, size)))
        elif i % 3 == 1:
            # complete vocabulary: positions are guesses, the balance is only evaluated when a molecule comes back
            pool = []
            for _ in range(6):
                nm = r.choice(names)
                if r.random() < 0.3:
                    nm = r.choice(["D-", "L-"]) + nm
                if r.random() < 0.4:
                    base = nm[:-1] if nm[-1] in "pf" else nm
                    nm = base + str(r.randint(2, 6)) + r.choice(fgs) + (nm[-1] if nm[-1] in "pf" else "")
                pool.append(nm)
            for nm in pool:
                if nm not in T.RES:
                    T.RES[nm] = (2 if any(k in nm for k in ("Neu", "Kd", "Fru", "Sor", "Tag", "Psi", "Leg", "Pse", "Aci", "Dha", "Ko")) else 1,
                                 (2, 3, 4, 6), (), "lib")
            trees.append(("library", T.random_tree(r, size, names=pool)))
        else:
            trees.append(("rootform", T.random_tree(r, size, root_names=list(T.ROOT_ONLY))))
    # every code of the library in every ring form once as a linked child (both anomers over the run) and once as a parent
    sweep = names if tier == "thorough" else r.sample(names, min(len(names), 60))
    for nm in sweep:
        T.RES.setdefault(nm, (2 if any(k in nm for k in ("Neu", "Kd", "Fru", "Sor", "Tag", "Psi", "Leg", "Pse", "Aci", "Dha", "Ko", "Sia", "Rul", "Xlu", "Xul")) else 1, (2, 3, 4, 6), (), "lib"))
        c1 = T.RES[nm][0]
        trees.append(("sweep", T.Node("Glc", [(r.choice("ab"), c1, 4, T.Node(nm))])))
        trees.append(("sweep", T.Node(nm, [("b", 1, r.choice([3, 4]), T.Node("Gal"))])))
    # residues drawn from the grammar itself (any modification form), as child and as parent
    import gen as _G
    for d in [x for x in _G.grammar_sentences(r, 60 if tier == "quick" else 600, prefer=_G.plausible(drv))[::2] if "(" not in x and " " not in x]:
        c1 = 2 if any(k in d for k in ("Neu", "Kd", "Fru", "Sor", "Tag", "Psi", "Leg", "Pse", "Aci", "Dha", "Ko", "Sia", "Rul", "Xlu", "Xul")) else 1
        T.RES.setdefault(d, (c1, (2, 3, 4, 6), (), "grammar"))
        trees.append(("grammar", T.Node("Glc", [(r.choice("ab"), c1, r.choice([3, 4, 6]), T.Node(d))])))
        trees.append(("grammar", T.Node(d, [("b", 1, r.choice([3, 4]), T.Node("Gal"))])))
    # size-extended residues (root sugar + Pen/Hex/Hep/Oct, optional DD/LD/... and deoxy prefixes) in every place of a tree
    resized = [pre + b + sz + suf for b in ("Man", "Glc", "Gal", "Alt", "Ara", "Xyl", "Lyx", "Gul", "Tal", "Ido")
               for sz in ("Hex", "Hep", "Oct") for pre in ("", "LD", "DD", "DL", "LL", "6d", "4d", "D-", "L-", "3d") for suf in ("", "7P", "f")
               if not (sz == "Hex" and b not in ("Ara", "Xyl", "Lyx"))]
    pick = resized if tier == "thorough" else r.sample(resized, 40)
    for nm in pick:
        T.RES[nm] = (1, (2, 3, 4), (), "resized")
        an = r.choice("ab")
        trees.append(("resized", T.Node("Glc", [(an, 1, r.choice([2, 3, 4, 6]), T.Node(nm))])))
        trees.append(("resized", T.Node(nm, [(an, 1, r.choice([2, 3, 4]), T.Node("Gal"))])))
        trees.append(("resized", T.Node("Kdo", [("a", 1, 5, T.Node(nm, [(r.choice("ab"), 1, 3, T.Node(r.choice(pick[:8])))]))])))
    # residues whose modifications are all written in front of the sugar code (deoxy, anhydro, D-/L- heads, epimers),
    # as linked child under both anomers and as inner residue
    prefixed = [f"{d}d{b}" for b in ("Glc", "Gal", "Man", "Tal", "Alt", "Gul", "All", "Ido") for d in (2, 3, 4, 6)] \
        + [f"{pre}{b}" for b in ("Glc", "Gal", "Man", "Fuc", "Rha", "Ara", "Xyl", "Ido") for pre in ("D-", "L-")] \
        + ["3,6-Anhydro-Gal", "3,6-Anhydro-Glc", "3,6-Anhydro-L-Gal", "4eLeg", "8eLeg", "2,6dGlc", "3,6dMan", "L-6dGal", "D-6dAlt", "2dRib", "6dGlcN", "6dTalNAc"]
    pickp = prefixed if tier == "thorough" else r.sample(prefixed, 16)
    for nm in pickp:
        c1 = 2 if "Leg" in nm else 1
        free = [p_ for p_ in (2, 3, 4) if str(p_) not in nm.split("-")[0] and f"{p_}d" not in nm and f",{p_}d" not in nm]
        T.RES.setdefault(nm, (c1, tuple(free) or (4,), (), "prefixed"))
        for an in "ab":
            trees.append(("prefixed", T.Node("Glc", [(an, c1, r.choice([3, 4, 6]), T.Node(nm))])))
        if free:
            trees.append(("prefixed", T.Node("Gal", [("b", c1, 3, T.Node(nm, [(r.choice("ab"), 1, free[0], T.Node(r.choice(["Man", "Fuc", "Xyl"])))]))])))
    # trehalose-type 1-1 linkages (the child sits on the reducing end's anomeric oxygen), as main chain and in brackets, next
    # to one or two ordinary branches
    for _ in range(4 if tier == "quick" else 30):
        root = r.choice(["Glc", "Gal", "Man", "Glc6S", "GlcNAc"])
        T.RES.setdefault("Glc6S", (1, (2, 3, 4), (), "hexp-mod"))
        one = (r.choice("ab"), 1, 1, T.Node(r.choice(["Glc", "Gal", "Man"]), [("a", 1, 2, T.Node("Man"))] if r.random() < 0.4 else []))
        others = [(r.choice("ab"), 1, p_, T.Node(r.choice(["Gal", "Fuc", "Xyl"]))) for p_ in r.sample([3, 4] if root == "GlcNAc" else [2, 3, 4], r.choice([1, 2]))]
        trees.append(("one-one", T.Node(root, [one] + others)))
        trees.append(("one-one", T.Node(root, others + [one])))
    # two residues bound through the two free hydroxyls of one phosphate
    for _ in range(3 if tier == "quick" else 20):
        par, pp = r.choice([("Glc6P", 6), ("Man6P", 6), ("GlcNAc6P", 6), ("Gal6P", 6)])
        T.RES.setdefault(par, (1, (2, 3, 4, 6), (), "phospho"))
        a_, b_ = r.sample(["Man", "Gal", "Glc", "Fuc", "Xyl"], 2)
        node = T.Node(par, [(r.choice("ab"), 1, pp, T.Node(a_)), (r.choice("ab"), 1, pp, T.Node(b_))])
        trees.append(("phospho-bridge", node if r.random() < 0.5 else T.Node("Glc", [("b", 1, 4, node)])))
    # four substituents on a root and on an inner residue
    four = T.Node("Man", [("a", 1, 2, T.Node("Gal")), ("a", 1, 3, T.Node("Fuc")), ("b", 1, 4, T.Node("Xyl")), ("b", 1, 6, T.Node("GlcNAc"))])
    trees.append(("four", four))
    trees.append(("four", T.Node("Glc", [("b", 1, 4, four)])))
    # N-glycosidic linkages explicitly
    for parent, pos in (("GlcN", 2), ("GalN", 2), ("Neu", 5), ("Glc6N", 6), ("GlcN", 2)):
        T.RES.setdefault("Neu", (2, (4, 7, 8, 9), (5,), "sia"))
        T.RES.setdefault("Glc6N", (1, (2, 3, 4), (6,), "hexn"))
        child = T.Node(r.choice(["Man", "Gal", "Fuc", "GlcNAc"]))
        root = T.Node(parent, [(r.choice("ab"), 1, pos, child)])
        trees.append(("nlink", root))
        root2 = T.Node("Glc", [("b", 1, 4, T.Node(parent, [(r.choice("ab"), 1, pos, T.Node("Xyl"))]))])
        trees.append(("nlink", root2))
    return trees


def run(tier):
    res = C.build()
    report = C.Report(PROP, tier)
    ob, dis, names_thm, broken = C.proof_gate(report, res, PROP, DEPS)
    orc = chem.Oracle()
    r = C.rng(PROP)
    names, fgs = vocabulary(orc.drv, r)
    trees = make_trees(r, tier, names, fgs, orc.drv)
    texts = [T.render(t) for _, t in trees]
    residues = sorted(set(n for _, t in trees for n in t.residues()))
    outs = chem.convert_all(texts + residues)
    single = {n: o["smiles"] for n, o in zip(residues, outs[len(texts):])}
    skipped = 0
    kinds = {}
    for (kind, t), txt, o in zip(trees, texts, outs):
        s = o["smiles"]
        if not s:
            skipped += 1
            report.case("empty:" + txt, False)
            continue
        if any(not single.get(n) for n in t.residues()):
            skipped += 1
            report.case("noref:" + txt, False)
            continue
        kinds[kind] = kinds.get(kind, 0) + 1
        report.case(txt, True, {"glycan": txt, "kind": kind, "residues": t.size()} if kinds[kind] <= 2 else None)
        d = orc.describe(s)
        if d is None:
            report.fail({"site": "merge", "kind": "unparsable"}, {"glycan": txt, "observed": s})
            continue
        exp = chem.parse_formula("")
        rings = 0
        for n in t.residues():
            dd = orc.describe(single[n])
            exp += chem.parse_formula(dd["formula"])
            rings += dd["rings"]
        k = t.size() - 1
        exp["H"] -= 2 * k
        exp["O"] -= k
        got = chem.parse_formula(d["formula"])
        if +got != +exp or d["rings"] != rings:
            diff = {e: got.get(e, 0) - exp.get(e, 0) for e in set(got) | set(exp) if got.get(e, 0) != exp.get(e, 0)}
            nlink = any(info_n(t))
            report.fail({"site": "merge", "kind": "balance", "diff": json.dumps(diff, sort_keys=True) + f";rings{d['rings'] - rings:+d}",
                         "linkage": "N" if nlink else "O"},
                        {"glycan": txt, "observed": s, "observed_formula": d["formula"], "expected_formula": chem.fmt_formula(exp),
                         "residues": {n: single[n] for n in t.residues()}, "rings": [d["rings"], rings],
                         "replay_cmd": f"./check C05 --replay <this file>"})
    orc.close()
    if broken and not report.violations:
        report.fail({"site": "proof", "kind": "obligation-broken"},
                    {"no_failing_input": True, "what_no_longer_checks": broken, "theorems": names_thm})
    report.assumptions = ["the per-residue reference is the library's own conversion of the residue alone (as the property states)",
                          "formula and ring count are the Coq functions Chem.formula / Chem.n_rings of the Coq reading (Smiles.sem) of the returned strings; validated against RDKit per instance by the O1 check of C02"]
    extra = {"rule": "trees of 2-6 (quick) / 2-12 (thorough) residues over (a) the core vocabulary with free positions, (b) the complete library x ring form x D/L x random modification tokens, (c) alditol / anhydro roots, (d) N-glycosidic parents, (e) size-extended residues (LDManHep, 6dAltHep, AraHexf, ...7P) as child, parent and inner residue, (f) four substituents, (h) trehalose-type 1-1 linkages on a branched reducing end, (g) residues with prefix-only modifications (deoxy, anhydro, D-/L-, epimers) as child under a and b and as inner residue; evaluated only when glycan and every residue convert; distinct = distinct glycan strings",
             "skipped_no_molecule": skipped, "by_kind": kinds,
             "print_assumptions": res.assumptions.get(f"Props/{PROP}.v", "").strip().splitlines()[-4:]}
    return report.finish("proof", ob, dis, names_thm, trusted=C.TRUSTED, extra=extra)


def info_n(t):
    for an, c, p, kid in t.kids:
        nm = t.name
        inf = T.RES.get(nm) or T.ROOT_ONLY.get(nm)
        yield bool(inf and p in inf[2])
        yield from info_n(kid)


def replay(path):
    rp = json.load(open(path))
    o = chem.convert_all([rp["glycan"]])[0]
    print(json.dumps({"glycan": rp["glycan"], "now": o, "expected_formula": rp.get("expected_formula")}, indent=1))
    orc = chem.Oracle()
    d = orc.describe(o["smiles"]) if o["smiles"] else None
    ok = d is not None and +chem.parse_formula(d["formula"]) == +chem.parse_formula(rp["expected_formula"])
    print("property holds on this input" if ok else "property FAILS on this input")
    return 0 if ok else 1
