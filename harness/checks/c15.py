"""C15 What is accepted is exactly the published grammar."""
import itertools
import json
import os
import sys

sys.path.insert(0, os.path.dirname(os.path.dirname(os.path.abspath(__file__))))
import common as C          # noqa: E402
import gen as G             # noqa: E402
import gtree as T           # noqa: E402

PROP = "C15"
DEPS = ["Spec/Ebnf.v", "Proofs/Recog.v", "Model/Memo.v", "Proofs/RecogMemo.v", "Gen/Grammar.v", "Gen/Atn.v", "Proofs/GrammarEq.v"]

# one or two representatives per token class that the grammar distinguishes
ALPHABET = ["Glc", "Hex", "C", "N", "O", "P", "Ac", "A", "I", "Anhydro", "0d", "D", "ol", "a", "p", "1", "2", ",", "-", "(", ")", "[", "]",
            "{", "}", "ai", "c", "d", "e", "t", "=", "i", "?", " ", "#", "Suc", "uronic", "S", "f", "b", "L", "3oxoMyr", "12", "Kdo"]
SMALL = ["Glc", "Hex", "N", "C", "Ac", "a", "1", "4", "-", "(", ")", "[", "]", "?", " ", "p", "d", "ol", "Anhydro", ","]


def mutants(r, s, k):
    out = []
    toks = ALPHABET
    for _ in range(k):
        i = r.randint(0, len(s))
        c = r.randint(0, 4)
        if c == 0 and s:
            i = min(i, len(s) - 1)
            out.append(s[:i] + s[i + 1:])
        elif c == 1:
            out.append(s[:i] + r.choice(toks) + s[i:])
        elif c == 2 and s:
            i = min(i, len(s) - 1)
            out.append(s[:i] + r.choice(toks) + s[i + 1:])
        elif c == 3 and len(s) >= 2:
            i = min(i, len(s) - 2)
            out.append(s[:i] + s[i + 1] + s[i] + s[i + 2:])
        else:
            out.append(s[:i] + r.choice("#$%&!~@^*_+<>/\\|;:.xyzQWZ") + s[i:])
    # white space and control characters outside the grammar's alphabet, at the ends and inside
    for _ in range(max(1, k // 2)):
        w = r.choice(["\n", "\r", "\t", "\x0b", "\x0c", "\xa0", "\x00", "\x1f", "\x7f", "\r\n", "  ", "\x85"])
        i = r.choice([0, len(s), r.randint(0, len(s))])
        out.append(s[:i] + w + s[i:])
    # digits: a digit put before / after / in place of a written number (leading zeros, two-digit positions, bare 0)
    import re as _re
    nums = [m.start() for m in _re.finditer(r"\d", s)]
    for _ in range(max(1, k // 2)):
        if nums:
            i = r.choice(nums)
            d = r.choice("0012345678990")
            out.append(r.choice([s[:i] + d + s[i:], s[:i + 1] + d + s[i + 1:], s[:i] + d + s[i + 1:]]))
    return out


def corpus(limit, r):
    base = os.path.join(C.REPO, "tests", "data")
    names = []
    for f in ("general.tsv", "anhydro.tsv", "carbons.tsv", "openforms.tsv", "glycam.tsv", "pubchem_mono.tsv", "pubchem_poly.tsv", "glycowork.txt"):
        p = os.path.join(base, f)
        if not os.path.exists(p):
            continue
        for line in open(p, errors="replace"):
            x = line.rstrip("\n").split("\t")[0]
            if x and len(x) < 400:
                names.append(x)
    names = sorted(set(names))
    r.shuffle(names)
    return names[:limit]


from gen import grammar_sentences      # noqa: E402


def make_inputs(r, tier):
    items = []
    n = 2 if tier == "quick" else 3
    for k in range(1, n + 1):
        for seq in itertools.product(SMALL if k == n and tier == "thorough" else (SMALL if k >= 3 else ALPHABET), repeat=k):
            items.append(("exhaustive", "".join(seq)))
    if tier == "quick":
        for _ in range(1500):
            items.append(("random-seq", "".join(r.choice(ALPHABET) for _ in range(r.randint(3, 7)))))
    else:
        for _ in range(12000):
            items.append(("random-seq", "".join(r.choice(ALPHABET) for _ in range(r.randint(3, 9)))))
    valid = []
    for _ in range(150 if tier == "quick" else 1500):
        t = T.random_tree(r, r.randint(1, 8), p_branch=0.5)
        s = T.render(t, r.choice(["full", "nopar", "short"])) + r.choice(["", "", " a", " b"])
        valid.append(s)
        items.append(("valid", s))
    for s in valid:
        for m in mutants(r, s, 4 if tier == "quick" else 8):
            items.append(("mutant", m))
    # residues drawn from the grammar itself (every modification form, rare tokens) and their single edits
    for gsent in grammar_sentences(r, 120 if tier == "quick" else 1500):
        items.append(("grammar-sentence", gsent))
        for m in mutants(r, gsent, 3):
            items.append(("grammar-mutant", m))
        if len(gsent) > 2:
            i = r.randint(0, len(gsent) - 1)
            items.append(("grammar-mutant", gsent[:i] + gsent[i + 1:]))
    # truncations: every prefix and every suffix of some valid glycans, random cut points of the others
    for i, s in enumerate(valid):
        cuts = range(1, len(s)) if i < (6 if tier == "quick" else 60) else r.sample(range(1, max(2, len(s))), min(3, max(1, len(s) - 1)))
        for c in cuts:
            items.append(("truncation", s[:c]))
            items.append(("truncation", s[c:]))
    # depth and length: nested brackets, long chains, large random trees, and mutants of them
    deep = []
    for k in ([5, 9, 14] if tier == "quick" else [5, 7, 9, 12, 16, 24, 40]):
        deep.append("Man(a1-2)[" * k + "Glc" + "(a1-3)]Gal" * k)
        deep.append("Man(a1-2)[" * k + "Glc" + "(a1-3)]Gal" * (k - 1))            # one bracket left open
        deep.append("Man(a1-4)" * (3 * k) + "Glc")
        deep.append("[" * k + "Man(a1-2)" + "]" * k + "Glc")
    for _ in range(6 if tier == "quick" else 60):
        t = T.random_tree(r, r.randint(15, 40), p_branch=0.5)
        deep.append(T.render(t, r.choice(["full", "nopar", "short"])))
    # width: one to seven bracketed side branches on one residue, in three contexts (followed by more chain, directly in
    # front of the root, inside a bracket)
    for k in range(1, 8):
        side = "".join(f"[{r.choice(['Gal', 'Fuc', 'Man', 'Glc'])}({r.choice('ab')}1-{p_})]" for p_ in range(2, 2 + k))
        deep.append(f"Man(a1-2){side}Glc(b1-4)Glc")
        deep.append(f"Man(a1-2){side}Glc")
        deep.append(f"Xyl(b1-2)[Man(a1-3){side}Man(a1-6)]Man(b1-4)GlcNAc")
    for s in deep:
        items.append(("deep", s))
        for m in mutants(r, s, 2):
            items.append(("deep-mutant", m))
    for s in corpus(1200 if tier == "quick" else 20000, r):
        items.append(("corpus", s))
    for s in ["Man(a1-04)Glc", "Man(a01-4)Glc", "Gal06S", "Man(a1-0)Glc", "Glc0", "0Glc", "Glc00d", "Gal6S0", "Glc10S", "Man(a10-4)Glc", "Neu5Ac(a2-03)Gal", "0dGlc", "00dGlc", "Glc0d",
              "NHex", "OPen", "Man(a1-4)NHex", "HexNHex", "PHep", "Glc#Man", "Glc##", "Glc# Man", "Glc#", "#", "", "##", " ", "Glc ", "Glc  a", "{Man(a1-4)}Glc", "{Man(a1-4)}{Gal(b1-3)}Glc"]:
        items.append(("special", s))
    seen, out = set(), []
    for k, s in items:
        if s not in seen:
            seen.add(s)
            out.append((k, s))
    return out


def run(tier):
    res = C.build()
    report = C.Report(PROP, tier)
    ob, dis, names_thm, broken = C.proof_gate(report, res, PROP, DEPS)
    r = C.rng(PROP)
    items = make_inputs(r, tier)
    drv = C.Driver()
    outs = C.run_impl_parallel("accept", [s for _, s in items], extra={"convert": True})
    kinds, agree_acc, agree_rej, fuel = {}, 0, 0, 0
    skipped_long = [0]
    for (kind, s), o in zip(items, outs):
        kinds[kind] = kinds.get(kind, 0) + 1
        # the memoising recogniser (Model/Memo.v) is polynomial: only extreme lengths are left out (counted)
        if len(s) > 3000:
            skipped_long[0] += 1
            continue
        mv = drv.call("accepts", s)
        if mv == "FUEL":
            fuel += 1
            continue
        model = mv == "1"
        report.case(s, model, {"input": s, "kind": kind, "accepted": model} if kinds[kind] <= 2 else None)
        if o["accepted"] is None:
            report.fail({"site": "parser", "kind": "raised", "exc": o.get("exc", "").split(":")[0]}, {"input": s, "exc": o.get("exc")})
            continue
        if o["accepted"] != model:
            toks = drv.call("lex", "#" + s + "#")
            report.fail({"site": "parser", "kind": "accepts-underivable" if o["accepted"] else "rejects-derivable"},
                        {"input": s, "input_kind": kind, "library_accepts": o["accepted"], "grammar_derives": model,
                         "tokens": toks.replace("\x1f", " ").replace("\x1e", ":"),
                         "problem": "the library and the grammar file disagree on this string",
                         "replay_cmd": "./check C15 --replay <this file>"})
            continue
        if model:
            agree_acc += 1
        else:
            agree_rej += 1
            if o.get("converted") not in ("", None):
                report.fail({"site": "convert", "kind": "rejected-but-converted"}, {"input": s, "converted": o.get("converted")})
    drv.close()
    if broken and not report.violations:
        report.fail({"site": "proof", "kind": "obligation-broken"},
                    {"no_failing_input": True, "what_no_longer_checks": broken, "theorems": names_thm})
    report.assumptions = ["A-antlr: the ANTLR runtime and the generated tables (GlycanLexer.py / GlycanParser.py) are compared with the grammar file through the library's accept/reject answer only; the ALL(*) interpreter itself is foreign code",
                          "tokenisation by longest match with declaration-order priority is a definition (Spec/Ebnf.v lex), implicit literal tokens of parser rules first, as ANTLR numbers them"]
    extra = {"rule": "all sequences of up to 2 (quick) / 3 (thorough) tokens over a reduced alphabet, random sequences of 3-9 tokens, random valid glycans in three notations and their single-edit mutants and truncations (prefixes / suffixes), random sentences of rule 'deriv' drawn from the grammar file with their single edits, nested brackets of depth 5-40, chains of up to 120 residues, trees of 15-40 residues and their mutants (verified recogniser with memo table), the reference corpora under tests/data (as inputs only); non-trivial = derivable from the grammar",
             "by_kind": kinds, "agree_accepted": agree_acc, "agree_rejected": agree_rej, "recogniser_out_of_fuel": fuel, "skipped_too_long_for_recogniser": skipped_long[0],
             "print_assumptions": res.assumptions.get(f"Props/{PROP}.v", "").strip().splitlines()[-3:]}
    return report.finish("proof", ob, dis, names_thm, trusted=C.TRUSTED, extra=extra)


def replay(path):
    rp = json.load(open(path))
    o = C.run_impl("accept", {"items": [rp["input"]], "convert": True})["results"][0]
    drv = C.Driver()
    mv = drv.call("accepts", rp["input"])
    print(json.dumps({"input": rp["input"], "library": o, "grammar_derives": mv}, indent=1))
    ok = o["accepted"] == (mv == "1")
    print("property holds on this input" if ok else "property FAILS on this input")
    return 0 if ok else 1
