"""C04 A modification adds its named group at its named carbon, and only that."""
import itertools
import json
import os
import re
import sys

sys.path.insert(0, os.path.dirname(os.path.dirname(os.path.abspath(__file__))))
import common as C          # noqa: E402
import chem                 # noqa: E402

PROP = "C04"
DEPS = ["Spec/Smiles.v", "Spec/Iso.v", "Spec/Graft.v", "Spec/Modify.v", "Spec/Acyl.v", "Model/PolyCarbon.v", "Proofs/AcylThm.v", "Proofs/PolyCarbonThm.v", "Gen/Tables.v", "Gen/Grammar.v"]

# sugars with the positions that bear a free hydroxyl (or amine)
SUGARS = {"Glc": [2, 3, 4, 6], "Gal": [2, 3, 4, 6], "Man": [2, 3, 4, 6], "Fuc": [2, 3, 4], "Rha": [2, 3, 4], "Xyl": [2, 3, 4], "Ara": [2, 3, 4],
          "GlcNAc": [3, 4, 6], "GalNAc": [3, 4, 6], "Neu5Ac": [4, 7, 8, 9], "Kdo": [4, 5, 7, 8], "Galf": [2, 3, 5, 6], "Araf": [2, 3, 5],
          "Fruf": [1, 3, 4, 6], "Tal": [2, 3, 4, 6], "Qui": [2, 3, 4], "Rib": [2, 3, 4], "Ido": [2, 3, 4, 6], "Glcf": [2, 3, 5, 6]}


def group_tokens(drv):
    """functional groups that are one FG token of the grammar"""
    fgs = dict(x.split("\x1e") for x in drv.call("fgtokens").split("\x1f") if x and x.split("\x1e")[0])
    out = {}
    for tok, frag in fgs.items():
        if tok in ("Pen", "Hex", "Hep", "Oct", "Suc"):
            continue
        lx = drv.call("lex", tok)
        if lx != "NOLEX" and len(lx.split("\x1f")) == 1 and lx.split("\x1e")[0] in ("FG", "NITROGEN", "PHOSPHOR"):
            out[tok] = frag
    return out


def written_as_intended(drv, sugar, mods):
    """the concatenation must tokenise into exactly the intended pieces (e.g. '4N' + '3Bz' would read as N3 + Bz)"""
    text = sugar + "".join(f"{p}{t}" for p, t in mods)
    lx = drv.call("lex", text)
    if lx == "NOLEX":
        return False
    got = [C.Driver.unesc(x.split("\x1e")[1]) for x in lx.split("\x1f")]
    want = []
    for p, t in mods:
        want += [str(p), t]
    return got[-len(want):] == want if want else True


def run(tier):
    res = C.build()
    report = C.Report(PROP, tier)
    ob, dis, names_thm, broken = C.proof_gate(report, res, PROP, DEPS)
    orc = chem.Oracle()
    toks = group_tokens(orc.drv)
    r = C.rng(PROP)
    singles = []
    sugars = list(SUGARS)
    if tier == "quick":
        s0 = r.choice(["Glc", "Gal", "Man"])
        for tok in toks:
            singles.append((s0, r.choice(SUGARS[s0]), tok))
        some = r.sample(sorted(toks), 10) + ["S", "P", "Ac", "Me", "F", "N", "Bz", "Pam"]
        for s in sugars:
            for tok in some:
                if tok in toks:
                    singles.append((s, r.choice(SUGARS[s]), tok))
    else:
        for s in sugars:
            for p in SUGARS[s]:
                for tok in toks:
                    singles.append((s, p, tok))
    # written D-/L- series (own and opposite) with groups that have stereocentres of their own
    chiral = [t for t in ("Ala", "Asp", "Cys", "Glu", "Lys", "Orn", "Mal", "Thr", "Ser") if t in toks]
    for pre_s, base_s in (("L-Glc", "Glc"), ("D-Fuc", "Fuc"), ("L-Gal", "Gal"), ("D-Rha", "Rha"), ("L-Man", "Man"), ("D-Glc", "Glc"), ("L-Fuc", "Fuc"), ("D-Ara", "Ara")):
        SUGARS.setdefault(pre_s, SUGARS[base_s])
        for tok in (chiral if tier == "thorough" else r.sample(chiral, 2)) + ["Ac", "S"]:
            singles.append((pre_s, r.choice(SUGARS[base_s]), tok))
    singles = sorted(set(x for x in singles if written_as_intended(orc.drv, x[0], [(x[1], x[2])])))
    # the amine of an amino sugar written as <Sugar>N: a second token at that position meets the amine
    stacking = [("Glc", 2, t) for t in ("Ac", "S", "Me", "Bz", "Pam", "Gc") if t in toks]
    # sets of two to four modifications at different positions, in every order of writing
    multis = []
    for _ in range(14 if tier == "quick" else 150):
        s = r.choice([x for x in sugars if len(SUGARS[x]) >= 3])
        k = r.randint(2, min(4, len(SUGARS[s])))
        ps = r.sample(SUGARS[s], k)
        ms = [(p, r.choice(["S", "P", "Ac", "Me", "F", "Bz", "Pam", "Cl", "Bn", "Lac", "Ala", "N", "Gc", "Br", "Pyr", "TBS", "Ts", "Ole", "THP", "Fmoc", "NAP", "N3", "I", "Tr", "MOM", "Boc"])) for p in ps]
        multis.append((s, ms))
    # every group once as the lower-numbered of two modifications (and once as the higher-numbered one), with a plain
    # partner at the other end of the residue: what one group does to the residue must not disturb the other
    for tok in (sorted(toks) if tier == "thorough" else r.sample(sorted(toks), 24) + [t for t in ("THP", "Fmoc", "NAP", "N", "F", "N3") if t in toks]):
        s = r.choice(["Glc", "Gal", "Man", "Fruf", "Neu5Ac", "Kdo", "Galf", "GlcNAc"])
        lo_, hi_ = min(SUGARS[s]), max(SUGARS[s])
        partner = r.choice(["Ac", "S", "P", "Me"])
        multis.append((s, [(lo_, tok), (hi_, partner)]))
        multis.append((s, [(lo_, partner), (hi_, tok)]))
    names = set(SUGARS)
    for s, p, tok in singles:
        names.add(f"{s}{p}{tok}")
    multi_texts = {}
    for s, ms in multis:
        perms = [pm for pm in itertools.permutations(ms) if written_as_intended(orc.drv, s, list(pm))]
        if not perms:
            continue
        if len(perms) > 8:
            perms = r.sample(perms, 8)
        ws = [s + "".join(f"{p}{t}" for p, t in perm) for perm in perms]
        multi_texts[(s, tuple(ms))] = ws
        names.update(ws)
    for sg, p, t in stacking:
        names.add(f"{sg}N{p}{t}")
        names.add(f"{sg}N")
    names = sorted(names)
    outs = dict(zip(names, chem.convert_all(names)))
    stats = {"single_ok": 0, "nospec": 0, "multi_ok": 0}
    for s, p, tok in singles:
        nm = f"{s}{p}{tok}"
        o, b = outs[nm]["smiles"], outs[s]["smiles"]
        report.case(nm, True, {"input": nm, "group": toks[tok]} if stats["single_ok"] < 5 else None)
        kind = "replace" if toks[tok][0] in "NFIB" or toks[tok].startswith("Cl") else "share-O" if toks[tok][0] == "O" else "carry"
        if not o:
            report.fail({"site": "reactor", "kind": "empty", "token": tok}, {"input": nm, "exc": outs[nm]["exc"], "group": toks[tok]})
            continue
        v = orc.drv.call("modcheck", o, b, str(p), toks[tok])
        if v == "1":
            stats["single_ok"] += 1
        elif v == "NOSPEC":
            stats["nospec"] += 1
        else:
            report.fail({"site": "reactor", "kind": "wrong-molecule", "token": tok, "attachment": kind,
                         "on": "N" if (s in ("GlcN",) and p == 2) else "O"},
                        {"input": nm, "observed": o, "unmodified": b, "group": toks[tok], "position": p,
                         "problem": "the result is not the unmodified sugar whose position carries (or has been replaced by) the group",
                         "replay_cmd": "./check C04 --replay <this file>"})
    # the same single modifications in processes that have first converted inputs which postpone or fail (groups for
    # positions that do not exist, group-on-group notation, resized open forms): the same molecules come back
    again = r.sample(singles, min(len(singles), 60 if tier == "quick" else 600))
    anames = sorted(set(f"{s}{p}{tok}" for s, p, tok in again) | {"Neu5Ac", "Kdo8P", "Glc3Me", "LDManHep6P", "Neu", "Glc"})
    aouts = dict(zip(anames, C.run_impl_parallel("convert_many", [{"iupac": n_, "kw": {}} for n_ in anames], extra={"prelude": True})))
    base_extra = dict(zip(["Neu5Ac", "Kdo8P", "Glc3Me", "LDManHep6P", "Neu", "Glc"], chem.convert_all(["Neu5Ac", "Kdo8P", "Glc3Me", "LDManHep6P", "Neu", "Glc"])))
    stats["after_failed_calls"] = 0
    for n_ in anames:
        first = (outs.get(n_) or base_extra.get(n_) or {}).get("smiles")
        second = aouts[n_]["smiles"]
        stats["after_failed_calls"] += 1
        report.case("after-failed-calls:" + n_, True)
        if bool(first) != bool(second) or (first and not orc.same(first, second)):
            report.fail({"site": "reactor", "kind": "depends-on-earlier-conversions"},
                        {"input": n_, "in_a_fresh_process": first, "after_postponing_and_failing_inputs": second,
                         "problem": "the molecule returned for a modified residue depends on what the process converted before"})
    for sg, p, t in stacking:
        nm = f"{sg}N{p}{t}"
        o, b = outs[nm]["smiles"], outs[f"{sg}N"]["smiles"]
        report.case(nm, True)
        v = orc.drv.call("modcheck", o, b, str(p), toks[t]) if o and b else "0"
        if v != "1":
            report.fail({"site": "reactor", "kind": "same-position-stacking"},
                        {"input": nm, "observed": o, "amino_sugar": b, "group": toks[t],
                         "problem": "a group written for the position that already carries the amine of an amino sugar is not carried by that nitrogen"})
    for (s, ms), ws in multi_texts.items():
        b = outs[s]["smiles"]
        args = []
        for p, t in ms:
            args += [str(p), toks[t]]
        first = None
        for w in ws:
            o = outs[w]["smiles"]
            report.case(w, True)
            if not o:
                report.fail({"site": "reactor", "kind": "empty-multi", "tokens": "+".join(sorted(t for _, t in ms))}, {"input": w, "exc": outs[w]["exc"]})
                continue
            v = orc.drv.call("modcheck", o, b, *args)
            if v == "0":
                report.fail({"site": "reactor", "kind": "wrong-molecule-multi", "tokens": "+".join(sorted(t for _, t in ms))},
                            {"input": w, "observed": o, "unmodified": b, "modifications": ms,
                             "problem": "modifications at different positions do not compose to the individually specified groups"})
            elif v == "1":
                stats["multi_ok"] += 1
            if first is None:
                first = (w, o)
            elif not orc.same(first[1], o):
                report.fail({"site": "reactor", "kind": "order-dependent", "tokens": "+".join(sorted(t for _, t in ms))},
                            {"first_writing": first[0], "other_writing": w, "results": [first[1], o],
                             "problem": "the result depends on the order in which the modifications are written"})
    # fatty acyl groups in carbon notation  <p>[a][i]C<n>[={[c|t]<q>,...}]: the group is what Spec/Acyl.v says the
    # designation stands for (geometry of the double bonds included)
    acyl_cases = []
    for _ in range(40 if tier == "quick" else 500):
        n_c = r.randint(4, 26)
        iso = r.random() < 0.15 and n_c >= 6
        ante = iso and r.random() < 0.4
        main = n_c - 1 if iso else n_c
        limit = (n_c - (3 if ante else 2)) - 2 if iso else main
        dbs, q = [], r.randint(2, 6)
        while q + 2 <= limit and len(dbs) < 4 and r.random() < 0.75:
            dbs.append(r.choice("ct" * 3 + "p") + str(q))
            q += r.choice([2, 2, 3, 3, 4, 5])
        dbs = [d[1:] if d[0] == "p" else d for d in dbs]
        v = orc.drv.call("acyl", "1" if iso else "0", "1" if ante else "0", str(n_c), *dbs)
        if v == "NOSPEC":
            continue
        tok, frag = v.split("\x1e")
        s_ = r.choice(["Glc", "Gal", "Man", "GlcNAc", "Fuc"])
        p_ = r.choice(SUGARS[s_])
        conj = any(int(b_.lstrip("ct")) - int(a_.lstrip("ct")) == 2 and a_[0] in "ct" and b_[0] in "ct" for a_, b_ in zip(dbs, dbs[1:]))
        acyl_cases.append((f"{s_}{p_}{tok}", s_, p_, tok, frag, conj, n_c < 10))
    ao = dict(zip([c_[0] for c_ in acyl_cases], chem.convert_all([c_[0] for c_ in acyl_cases])))
    bo = dict(zip(sorted(set(c_[1] for c_ in acyl_cases)), chem.convert_all(sorted(set(c_[1] for c_ in acyl_cases)))))
    stats["carbon_notation"], stats["carbon_notation_not_converted"] = 0, 0
    for nm, s_, p_, tok, frag, conj, n9 in acyl_cases:
        o, b = ao[nm]["smiles"], bo[s_]["smiles"]
        report.case(nm, True)
        if not o:
            # two geometries on conjugated double bonds are not always written by the library (empty result): counted, not judged
            stats["carbon_notation_not_converted"] += 1
            if not conj and not (n9 and "=" in tok):     # <p>C<n>={...} with a one-digit n is not read as a carbon chain by the library
                report.fail({"site": "reactor", "kind": "empty", "token": "carbon-notation"}, {"input": nm, "exc": ao[nm]["exc"], "group": frag})
            continue
        v = orc.drv.call("modcheck", o, b, str(p_), frag)
        stats["carbon_notation"] += 1
        if v != "1":
            report.fail({"site": "reactor", "kind": "wrong-molecule", "token": "carbon-notation", "conjugated": conj},
                        {"input": nm, "observed": o, "unmodified": b, "group_by_Spec_Acyl": frag, "position": p_, "verdict": v,
                         "problem": "the result is not the unmodified sugar whose position carries the fatty acyl group the carbon notation stands for (chain length, branch, position and cis/trans geometry of the double bonds)"})
    # correspondence of Model/PolyCarbon.v with SMILESReaktor.parse_poly_carbon: the same names, the same text (or both fail)
    pc_names = set(f"{p_}{tok}" for nm, s_, p_, tok, frag, conj, n9 in acyl_cases)
    for _ in range(150 if tier == "quick" else 3000):
        n_c = r.randint(4, 40)
        pre = r.choice(["", "", "", "i", "ai", "a"])
        grp = []
        for _g in range(r.choice([0, 1, 1, 1, 2, 3])):
            kind = r.choice(["=", "=", "=", "c"])
            idx = []
            for _i in range(r.randint(0, 4) if r.random() < 0.1 else r.randint(1, 3)):
                q_ = r.randint(2, n_c + 3)
                idx.append((r.choice(["c", "t", "", ""]) if kind == "=" else "") + str(q_))
            if r.random() < 0.03:
                idx.append(r.choice(["x", "c", "t", "9a", ""]))
            if r.random() < 0.5:
                idx.sort(key=lambda x_: int("".join(ch for ch in x_ if ch.isdigit()) or 0))
            grp.append(kind + "{" + ",".join(idx) + "}")
        pc_names.add(f"{r.randint(1, 9)}{pre}C{n_c}{''.join(grp)}")
    pc_names = sorted(pc_names)
    pc_out = C.run_impl_parallel("poly_carbon", pc_names)
    stats["poly_carbon_names"], stats["poly_carbon_both_fail"] = len(pc_names), 0
    for nm, o in zip(pc_names, pc_out):
        mv = orc.drv.call("polycarbon", nm)
        if mv == "NONE" and o["text"] is None:
            stats["poly_carbon_both_fail"] += 1
            continue
        if mv == "NONE" or o["text"] is None or mv[1:] != o["text"]:
            report.fail({"site": "correspondence", "kind": "poly-carbon-model-differs"},
                        {"name": nm, "model": None if mv == "NONE" else mv[1:], "implementation": o["text"], "exception": o["exc"],
                         "what_no_longer_checks": "Model/PolyCarbon.v = SMILESReaktor.parse_poly_carbon (string equality); theorem C04_poly_carbon_is_the_designation_bounded speaks about the model",
                         "problem": "the model of parse_poly_carbon and the implementation give different texts for this name"})
    # the long notation  <p>-O-<group>-<Sugar> / <p>-N-<group>-<Sugar>  names the same molecule as the compact token for
    # every group that is carried by (or shares) the position's oxygen / nitrogen
    fgs = {x.split("\x1e")[0]: x.split("\x1e")[1] for x in orc.drv.call("fgtokens").split("\x1f") if x and "\x1e" in x}
    carried = sorted(t for t, smi in fgs.items() if t in toks and smi and smi[0] in "OCSP[" and not smi.startswith("Cl"))
    ncarried = sorted(t for t, smi in fgs.items() if t in toks and smi and smi[0] == "N")
    lf = []
    for tok in (carried if tier == "thorough" else r.sample(carried, min(len(carried), 10)) + [t for t in ("P", "Lac", "Ole", "S", "Me") if t in carried]):
        s_ = r.choice(["Glc", "Gal", "Man"])
        p_ = r.choice(SUGARS[s_])
        lf.append((f"{p_}-O-{tok}-{s_}", f"{s_}{p_}{tok}"))
    # the compact bridged spelling <p>O<group> / <p>N<group> as well, where it tokenises as bridge + group (judged
    # when it converts: all-capital tokens are not read in this spelling)
    compact_bridged = set()
    for tok in (sorted(toks) if tier == "thorough" else r.sample(sorted(toks), 12)):
        for br in "ON":
            s_ = r.choice(["Glc", "Gal", "Man"])
            p_ = r.choice(SUGARS[s_])
            comp = f"{s_}{p_}{br}{tok}"
            lx = orc.drv.call("lex", comp)
            if lx != "NOLEX" and [C.Driver.unesc(x.split("\x1e")[1]) for x in lx.split("\x1f")][-2:] == [br, tok]:
                lf.append((comp, f"{p_}-{br}-{tok}-{s_}"))
                compact_bridged.add(comp)
    for tok in (ncarried if tier == "thorough" else r.sample(ncarried, min(len(ncarried), 4))):
        s_ = r.choice(["Glc", "Gal", "Man"])
        lf.append((f"2-N-{tok}-{s_}", f"{s_}2{tok}"))
    # bridge notation on a position that bears an amine of the sugar itself: <p>NAc there is the N-acyl, like <p>Ac
    amines = {"Neu": [5], "Per": [4], "Bac": [2, 4], "Leg": [5, 7], "Pse": [5, 7], "Aci": [5, 7], "Fus": [5], "Mur": [2], "Vio": [4]}
    for s_, ps in amines.items():
        for tok in ("Ac", "Gc"):
            lf.append(("".join([s_] + [f"{p_}N{tok}" for p_ in ps]), "".join([s_] + [f"{p_}{tok}" for p_ in ps])))
            lf.append((f"{s_}{ps[0]}N{tok}", f"{s_}{ps[0]}{tok}"))
    lf = [(a_, b_) for a_, b_ in lf if orc.drv.call("accepts", a_) == "1" and orc.drv.call("accepts", b_) == "1"]
    flat = sorted(set(x for c_ in lf for x in c_))
    lo = dict(zip(flat, chem.convert_all(flat)))
    stats["long_form"] = 0
    for a_, b_ in lf:
        x, y = lo[a_]["smiles"], lo[b_]["smiles"]
        if not y or (a_ in compact_bridged and not x):
            continue
        stats["long_form"] += 1
        report.case(a_, True)
        if not x or not orc.same(x, y):
            report.fail({"site": "reactor", "kind": "long-form-differs", "token": (a_.split("-") + ["", "", a_])[2]},
                        {"long_form": a_, "compact_form": b_, "results": [x, y],
                         "problem": "the long notation of a modification does not give the molecule of the compact token"})
    orc.close()
    if broken and not report.violations:
        report.fail({"site": "proof", "kind": "obligation-broken"},
                    {"no_failing_input": True, "what_no_longer_checks": broken, "theorems": names_thm})
    report.assumptions = ["the group a token stands for is the fragment of the regenerated functional_groups table; how it attaches (carried by the position's O/N, sharing its leading O, or replacing the heteroatom for N / halogen-led fragments) is Spec/Modify.fragment_kind",
                          "fatty acyl groups in carbon notation stand for what Spec/Acyl.v says (checked against the named fatty acids of the table by C04_named_fatty_acids_are_their_designation); cis/trans geometry is compared (Iso.ez_same)"]
    extra = {"rule": "single modifications: (quick) one hexose x every group token + every sugar x 18 tokens, (thorough) every sugar x every free position x every group token; sets of 2-4 modifications on one residue in up to 8 (all, if fewer) orders of writing, among them every group once as the lower- and once as the higher-numbered of a pair",
             "group_tokens": len(toks), **stats, "print_assumptions": res.assumptions.get(f"Props/{PROP}.v", "").strip().splitlines()[-4:]}
    return report.finish("proof", ob, dis, names_thm, trusted=C.TRUSTED, extra=extra)


def replay(path):
    rp = json.load(open(path))
    key = rp.get("input") or rp.get("other_writing")
    o = chem.convert_all([key])[0]
    print(json.dumps({"input": key, "now": o}, indent=1))
    return 1
