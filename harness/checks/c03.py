"""C03 The parsed tree is the glycan that was written, all of it."""
import json
import os
import sys

sys.path.insert(0, os.path.dirname(os.path.dirname(os.path.abspath(__file__))))
import common as C          # noqa: E402
import gen as G             # noqa: E402
import gtree as T           # noqa: E402
import pylite_io as P       # noqa: E402

PROP = "C03"
DEPS = ["Spec/Reader.v", "Proofs/ReaderThm.v", "Spec/Ebnf.v", "Gen/Grammar.v", "Model/Walker.v", "Model/Edge.v", "Proofs/WalkerThm.v", "Gen/WalkerGen.v", "Proofs/WalkerGenThm.v"]
MODS = ["2Ac", "6S", "3Me", "NAc", "A", "4P", "6d", "2,3-Anhydro-", "N", "5Gc", "9Ac", "2F", "3oxoMyr", "-ol", "f", "p", "6Pam"]


def canon_impl(rec):
    kids = {}
    for a, b, lab in rec["edges"]:
        kids.setdefault(a, []).append((lab, b))
    names = {n[0]: n[1] for n in rec["nodes"]}
    seen = set()

    def go(i):
        if i in seen:
            raise ValueError("not a tree")
        seen.add(i)
        return (names[i], tuple(sorted((lab, go(c)) for lab, c in kids.get(i, []))))
    t = go(0)
    return t, len(seen) == len(names)


def canon_gen(t, style, root_suffix=""):
    def lab(an, c, p):
        return f"({an}{c}-{p})"
    def go(n, suffix=""):
        return (n.name + suffix, tuple(sorted((lab(an, c, p), go(k)) for an, c, p, k in n.kids)))
    return go(t, root_suffix.strip())


def parse_rose(s):
    pos = [0]

    def node():
        assert s[pos[0]] == "("
        pos[0] += 1
        j = pos[0]
        while s[pos[0]] not in "<)":
            pos[0] += 1
        name = P.unhx(s[j:pos[0]])
        kids = []
        while s[pos[0]] == "<":
            k = s.index(">", pos[0])
            lab = P.unhx(s[pos[0] + 1:k])
            pos[0] = k + 1
            kids.append((lab, node()))
        pos[0] += 1
        return (name, tuple(sorted(kids)))
    return node()


def norm_label(lab):
    """the stored form of a written linkage: parentheses added; a missing child position is '1-' in the code base
    (the 2-ketose default is C06's business: compare only what was written)"""
    return lab


def deco(r, name):
    if r.random() < 0.35:
        m = r.choice(MODS)
        if m.endswith("-") and not m.startswith("-"):
            return m + name
        return name + m
    return name


def make_trees(r, tier):
    out = []
    n = 120 if tier == "quick" else 1500
    vocab = ["Glc", "Man", "Gal", "Fuc", "Neu", "Kdo", "Xyl", "GlcNAc", "Fru", "Hex", "Unk", "Rha"]
    for i in range(n):
        size = r.randint(1, 9) if tier == "quick" else r.randint(1, 40)
        pb = r.choice([0.1, 0.4, 0.8])
        t = T.random_tree(r, size, names=[x for x in T.CORE if x in T.RES][:16], p_branch=pb)
        # arbitrary written names: the tree only cares about the text
        def rename(nd):
            nd.name = deco(r, r.choice(vocab)) if r.random() < 0.6 else nd.name
            for _, _, _, k in nd.kids:
                rename(k)
        rename(t)
        out.append((t, r.choice(["", "", " a", " b"])))
    # deep chains (depth 60) and the four-substituent productions, root and non-root
    for d in ([30, 60] if tier == "quick" else [30, 60, 90]):
        out.append((T.chain(["Gal"] * d + ["Glc"], "b" * d, [4] * d), ""))
    four = T.Node("Glc", [("b", 1, 4, T.Node("Tal", [("a", 1, 3, T.Node("Man")), ("b", 1, 4, T.Node("Gal")), ("a", 1, 6, T.Node("Fuc")), ("b", 1, 2, T.Node("Xyl"))]))])
    out.append((four, ""))
    out.append((four.kids[0][3], ""))
    out.append((T.Node("Man", [("a", 1, 2, four), ("a", 1, 3, four.kids[0][3])]), " a"))
    return out


def run(tier):
    res = C.build()
    report = C.Report(PROP, tier)
    ob, dis, names_thm, broken = C.proof_gate(report, res, PROP, DEPS)
    drv = C.Driver()
    r = C.rng(PROP)
    trees = make_trees(r, tier)
    texts = [T.render(t) + sfx for t, sfx in trees]
    # foreign text before / after / inside
    foreign = []
    for t, sfx in trees[:60 if tier == "quick" else 400]:
        s = T.render(t)
        f = r.choice(["#", "#Man", " #", "##", "x", "$", " ", "\x00", "Man", ")", "]", "(a1-4)", "Glc#"])
        i = r.randint(0, len(s))
        foreign.append(r.choice([s + f, f + s, s[:i] + f + s[i:]]))
    import checks.c15 as c15
    corp = [s for s in c15.corpus(300 if tier == "quick" else 5000, r) if "{" not in s]
    corp = corp + [x for x in G.grammar_sentences(r, 60 if tier == "quick" else 600) if "{" not in x]
    # undetermined linkages, and residues that carry their own anomer letter in front of an undetermined or a different
    # linkage anomer ('Mana(?1-4)Glc', 'Galb?4Glc'): the edge keeps the linkage as written
    import re as _re0
    qmore = []
    for s_ in texts[:60 if tier == "quick" else 500]:
        v1 = _re0.sub(r"([A-Za-z0-9])\(([ab])(\d)-(\d)\)", lambda m_: m_.group(1) + m_.group(2) + "(?" + m_.group(3) + "-" + m_.group(4) + ")", s_, count=1)
        v2 = _re0.sub(r"([A-Za-z0-9])\(([ab])(\d)-(\d)\)", lambda m_: m_.group(1) + r.choice("ab") + "?" + m_.group(4), s_, count=1)
        v3 = _re0.sub(r"\(([ab])(\d)-(\d)\)", lambda m_: "(?" + m_.group(2) + "-" + r.choice(["?", m_.group(3)]) + ")", s_, count=r.randint(1, 2))
        v4 = _re0.sub(r"([A-Za-z0-9])\(([ab])(\d)-(\d)\)", lambda m_: m_.group(1) + ("b" if m_.group(2) == "a" else "a") + "(" + m_.group(2) + m_.group(3) + "-" + m_.group(4) + ")", s_, count=1)
        qmore += [x for x in (v1, v2, v3, v4) if x != s_ and drv.call("accepts", x) == "1"]
    corp = corp + sorted(set(qmore))
    all_inputs = texts + foreign + corp
    outs = C.run_impl_parallel("trees", all_inputs)
    stats = {"generated_ok": 0, "reader_ok": 0, "foreign_rejected": 0, "foreign_accepted_derivable": 0, "corpus_accepted": 0}
    # the exposed tree stays what was written when the object is used (get_smiles, summary), under every option set,
    # also for glycans with undetermined linkages
    import re as _re
    qtexts = [x for x in (_re.sub(r"-(\d)\)", "-?)", s, count=1) for s in texts[:40 if tier == "quick" else 300]) if "?" in x] + \
             [x for x in (_re.sub(r"\(([ab])(\d)-", r"(?\2-", s, count=1) for s in texts[:20 if tier == "quick" else 150]) if "?" in x]
    stats["tree_after_use"] = 0
    for kw in ({"tree_only": True}, {"full": False}, {"full": False, "tree_only": True}, {}):
        use_in = (texts[:60 if tier == "quick" else 400] + qtexts)
        for s_, o_ in zip(use_in, C.run_impl_parallel("trees", use_in, extra={"kw": kw})):
            if not o_.get("accepted") or o_.get("nodes_after") is None:
                continue
            stats["tree_after_use"] += 1
            before = sorted((n[0], n[1]) for n in o_["nodes"])
            after = sorted((n[0], n[1]) for n in o_["nodes_after"])
            nres = sum(1 for k_, _ in o_["items"] if k_ == "R")
            if before != after or o_["edges"] != o_["edges_after"] or len(after) != nres:
                report.fail({"site": "exposed-tree", "kind": "changes-with-use", "options": json.dumps(kw, sort_keys=True)},
                            {"input": s_, "options": kw, "nodes_after_construction": before, "nodes_after_get_smiles_and_summary": after,
                             "residues_written": nres,
                             "problem": "the tree handed out by get_tree() is no longer the written glycan after get_smiles() / summary() were called"})
    for i, (s, o) in enumerate(zip(all_inputs, outs)):
        gen = i < len(texts)
        report.case(s, o.get("accepted", False), {"input": s[:100], "nodes": len(o.get("nodes", []))} if i < 4 else None)
        if not o.get("accepted"):
            if gen:
                report.fail({"site": "parser", "kind": "generated-glycan-rejected"}, {"input": s, "exc": o.get("exc")})
            elif i < len(texts) + len(foreign):
                stats["foreign_rejected"] += 1
            continue
        # whole string accounted for: the items of the parse are exactly the input between the sentinels
        y = "".join(x[1] for x in o["items"])
        if y != "#" + s + "#":
            report.fail({"site": "parser", "kind": "text-not-accounted-for"},
                        {"input": s, "yield_of_parse": y, "problem": "the library built a tree although part of the string is not part of the parse"})
            continue
        if not gen and i < len(texts) + len(foreign):
            if drv.call("accepts", s) != "1":
                report.fail({"site": "parser", "kind": "foreign-text-accepted"}, {"input": s, "nodes": o["nodes"]})
                continue
            stats["foreign_accepted_derivable"] += 1
        # the walker model on the parse tree ANTLR built: ids, names and edge insertion order, exactly
        if o.get("ptree"):
            wm = drv.call("walkmodel", o["ptree"])
            if wm == "RAISE" or "\t" not in wm:
                report.fail({"site": "correspondence", "kind": "walker-model-raises"},
                            {"no_failing_input": True, "input": s, "what_no_longer_checks": "Model/Walker.parse_begin vs TreeWalker.parse", "model": wm})
            else:
                mn, me = wm.split("\t")
                m_nodes = [P.unhx(x) for x in mn.split("\x1f")] if mn else []
                m_edges = [[int(e.split(",")[0]), int(e.split(",")[1]), P.unhx(e.split(",")[2])] for e in me.split("\x1f")] if me else []
                i_nodes = [n[1] for n in sorted(o["nodes"])]
                # networkx lists edges grouped by source node (per node in insertion order): same grouping for the model
                m_edges = sorted(m_edges, key=lambda e: e[0])
                if m_nodes != i_nodes or m_edges != o["edges"]:
                    report.fail({"site": "correspondence", "kind": "walker-model-differs"},
                                {"no_failing_input": True, "input": s, "what_no_longer_checks": "Model/Walker.parse_begin vs TreeWalker.parse (node ids, names, edge order)",
                                 "model": [m_nodes, m_edges], "library": [i_nodes, o["edges"]]})
                stats["walker_model_ok"] = stats.get("walker_model_ok", 0) + 1
        try:
            impl, is_tree = canon_impl(o)
        except ValueError:
            impl, is_tree = None, False
        if not is_tree:
            report.fail({"site": "walker", "kind": "not-a-tree"}, {"input": s, "nodes": o["nodes"], "edges": o["edges"]})
            continue
        # the reader applied to the items of the parse (brace-free inputs)
        inner = o["items"][1:-1]
        root_cfg = ""
        if len(inner) >= 2 and inner[-2] == ["T", " "]:
            root_cfg = inner[-1][1]
            inner = inner[:-2]
        if any(k == "T" and v in "{}" for k, v in inner):
            continue
        enc = "".join(("R" + P.hx(v) + ";") if k == "R" else ("C" + P.hx(v) + ";") if k == "C" else v for k, v in inner)
        rd = drv.call("read", enc)
        if rd == "NOREAD":
            report.fail({"site": "reader", "kind": "cannot-read"}, {"no_failing_input": True, "input": s, "items": inner,
                                                                    "what_no_longer_checks": "Spec/Reader.read on the items of the ANTLR parse"})
            continue
        want = parse_rose(rd)
        want = (want[0] + root_cfg, want[1])

        def paren(t):     # the walker stores linkages in parentheses, with '1-' when the child position is not written
            name, kids = t
            out = []
            for lab, k in kids:
                if "(" not in lab:
                    if "-" not in lab:
                        lab = lab[0] + "1-" + lab[1:]
                    lab = "(" + lab + ")"
                out.append((lab, paren(k)))
            return (name, tuple(sorted(out)))
        if paren(want) != impl:
            report.fail({"site": "walker", "kind": "tree-differs-from-reading", "max_kids": max([len(x) for x in [impl[1]]] + [0])},
                        {"input": s, "library_tree": impl, "as_written": paren(want),
                         "problem": "the exposed tree is not the glycan as written (nodes, names, root or edge labels differ)",
                         "replay_cmd": "./check C03 --replay <this file>"})
            continue
        stats["reader_ok"] += 1
        if gen:
            t, sfx = trees[i]
            if canon_gen(t, "full", sfx) != impl:
                report.fail({"site": "walker", "kind": "tree-differs-from-generator"},
                            {"input": s, "library_tree": impl, "generated_from": canon_gen(t, "full", sfx)})
                continue
            stats["generated_ok"] += 1
        elif i >= len(texts) + len(foreign):
            stats["corpus_accepted"] += 1
    drv.close()
    if broken and not report.violations:
        report.fail({"site": "proof", "kind": "obligation-broken"},
                    {"no_failing_input": True, "what_no_longer_checks": broken, "theorems": names_thm})
    report.assumptions = ["A-antlr: the grouping of tokens into residues (deriv) and linkages (con) is taken from the ANTLR parse; that the parse covers the whole input is checked per input",
                          "edge labels are compared in the stored form (parentheses added, '1-' for an unwritten child position); the 2-ketose default is C06's"]
    extra = {"rule": "random trees (1-9 residues quick, 1-40 thorough; chains, bushy, four substituents on root and non-root residues, depth 60) with arbitrary written names and modification lists, rendered in full notation with optional root anomer; the same with foreign text before / after / inside; reference corpora; non-trivial = accepted by the library",
             **stats, "print_assumptions": res.assumptions.get(f"Props/{PROP}.v", "").strip().splitlines()[-3:],
             "partial": "walker = reader for all parse trees is not proved yet; decided per input against Spec/Reader.read (extracted)"}
    return report.finish("proof", ob, dis, names_thm, trusted=C.TRUSTED, extra=extra)


def replay(path):
    rp = json.load(open(path))
    o = C.run_impl("trees", {"items": [rp["input"]]})["results"][0]
    print(json.dumps({"input": rp["input"], "now": {k: o.get(k) for k in ("accepted", "nodes", "edges")}}, indent=1)[:3000])
    return 1
