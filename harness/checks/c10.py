"""C10 Nothing is dropped silently: the meaning of 'full'."""
import json
import re
import os
import sys

sys.path.insert(0, os.path.dirname(os.path.dirname(os.path.abspath(__file__))))
import common as C          # noqa: E402
import gtree as T           # noqa: E402
import chem                 # noqa: E402

PROP = "C10"
DEPS = ["Model/Gate.v", "Spec/Chem.v", "Spec/Iso.v", "Gen/Grammar.v", "Gen/Tables.v", "Gen/Methods.v", "Proofs/MethodsThm.v"]


def unsupported_tokens(drv):
    """FG tokens the grammar accepts but functional_groups does not define"""
    fgs = set(x.split("\x1e")[0] for x in drv.call("fgtokens").split("\x1f") if x)
    toks = drv.call("lex", "x")      # only to make sure the driver is up
    import re
    g4 = open(os.path.join(C.REPO, "glyles/grammar/Glycan.g4")).read()
    m = re.search(r"\nFG:\s*(.*?);", g4, re.S)
    lits = re.findall(r"'([^']+)'", m.group(1))
    # DD / DL / LD / LL are the orientation prefixes of the resized sugars (LDManHep): they have chemistry in that
    # context and are not counted as tokens without chemistry
    return sorted(x for x in lits if x not in fgs and x not in ("DD", "DL", "LD", "LL"))


def mutate(r, t, unsup, kinds):
    """returns (text, stripped_text_or_None, set of obstacle kinds)"""
    obstacles = set()
    tj = t.to_json()
    strip = json.loads(json.dumps(tj))

    def walk(n, ns, is_root):
        if "unk" in kinds and not is_root and r.random() < 0.25:
            n["name"] = "Unk"; ns["name"] = "Unk"
            obstacles.add("unknown-residue")
        elif "mod" in kinds and r.random() < 0.4 and n["name"] in ("Glc", "Man", "Gal", "Fuc", "Xyl", "GlcNAc"):
            tok = r.choice(unsup)
            used = [k[2] for k in n["kids"]]
            free = [p for p in (2, 3, 4, 6) if p not in used and not (n["name"] == "GlcNAc" and p == 2) and not (n["name"] in ("Fuc", "Xyl") and p == 6)]
            if free:
                pos = r.choice(free)
                n["name"] = n["name"] + (f"{pos}{tok}" if r.random() < 0.7 else tok)
                obstacles.add("unsupported-modification")
        elif "range" in kinds and r.random() < 0.3 and n["name"] in ("Glc", "Man", "Gal", "Xyl"):
            n["name"] = n["name"] + f"{r.choice([7, 8, 9])}{r.choice(['S', 'Ac', 'P'])}"
            obstacles.add("unsupported-modification")
        for k, ks in zip(n["kids"], ns["kids"]):
            if "q" in kinds and r.random() < 0.25:
                which = r.randint(0, 2)
                if which == 0:
                    k[0] = "?"; ks[0] = "?"
                elif which == 1:
                    k[2] = "?"; ks[2] = "?"
                else:
                    k[0] = "?"; k[2] = "?"; ks[0] = "?"; ks[2] = "?"
                obstacles.add("undetermined-linkage")
            walk(k[3], ks[3], False)
    walk(tj, strip, True)

    def render(j):
        s = ""
        for i, (an, c, p, kid) in enumerate(j["kids"]):
            part = render(kid) + f"({an}{c}-{p})"
            s += part if i == 0 else "[" + part + "]"
        return s + j["name"]
    text = render(tj)
    stripped = render(strip)
    if "brace" in kinds and r.random() < 0.5:
        text = "{" + r.choice(["Man(a1-4)", "Fuc(a1-?)", "Neu5Ac(a2-3)Gal(b1-4)"]) + "}" + text
        stripped = None
        obstacles.add("detached-fragment")
    return text, stripped, obstacles


def run(tier):
    res = C.build()
    report = C.Report(PROP, tier)
    ob, dis, names_thm, broken = C.proof_gate(report, res, PROP, DEPS)
    orc = chem.Oracle()
    unsup = unsupported_tokens(orc.drv)
    r = C.rng(PROP)
    n = 70 if tier == "quick" else 700
    cases = []
    for i in range(n):
        t = T.random_tree(r, r.randint(1, 6), names=["Glc", "Man", "Gal", "Fuc", "Xyl", "GlcNAc", "Neu5Ac", "Galf", "Kdo"], p_branch=0.4)
        kinds = [set(), {"mod"}, {"mod"}, {"range"}, {"q"}, {"unk"}, {"brace"}, {"mod", "q"}, {"mod", "unk", "q", "brace"}][i % 9]
        cases.append(mutate(r, t, unsup, kinds))
    # every unsupported token once, with and without position
    for tok in (unsup if tier == "thorough" else r.sample(unsup, min(len(unsup), 12))):
        cases.append((f"Glc3{tok}", "Glc", {"unsupported-modification"}))
        cases.append((f"Man(a1-4)Glc{tok}", "Man(a1-4)Glc", {"unsupported-modification"}))
    # four residues on one residue (root and inner), plain and with one unsupported modification on a branch:
    # "every residue ... is realised" -- each residue of this vocabulary brings exactly one ring
    tok0 = unsup[0] if unsup else "Leu"
    for pre, post in (("", ""), ("", "(b1-4)GlcNAc")):
        cases.append((f"Man(a1-2)[Gal(a1-3)][Fuc(a1-4)][Xyl(b1-6)]Glc{post}", None, set()))
        cases.append((f"Man(a1-2)[Gal(a1-3)][Fuc(a1-4)][Xyl3{tok0}(b1-6)]Glc{post}", f"Man(a1-2)[Gal(a1-3)][Fuc(a1-4)][Xyl(b1-6)]Glc{post}", {"unsupported-modification"}))
    # an unsupported modification followed (and preceded) by supported ones on the same residue: full=False gives the
    # molecule without the unsupported one only
    for tok in (unsup if tier == "thorough" else r.sample(unsup, min(len(unsup), 6))):
        cases.append((f"Gal3{tok}6S", "Gal6S", {"unsupported-modification"}))
        cases.append((f"Man(a1-3)Glc4{tok}6Ac", "Man(a1-3)Glc6Ac", {"unsupported-modification"}))
        cases.append((f"Glc2Ac3{tok}6S(b1-4)Glc", "Glc2Ac6S(b1-4)Glc", {"unsupported-modification"}))
    # detached fragments of one, two and three residues with fully specified inner linkages, alone and two at once
    for frag in ("Man(a1-4)", "Fuc(a1-2)Gal(b1-3)", "Neu5Ac(a2-3)Gal(b1-4)GlcNAc(b1-3)", "Gal(b1-4)[Fuc(a1-3)]GlcNAc(b1-2)"):
        for base_ in ("GlcNAc(b1-4)Glc", "Man(a1-3)[Man(a1-6)]Man(b1-4)GlcNAc"):
            cases.append(("{" + frag + "}" + base_, None, {"detached-fragment"}))
        cases.append(("{" + frag + "}{Fuc(a1-2)Gal(b1-4)}Glc", None, {"detached-fragment"}))
    # a ring-form letter for which the library has no row of that sugar is an unknown monosaccharide
    rows = [x.split("\x1e") for x in orc.drv.call("librows").split("\x1f") if x]
    have = {"p": set(), "f": set()}
    for row in rows:
        if row[0] in have:
            have[row[0]].add(row[2])
    noring = [(nm, "f") for nm in sorted(have["p"] - have["f"])] + [(nm, "p") for nm in sorted(have["f"] - have["p"])]
    noring = [(nm, rg) for nm, rg in noring if orc.drv.call("accepts", nm + rg) == "1"]
    ring_cases = 0
    for nm, rg in (noring if tier == "thorough" else r.sample(noring, min(len(noring), 10))):
        for text in (nm + rg, f"Gal(b1-4){nm}{rg}", f"{nm}{rg}(a2-3)Gal(b1-4)Glc"):
            cases.append((text, None, {"unknown-residue"}))
            ring_cases += 1
    # a residue written with two sugar codes (grammatical: saci+) of which the second is not a size names no monosaccharide
    codes = ["Glc", "Man", "Gal", "Fuc", "Unk", "Neu", "Kdo", "Xyl", "Ara", "Fru", "Rha", "GlcNAc", "Ido", "Qui"]
    for _ in range(8 if tier == "quick" else 80):
        a_, b_ = r.sample(codes, 2)
        b_ = b_.replace("NAc", "")
        tail = r.choice(["", "", "NAc", "6S"])
        for text in (a_ + b_ + tail, f"Gal(b1-4){a_}{b_}{tail}", f"{a_}{b_}{tail}(a1-4)Gal", f"Man(a1-3)[Gal(b1-4){a_}{b_}{tail}(b1-6)]Man"):
            if orc.drv.call("accepts", text) == "1":
                cases.append((text, None, {"unknown-residue"}))
    # linkages that cannot be formed as written: to the carbon that bears the ring oxygen, to a carbon without hydroxyl or
    # amine (deoxy position, beyond the chain), or two residues on one position
    unform = [("Glc", 5), ("Man", 5), ("Gal", 5), ("GlcNAc", 5), ("Galf", 4), ("Araf", 4), ("Neu5Ac", 6), ("Kdo", 6), ("Fruf", 5), ("Xyl", 5),
              ("Fuc", 6), ("Rha", 6), ("Xyl", 6), ("Glc", 7), ("Qui", 6), ("Neu5Ac", 3), ("Kdo", 3), ("Ara", 5)]
    for par_, pos_ in (unform if tier == "thorough" else r.sample(unform, 8)):
        ch_ = r.choice(["Man", "Gal", "Glc", "Fuc"])
        an_ = r.choice("ab")
        for text in (f"{ch_}({an_}1-{pos_}){par_}", f"Neu5Ac(a2-3){ch_}({an_}1-{pos_}){par_}(b1-4)Glc", f"Gal(b1-3)[{ch_}({an_}1-{pos_})]{par_}"):
            if orc.drv.call("accepts", text) == "1":
                cases.append((text, None, {"unformable-linkage"}))
    for text in ("Man(a1-4)[Gal(b1-4)]Glc", "Man(a1-3)[Man(a1-3)]Man(b1-4)GlcNAc", "Fuc(a1-2)[Gal(b1-2)]Gal(b1-4)Glc"):
        cases.append((text, None, {"unformable-linkage"}))
    reqs, meta = [], []
    for ci, (text, stripped, obs) in enumerate(cases):
        for full in (True, False):
            reqs.append({"iupac": text, "kw": {"full": full}})
            meta.append((ci, "text", full))
        if stripped and stripped != text:
            reqs.append({"iupac": stripped, "kw": {"full": True}})
            meta.append((ci, "stripped", True))
    # through convert() as well as through the class: the class may raise for unknown residues, convert must give ""
    outs = C.run_impl_parallel("convert_many", reqs)
    table = {m: o for m, o in zip(meta, outs)}
    flags = C.run_impl_parallel("trees", [c[0] for c in cases], extra={"kw": {"tree_only": False}})
    for ci, (text, stripped, obs) in enumerate(cases):
        t_full, t_false = table[(ci, "text", True)], table[(ci, "text", False)]
        report.case(text, bool(obs), {"input": text, "obstacles": sorted(obs)} if ci < 6 else None)
        sT = t_full["smiles"] or ""
        sF = t_false["smiles"] or ""
        if obs:
            if sT:
                report.fail({"site": "full-flag", "kind": "partial-molecule-released", "obstacle": "+".join(sorted(obs))},
                            {"input": text, "full": True, "observed": sT, "obstacles": sorted(obs),
                             "problem": "full=True returned a molecule although part of the input cannot be realised",
                             "replay_cmd": "./check C10 --replay <this file>"})
            fl = flags[ci]
            if fl.get("accepted") and fl.get("tree_full") is True:
                report.fail({"site": "full-flag", "kind": "flag-not-cleared", "obstacle": "+".join(sorted(obs))},
                            {"input": text, "obstacles": sorted(obs), "tree_full": True})
        else:
            if not sT:
                report.fail({"site": "full-flag", "kind": "realisable-input-empty"}, {"input": text, "exc": t_full["exc"]})
            fl = flags[ci]
            if fl.get("accepted") and fl.get("tree_full") is False:
                report.fail({"site": "full-flag", "kind": "flag-cleared-without-obstacle"}, {"input": text})
        if sT and not obs:
            nres = len(re.findall(r"(?:Glc|Man|Gal|Fuc|Xyl|Neu|Kdo)", text))
            d = orc.describe(sT)
            if d and d["rings"] != nres:
                report.fail({"site": "full-flag", "kind": "residue-not-realised"},
                            {"input": text, "full": True, "observed": sT, "rings": d["rings"], "residues_written": nres,
                             "problem": "full=True returned a molecule with fewer (or more) rings than residues written: some residue is not realised"})
        if sT:
            if not sF or not orc.same(sT, sF):
                report.fail({"site": "gate", "kind": "full-false-differs"},
                            {"input": text, "full_true": sT, "full_false": sF,
                             "problem": "an input that converts under full=True gives something else under full=False"})
        if obs == {"unsupported-modification"} and stripped:
            ref = table.get((ci, "stripped", True), {}).get("smiles")
            if ref and (not sF or not orc.same(sF, ref)):
                report.fail({"site": "gate", "kind": "full-false-not-stripped"},
                            {"input": text, "full_false": sF, "without_the_modification": stripped, "expected": ref,
                             "problem": "with full=False an input whose only obstacle is an unsupported modification must give the molecule without it"})
    # for any accepted string at all (random sentences of the grammar): what converts under full=True converts to the
    # same molecule under full=False
    import gen as _G
    gs = _G.grammar_sentences(r, 50 if tier == "quick" else 600)
    go = C.run_impl_parallel("convert_many", [{"iupac": x, "kw": {"full": f_}} for x in gs for f_ in (True, False)])
    n_gs = 0
    for i, x in enumerate(gs):
        a_, b_ = go[2 * i]["smiles"] or "", go[2 * i + 1]["smiles"] or ""
        if a_:
            n_gs += 1
            report.case("grammar:" + x, True)
            if not b_ or not orc.same(a_, b_):
                report.fail({"site": "gate", "kind": "full-false-differs"},
                            {"input": x, "full_true": a_, "full_false": b_,
                             "problem": "an input that converts under full=True gives something else under full=False"})
    orc.close()
    if broken and not report.violations:
        report.fail({"site": "proof", "kind": "obligation-broken"},
                    {"no_failing_input": True, "what_no_longer_checks": broken, "theorems": names_thm})
    report.assumptions = ["unsupported modification tokens = FG literals of Glycan.g4 that functional_groups does not define (recomputed per run), and positions beyond the carbon chain",
                          "tree_only=True is exempt by the property"]
    extra = {"ring_form_cases": ring_cases, "rule": "random glycans in which a random subset of residues ('Unk', a ring-form letter for which the library has no row of that sugar: Neuf, Olif, ..., or two sugar codes in one residue: GlcMan, GalUnk), modifications (grammar tokens without chemistry, positions beyond the chain), linkages ('?', or a linkage to a carbon that has no free hydroxyl or amine, or to a position already used) is made unrealisable, optionally with a detached {fragment}; both values of full; non-trivial = at least one obstacle",
             "unsupported_tokens": unsup, "conversions": len(reqs),
             "print_assumptions": res.assumptions.get(f"Props/{PROP}.v", "").strip().splitlines()[-4:]}
    return report.finish("proof", ob, dis, names_thm, trusted=C.TRUSTED, extra=extra)


def replay(path):
    rp = json.load(open(path))
    o = C.run_impl("convert_many", {"items": [{"iupac": rp["input"], "kw": {"full": True}}, {"iupac": rp["input"], "kw": {"full": False}}]})["results"]
    print(json.dumps({"input": rp["input"], "full_true": o[0], "full_false": o[1]}, indent=1))
    return 1
