"""C01 Glycosidic assembly yields exactly the molecule the linkages describe."""
import json
import os
import sys

sys.path.insert(0, os.path.dirname(os.path.dirname(os.path.abspath(__file__))))
import common as C          # noqa: E402
import gtree as T           # noqa: E402
import chem                 # noqa: E402
import pylite_io as P       # noqa: E402

PROP = "C01"
DEPS = ["Proofs/LexApp.v", "Proofs/SpliceStr.v", "Proofs/Suffix.v", "Proofs/Embed.v", "Spec/Smiles.v", "Spec/Chem.v", "Spec/Iso.v", "Spec/Graft.v", "Model/Merger.v", "Proofs/SmilesFacts.v", "Gen/Tables.v"]

MODS = ["S", "P", "Ac", "Me", "Bz", "Bn", "Pic", "Pico", "Ole", "Lin", "Pam", "F", "N", "Gc", "Lac", "Pyr", "Fer", "Cin", "Tr", "Fmoc", "Ns", "oNB"]


def decorate(r, t, p_mod):
    """put a modification on a free position of some residues (the position is then no longer free)"""
    def used(node):
        return {p for _, _, p, _ in node.kids}
    def walk(node, is_root):
        if node.name in T.CORE[:12] and "N" not in node.name and "5" not in node.name and r.random() < p_mod and not node.name.endswith("f"):
            c, oh, nh, cls = T.RES[node.name]
            free = [p for p in oh if p not in used(node)]
            if free:
                p = r.choice(free)
                newname = f"{node.name}{p}{r.choice(MODS)}"
                T.RES[newname] = (c, tuple(x for x in oh if x != p), nh, cls + "-mod")
                node.name = newname
        for _, _, _, k in node.kids:
            walk(k, False)
    walk(t, True)
    return t


def res_names(t, anomer=None):
    out = [t.name + ((" " + anomer) if anomer else "")]
    for an, c, p, k in t.kids:
        out += res_names(k, an)
    return out


def enc_tree(t, single, anomer=None, root_suffix=""):
    nm = t.name + ((" " + anomer) if anomer else root_suffix)
    s = P.hx(single[nm]) + ";" + str(len(t.kids)) + ";"
    for an, c, p, k in t.kids:
        s += str(p) + ";" + enc_tree(k, single, an)
    return s

def shape_twins(r, n):
    """trees with two arms made of the same residues and the same linkages, one branched and one linear:
    R[ X[A(3), B(4)] (3) , X[A(3)[B(4)]] (6) ] -- anything that summarises a subtree without its shape confuses them"""
    out = []
    for _ in range(n):
        x = r.choice(["GlcNAc", "Man", "Gal", "Glc"])
        a, b = r.sample(["Fuc", "Gal", "Man", "Glc", "Xyl", "Rha"], 2)
        la, lb = r.choice("ab"), r.choice("ab")
        lx = r.choice("ab")
        pa, pb = r.sample([3, 4], 2) if x != "GlcNAc" else (3, 4)
        if pb not in T.RES[a][1]:
            pa, pb = pb, pa
        if pb not in T.RES[a][1] or pa not in T.RES[x][1] or pb not in T.RES[x][1]:
            continue
        branched = T.Node(x, [(la, 1, pa, T.Node(a)), (lb, 1, pb, T.Node(b))])
        linear = T.Node(x, [(la, 1, pa, T.Node(a, [(lb, 1, pb, T.Node(b))]))])
        arms = [(lx, 1, 3, branched), (lx, 1, 6, linear)]
        if r.random() < 0.5:
            arms.reverse()
            arms = [(arms[0][0], 1, 3, arms[0][3]), (arms[1][0], 1, 6, arms[1][3])]
        out.append(T.Node(r.choice(["Gal", "Man", "Glc"]), arms))
    return out

def bicyclic_roots(r, n):
    """1,6-anhydro reducing ends with two or three substituents, one of them a chain: which of them is written as the
    main chain (and is therefore walked last) must not matter"""
    out = []
    for _ in range(n):
        root = r.choice(["1,6-Anhydro-Glc", "1,6-Anhydro-Gal"])
        poss = r.sample([2, 3, 4], r.choice([2, 3]))
        kids = []
        for i, p_ in enumerate(poss):
            leaf = T.Node(r.choice(["Man", "Fuc", "Gal", "Xyl"]))
            if i == 0:
                kids.append((r.choice("ab"), 1, p_, T.Node(r.choice(["Gal", "Glc", "Man"]), [(r.choice("ab"), 1, r.choice([2, 3]), leaf)])))
            else:
                kids.append((r.choice("ab"), 1, p_, leaf))
        r.shuffle(kids)
        out.append(T.Node(root, kids))
    return out


def make_trees(r, tier):
    n = 60 if tier == "quick" else 600
    out = []
    for i in range(n):
        size = r.randint(2, 7) if tier == "quick" else r.randint(2, 12)
        k = i % 5
        if k == 0:
            t = T.random_tree(r, size, p_branch=0.6)                       # bushy: 3- and 4-way branching
        elif k == 1:
            t = T.random_tree(r, size, p_branch=0.1)                       # chains
        elif k == 2:
            t = decorate(r, T.random_tree(r, size, p_branch=0.4), 0.5)     # modified residues
        elif k == 3:
            t = T.random_tree(r, size, root_names=["Glc-ol", "Man-ol", "Gal-ol", "Xyl-ol"])
        else:
            # the same sugar in both ring forms / ketoses / N-linked parents side by side
            t = T.random_tree(r, size, names=["Gal", "Galf", "Ara", "Araf", "Xyl", "Xylf", "Glc", "Glcf", "Fruf", "Neu5Ac", "GlcN", "Kdo", "Rib", "Ribf"], p_branch=0.4)
        suffix = r.choice(["", "", " a", " b"]) if k != 3 else ""
        out.append((t, suffix))
    for t in shape_twins(r, 6 if tier == "quick" else 60) + bicyclic_roots(r, 6 if tier == "quick" else 40):
        out.append((t, ""))
    # four substituents on a non-root residue, on the root, and nested (the 12-children production of the grammar)
    four = T.Node("Glc", [("b", 1, 4, T.Node("Man", [("a", 1, 2, T.Node("Gal")), ("a", 1, 3, T.Node("Fuc")), ("b", 1, 4, T.Node("Xyl")), ("a", 2, 6, T.Node("Neu5Ac"))]))])
    out.append((four, ""))
    out.append((T.Node("Man", [("a", 1, 2, T.Node("Gal")), ("a", 1, 3, T.Node("Fuc")), ("b", 1, 4, T.Node("Xyl")), ("b", 1, 6, T.Node("GlcNAc"))]), ""))
    out.append((T.Node("Glc", [("b", 1, 3, four.kids[0][3]), ("a", 1, 6, T.Node("Man", [("a", 1, 2, T.Node("Man")), ("a", 1, 3, T.Node("Gal")), ("a", 1, 4, T.Node("Glc")), ("a", 1, 6, T.Node("Rha"))]))]), " b"))
    for perm_seed in range(3 if tier == "quick" else 12):
        names4 = r.sample(["Gal", "Fuc", "Xyl", "Man", "Glc", "GlcNAc", "Rha", "Galf"], 4)
        poss = [2, 3, 4, 6]
        r.shuffle(poss)
        mid = T.Node(r.choice(["Man", "Glc", "Gal"]), [(r.choice("ab"), 1, p, T.Node(nm)) for nm, p in zip(names4, poss)])
        out.append((T.Node("Glc", [("b", 1, r.choice([2, 3, 4, 6]), mid)]), ""))
    # parents that use more than one ring-closure label themselves: anhydro roots, residues carrying cyclic groups
    for i in range(4 if tier == "quick" else 30):
        out.append((T.random_tree(r, r.randint(2, 5), root_names=["1,6-Anhydro-Glc", "1,6-Anhydro-Gal"], p_branch=0.5), ""))
    # ... and bicyclic residues inside the tree, with one and two substituents in both writing orders
    for anh in ("3,6-Anhydro-Gal", "3,6-Anhydro-Glc"):
        for p1, p2 in ((2, 4), (4, 2)):
            mid = T.Node(anh, [("b", 1, p1, T.Node("Gal")), ("b", 1, p2, T.Node("Glc"))])
            out.append((T.Node("Gal", [("a", 1, 3, mid)]), ""))
            out.append((T.Node("Glc", [("b", 1, 4, T.Node("Man", [("a", 1, 6, mid)]))]), ""))
        out.append((T.Node("Gal", [("a", 1, 3, T.Node(anh, [("b", 1, 4, T.Node("Gal", [("a", 1, 3, T.Node(anh))]))]))]), ""))
    for tok in [x for x in ("Bz", "Bn", "Tr", "Ts", "Fmoc", "Coum", "Phthi", "Cbz", "Pyr") if x in MODS]:
        nm = f"Glc3{tok}"
        T.RES[nm] = (1, (2, 4, 6), (), "hexp-mod")
        mid = T.Node(nm, [("b", 1, 4, T.Node("Gal", [("a", 1, 3, T.Node("Man"))])), ("a", 1, 2, T.Node("Fuc"))])
        out.append((T.Node("Glc", [("b", 1, 4, mid)]), ""))
    # every modification token once on a non-root residue (quick: the fixed list; thorough: a second position too)
    for tok in MODS:
        for pos, link in ((3, 4), (6, 2)) if tier == "thorough" else (((3, 4),) if len(out) % 2 else ((6, 2),)):
            nm = f"Glc{pos}{tok}"
            T.RES[nm] = (1, tuple(x for x in (2, 3, 4, 6) if x != pos), (), "hexp-mod")
            child = T.Node(nm)
            mid = T.Node("Gal", [(r.choice("ab"), 1, link, child)])
            out.append((T.Node("Glc", [("b", 1, 4, mid)]), ""))
    return out


def run(tier):
    res = C.build()
    report = C.Report(PROP, tier)
    ob, dis, names_thm, broken = C.proof_gate(report, res, PROP, DEPS)
    orc = chem.Oracle()
    r = C.rng(PROP)
    trees = make_trees(r, tier)
    # the reducing-end anomer given by the root_orientation option instead of the suffix: same glycan, so the same
    # specification (tree with the suffixed root); includes roots whose anomeric oxygen itself carries a child
    by_option = {}
    n0 = len(trees)
    for root, c1, poss in (("Araf", 1, (1, 2, 3, 5)), ("Sorf", 2, (2, 1, 3)), ("Kdn", 2, (2, 4, 8)), ("Glc", 1, (1, 4)), ("Fruf", 2, (2, 1)),
                           ("Neu5Ac", 2, (2, 8)), ("Galf", 1, (1, 5)), ("Pen", 1, (1, 2))):
        T.RES.setdefault(root, (c1, tuple(poss), (), "opt-root"))
        for p_ in (poss if tier == "thorough" else poss[:2]):
            for an in "ab":
                by_option[len(trees)] = an
                trees.append((T.Node(root, [(r.choice("ab"), 1, p_, T.Node(r.choice(["Glc", "Gal", "Man"])))]), " " + an))
    # ... and ordinary trees with the anomer by option, assembled at construction or on demand (tree_only / full=False)
    lazy = {}
    for i in range(n0):
        t_, sfx_ = trees[i]
        if sfx_.strip() in ("a", "b") and r.random() < 0.3:
            by_option[i] = sfx_.strip()
    for i in by_option:
        lazy[i] = r.choice([{}, {"tree_only": True}, {"full": False}])
    texts = [(T.render(t) if i in by_option else T.render(t) + sfx) for i, (t, sfx) in enumerate(trees)]
    names = sorted(set(n for t, sfx in trees for n in (res_names(t)[1:] + [t.name + sfx])))
    outs = C.run_impl_parallel("merge_trace", [{"iupac": x, "kw": (dict(lazy[i], root_orientation=by_option[i]) if i in by_option else {})} for i, x in enumerate(texts)])
    singles = chem.convert_all(names)
    single = {n: o["smiles"] for n, o in zip(names, singles)}
    stats = {"denotes": 0, "nospec": 0, "noref": 0, "nodes_compared": 0}
    model_bad = []
    orc.close()
    # the extracted Coq functions run in a pool of driver processes (one per thread); results are reported in order
    import threading
    from concurrent.futures import ThreadPoolExecutor
    local = threading.local()
    pool_orcs = []

    def judge(i):
        if not hasattr(local, "orc"):
            local.orc = chem.Oracle()
            pool_orcs.append(local.orc)
        drv = local.orc.drv
        (t, sfx), txt, o = trees[i], texts[i], outs[i]
        need = res_names(t)[1:] + [t.name + sfx]
        out = {"bad": [], "nodes": 0, "verdict": None}
        # 1. correspondence of the merger model, node by node, string-exact
        for nd in o["nodes"]:
            if nd.get("raw") is None:
                continue
            out["nodes"] += 1
            rl = C.Driver.unesc(drv.call("relabel", nd["raw"], str(nd["ring_index"])))
            if rl != nd["me"]:
                out["bad"].append((txt, "relabel", nd["raw"], nd["ring_index"], rl, nd["me"]))
                continue
            ch = nd["children"]
            if any(c is None for c in ch):
                continue
            cov = drv.call("splicestr", nd["me"], *ch)
            out["thm"] = (out.get("thm", (0, 0))[0] + cov.count("1"), out.get("thm", (0, 0))[1] + len(cov))
            ans = drv.call("mergechildren", nd["me"], *ch).split("\t")
            if ans[0] == "RAISE":
                if "exc" not in nd:
                    out["bad"].append((txt, "merge", nd["me"], ch, "RAISE", nd.get("result")))
            elif "result" not in nd or C.Driver.unesc(ans[1]) != nd["result"]:
                out["bad"].append((txt, "merge", nd["me"], ch, C.Driver.unesc(ans[1]), nd.get("result"), nd.get("exc")))
        # 2. the property: the output denotes the glycan that was written
        if any(not single.get(n) for n in need):
            out["verdict"] = ("noref",)
            return out
        enc = enc_tree(t, single, None, sfx)
        if not o["smiles"]:
            out["verdict"] = ("empty", drv.call("specmol", enc))
            return out
        out["verdict"] = ("denotes", drv.call("denotes", o["smiles"], enc))
        return out

    with ThreadPoolExecutor(max_workers=12) as ex:
        judged = list(ex.map(judge, range(len(trees))))
    for x in pool_orcs:
        x.close()
    for (t, sfx), txt, o, j in zip(trees, texts, outs, judged):
        need = res_names(t)[1:] + [t.name + sfx]
        report.case(txt, t.size() >= 3, {"glycan": txt, "residues": t.size(), "depth": t.depth()} if stats["denotes"] < 5 else None)
        stats["nodes_compared"] += j["nodes"]
        stats["substitutions"] = stats.get("substitutions", 0) + j.get("thm", (0, 0))[1]
        stats["substitutions_covered_by_merge_child_is_substitution"] = stats.get("substitutions_covered_by_merge_child_is_substitution", 0) + j.get("thm", (0, 0))[0]
        model_bad.extend(j["bad"])
        v = j["verdict"]
        if v[0] == "noref":
            stats["noref"] += 1
        elif v[0] == "empty":
            if v[1] == "1":
                report.fail({"site": "assembly", "kind": "empty", "why": (o["exc"] or "gate").split(":")[0]},
                            {"glycan": txt, "problem": "a well-formed glycan came back empty", "exc": o["exc"],
                             "nodes": o["nodes"][-3:], "replay_cmd": "./check C01 --replay <this file>"})
            else:
                stats["nospec"] += 1
        elif v[1] == "1":
            stats["denotes"] += 1
        elif v[1] in ("NOSPEC", "TIMEOUT"):
            stats["nospec" if v[1] == "NOSPEC" else "undecided_timeout"] = stats.get("nospec" if v[1] == "NOSPEC" else "undecided_timeout", 0) + 1
        else:
            report.fail({"site": "assembly", "kind": "wrong-molecule" if v[1] == "0" else v[1]},
                        {"glycan": txt, "observed": o["smiles"], "residues": {n: single[n] for n in need},
                         "problem": "the returned SMILES is not the molecule obtained by joining the individually converted residues as the linkages say",
                         "replay_cmd": "./check C01 --replay <this file>"})
    if broken and not report.violations:
        report.fail({"site": "proof", "kind": "obligation-broken"},
                    {"no_failing_input": True, "what_no_longer_checks": broken, "theorems": names_thm})
    elif model_bad and not report.violations:
        report.fail({"site": "correspondence", "kind": "merger-model-differs"},
                    {"no_failing_input": True,
                     "what_no_longer_checks": "Model/Merger.v (relabel, merge_children, sanitize) vs Monomer.to_smiles / Merger.merge_int, string-exact per node",
                     "first": [str(x)[:400] for x in model_bad[0]], "count": len(model_bad)})
    report.assumptions = ["the reference residues are the library's own conversions of the single residues (with the linkage's anomer)",
                          "Spec/Graft.v defines carbon numbering and condensation on graphs; for open-chain roots both numbering directions are accepted",
                          "RDKit's rooted SMILES of each marked residue is taken as data (oracle), recorded per node"]
    extra = {"rule": "random trees (bushy / chains / modified residues / alditol roots / mixed ring forms, ketoses, N-linked parents) x root anomer; distinct glycan strings, non-trivial = at least 3 residues",
             **stats, "print_assumptions": res.assumptions.get(f"Props/{PROP}.v", "").strip().splitlines()[-5:],
             "partial": "the for-all-trees assembly theorem is not proved yet; denotes() is evaluated per input in extracted Coq"}
    return report.finish("proof", ob, dis, names_thm, trusted=C.TRUSTED, extra=extra)


def replay(path):
    rp = json.load(open(path))
    o = chem.convert_all([rp["glycan"]])[0]
    print(json.dumps({"glycan": rp["glycan"], "now": o}, indent=1))
    return 1 if (not o["smiles"] or o["smiles"] == rp.get("observed")) else 0
