"""C12 Every delivery path and every worker count gives the same answer."""
import json
import os
import sys

sys.path.insert(0, os.path.dirname(os.path.dirname(os.path.abspath(__file__))))
import common as C          # noqa: E402
import gen as G             # noqa: E402
import pylite_io as P       # noqa: E402

PROP = "C12"
DEPS = ["Gen/Converter.v", "Gen/Sites.v", "Model/PyLite.v", "Proofs/PyLiteLemmas.v", "Proofs/ConverterThm.v",
        "Proofs/ConverterSinks.v"]


def listing_input(r):
    """inputs that can stand on one line of a listing: strings without line terminators"""
    if r.random() < 0.3:
        s = G.bad_string(r)
        for ch in "\n\r\x0b\x0c\x1c\x1d\x1e\x85  ":
            s = s.replace(ch, "")
        return {"t": "str", "v": s}
    return G.good_value(r)


def make_batches(r, tier):
    batches = []
    sizes = [3, 7, 24, 40] if tier == "quick" else [3, 5, 9, 24, 40, 64, 130, 300]
    for n in sizes:
        reps = 2 if tier == "quick" else 3
        for _ in range(reps):
            vals = [listing_input(r) for _ in range(n)]
            k = r.randint(0, 3)
            b = {"full": True}
            if k == 0:
                b["glycan_list"] = vals
            elif k == 1:
                b["gen"] = vals
            elif k == 2:
                cut = r.randint(0, n)
                b["glycan_list"], b["gen"] = vals[:cut], vals[cut:]
            else:
                cut = r.randint(1, n)
                b["glycan"] = vals[0]
                b["glycan_list"] = vals[1:cut]
                b["file_lines"] = [v["v"] for v in vals[cut:] if v["v"].strip() == v["v"] or True]
            batches.append(b)
    # batches in which an input is followed by relatives that walk through the same library entries (open forms with and
    # without a changed chain length, acids, D-/L- heads): the answer must not depend on what a worker converted before
    fam = ["Man-ol", "ManHep-ol", "Man-ol", "Gal-ol", "GalOct-ol", "Man-onic", "3dManOct-ulosonic", "Man(a1-4)Man-ol", "Gal-ol", "Man-onic",
           "L-Man-ol", "Man-ol", "XylHex-ol", "Xyl-ol", "Glc-aric", "GlcHep-ol", "Glc-ol", "Glc-aric", "L-Fuc", "Fuc", "D-Fuc", "Fuc a",
           "3,6-Anhydro-Gal", "Gal", "1,6-Anhydro-Glc", "Glc", "Glc4e", "Glc", "Gal4e", "Neu5Ac", "Neu5Gc", "Neu", "Kdo-ol", "Kdo"]
    for rep in range(1 if tier == "quick" else 3):
        vals = [{"t": "str", "v": x} for x in (fam if rep == 0 else r.sample(fam * 2, len(fam) * 2))]
        batches.append({"full": True, "glycan_list": vals})
        batches.append({"full": True, "gen": list(reversed(vals))})
    return batches


def expand(batch, tier):
    modes = [("return", 1), ("generator", 1), ("file", 1), ("stdout", 1), ("baddir", 1), ("return", 2), ("file", 4),
             ("return", -1), ("stdout", 2)]
    if tier == "thorough":
        modes += [("return", 4), ("return", 16), ("file", 2), ("file", 16), ("file", -1), ("stdout", 4), ("generator", 2)]
    out = []
    for m, cpu in modes:
        c = dict(batch)
        c.update({"mode": m, "cpu_count": cpu, "verbose": "none"})
        out.append(c)
    return out


def fmt_lines(exp):
    def s(v):
        return "None" if v["t"] == "none" else str(v["v"])
    return "".join(f"{s(a)},{b}\n" for a, b in exp)


def check_case(report, case, res):
    key = json.dumps(case, sort_keys=True)
    exp = res.get("expected", [])
    nontrivial = len(exp) >= 3 and len(set(json.dumps(e[0]) for e in exp)) >= 2
    report.case(key, nontrivial, None)
    if "harness_error" in res:
        raise RuntimeError(res["harness_error"])
    problems = []
    m = case["mode"]
    if res["exc"] is not None:
        problems.append(("raised", "raised " + res["exc"]))
    elif m in ("return", "generator"):
        got = res["pairs"]
        if got is None and exp:
            problems.append(("pairs", "returned None"))
        elif got is not None and got != exp:
            problems.append(("pairs", "pairs differ from the single conversions of the inputs, in input order"))
        if res["stdout"] != "":
            problems.append(("stdout-noise", f"{m} mode wrote to standard output: {res['stdout'][:80]!r}"))
    elif m == "file":
        want = fmt_lines(exp)
        if exp and res["file"] != want:
            problems.append(("file-listing", "output file is not exactly one line 'input,SMILES' per input in input order"))
        if res["stdout"] != "":
            problems.append(("stdout-noise", f"file mode wrote to standard output: {res['stdout'][:80]!r}"))
    elif m in ("stdout", "baddir"):
        want = fmt_lines(exp)
        if res["stdout"] != want:
            problems.append(("stdout-listing", "standard output is not exactly one line 'input,SMILES' per input in input order"))
        if res.get("stdout_closed"):
            problems.append(("stdout-closed", "standard output was closed by the call"))
    for kind, text in problems:
        report.fail({"site": "converter", "kind": kind, "mode": m, "cpu": "1" if case["cpu_count"] == 1 else "parallel"},
                    {"case": case, "problem": text, "observed": {k: res.get(k) for k in ("pairs", "file", "stdout", "exc")},
                     "expected_pairs": exp, "replay_cmd": "./check C12 --replay <this file>"})
    return not problems


def model_case(drv, case, res):
    if case["mode"] not in ("file", "stdout", "baddir"):
        return None
    vals = ([case["glycan"]] if case.get("glycan") else []) + (case.get("glycan_list") or []) + (case.get("gen") or [])
    if not all(P.representable(v) for v in vals):
        return None
    if case.get("file_lines") is not None and not all(all(ord(c) < 128 for c in ln) for ln in case["file_lines"]):
        return None
    files, fpath = [], None
    if case.get("file_lines") is not None:
        fpath = "in.txt"
        files.append((fpath, [ln + "\n" for ln in case["file_lines"]]))
    table = [(e[0], True, e[1]) for e in res["expected"]]
    g = case.get("glycan") or {"t": "none"}
    l = {"t": "pylist", "v": case["glycan_list"]} if case.get("glycan_list") is not None else {"t": "none"}
    f = {"t": "str", "v": fpath} if fpath else {"t": "none"}
    ge = {"t": "gen", "v": case["gen"]} if case.get("gen") is not None else {"t": "none"}
    ofile = {"t": "none"} if case["mode"] == "stdout" else {"t": "str", "v": "out.txt"}
    ok_paths = ["out.txt"] if case["mode"] == "file" else []
    args = [g, l, f, ge, ofile, {"t": "bool", "v": False}, {"t": "none"}, {"t": "int", "v": case["cpu_count"]},
            {"t": "bool", "v": True}]
    out = drv.call("pycall", "convert", P.enc_value({"t": "pylist", "v": args}), P.enc_world(files, ok_paths),
                   P.enc_conv(table), "0")
    parts = out.split("\t")
    if len(parts) < 3 or not parts[0].startswith("ok"):
        return f"model answered {out[:200]}"
    wd = P.dec_world(parts[2])
    if case["mode"] == "file":
        model_text = "".join(x + "\n" for x in wd["files"].get("out.txt", [])) if "out.txt" in wd["files"] else None
        impl_text = res["file"]
        if not res["expected"]:
            return "ok"
    else:
        model_text = "".join(x + "\n" for x in wd["stdout"])
        impl_text = res["stdout"]
    if wd["closed"]:
        return "model closes standard output"
    if model_text != impl_text:
        return f"model listing {str(model_text)[:200]!r} differs from implementation listing {str(impl_text)[:200]!r}"
    return "ok"


def run(tier):
    res = C.build()
    report = C.Report(PROP, tier)
    ob, dis, names, broken = C.proof_gate(report, res, PROP, DEPS)
    r = C.rng(PROP)
    cases = [c for b in make_batches(r, tier) for c in expand(b, tier)]
    tmp = os.path.join(C.BUILD, "tmp_c12")
    # parallel cases spawn their own workers: keep the number of concurrent runners low for those
    seq = [c for c in cases if c["cpu_count"] == 1]
    par = [c for c in cases if c["cpu_count"] != 1]
    results = {}
    for group, workers in ((seq, 12), (par, 3)):
        out = C.run_impl_parallel("batch", group, extra={"tmp": tmp}, workers=workers)
        for c, o in zip(group, out):
            results[id(c)] = o
    drv = C.Driver() if os.path.exists(C.DRIVER) else None
    n_model, model_bad = 0, []
    for c in cases:
        rs = results[id(c)]
        ok = check_case(report, c, rs)
        if drv is not None and "Gen/Converter.v" in res.ok_files and ok:
            m = model_case(drv, c, rs)
            if m is not None:
                n_model += 1
                if m != "ok":
                    model_bad.append((c, m))
    if drv:
        drv.close()
    # the delivery paths and worker counts of one batch against each other (not only against the single conversions)
    by_batch = {}
    for c in cases:
        key = json.dumps({k: v for k, v in c.items() if k not in ("mode", "cpu_count", "verbose")}, sort_keys=True)
        by_batch.setdefault(key, []).append(c)
    n_cross = 0
    for key, group in by_batch.items():
        views = []
        for c in group:
            rs = results[id(c)]
            if rs.get("exc") is not None:
                continue
            if c["mode"] in ("return", "generator") and rs.get("pairs") is not None:
                views.append((c, fmt_lines(rs["pairs"])))
            elif c["mode"] == "file" and rs.get("file") is not None:
                views.append((c, rs["file"]))
            elif c["mode"] in ("stdout", "baddir"):
                views.append((c, rs["stdout"]))
        for c, text in views[1:]:
            n_cross += 1
            if text != views[0][1]:
                report.fail({"site": "converter", "kind": "paths-disagree", "mode": c["mode"], "cpu": "1" if c["cpu_count"] == 1 else "parallel"},
                            {"case": c, "reference_path": {"mode": views[0][0]["mode"], "cpu_count": views[0][0]["cpu_count"]},
                             "listing": text[:3000], "reference_listing": views[0][1][:3000],
                             "problem": "two delivery paths / worker counts of the same batch give different listings"})
    if len(report.cov["samples"]) == 0:
        report.cov["samples"] = [{"mode": c["mode"], "cpu_count": c["cpu_count"],
                                  "n_inputs": len(results[id(c)].get("expected", []))} for c in cases[:6]]
    if broken and not report.violations:
        report.fail({"site": "proof", "kind": "obligation-broken"},
                    {"no_failing_input": True, "what_no_longer_checks": broken, "theorems": names,
                     "searched": f"{len(cases)} batch x mode x cpu_count runs, all agree"})
    elif model_bad and not report.violations:
        report.fail({"site": "correspondence", "kind": "model-differs"},
                    {"no_failing_input": True,
                     "what_no_longer_checks": "Gen/Converter.v run in the extracted interpreter vs glyles.convert (file / stdout listing)",
                     "first": {"case": model_bad[0][0], "difference": model_bad[0][1]}, "count": len(model_bad)})
    report.assumptions = ["A-joblib: results come back in submission order and workers do not change the parent's state (the model maps sequentially); worker scheduling itself is outside the model and is only sampled here (cpu_count in the evidence)",
                          "inputs of listings contain no line terminator (an input with a newline cannot be echoed on one line by any implementation)"]
    extra = {"rule": "batches of 3..40 (quick) / 3..300 (thorough) inputs x {return, generator, file, stdout, missing-directory} x cpu_count in {1,2,4,16,-1}; non-trivial = at least 3 inputs, 2 distinct",
             "model_runs_compared_with_impl": n_model,
             "cpu_counts": sorted(set(c["cpu_count"] for c in cases)),
             "print_assumptions": res.assumptions.get(f"Props/{PROP}.v", "").strip().splitlines()[-6:],
             "explanation": "listing format / agreement of sinks proved over the regenerated converter term; worker counts and the real sinks are compared by running the implementation"}
    return report.finish("proof", ob, dis, names, trusted=C.TRUSTED, extra=extra)


def replay(path):
    rp = json.load(open(path))
    out = C.run_impl("batch", {"items": [rp["case"]], "tmp": os.path.join(C.BUILD, "tmp_replay")})["results"][0]
    rep = C.Report(PROP, "quick")
    ok = check_case(rep, rp["case"], out)
    print(json.dumps({k: out.get(k) for k in ("pairs", "file", "stdout", "exc")}, indent=1)[:3000])
    print("property holds on this input" if ok else "property FAILS on this input")
    return 0 if ok else 1
