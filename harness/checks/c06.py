"""C06 The three notations are one language."""
import json
import os
import sys

sys.path.insert(0, os.path.dirname(os.path.dirname(os.path.abspath(__file__))))
import common as C          # noqa: E402
import gtree as T           # noqa: E402
import chem                 # noqa: E402

PROP = "C06"
DEPS = ["Model/Edge.v", "Gen/Tables.v", "Spec/Iso.v", "Gen/Methods.v", "Proofs/MethodsThm.v"]
KETOSES = {"Neu5Ac": "Neu", "Neu5Gc": "Neu", "Kdo": "Kdo", "Kdn": "Kdn", "Fruf": "Fru", "Neu": "Neu", "Fru": "Fru", "Sor": "Sor", "Tag": "Tag",
           "Psi": "Psi", "Leg": "Leg", "Pse": "Pse", "Aci": "Aci", "Dha": "Dha", "Ko": "Ko"}


def run(tier):
    res = C.build()
    report = C.Report(PROP, tier)
    ob, dis, names_thm, broken = C.proof_gate(report, res, PROP, DEPS)
    orc = chem.Oracle()
    r = C.rng(PROP)
    # 1. every connection form: anomer symbol x child position x parent position, aldose and ketose children
    cons = []
    children = ["Man", "Gal", "Fuc", "Xyl", "Galf", "GlcNAc"] + ["Neu5Ac", "Kdo", "Fruf", "Kdn"]
    parents = ["Glc", "Gal", "GlcNAc", "Man"]
    for ch in (children if tier == "thorough" else r.sample(children[:6], 3) + ["Neu5Ac", "Kdo", "Fruf"]):
        cpos = 2 if ch in KETOSES else 1
        for an in "ab?":
            for ppos in ([2, 3, 4, 6] if tier == "thorough" else r.sample([2, 3, 4, 6], 2)):
                par = r.choice(parents)
                if par == "GlcNAc" and ppos == 2:
                    ppos = 3
                full = f"{ch}({an}{cpos}-{ppos}){par}"
                cons.append((ch, an, cpos, ppos, par, full, f"{ch}{an}{cpos}-{ppos}{par}", f"{ch}{an}{ppos}{par}"))
    texts = sorted(set(x for c in cons for x in c[5:]))
    tree_out = dict(zip(texts, C.run_impl_parallel("trees", texts)))
    conv_out = dict(zip(texts, chem.convert_all(texts)))
    lib = {}
    for rec in orc.drv.call("librows").split("\x1f"):
        t, key, name, cfg, iso, lac, smi = rec.split("\x1e")
        lib.setdefault(name, int(lac))
    n_edges = 0
    for ch, an, cpos, ppos, par, full, nopar, short in cons:
        base = KETOSES.get(ch, ch.rstrip("f"))
        lact = 5 if ch.endswith("f") else 6
        for form, written in ((full, f"({an}{cpos}-{ppos})"), (nopar, f"{an}{cpos}-{ppos}"), (short, f"{an}{ppos}")):
            o = tree_out[form]
            report.case(form, ch in KETOSES, {"written": form} if n_edges < 6 else None)
            if not o.get("accepted") or len(o.get("edges", [])) != 1:
                report.fail({"site": "parser", "kind": "form-rejected", "form": "short" if form == short else "nopar" if form == nopar else "full"},
                            {"input": form, "observed": o})
                continue
            n_edges += 1
            lab = o["edges"][0][2]
            model = orc.drv.call("addedge", "code", base, str(lact), written)
            spec = orc.drv.call("addedge", "spec", base, str(lact), written)
            if lab != model:
                report.fail({"site": "correspondence", "kind": "add-edge-model-differs"},
                            {"no_failing_input": True, "input": form, "library_label": lab, "model_label": model,
                             "what_no_longer_checks": "Model/Edge.add_edge vs TreeWalker.__add_edge (edge label, string-exact)"})
            if lab != spec:
                report.fail({"site": "walker.__add_edge", "kind": "child-position-default", "child": base if ch in KETOSES else "aldose"},
                            {"input": form, "library_label": lab, "expected_label": spec,
                             "problem": "a linkage written without the child's position does not default to the sugar's anomeric carbon",
                             "replay_cmd": "./check C06 --replay <this file>"})
        # the three notations give one molecule (only meaningful for determined anomers)
        if an != "?":
            a, b, c = (conv_out[x]["smiles"] for x in (full, nopar, short))
            if a and b and not orc.same(a, b):
                report.fail({"site": "notation", "kind": "nopar-differs"}, {"full": full, "nopar": nopar, "results": [a, b]})
            if a and c and not orc.same(a, c):
                report.fail({"site": "notation", "kind": "short-differs", "child": base if ch in KETOSES else "aldose"},
                            {"full": full, "short": short, "results": [a, c],
                             "problem": "short and full notation of the same linkage give different molecules"})
            if bool(a) != bool(c) or bool(a) != bool(b):
                report.fail({"site": "notation", "kind": "empty-vs-molecule", "child": base if ch in KETOSES else "aldose"},
                            {"full": full, "nopar": nopar, "short": short, "results": [a, b, c]})
    # 2. random trees in the three notations (aldose-only vocabulary: ketoses are covered above)
    ntrees = 12 if tier == "quick" else 150
    names = [n for n in T.CORE if n not in KETOSES and T.RES[n][0] == 1]
    trees = [T.random_tree(r, r.randint(2, 6), names=names, p_branch=0.4) for _ in range(ntrees)]
    forms = [(T.render(t, "full"), T.render(t, "nopar"), T.render(t, "short")) for t in trees]
    flat = sorted(set(x for f in forms for x in f))
    out = dict(zip(flat, chem.convert_all(flat)))
    for f in forms:
        a, b, c = (out[x]["smiles"] for x in f)
        report.case(f[2], True)
        if not (a and b and c and orc.same(a, b) and orc.same(a, c)):
            report.fail({"site": "notation", "kind": "tree-notations-differ"}, {"full": f[0], "nopar": f[1], "short": f[2], "results": [a, b, c]})
    # 3. spelled-out defaults: pyranose 'p', own D-/L- series, anomer as suffix 'a' or ' a'
    spell = []
    for rec in orc.drv.call("librows").split("\x1f"):
        t, key, name, cfg, iso, lac, smi = rec.split("\x1e")
        if t != "p" or int(cfg) != 0 or name in ("Unk", "Suc", "Api"):
            continue
        spell.append((name, name + "p", None))
        if int(iso) in (0, 1):
            own = ("D-" if int(iso) == 0 else "L-") + name
            spell.append((name, own, None))
            spell.append((name + " a", own + " a", None))
            spell.append((name + " b", own + "p b", None))
            spell.append((name + "(a1-3)Gal", own + "(a1-3)Gal", None))
            spell.append((name + "(b1-4)Glc", own + "p(b1-4)Glc", None))
            # ... and on the open forms, alone and as reducing end in the three linkage notations
            for sfx_ in ("-ol", "-onic", "-aric"):
                spell.append((name + sfx_, own + sfx_, None))
            spell.append((f"Gal(b1-4){name}-ol", f"Gal(b1-4){own}-ol", None))
            spell.append((f"Gal(b1-4){name}-ol", f"Galb1-4{own}-ol", None))
            spell.append((f"Gal(b1-4){name}-ol", f"Galb4{own}-ol", None))
        spell.append((name + " a", name + "a", None))
        spell.append((name + " b", name + "pb", None))
    if tier == "quick":
        spell = r.sample(spell, 160) + [x for x in spell if x[0].startswith('Ido') or x[0].endswith('Ido-ol')]
    # ... and inside whole glycans: the reducing-end anomer as suffix or after a blank, the own series and 'p' on inner
    # residues; in particular glycans in which the reducing-end sugar occurs again, bound with the other anomer
    whole = []
    for nm in (["Glc", "Man", "Gal", "GlcNAc", "Fuc", "Xyl", "Neu5Ac", "Galf", "Rha", "Kdo"] if tier == "quick" else sorted(n for n in T.RES if T.RES[n][3] != "lib")):
        c1, oh = T.RES[nm][0], T.RES[nm][1]
        for an, opp in (("a", "b"), ("b", "a")):
            g = f"{nm}({opp}{c1}-{oh[-1]}){nm}"
            whole.append((g + " " + an, g + an, None))
            g3 = f"{nm}({opp}{c1}-{oh[0]})[Gal(b1-{oh[-1]})]{nm}"
            whole.append((g3 + " " + an, g3 + an, None))
    for _ in range(10 if tier == "quick" else 150):
        t = T.random_tree(r, r.randint(2, 6), p_branch=0.4)
        g = T.render(t)
        an = r.choice("ab")
        whole.append((g + " " + an, g + an, None))
        whole.append((g, T.render(t).replace("Glc(", "Glcp(").replace("Man(", "D-Manp(").replace("Fuc(", "L-Fuc("), None))
    for base_, own_ in (("Man", "D-"), ("Gal", "D-"), ("Glc", "D-"), ("Ara", "L-"), ("Xyl", "D-"), ("Alt", "L-") if False else ("Tal", "D-")):
        for sz in ("Hep", "Oct", "Hex"):
            if sz == "Hex" and base_ not in ("Ara", "Xyl"):
                continue
            whole.append((f"{base_}{sz}(a1-3)Glc", f"{own_}{base_}{sz}(a1-3)Glc", None))
            whole.append((f"Gal(b1-4)[{base_}{sz}(a1-3)]GlcNAc b", f"Gal(b1-4)[{own_}{base_}{sz}(a1-3)]GlcNAc b", None))
            whole.append((f"{base_}{sz}", f"{own_}{base_}{sz}", None))
    spell += whole
    flat = sorted(set(x for s in spell for x in s[:2]))
    out = dict(zip(flat, chem.convert_all(flat)))
    for a, b, _ in spell:
        report.case(a + "=" + b, True)
        x, y = out[a]["smiles"], out[b]["smiles"]
        if bool(x) != bool(y) or (x and not orc.same(x, y)):
            report.fail({"site": "defaults", "kind": "spelled-out-default-differs", "pair": a + "|" + b},
                        {"plain": a, "spelled_out": b, "results": [x, y]})
    # the same spellings read from a glycan file (the blank-separated anomer must survive the file channel)
    fl = sorted(set(x for a, b, _ in whole for x in (a, b)))
    fo = C.run_impl("convert_file", {"items": fl, "tmp": os.path.join(C.BUILD, "tmp_c06")})["results"]
    if len(fo) != len(fl):
        report.fail({"site": "defaults", "kind": "file-channel-count"}, {"lines": len(fl), "results": len(fo)})
    else:
        for ln, o in zip(fl, fo):
            report.case("file:" + ln, True)
            x = out[ln]["smiles"]
            y = o.get("smiles")
            if bool(x) != bool(y) or (x and not orc.same(x, y)):
                report.fail({"site": "defaults", "kind": "file-channel-differs"},
                            {"line": ln, "from_file": y, "echo": o.get("echo"), "direct": x,
                             "problem": "a glycan read from a glycan file gives another molecule than the same text converted directly"})
    orc.close()
    if broken and not report.violations:
        report.fail({"site": "proof", "kind": "obligation-broken"},
                    {"no_failing_input": True, "what_no_longer_checks": broken, "theorems": names_thm})
    report.assumptions = ["molecule identity is Iso.same_molecule (extracted Coq)"]
    extra = {"rule": "every connection form (anomer a/b/? x child position written or not x parent positions) on aldose and 2-ketose children, compared as edge labels (against the model and the specification) and as molecules; random trees in full / parenthesis-free / short notation; spelled-out defaults for every library code and inside whole glycans (reducing-end anomer as suffix / after a blank with the same sugar bound by the other anomer elsewhere; 'p' and own series on inner residues; own series on open forms -ol / -onic / -aric, alone and as reducing end in the three notations)",
             "edge_labels_compared": n_edges, "print_assumptions": res.assumptions.get(f"Props/{PROP}.v", "").strip().splitlines()[-4:]}
    return report.finish("proof", ob, dis, names_thm, trusted=C.TRUSTED, extra=extra)


def replay(path):
    rp = json.load(open(path))
    print(json.dumps(rp, indent=1)[:2000])
    key = rp.get("input") or rp.get("short")
    o = C.run_impl("trees", {"items": [key]})["results"][0]
    print("now:", o.get("edges"))
    return 1
