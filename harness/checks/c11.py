"""C11 Conversions do not influence each other or the host process."""
import json
import os
import sys
from concurrent.futures import ThreadPoolExecutor

sys.path.insert(0, os.path.dirname(os.path.dirname(os.path.abspath(__file__))))
import common as C          # noqa: E402
import gen as G             # noqa: E402
import gtree as T           # noqa: E402

PROP = "C11"
DEPS = ["Gen/Converter.v", "Gen/Sites.v", "Model/PyLite.v", "Proofs/ConverterThm.v", "Proofs/HistoryThm.v"]

# inputs that walk through the different code paths that touch shared objects: open forms with and without resizing,
# acids, anhydro sugars, D/L prefixes, amino sugars, modifications, failures of every kind
POOL = ["Glc", "Man(a1-4)Glc", "Gal(b1-4)GlcNAc", "Neu5Ac(a2-3)Gal(b1-4)Glc", "Man-ol", "ManHep-ol", "GalOct-ol", "XylHex-ol", "Gal-ol",
        "Xyl-ol", "Glc-onic", "Gal-aric", "LDManHep", "DDManHep", "3,6-Anhydro-Gal", "1,6-Anhydro-Glc", "L-Glc", "D-Fuc", "L-Fuc a",
        "GlcN", "GlcNAc6S", "Glc2Ac3Ac", "Man(a1-3)[Man(a1-6)]Man", "Fruf", "Kdo", "Glc6Ole", "Glc3Me", "Man(a1-4)Xyl-ol", "Glc-ulosonic",
        "GlcA", "Glc4e", "ManHep", "AraHex", "Rha-ol", "Fuc-ol", "Kdo-ol", "Mur-ol", "Api-ol", "Ery-ol", "Neu5Ac", "Sia", "Ins",
        "Glc1Me(a1-4)Glc", "Rib2OMe(b2-2)Xyl", "Fuc2Me(a2-4)Gal6A", "Glc6F", "Gal2Cl(b1-4)Glc", "Glc3N3Me", "Man4S(a1-4)Man4S",
        "Glc(a1-4)" * 70 + "Glx", "Man(a1-3)[" * 1 + "Gal(b1-4)" * 65 + "Glc", "Gal(b1-4)" * 60 + "Glc", "Glc(a1-4)" * 70 + "Fooo(a1-4)Glc",
        "Unk", "Glc(a1-?)Man", "{Man(a1-4)}Glc", "Glc#Man", "xyz", "", "Man(a1-4)", "GlcLeu", "Glc7S", "Fuc6d", "Man((a1-4)Glc"]


def make_history(r, n):
    calls = []
    for _ in range(n):
        k = r.randint(0, 9)
        pick = lambda: r.choice(POOL)
        if k <= 3:
            methods = r.choice([["get_smiles"], ["get_smiles", "get_smiles"], ["summary", "get_smiles"], ["count:Glc", "get_smiles"],
                                ["save_dot", "get_smiles"], ["get_smiles", "summary", "count:Man", "save_dot", "get_smiles"],
                                ["get_tree", "get_smiles"], ["fgcount:Ac", "get_smiles"], ["fgcount:C(=O", "get_smiles"], ["fgcount:OC|N", "get_smiles"],
                                ["fgcount:[OH]", "fgcount:S|Me|C(=O", "proton:1", "get_smiles"], ["proton:0", "fgcount:xyz", "get_smiles"]])
            kw = r.choice([{}, {}, {"full": False}, {"tree_only": True}, {"root_orientation": "a"}, {"start": 3}])
            calls.append({"op": "glycan", "iupac": pick(), "kw": kw, "methods": methods})
        elif k <= 6:
            c = {"op": "convert", "verbose": r.choice(["none", "none", "info"]), "mode": r.choice(["return", "return", "stdout", "file"])}
            shape = r.randint(0, 3)
            if shape == 3:
                c["glycan_list"] = [pick() for _ in range(r.randint(1, 3))]
                c["file_lines"] = [pick() for _ in range(r.randint(1, 3))]
            elif shape == 0:
                c["glycan"] = pick()
            elif shape == 1:
                c["glycan_list"] = [pick() for _ in range(r.randint(1, 4))]
            else:
                c["glycan"] = pick()
                c["gen"] = [pick() for _ in range(r.randint(1, 3))]
            calls.append(c)
        elif k == 7:
            calls.append({"op": "convert", "verbose": "none", "mode": "missingfile", "glycan_list": [pick()]})
        else:
            c = {"op": "convert_generator", "verbose": r.choice(["none", "none", "info"]), "glycan_list": [pick() for _ in range(r.randint(2, 5))]}
            if r.random() < 0.5:
                c["abandon"] = r.randint(1, 2)
                c["close"] = r.random() < 0.7
            calls.append(c)
    return calls


def run_history(calls, tmp):
    return C.run_impl("history", {"calls": calls, "tmp": tmp})["results"]


def run(tier):
    res = C.build()
    report = C.Report(PROP, tier)
    ob, dis, names_thm, broken = C.proof_gate(report, res, PROP, DEPS)
    r = C.rng(PROP)
    nh = 10 if tier == "quick" else 80
    histories = [make_history(r, r.randint(3, 12 if tier == "quick" else 30)) for _ in range(nh)]
    # a history that walks once through the whole pool (any write into a shared table shows in the snapshots)
    histories.append([{"op": "glycan", "iupac": x, "kw": {}, "methods": ["get_smiles"]} for x in POOL])
    tmp = os.path.join(C.BUILD, "tmp_c11")
    with ThreadPoolExecutor(max_workers=12) as ex:
        hist_out = list(ex.map(lambda h: run_history(h, tmp), histories))
    # reference: every distinct call made first in a fresh interpreter
    distinct = {}
    for h in histories:
        for c in h:
            distinct.setdefault(json.dumps(c, sort_keys=True), c)
    keys = list(distinct)
    with ThreadPoolExecutor(max_workers=14) as ex:
        ref_out = list(ex.map(lambda k: run_history([distinct[k]], tmp)[0], keys))
    ref = dict(zip(keys, ref_out))
    n_calls = 0
    for hi, (h, outs) in enumerate(zip(histories, hist_out)):
        report.case(json.dumps(h, sort_keys=True), len(h) >= 3, {"history": h[:4], "length": len(h)} if hi < 2 else None)
        for ci, (c, o) in enumerate(zip(h, outs)):
            n_calls += 1
            k = json.dumps(c, sort_keys=True)
            fresh = ref[k]
            ctx = {"history_index": hi, "position": ci, "call": c, "history_before": h[:ci]}
            if o.get("result") != fresh.get("result") or o.get("exc") != fresh.get("exc"):
                report.fail({"site": "history", "kind": "result-depends-on-history", "op": c["op"]},
                            dict(ctx, in_history=o.get("result"), fresh_interpreter=fresh.get("result"),
                                 problem="the same call gives another result after this history than in a fresh interpreter",
                                 replay_cmd="./check C11 --replay <this file>"))
            if o["tables_changed"]:
                report.fail({"site": "shared-tables", "kind": "table-mutated", "table": o["tables_changed"][0].split("[")[0]},
                            dict(ctx, changed=o["tables_changed"][:5],
                                 problem="a call modified the class-level monosaccharide / functional-group tables shared by all conversions"))
            if o["logger_disabled_after"]:
                report.fail({"site": "logger", "kind": "left-disabled", "op": c["op"], "how": "exc" if o.get("exc") else ("abandoned" if c.get("abandon") else "normal")},
                            dict(ctx, problem="logging.getLogger().disabled is still True after the call"))
            expected_stdout = ""
            if c["op"] == "convert" and c.get("mode") == "stdout" and isinstance(fresh.get("result"), str):
                expected_stdout = None      # listing: compared with the fresh run instead
            if expected_stdout is None:
                if o["stdout"] != fresh["stdout"]:
                    report.fail({"site": "stdout", "kind": "listing-depends-on-history"}, dict(ctx, got=o["stdout"], fresh=fresh["stdout"]))
            elif o["stdout"] != "":
                report.fail({"site": "stdout", "kind": "unexpected-output", "op": c["op"]},
                            dict(ctx, stdout=o["stdout"][:300], problem="the call wrote to standard output"))
            if o.get("caller_list_unchanged") is False:
                report.fail({"site": "caller-list", "kind": "modified", "op": c["op"]}, dict(ctx, problem="the caller's glycan_list was modified"))
    if broken and not report.violations:
        report.fail({"site": "proof", "kind": "obligation-broken"},
                    {"no_failing_input": True, "what_no_longer_checks": broken, "theorems": names_thm})
    report.assumptions = ["a generator that is abandoned WITHOUT being closed keeps logging disabled until it is garbage collected: the runner deletes its reference, CPython then closes it at once",
                          "logging.basicConfig (handler installation) is not among the effects the property lists"]
    # one object used repeatedly: what it returns does not depend on what was called on it before
    import gen as _G
    pool = ["Man(a1-4)Glc", "Man(a1-4)Glc6Leu", "Gal3Alloc(b1-4)GlcNAc", "Fuc(a1-?)Gal(b1-4)Glc", "Neu5Ac(a2-3)Gal(b1-4)Glc", "Glc6Leu", "Fuc6d", "Unk(a1-4)Glc",
            "Man(a1-3)[Man(a1-6)]Man(b1-4)GlcNAc", "Glc-ol", "GlcNAc6S3Leu", "{Fuc(a1-2)}Gal(b1-4)Glc"]
    kws = [{}, {"tree_only": True}, {"full": False}, {"tree_only": True, "full": False}, {"root_orientation": "a"}, {"tree_only": True, "root_orientation": "b"}, {"start": 3}]
    oitems = [{"iupac": g_, "kw": k_} for g_ in pool for k_ in kws]
    oouts = C.run_impl_parallel("object_repeat", oitems, extra={"tmp": os.path.join(C.BUILD, "tmp_c11")})
    obj_cases = 0
    for it_, o_ in zip(oitems, oouts):
        if o_.get("exc") or len(o_["smiles"]) != 3:
            continue
        obj_cases += 1
        report.case("object:" + it_["iupac"] + json.dumps(it_["kw"], sort_keys=True), True)
        if len(set(o_["smiles"])) != 1 or o_["summary_ok"][0] != o_["summary_ok"][1]:
            report.fail({"site": "glycan-object", "kind": "result-depends-on-earlier-calls", "options": json.dumps(it_["kw"], sort_keys=True)},
                        {"input": it_["iupac"], "options": it_["kw"], "get_smiles_1st_2nd_3rd": o_["smiles"], "summary_1st_2nd": o_["summary_ok"],
                         "problem": "the same object gives different results depending on what was called on it before (get_smiles, summary, count, save_dot in between)"})
    extra = {"object_reuse_cases": obj_cases, "rule": "random histories of 3-12 (quick) / 3-30 (thorough) calls of convert (return / stdout / file / missing file), convert_generator (exhausted, abandoned, closed or not), Glycan + get_smiles / summary / count / count_functional_groups (known tokens, SMILES, unparsable patterns) / count_protonation / save_dot / get_tree, over a pool of inputs covering open forms with and without resizing, acids, anhydro, D/L, amino, modifications and failures; each call is compared with the same call made first in a fresh interpreter; the shared tables and interpreter-wide settings (recursion limit, working directory, environment, logger level / handlers, warnings filters, sys.path) are snapshot after every call",
             "calls_in_histories": n_calls, "distinct_calls_run_fresh": len(keys),
             "print_assumptions": res.assumptions.get(f"Props/{PROP}.v", "").strip().splitlines()[-4:],
             "partial": "history independence of results is decided by the differential runs; proved: convert() leaves the modelled process state unchanged on the returning and the exception path, effect-site inventory"}
    return report.finish("proof", ob, dis, names_thm, trusted=C.TRUSTED, extra=extra)


def replay(path):
    rp = json.load(open(path))
    tmp = os.path.join(C.BUILD, "tmp_replay")
    h = rp["history_before"] + [rp["call"]]
    a = run_history(h, tmp)[-1]
    b = run_history([rp["call"]], tmp)[0]
    print(json.dumps({"after_history": a, "fresh": b}, indent=1)[:3000])
    ok = a.get("result") == b.get("result") and not a["tables_changed"] and not a["logger_disabled_after"]
    print("property holds on this history" if ok else "property FAILS on this history")
    return 0 if ok else 1
