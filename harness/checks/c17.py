"""C17 Command-line contract."""
import json
import os
import sys

sys.path.insert(0, os.path.dirname(os.path.dirname(os.path.abspath(__file__))))
import common as C          # noqa: E402
import gen as G             # noqa: E402
import pylite_io as P       # noqa: E402

PROP = "C17"
DEPS = ["Gen/Converter.v", "Model/PyLite.v", "Proofs/PyLiteLemmas.v", "Proofs/ConverterThm.v", "Proofs/ConverterSinks.v",
        "Proofs/CliThm.v"]


def cli_literal(r):
    """a literal glycan argument: no leading '-', no line terminators"""
    if r.random() < 0.35:
        s = G.bad_string(r)
        for ch in "\n\r\x0b\x0c\x1c\x1d\x1e\x85\x00":
            s = s.replace(ch, "")
        s = s.lstrip("-")
        if s.strip() == "" or s != s.strip():
            s = "Glc,Man"
        return s
    return r.choice(G.GOOD + ["Glc a", "Gal(b1-4)Glc b", "Glc,Man", "Man(a1-4)Glc,x"])


def cli_file_lines(r, n):
    out = []
    for _ in range(n):
        k = r.random()
        if k < 0.15:
            out.append("")                                  # blank line
        elif k < 0.3:
            out.append(" " + r.choice(G.GOOD) + " \t")     # surrounding whitespace
        elif k < 0.45:
            out.append(r.choice(["Glc a", "Gal(b1-4)Glc b", "Man b", "Glc,Man"]))   # inner whitespace / comma
        else:
            out.append(cli_literal(r))
    return out


def make_cases(r, tier):
    n = 36 if tier == "quick" else 300
    cases = []
    for i in range(n):
        files = {}
        args = []
        shape = i % 6
        if shape == 0:       # a single file
            files["a.txt"] = cli_file_lines(r, r.randint(0, 6))
            args = ["a.txt"]
        elif shape == 1:     # a single literal
            args = [cli_literal(r)]
        else:
            nfiles = r.randint(0, 3)
            for k in range(nfiles):
                files[f"f{k}.txt"] = cli_file_lines(r, r.randint(0, 5))
            items = list(files) + [cli_literal(r) for _ in range(r.randint(0 if nfiles > 1 else 2 - nfiles, 4))]
            r.shuffle(items)
            args = items
            if shape == 5 and files:
                # a literal that looks like a file name but does not exist
                args.append("missing.txt")
        cases.append({"files": files, "args": args, "subprocess": (i % 9 == 4)})
    return cases


def check_case(report, case, res):
    key = json.dumps(case, sort_keys=True)
    exp = res.get("expected", [])
    report.case(key, len(case["args"]) >= 2 and len(exp) >= 2,
                {"args": case["args"], "files": case["files"]} if len(report.cov["samples"]) < 4 else None)
    if "harness_error" in res:
        raise RuntimeError(res["harness_error"])
    problems = []
    if res.get("exc"):
        problems.append(("raised", "raised " + res["exc"]))
    if case.get("subprocess") and res.get("returncode") not in (0, None):
        problems.append(("exit-status", f"exit status {res.get('returncode')}"))
    want = "".join(f"{a},{b}\n" for a, b in exp)
    if exp and res.get("file") != want:
        problems.append(("listing", "the -o file is not exactly one line 'input,SMILES' per glycan in order of appearance"))
    if not exp and res.get("file") not in (None, ""):
        problems.append(("listing", "no glycans, but the -o file has content"))
    for kind, text in problems:
        report.fail({"site": "cli", "kind": kind, "shape": "single" if len(case["args"]) == 1 else "list"},
                    {"case": case, "problem": text, "observed_file": res.get("file"), "expected_pairs": exp,
                     "replay_cmd": "./check C17 --replay <this file>"})
    return not problems


def model_case(drv, case, res):
    texts = list(case["args"]) + [ln for ls in case["files"].values() for ln in ls]
    if not all(all(ord(c) < 128 for c in t) for t in texts):
        return None
    files = [(n, [ln + "\n" for ln in ls]) for n, ls in case["files"].items()]
    table = [({"t": "str", "v": e[0]}, True, e[1]) for e in res["expected"]]
    argv = ["-i"] + case["args"] + ["-o", "out.txt"]
    out = drv.call("pycall", "main", P.enc_value({"t": "pylist", "v": [{"t": "pylist", "v": [{"t": "str", "v": a} for a in argv]}]}),
                   P.enc_world(files, ["out.txt"]), P.enc_conv(table), "0")
    parts = out.split("\t")
    if len(parts) < 3 or not parts[0].startswith("ok"):
        return f"model answered {out[:200]}"
    wd = P.dec_world(parts[2])
    model_text = "".join(x + "\n" for x in wd["files"]["out.txt"]) if "out.txt" in wd["files"] else None
    if model_text != res.get("file"):
        return f"model file {str(model_text)[:200]!r} differs from implementation file {str(res.get('file'))[:200]!r}"
    return "ok"


def run(tier):
    res = C.build()
    report = C.Report(PROP, tier)
    ob, dis, names, broken = C.proof_gate(report, res, PROP, [d for d in DEPS if os.path.exists(os.path.join(C.COQ, d))])
    r = C.rng(PROP)
    cases = make_cases(r, tier)
    results = C.run_impl_parallel("cli", cases, extra={"tmp": os.path.join(C.BUILD, "tmp_c17")}, workers=12)
    drv = C.Driver() if os.path.exists(C.DRIVER) else None
    n_model, model_bad = 0, []
    for c, rs in zip(cases, results):
        ok = check_case(report, c, rs)
        if drv is not None and "Gen/Converter.v" in res.ok_files and ok:
            m = model_case(drv, c, rs)
            if m is not None:
                n_model += 1
                if m != "ok":
                    model_bad.append((c, m))
    if drv:
        drv.close()
    if broken and not report.violations:
        report.fail({"site": "proof", "kind": "obligation-broken"},
                    {"no_failing_input": True, "what_no_longer_checks": broken, "theorems": names,
                     "searched": f"{len(cases)} argument lists, all satisfy the contract"})
    elif model_bad and not report.violations:
        report.fail({"site": "correspondence", "kind": "model-differs"},
                    {"no_failing_input": True,
                     "what_no_longer_checks": "Gen/Converter.v (main, parse_list, convert) run in the extracted interpreter vs glyles.__main__.main",
                     "first": {"case": model_bad[0][0], "difference": model_bad[0][1]}, "count": len(model_bad)})
    report.assumptions = ["A-argparse: '-i x1 .. xn -o out' is parsed into input=[x1..xn], output=out (modelled by parse_args); arguments do not start with '-'",
                          "the -o file does not exist beforehand (the overwrite prompt is outside the contract)",
                          "literal glycans and file lines contain no line terminators"]
    extra = {"rule": "argument lists of the shapes single file / single literal / mixed lists with 0-3 files (blank lines, surrounding and inner whitespace, commas, a non-existing file name); non-trivial = at least two arguments and two glycans",
             "model_runs_compared_with_impl": n_model,
             "subprocess_runs": sum(1 for c in cases if c.get("subprocess")),
             "print_assumptions": res.assumptions.get(f"Props/{PROP}.v", "").strip().splitlines()[-6:]}
    return report.finish("proof", ob, dis, names, trusted=C.TRUSTED, extra=extra)


def replay(path):
    rp = json.load(open(path))
    out = C.run_impl("cli", {"items": [rp["case"]], "tmp": os.path.join(C.BUILD, "tmp_replay")})["results"][0]
    rep = C.Report(PROP, "quick")
    ok = check_case(rep, rp["case"], out)
    print(json.dumps({"file": out.get("file"), "expected": out.get("expected"), "exc": out.get("exc")}, indent=1)[:3000])
    print("property holds on this input" if ok else "property FAILS on this input")
    return 0 if ok else 1
