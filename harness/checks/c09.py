"""C09 Batch conversion is total, aligned, ordered and verbatim."""
import itertools
import json
import os
import sys
import time

sys.path.insert(0, os.path.dirname(os.path.dirname(os.path.abspath(__file__))))
import common as C          # noqa: E402
import gen as G             # noqa: E402
import pylite_io as P       # noqa: E402

PROP = "C09"
DEPS = ["Gen/Converter.v", "Model/PyLite.v", "Proofs/PyLiteLemmas.v", "Proofs/ConverterThm.v", "Proofs/ConverterSinks.v", "Proofs/CliThm.v"]


def make_cases(r, n, maxlen):
    sources = ["glycan", "glycan_list", "file_lines", "gen"]
    combos = [c for k in range(1, 5) for c in itertools.combinations(sources, k)]
    cases = []
    for i in range(n):
        combo = combos[i % len(combos)]
        case = {"mode": "return" if (i // len(combos)) % 2 == 0 else "generator", "full": r.random() < 0.8,
                "verbose": "none", "cpu_count": 1}
        if "glycan" in combo:
            case["glycan"] = G.bad_value(r) if r.random() < 0.4 else G.good_value(r)
        if "glycan_list" in combo:
            case["glycan_list"] = G.mixed_values(r, r.randint(0, maxlen))
        if "file_lines" in combo:
            case["file_lines"] = [G.file_line(r) for _ in range(r.randint(0, maxlen))]
        if "gen" in combo:
            case["gen"] = G.mixed_values(r, r.randint(0, maxlen))
        cases.append(case)
    # every source alone and empty, and a call with nothing at all
    cases.append({"mode": "return", "glycan_list": [], "full": True, "verbose": "none", "cpu_count": 1})
    cases.append({"mode": "generator", "gen": [], "full": True, "verbose": "none", "cpu_count": 1})
    cases.append({"mode": "return", "file_lines": [], "full": True, "verbose": "none", "cpu_count": 1})
    cases.append({"mode": "return", "full": True, "verbose": "none", "cpu_count": 1})
    return cases


def spec_check(report, case, res, idx):
    """the property itself, evaluated on the implementation's answer"""
    key = json.dumps(case, sort_keys=True)
    exp = res["expected"]
    nontrivial = len(exp) >= 2 and any(s == "" for _, s in exp) and any(s != "" for _, s in exp)
    report.case(key, nontrivial, {"case": case, "n_expected": len(exp)} if idx < 3 else None)
    if "harness_error" in res:
        raise RuntimeError(res["harness_error"])
    problems = []
    if res["exc"] is not None:
        problems.append("raised " + res["exc"])
    else:
        got = res["pairs"]
        if case["mode"] == "return" and len(exp) == 0:
            if got not in (None, []):
                problems.append("no input, but something was returned")
        else:
            if got is None:
                problems.append("returned None although there were inputs")
            else:
                if len(got) != len(exp):
                    problems.append(f"{len(got)} pairs for {len(exp)} inputs")
                for k, (g, e) in enumerate(zip(got, exp)):
                    if g[0] != e[0]:
                        problems.append(f"pair {k}: input echoed as {g[0]} instead of {e[0]}")
                        break
                    if g[1] != e[1]:
                        problems.append(f"pair {k}: SMILES differs from the conversion of this input on its own")
                        break
    if res.get("caller_list_unchanged") is False:
        problems.append("caller list modified: the glycan_list object handed in was changed by the call")
    if problems:
        p0 = problems[0]
        kind = ("raised" if p0.startswith("raised") else "pair-count" if "pairs for" in p0 else
                "caller-list" if "caller list" in p0 else "echo" if "echoed" in p0 else "smiles" if "SMILES differs" in p0 else "none-vs-inputs")
        report.fail({"site": "converter", "kind": kind},
                    {"case": case, "observed": {k: res[k] for k in ("pairs", "exc")}, "expected": exp,
                     "problems": problems,
                     "replay_cmd": "./check C09 --replay <this file>"})
    return not problems


def model_check(report, drv, case, res):
    """correspondence: the PyLite term regenerated from converter.py, run in the extracted interpreter"""
    vals = []
    for k in ("glycan",):
        if case.get(k) is not None:
            vals.append(case[k])
    for k in ("glycan_list", "gen"):
        if case.get(k) is not None:
            vals.extend(case[k])
    if not all(P.representable(v) for v in vals):
        return None
    if case.get("file_lines") is not None and not all(all(ord(c) < 128 for c in ln) for ln in case["file_lines"]):
        return None
    files = []
    fpath = None
    if case.get("file_lines") is not None:
        fpath = "in.txt"
        files.append((fpath, [ln + "\n" for ln in case["file_lines"]]))
    table = [(e[0], case["full"], e[1]) for e in res["expected"] if e[0]["t"] in ("none", "int", "str")]
    g = case.get("glycan") or {"t": "none"}
    l = {"t": "pylist", "v": case["glycan_list"]} if case.get("glycan_list") is not None else {"t": "none"}
    f = {"t": "str", "v": fpath} if fpath else {"t": "none"}
    ge = {"t": "gen", "v": case["gen"]} if case.get("gen") is not None else {"t": "none"}
    full = {"t": "bool", "v": case["full"]}
    if case["mode"] == "return":
        args = [g, l, f, ge, {"t": "none"}, {"t": "bool", "v": True}, {"t": "none"}, {"t": "int", "v": 1}, full]
        fn, isgen = "convert", "0"
    else:
        args = [g, l, f, ge, {"t": "none"}, {"t": "int", "v": 1}, full]
        fn, isgen = "convert_generator", "1"
    out = drv.call("pycall", fn, P.enc_value({"t": "pylist", "v": args}), P.enc_world(files, []), P.enc_conv(table), isgen)
    parts = out.split("\t")
    if len(parts) < 3:
        return f"model driver answered {out[:200]}"
    status, val, world = parts[0], parts[1], parts[2]
    model_val = P.dec_value(P.Rd(val))
    wd = P.dec_world(world)

    def untag(v):
        return None if v["t"] == "none" else v["v"]
    impl = None if res["pairs"] is None else [[untag(a), b] for a, b in res["pairs"]]
    if res["exc"] is not None:
        return None if status.startswith("raise") else f"implementation raised {res['exc']}, model gave {status}"
    if status.startswith("raise"):
        return f"model raised ({status}) where the implementation returned"
    if case["mode"] == "return" and impl is None:
        ok = model_val is None
    else:
        ok = model_val == impl
    if not ok:
        return f"model result {str(model_val)[:300]} differs from implementation result {str(impl)[:300]}"
    if wd["disabled"]:
        return "model leaves the logger disabled"
    return "ok"


def run(tier):
    res = C.build()
    report = C.Report(PROP, tier)
    ob, dis, names, broken = C.proof_gate(report, res, PROP, DEPS)
    r = C.rng(PROP)
    n = 90 if tier == "quick" else 900
    cases = make_cases(r, n, 5 if tier == "quick" else 9)
    tmp = os.path.join(C.BUILD, "tmp_c09")
    results = C.run_impl_parallel("batch", cases, extra={"tmp": tmp})
    drv = C.Driver() if os.path.exists(C.DRIVER) else None
    n_model, model_bad = 0, []
    for i, (case, rs) in enumerate(zip(cases, results)):
        spec_ok = spec_check(report, case, rs, i)
        if drv is not None and "Gen/Converter.v" in res.ok_files:
            m = model_check(report, drv, case, rs)
            if m is not None:
                n_model += 1
                if m != "ok" and spec_ok:
                    model_bad.append((case, m))
    if drv:
        drv.close()
    timing = None
    if tier == "thorough":
        timing = C.run_impl("timing", {"sizes": [10, 20, 40, 80]})
        report.notes.append({"timing_measurement_not_proof": timing})
        t = timing["cpu_s"]
        if t[-1] > 0.5 and t[-2] > 0 and t[-1] / t[-2] > 24:
            report.fail({"site": "conversion-time", "kind": "super-polynomial growth"},
                        {"timing": timing, "note": "cpu time grew by more than 24x when the input length doubled"})
    if broken and not report.violations:
        report.fail({"site": "proof", "kind": "obligation-broken"},
                    {"no_failing_input": True, "what_no_longer_checks": broken,
                     "theorems": names, "searched": f"{len(cases)} generated batches, all satisfy the property"})
    elif model_bad and not report.violations:
        report.fail({"site": "correspondence", "kind": "model-differs"},
                    {"no_failing_input": True,
                     "what_no_longer_checks": "PyLite term of converter.py (Gen/Converter.v) run in the extracted interpreter vs the implementation",
                     "first": {"case": model_bad[0][0], "difference": model_bad[0][1]}, "count": len(model_bad)})
    report.assumptions = ["A-joblib: Parallel()(delayed(f)(x) ...) returns results in submission order (modelled as a map)",
                          "Glycan(g, full=f).get_smiles() is a function of (g, f) raising at most Exception subclasses (C11)",
                          "inputs: glycan any value; glycan_list None/list/tuple; glycan_file None or an existing file; generator None or an iterable"]
    extra = {"rule": "batches over all 15 argument combinations x {return, generator}; a case is non-trivial when it has >= 2 inputs of which at least one converts and one fails",
             "model_runs_compared_with_impl": n_model,
             "print_assumptions": res.assumptions.get(f"Props/{PROP}.v", "").strip().splitlines()[-6:],
             "explanation": "theorems over the PyLite term regenerated from converter.py; the same term is executed in the extracted interpreter and compared with glyles.convert on every representable batch; the property itself is evaluated on the implementation for every batch"}
    return report.finish("proof", ob, dis, names, trusted=C.TRUSTED, extra=extra)


def replay(path):
    rp = json.load(open(path))
    out = C.run_impl("batch", {"items": [rp["case"]], "tmp": os.path.join(C.BUILD, "tmp_replay")})["results"][0]
    print(json.dumps({"observed": out.get("pairs"), "exc": out.get("exc"), "expected": out.get("expected")}, indent=1)[:4000])
    ok = out.get("exc") is None and (out.get("pairs") or []) == out.get("expected")
    print("property holds on this input" if ok else "property FAILS on this input")
    return 0 if ok else 1
