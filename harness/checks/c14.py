"""C14 Skeleton-changing prefixes and suffixes perform their defining transformation."""
import json
import os
import sys

sys.path.insert(0, os.path.dirname(os.path.dirname(os.path.abspath(__file__))))
import common as C          # noqa: E402
import chem                 # noqa: E402

PROP = "C14"
DEPS = ["Spec/Smiles.v", "Spec/Iso.v", "Spec/Graft.v", "Spec/Modify.v", "Spec/Skeleton.v", "Gen/Tables.v"]

# sugar -> (number of backbone carbons, stereocentres that can be inverted, positions with a free OH, has -ol row)
SUG = {"Glc": (6, [2, 3, 4, 5], [2, 3, 4, 6]), "Gal": (6, [2, 3, 4, 5], [2, 3, 4, 6]), "Man": (6, [2, 3, 4, 5], [2, 3, 4, 6]),
       "Tal": (6, [2, 3, 4, 5], [2, 3, 4, 6]), "Ido": (6, [2, 3, 4, 5], [2, 3, 4, 6]), "All": (6, [2, 3, 4, 5], [2, 3, 4, 6]),
       "Gul": (6, [2, 3, 4, 5], [2, 3, 4, 6]), "Alt": (6, [2, 3, 4, 5], [2, 3, 4, 6]),
       "Fuc": (6, [2, 3, 4, 5], [2, 3, 4]), "Rha": (6, [2, 3, 4, 5], [2, 3, 4]), "Qui": (6, [2, 3, 4, 5], [2, 3, 4]),
       "Xyl": (5, [2, 3, 4], [2, 3, 4]), "Rib": (5, [2, 3, 4], [2, 3, 4]), "Ara": (5, [2, 3, 4], [2, 3, 4]), "Lyx": (5, [2, 3, 4], [2, 3, 4]),
       "GlcNAc": (6, [3, 4, 5], [3, 4, 6]), "Galf": (6, [2, 3, 4, 5], [2, 3, 5, 6]), "Araf": (5, [2, 3, 4], [2, 3, 5]), "Kdo": (8, [4, 5, 6, 7], [4, 5, 7, 8])}
KETOHEX = ["Fru", "Tag", "Sor", "Psi"]
OL_ROWS = ["Glc", "Man", "Gal", "Gul", "Alt", "All", "Tal", "Ido", "Qui", "Rha", "Fuc", "Ara", "Lyx", "Xyl", "Rib", "Kdo"]


def make_cases(r, tier, extra_ol=()):
    cs = []
    def add(kind, name, parent, *args, **kw):
        cs.append({"kind": kind, "name": name, "parent": parent, "args": [str(a) for a in args], **kw})
    sugars = list(SUG)
    for s in sugars:
        n, stereo, free = SUG[s]
        b = s[:-1] if s.endswith("f") else s
        if b in OL_ROWS:
            add("ol", s + "-ol", s)
            if not s.endswith("f") and s != "Kdo":
                add("onic", b + "-onic", s)
                if 6 in free or (n == 5 and s in ("Xyl", "Rib", "Ara", "Lyx")):
                    add("aric", b + "-aric", s)
        if (n in free) or s == "Kdo":
            add("uronic", s + "A", s)
            add("uronic", s + "-uronic", s)
        for p in (free if tier == "thorough" else r.sample(free, 2)):
            add("deoxy", f"{s}{p}d", s, p)
        for p in (stereo if tier == "thorough" else r.sample(stereo, 2)):
            add("epimer", f"{s}{p}e", s, p)
        if 3 in free and 6 in free:
            add("anhydro", f"3,6-Anhydro-{s}", s, 3, 6, chiral_y=False)
        if 6 in free and not s.endswith("f") and s != "Kdo":
            add("anhydro", f"1,6-Anhydro-{s}", s, 1, 6, chiral_y=False)
        if 2 in free and 3 in free and not s.endswith("f"):
            add("anhydro", f"2,3-Anhydro-{s}", s, 2, 3, chiral_y=True)
        if 3 in free and 4 in free and not s.endswith("f"):
            add("anhydro", f"3,4-Anhydro-{s}", s, 3, 4, chiral_y=True)
        if 2 in free and 4 in free and not s.endswith("f") and n == 6:
            add("anhydro", f"2,4-Anhydro-{s}", s, 2, 4, chiral_y=True)
        if not s.endswith("f") and s not in ("GlcNAc", "Kdo"):
            for k, nm in ((5, "Pen"), (6, "Hex"), (7, "Hep"), (8, "Oct")):
                if k > n:
                    add("size", s + nm, s, k)
        # the amine: C2 of an aldose
        if 2 in free:
            add("amino", s + "N", s, 2)
    # every code of the library that has an open-form row: -ol, -onic, -aric against the reduced / oxidised ring form
    for code, parent in extra_ol:
        if parent in SUG or parent.rstrip("f") in SUG or code == "Api":     # apiose: branched, see the C08 finding
            continue
        add("ol", code + "-ol", parent)
        if code not in ("Kdo", "Mur", "Qui", "Rha", "Fuc", "Api"):
            add("onic", code + "-onic", parent)
        if code in ("Ery", "Thre"):
            add("aric", code + "-aric", parent)
    # the open forms of a sugar written with its series prefix are those of that prefixed sugar
    for s in (["Ido", "Glc", "Gal", "Gul", "Man", "Alt", "Tal", "All"] if tier == "thorough" else ["Ido", "Gul"] + r.sample(["Glc", "Gal", "Man", "Alt", "Tal", "All"], 2)):
        for pre in ("D-", "L-"):
            add("ol", f"{pre}{s}-ol", pre + s)
            add("onic", f"{pre}{s}-onic", pre + s)
            add("aric", f"{pre}{s}-aric", pre + s)
    for s in KETOHEX:
        add("amino", s + "N", s, 1)
        add("amino", s + "fN", s + "f", 1)
    # pairwise combinations (sampled): deoxy + amino, epimer + deoxy, size + deoxy
    for _ in range(6 if tier == "quick" else 60):
        s = r.choice(["Glc", "Gal", "Man", "Tal", "All"])
        p = r.choice([3, 4, 6])
        add("deoxy+amino", f"{s}{p}dN", s, p)
        q = r.choice([3, 4])
        p2 = r.choice([x for x in (2, 3, 4, 6) if x != q])
        add("epimer+deoxy", f"{s}{q}e{p2}d", s, q, p2)
    return cs


def run(tier):
    res = C.build()
    report = C.Report(PROP, tier)
    ob, dis, names_thm, broken = C.proof_gate(report, res, PROP, DEPS)
    orc = chem.Oracle()
    r = C.rng(PROP)
    rows = [x.split("\x1e") for x in orc.drv.call("librows").split("\x1f")]
    names_p = {k: n for t, k, n, *_ in rows if t == "p" and "_" not in k}
    names_f = {k: n for t, k, n, *_ in rows if t == "f" and "_" not in k}
    extra_ol = []
    for t, k, n, *_ in rows:
        if t == "o" and k.endswith("-OL"):
            b = k[:-3]
            if b in names_p:
                extra_ol.append((names_p[b], names_p[b]))
            elif b in names_f:
                extra_ol.append((names_f[b], names_f[b]))
    cases = make_cases(r, tier, extra_ol)
    names = sorted(set([c["name"] for c in cases] + [c["parent"] for c in cases] +
                       [f"{c['parent']}{c['args'][0]}d" for c in cases if c["kind"] in ("deoxy+amino",)] +
                       [f"{c['parent']}{c['args'][0]}e" for c in cases if c["kind"] == "epimer+deoxy"]))
    outs = dict(zip(names, chem.convert_all(names)))
    stats = {}
    for c in cases:
        kind, name, parent, args = c["kind"], c["name"], c["parent"], c["args"]
        o, p = outs[name]["smiles"], outs[parent]["smiles"]
        stats.setdefault(kind, [0, 0])
        stats[kind][0] += 1
        report.case(name, True, {"input": name, "kind": kind, "parent": parent} if stats[kind][0] <= 1 else None)
        if not p:
            continue
        sig_extra = {"chiral_y": c["chiral_y"], "input": name} if "chiral_y" in c else {}
        if not o:
            report.fail({"site": "skeleton", "kind": kind, "what": "empty", **sig_extra},
                        {"input": name, "parent": parent, "exc": outs[name]["exc"],
                         "problem": "an applicable skeleton change came back empty", "replay_cmd": "./check C14 --replay <this file>"})
            continue
        if kind == "amino":
            v = orc.drv.call("modcheck", o, p, args[0], "N")
        elif kind == "deoxy+amino":
            mid = outs[f"{parent}{args[0]}d"]["smiles"]
            v = orc.drv.call("modcheck", o, mid, "2", "N") if mid else "NOSPEC"
        elif kind == "epimer+deoxy":
            mid = outs[f"{parent}{args[0]}e"]["smiles"]
            v = orc.drv.call("skeleton", "deoxy", o, mid, args[1]) if mid else "NOSPEC"
        else:
            v = orc.drv.call("skeleton", kind, o, p, *args)
        if v == "1":
            stats[kind][1] += 1
        elif v == "0":
            report.fail({"site": "skeleton", "kind": kind, "what": "wrong-molecule", **sig_extra},
                        {"input": name, "parent": parent, "observed": o, "parent_molecule": p, "args": args,
                         "problem": "the result is not the parent sugar with exactly the named transformation applied",
                         "replay_cmd": "./check C14 --replay <this file>"})
    # an epimerisation combined with a change that rebuilds the skeleton: 'k e X' names a sugar Y of the panel (found by
    # comparing the plain ring forms, which the epimer cases above judge on their own); then the -ol, -onic and anhydro
    # forms of 'k e X' must be those of Y
    hexoses = ["Glc", "Gal", "Man", "Tal", "All", "Gul", "Alt", "Ido"]
    picks = [(s_, k_) for s_ in hexoses for k_ in (2, 3, 4)]
    if tier == "quick":
        picks = r.sample(picks, 8)
    plain = dict(zip([f"{k_}e{s_}" for s_, k_ in picks] + hexoses, chem.convert_all([f"{k_}e{s_}" for s_, k_ in picks] + hexoses)))
    combos = []
    for s_, k_ in picks:
        e = plain[f"{k_}e{s_}"]["smiles"]
        ys = [y for y in hexoses if e and plain[y]["smiles"] and orc.same(e, plain[y]["smiles"])]
        if len(ys) != 1:
            continue
        y = ys[0]
        combos += [(f"{k_}e{s_}-ol", f"{y}-ol"), (f"{k_}e{s_}-onic", f"{y}-onic"), (f"{k_}e{s_}-aric", f"{y}-aric"), (f"{s_}{k_}e-aric", f"{y}-aric"), (f"1,6-Anhydro-{k_}e{s_}", f"1,6-Anhydro-{y}"),
                   (f"Gal(b1-3){k_}e{s_}-ol", f"Gal(b1-3){y}-ol")]
        if k_ != 3:
            combos.append((f"3,6-Anhydro-{k_}e{s_}", f"3,6-Anhydro-{y}"))
    flat = sorted(set(x for c_ in combos for x in c_))
    co = dict(zip(flat, chem.convert_all(flat)))
    stats["epimer+skeleton"] = [0, 0]
    for a_, b_ in combos:
        x, yv = co[a_]["smiles"], co[b_]["smiles"]
        if not yv:
            continue
        stats["epimer+skeleton"][0] += 1
        report.case(a_, True)
        if not x or not orc.same(x, yv):
            report.fail({"site": "skeleton", "kind": "epimer+skeleton", "what": "wrong-molecule" if x else "empty"},
                        {"input": a_, "same_as": b_, "observed": x, "expected_molecule": yv,
                         "problem": "the epimer prefix combined with another skeleton change does not give the named epimer's derivative",
                         "replay_cmd": "./check C14 --replay <this file>"})
        else:
            stats["epimer+skeleton"][1] += 1
    orc.close()
    if broken and not report.violations:
        report.fail({"site": "proof", "kind": "obligation-broken"},
                    {"no_failing_input": True, "what_no_longer_checks": broken, "theorems": names_thm})
    report.assumptions = ["every transformation is specified as a graph edit of the parent's molecule (Spec/Skeleton.v, Spec/Modify.v) and compared by stereo-aware isomorphism (extracted Coq); the parent is the library's own conversion of the unmodified sugar",
                          "positions are 'applicable' when the parent carbon bears a free hydroxyl (deoxy, anhydro, amino) or is a stereocentre (epimer)"]
    extra = {"rule": "every sugar of a 19-sugar panel (+ the 2-ketohexoses for 'N') x {-ol, -onic, -aric, A, -uronic, n d, n e, 3,6- / 1,6- / 2,3-Anhydro, Pen/Hex/Hep/Oct, N} x applicable positions (quick: 2 per kind), plus sampled pairwise combinations, plus 'k e X' combined with -ol / -onic / 1,6- and 3,6-Anhydro / as reducing end of a disaccharide against the named epimer's derivative",
             "checked_and_ok_by_kind": {k: v for k, v in stats.items()},
             "print_assumptions": res.assumptions.get(f"Props/{PROP}.v", "").strip().splitlines()[-5:]}
    return report.finish("proof", ob, dis, names_thm, trusted=C.TRUSTED, extra=extra)


def replay(path):
    rp = json.load(open(path))
    o = chem.convert_all([rp["input"]])[0]
    print(json.dumps({"input": rp["input"], "now": o}, indent=1))
    return 1
