"""C02 Every non-empty result is a valid, whole, placeholder-free molecule."""
import json
import os
import sys

sys.path.insert(0, os.path.dirname(os.path.dirname(os.path.abspath(__file__))))
import common as C          # noqa: E402
import gen as G             # noqa: E402
import gtree as T           # noqa: E402
import chem                 # noqa: E402

PROP = "C02"
DEPS = ["Spec/Smiles.v", "Spec/Chem.v", "Model/Gate.v", "Proofs/SmilesFacts.v", "Model/Merger.v", "Model/Splice.v", "Proofs/Embed.v", "Proofs/SpliceThm.v"]

SUGARS = ["Glc", "Man", "Gal", "Fuc", "Xyl", "GlcNAc", "Neu5Ac", "Kdo", "Fruf", "Araf", "Rha", "GlcN", "GlcA", "Glc-ol", "Galf",
          "Neu", "Mur", "Api", "Hex", "Pen", "Ins", "Bac", "Qui", "Rib", "Sia", "Ko", "Dha", "Tyv", "Leg", "Sor", "Thre", "Xul"]


def meaningless(r, fgs):
    k = r.randint(0, 11)
    s = r.choice(SUGARS)
    f = lambda: r.choice(fgs)
    if k == 0:
        return f"{s}{r.randint(1, 9)}{f()}"
    if k == 1:
        p = r.randint(1, 7)
        return f"{s}{p}{f()}{p}{f()}"
    if k == 2:
        return f"{s}{r.randint(1, 9)}d"
    if k == 3:
        return f"Man(a1-{r.randint(1, 9)}){s}"
    if k == 4:
        p = r.randint(1, 6)
        return f"Man(a1-{p})[Gal(b1-{p})]{s}"
    if k == 5:
        return f"{s}1{f()}(a1-4)Glc"
    if k == 6:
        return f"{s}{r.randint(1, 6)}{f()}(a1-{r.randint(1, 6)})Glc{r.randint(1, 6)}{f()}"
    if k == 7:
        return f"{r.randint(1, 6)},{r.randint(1, 6)}-Anhydro-{s}"
    if k == 8:
        return f"{s}{r.randint(1, 6)}e"
    if k == 9:
        return f"0d{s}" if r.random() < 0.3 else f"{s}{r.choice(['A', 'N', 'NAc', '-onic', '-aric', '-uronic', '-ulosonic', 'Hep', 'Oct'])}"
    if k == 10:
        return f"{s}{r.randint(1,6)}{f()}{r.randint(1,6)}{f()}{r.randint(1,6)}{f()}"
    return f"{s}{r.choice('NOPC')}{f()}"


def options(r):
    return {"full": r.random() < 0.85, "tree_only": r.random() < 0.1,
            "root_orientation": r.choice(["n", "n", "a", "b"]), "start": r.choice([100, 100, 100, 1, 2, 3, 4, 6, 9, -1, 42])}


def make_inputs(r, tier, fgs):
    n = 120 if tier == "quick" else 1500
    items = []
    for i in range(n):
        k = i % 4
        if k == 0:
            t = T.random_tree(r, r.randint(1, 7 if tier == "quick" else 14), p_branch=0.45)
            txt = T.render(t, r.choice(["full", "full", "nopar", "short"]))
            kind = "tree"
        elif k == 1 or k == 2:
            txt, kind = meaningless(r, fgs), "meaningless"
        else:
            txt, kind = G.bad_string(r), "soup"
        items.append({"iupac": txt, "kw": options(r), "kind": kind})
    # single residues with default options (the plainest call): every sugar of the panel x modifications that leave a
    # placeholder or a hypervalent atom behind
    for s_ in (SUGARS if tier == "thorough" else r.sample(SUGARS, 12) + ["Fuc", "Rha", "Neu5Ac", "Kdo", "GlcNAc"]):
        for m_ in ([f"{p_}d" for p_ in (3, 5, 6)] + ["A", "2I2Ac", "6d6S", "1F1Me"] if tier == "thorough" else r.sample([f"{p_}d" for p_ in (3, 5, 6)] + ["A", "2I2Ac", "6d6S"], 3)):
            items.append({"iupac": s_ + m_, "kw": {}, "kind": "single-default"})
    # residues drawn from the grammar itself (every modification form, rare tokens), alone and in small glycans
    for gs in G.grammar_sentences(r, 60 if tier == "quick" else 800):
        items.append({"iupac": gs, "kw": options(r) if r.random() < 0.5 else {}, "kind": "grammar"})
    # depth: ring-closure labels run out at 100 nested residues
    for d in ([30, 99, 101] if tier == "quick" else [30, 60, 98, 99, 100, 101, 120]):
        items.append({"iupac": "Gal(b1-4)" * d + "Glc", "kw": {}, "kind": "deep"})
    # parents that use several ring-closure labels themselves (anhydro bridges, cyclic groups)
    for par, poss in (("1,6-Anhydro-Glc", (2, 3, 4)), ("1,6-Anhydro-Gal", (2, 3, 4)), ("3,6-Anhydro-Gal", (2, 4)), ("1,6-Anhydro-GlcNAc", (3, 4)),
                      ("Glc3Bz", (2, 4, 6)), ("Glc2Bn", (3, 4, 6)), ("Man6Tr", (2, 3, 4)), ("Glc2Bz3Bz", (4, 6))):
        for p_ in (poss if tier == "thorough" else r.sample(poss, 2)):
            items.append({"iupac": f"Man(a1-3)Gal(b1-{p_}){par}", "kw": {}, "kind": "multiring"})
    for anh in ("3,6-Anhydro-Gal", "3,6-Anhydro-Glc"):
        for p1, p2 in ((2, 4), (4, 2)):
            items.append({"iupac": f"Gal(b1-{p1})[Glc(b1-{p2})]{anh}(a1-3)Gal", "kw": {}, "kind": "multiring"})
            items.append({"iupac": f"Gal(b1-{p1})[Glc(b1-{p2})]{anh}(a1-6)Man(b1-4)Glc", "kw": {}, "kind": "multiring"})
    # width
    items.append({"iupac": "Man(a1-2)[Gal(b1-3)][Fuc(a1-4)][Xyl(b1-6)]Glc", "kw": {}, "kind": "wide"})
    items.append({"iupac": "Man(a1-2)[Gal(b1-3)][Fuc(a1-4)][Xyl(b1-6)]Man(a1-4)Glc", "kw": {}, "kind": "wide"})
    return items


def run(tier):
    res = C.build()
    report = C.Report(PROP, tier)
    ob, dis, names, broken = C.proof_gate(report, res, PROP, DEPS)
    orc = chem.Oracle()
    fgs = [x.split("\x1e")[0] for x in orc.drv.call("fgtokens").split("\x1f") if x and x.split("\x1e")[0]]
    r = C.rng(PROP)
    items = make_inputs(r, tier, fgs)
    outs = C.run_impl_parallel("convert_gate", [{"iupac": i["iupac"], "kw": i["kw"]} for i in items])
    # the same question in processes that have already seen failing calls of every public entry point
    again = [dict(i, kind="after-failed-calls") for i in items if i["kind"] in ("meaningless", "single-default", "grammar")]
    again = again if tier == "thorough" else r.sample(again, min(len(again), 150))
    outs += C.run_impl_parallel("convert_gate", [{"iupac": i["iupac"], "kw": i["kw"]} for i in again], extra={"prelude": True})
    items = items + again
    kinds, nonempty, gate_seen, gate_rejects, o1 = {}, 0, 0, 0, 0
    oracle_notes = []
    for it, o in zip(items, outs):
        key = json.dumps([it["iupac"], it["kw"]], sort_keys=True)
        s = o["smiles"]
        kinds[it["kind"]] = kinds.get(it["kind"], 0) + 1
        report.case(key, bool(s), {"input": it["iupac"][:80], "options": it["kw"], "result": (s or "")[:60]} if kinds[it["kind"]] <= 2 else None)
        if o.get("second") is not None and o["second"] != s:
            report.fail({"site": "get_smiles", "kind": "unstable"}, {"input": it["iupac"], "options": it["kw"], "first": s, "second": o["second"]})
        # the gate model against the implementation's gate, on whatever the assembly produced
        for pre, post in o.get("gate", []):
            gate_seen += 1
            mv = orc.drv.call("gate", pre)
            if post == "":
                gate_rejects += 1
            if post != "" and mv == "":
                report.fail({"site": "exit-gate", "kind": "passes-invalid"},
                            {"input": it["iupac"], "options": it["kw"], "assembled": pre, "released": post,
                             "problem": "the exit gate released a string that is not a valid molecule by Spec/Chem.v smiles_valid",
                             "details": orc.describe(pre)})
        if not s:
            continue
        nonempty += 1
        d = orc.describe(s)
        if d is None or not d["valid"]:
            why = "unparsable" if d is None else ",".join(k for k in ("no_markers", "elements_ok", "valences_ok") if not d[k]) or \
                ("components" if d["components"] != 1 else "empty-branch-or-duplicate-bond")
            report.fail({"site": "result", "kind": why, "input_kind": it["kind"]},
                        {"input": it["iupac"], "options": it["kw"], "observed": s, "verdict": d,
                         "replay_cmd": "./check C02 --replay <this file>"})
            continue
        # O1: the Coq reading of the string agrees with RDKit's
        rk = o.get("rdkit")
        if rk is not None:
            o1 += 1
            for f in ("formula", "rings", "components", "heavy"):
                if rk[f] != d[f]:
                    oracle_notes.append({"smiles": s, "field": f, "rdkit": rk[f], "coq": d[f]})
    # the batch entry points (convert, convert_generator) on the strings that are not glycans and on the meaningless ones:
    # whatever comes back non-empty is such a molecule too
    api_items = [it for it in items if it["kind"] in ("soup", "meaningless", "grammar") and set(it["kw"]) <= {"full"} and "\n" not in it["iupac"]]
    api_items += [{"iupac": x, "kw": {}, "kind": "smiles-like"} for x in G.SMILES_LIKE]
    api_out = C.run_impl_parallel("convert_api", [{"iupac": it["iupac"], "full": it["kw"].get("full", True)} for it in api_items], workers=8)
    n_api = 0
    for it, o in zip(api_items, api_out):
        for ch in ("smiles", "gen"):
            s_ = o.get(ch)
            if not s_:
                continue
            n_api += 1
            d_ = orc.describe(s_)
            if d_ is None or not d_["valid"]:
                why = "unparsable" if d_ is None else ",".join(k for k in ("no_markers", "elements_ok", "valences_ok") if not d_[k]) or \
                    ("components" if d_["components"] != 1 else "empty-branch-or-duplicate-bond")
                report.fail({"site": "result", "kind": why, "input_kind": it["kind"], "entry_point": "convert" if ch == "smiles" else "convert_generator"},
                            {"input": it["iupac"], "full": it["kw"].get("full", True), "observed": s_, "verdict": d_})
    # ring-closure labels: every substitution the merger makes is put to the splice check (hypothesis of the embedding theorem)
    traced = [it for it in items if it["kind"] in ("tree", "deep", "wide", "multiring")]
    touts = C.run_impl_parallel("merge_trace", [{"iupac": i["iupac"], "kw": i["kw"]} for i in traced])
    splice = {"FRESH": 0, "REUSED": 0, "OTHER": 0, "reused_but_result_empty": 0}
    for it, o in zip(traced, touts):
        for nd in o["nodes"]:
            ch = nd.get("children") or []
            if not ch or nd.get("me") is None or any(c is None for c in ch):
                continue
            for k, v in enumerate(orc.drv.call("splicechildren", nd["me"], *ch).split("\t")):
                splice[v.split(" ")[0]] = splice.get(v.split(" ")[0], 0) + 1
                if v.startswith("REUSED"):
                    if not o["smiles"]:
                        splice["reused_but_result_empty"] += 1
                        continue
                    report.fail({"site": "splice", "kind": "label-reused-while-open", "input_kind": it["kind"]},
                                {"input": it["iupac"], "options": it["kw"], "observed": o["smiles"][:400], "label": int(v.split(" ")[1]),
                                 "host_string": nd["me"][:300], "child_string": ch[k][:300],
                                 "problem": "a ring-closure label of the spliced child is open in the host at the splice point: the child closes a ring of the host",
                                 "replay_cmd": "./check C02 --replay <this file>"})
                    break
    orc.close()
    if oracle_notes:
        report.fail({"site": "oracle-O1", "kind": "coq-vs-rdkit"},
                    {"no_failing_input": True, "what_no_longer_checks": "Spec/Smiles.sem + Spec/Chem agree with RDKit's reading of the returned strings",
                     "disagreements": oracle_notes[:10]})
    if broken and not report.violations:
        report.fail({"site": "proof", "kind": "obligation-broken"},
                    {"no_failing_input": True, "what_no_longer_checks": broken, "theorems": names})
    report.assumptions = ["A-rdkit-valid: the implementation's gate uses RDKit sanitisation; the model's gate is Spec/Chem.smiles_valid; the two are compared on every assembled string of the run",
                          "for inputs whose assembly goes wrong the only protection is the exit gate (the assembly theorem for well-formed inputs is C01's)"]
    extra = {"rule": "(through Glycan.get_smiles, and for non-glycans and meaningless inputs also through convert / convert_generator) G-tree glycans in three notations, chemically meaningless combinations (12 shapes x all group tokens), token soup / truncations / control characters / 2000-character strings, 30-120 nested residues, 4-way branching; options full x tree_only x root_orientation x start; non-trivial = a non-empty result came back",
             "by_kind": kinds, "non_empty_results": nonempty, "gate_inputs_seen": gate_seen, "gate_rejections": gate_rejects,
             "o1_rdkit_agreements": o1 - len(oracle_notes), "splice_verdicts": splice,
             "print_assumptions": res.assumptions.get(f"Props/{PROP}.v", "").strip().splitlines()[-4:]}
    return report.finish("proof", ob, dis, names, trusted=C.TRUSTED, extra=extra)


def replay(path):
    rp = json.load(open(path))
    o = C.run_impl("convert_gate", {"items": [{"iupac": rp["input"], "kw": rp.get("options", {})}]})["results"][0]
    orc = chem.Oracle()
    d = orc.describe(o["smiles"]) if o["smiles"] else None
    print(json.dumps({"input": rp["input"], "now": o["smiles"], "verdict": d}, indent=1)[:3000])
    ok = (not o["smiles"]) or (d is not None and d["valid"])
    if ok and o["smiles"]:
        t = C.run_impl("merge_trace", {"items": [{"iupac": rp["input"], "kw": rp.get("options", {})}]})["results"][0]
        for nd in t["nodes"]:
            ch = nd.get("children") or []
            if ch and nd.get("me") is not None and all(c is not None for c in ch):
                vs = orc.drv.call("splicechildren", nd["me"], *ch)
                if "REUSED" in vs:
                    print("splice verdicts at node", nd["node"], ":", vs)
                    ok = False
    print("property holds on this input" if ok else "property FAILS on this input")
    return 0 if ok else 1
