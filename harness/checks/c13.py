"""C13 Reducing-end anomer and SMILES start atom change only what they should."""
import json
import os
import sys

sys.path.insert(0, os.path.dirname(os.path.dirname(os.path.abspath(__file__))))
import common as C          # noqa: E402
import gtree as T           # noqa: E402
import chem                 # noqa: E402

PROP = "C13"
DEPS = ["Spec/Smiles.v", "Spec/Chem.v", "Spec/Iso.v", "Model/Root.v"]
STARTS = [1, 2, 3, 4, 5, 6, 7, 8, 9, 100, 0, -1, 42, 10, 1000]


def run(tier):
    res = C.build()
    report = C.Report(PROP, tier)
    ob, dis, names_thm, broken = C.proof_gate(report, res, PROP, DEPS)
    orc = chem.Oracle()
    r = C.rng(PROP)
    n = 14 if tier == "quick" else 120
    trees = [T.random_tree(r, r.randint(1, 6), p_branch=0.4) for _ in range(n)]
    trees += [T.chain(["Man", "Glc"], "a", [4]), T.Node("Man", [("a", 1, 3, T.Node("Man")), ("a", 1, 6, T.Node("Man"))]),
              T.chain(["Gal", "GlcNAc"], "b", [4]), T.chain(["Gal", "Neu5Ac"], "b", [8]), T.chain(["Man", "Fruf"], "a", [1])]
    reqs, meta = [], []
    for ti, t in enumerate(trees):
        txt = T.render(t)
        starts = STARTS if tier == "thorough" else r.sample(STARTS, 6) + [0]
        for sfx in ("", " a", " b"):
            for opt in ("n", "a", "b"):
                reqs.append({"iupac": txt + sfx, "kw": {"root_orientation": opt}})
                meta.append((ti, txt, sfx, opt, 100))
        for st in starts:
            for sfx, opt in (("", "n"), (" a", "n"), ("", "b")):
                reqs.append({"iupac": txt + sfx, "kw": {"root_orientation": opt, "start": st}})
                meta.append((ti, txt, sfx, opt, st))
    outs = C.run_impl_parallel("convert_many", reqs)
    table = {}
    for m, o in zip(meta, outs):
        table[m] = o["smiles"]
    for ti, t in enumerate(trees):
        txt = T.render(t)
        def cfg(sfx, opt):
            return {"": {"n": 0, "a": 1, "b": 2}[opt], " a": 1, " b": 2}[sfx]     # Model/Root.root_config
        plain = table[(ti, txt, "", "n", 100)]
        report.case(txt, t.size() >= 2, {"glycan": txt} if ti < 4 else None)
        if not plain:
            continue
        ref = {0: plain, 1: table[(ti, txt, " a", "n", 100)], 2: table[(ti, txt, " b", "n", 100)]}
        # (i) suffix and option name the same thing; the suffix wins
        for sfx in ("", " a", " b"):
            for opt in ("n", "a", "b"):
                got = table[(ti, txt, sfx, opt, 100)]
                want = ref[cfg(sfx, opt)]
                if not got or not want or not orc.same(got, want):
                    report.fail({"site": "root-anomer", "kind": "suffix-vs-option", "suffix": sfx.strip() or "-", "option": opt},
                                {"glycan": txt + sfx, "root_orientation": opt, "observed": got, "expected_same_as": want,
                                 "problem": "root anomer given by suffix/option does not resolve as 'suffix wins, else option'"})
        # (ii) a / b differ from the undeclared form in exactly one stereocentre, and from each other there
        if ref[1] and ref[2]:
            pa = orc.profiles(ref[1], plain)
            pb = orc.profiles(ref[2], plain)
            pab = orc.profiles(ref[1], ref[2])
            ok_a = any(len(p) == 1 and p[0][1] == "left" for p in pa)
            ok_b = any(len(p) == 1 and p[0][1] == "left" for p in pb)
            ok_ab = any(len(p) == 1 and p[0][1] == "opp" for p in pab)
            # a root without an anomeric centre (e.g. an alditol) is exempt: then a = b = undeclared
            if not (ok_a and ok_b and ok_ab) and not (orc.same(ref[1], plain) and orc.same(ref[2], plain) and not backbone_cyclic(t)):
                report.fail({"site": "root-anomer", "kind": "not-exactly-one-centre"},
                            {"glycan": txt, "a": ref[1], "b": ref[2], "undeclared": plain,
                             "profiles": {"a_vs_none": pa[:3], "b_vs_none": pb[:3], "a_vs_b": pab[:3]}})
        # (iii) the start atom never changes the molecule
        for (tj, tx, sfx, opt, st), got in table.items():
            if tj != ti or st == 100:
                continue
            want = ref[cfg(sfx, opt)]
            report.cov["evaluations"] += 1
            if not got or not orc.same(got, want):
                report.fail({"site": "start", "kind": "molecule-changed" if got else "empty", "start": "range" if 1 <= st <= 9 else str(st)},
                            {"glycan": tx + sfx, "root_orientation": opt, "start": st, "observed": got, "with_default_start": want,
                             "problem": "the start option changed the molecule",
                             "replay_cmd": "./check C13 --replay <this file>"})
    # (iv) every kind of reducing end x every free position x start on that position: anomer by option = anomer by suffix,
    #      whatever the start
    ends = sorted(T.RES) + [x for x in ("Sorf", "Tagf", "Psif", "Hex", "Pen", "Hexf", "Penf", "Leg", "Pse", "Aci", "Sia", "Neu", "Kdof") if x not in T.RES]
    extra_pos = {"Sorf": (1, 3, 4, 6), "Tagf": (1, 3, 4, 6), "Psif": (1, 3, 4, 6), "Hex": (2, 3, 4, 6), "Pen": (2, 3, 4), "Hexf": (2, 3, 5, 6), "Penf": (2, 3, 5),
                 "Leg": (4, 8), "Pse": (4, 8), "Aci": (4, 8), "Sia": (4, 7, 8, 9), "Neu": (4, 7, 8, 9), "Kdof": (4, 7, 8)}
    if tier == "quick":
        ends = r.sample(ends, 16)
    sreqs, smeta = [], []
    for root in ends:
        poss = T.RES[root][1] if root in T.RES else extra_pos[root]
        for p_ in poss:
            txt = f"Gal(b1-{p_}){root}"
            for sfx in (" a", " b"):
                sreqs.append({"iupac": txt + sfx, "kw": {}}); smeta.append((txt, sfx.strip(), "ref", 100))
            for opt in ("a", "b"):
                for st in sorted(set([p_, 100] + ([1, 2, 3, 4, 5, 6, 7, 8, 9] if tier == "thorough" else r.sample([1, 2, 3, 4, 5, 6, 7, 8, 9], 2)))):
                    sreqs.append({"iupac": txt, "kw": {"root_orientation": opt, "start": st}}); smeta.append((txt, opt, "opt", st))
    # any residue the grammar can write (random sentences of rule deriv) as reducing end: the start atom never changes the
    # molecule, and the anomer by option is the anomer by suffix
    import gen as _G
    gmeta, greqs = [], []
    for d in [x for x in _G.grammar_sentences(r, 60 if tier == "quick" else 500, prefer=_G.plausible(orc.drv))[::2] if "(" not in x and " " not in x and x[-1] not in "ab"]:
        free_ = [p_ for p_ in "346" if p_ not in d]        # a position the residue's own modifications do not use
        for txt in ([d, f"Gal(b1-{free_[0]}){d}"] if free_ else [d]):
            greqs.append({"iupac": txt, "kw": {}}); gmeta.append((txt, "plain", None))
            for st in r.sample([1, 2, 3, 4, 5, 6, 7, 8, 9, 0, 42], 3):
                greqs.append({"iupac": txt, "kw": {"start": st}}); gmeta.append((txt, "start", st))
            for an in "ab":
                greqs.append({"iupac": txt + " " + an, "kw": {}}); gmeta.append((txt, "suffix", an))
                greqs.append({"iupac": txt, "kw": {"root_orientation": an}}); gmeta.append((txt, "option", an))
    gouts = C.run_impl_parallel("convert_many", greqs)
    gtab = {m: o["smiles"] for m, o in zip(gmeta, gouts)}
    n_gram = 0
    for (txt, kind, v), got in gtab.items():
        plain_ = gtab.get((txt, "plain", None))
        if kind == "start" and plain_:
            n_gram += 1
            if not got or not orc.same(got, plain_):
                report.fail({"site": "start", "kind": "molecule-changed" if got else "empty", "start": "grammar-residue"},
                            {"glycan": txt, "start": v, "observed": got, "with_default_start": plain_, "problem": "the start option changed the molecule"})
        if kind == "option":
            want = gtab.get((txt, "suffix", v))
            if want:
                n_gram += 1
                if not got or not orc.same(got, want):
                    report.fail({"site": "root-anomer", "kind": "suffix-vs-option", "suffix": "-", "option": v, "root": "grammar-residue"},
                                {"glycan": txt, "root_orientation": v, "observed": got, "expected_same_as": want,
                                 "problem": "anomer given by option differs from the same anomer given by suffix"})
    # (v) every cyclic library entry as reducing end, bare and D-/L- prefixed: the declared forms differ from the
    #     undeclared one in exactly one centre (and from each other there)
    names_ = []
    for rec in orc.drv.call("librows").split("\x1f"):
        t_, key_, name_, cfg_, iso_, lac_, smi_ = rec.split("\x1e")
        if t_ in ("p", "f") and cfg_ == "0" and name_ not in ("Unk",):
            names_.append(name_ + t_)
    names_ = sorted(set(names_))
    if tier == "quick":
        names_ = r.sample(names_, 24)
    lreqs, lmeta = [], []
    for nm in names_:
        for pre in (("",) if tier == "quick" else ("", "D-", "L-")):
            for sfx in ("", " a", " b"):
                lreqs.append({"iupac": pre + nm + sfx, "kw": {}}); lmeta.append((pre + nm, sfx.strip()))
    ltab = {m: o["smiles"] for m, o in zip(lmeta, C.run_impl_parallel("convert_many", lreqs))}
    n_lib = 0
    for nm in sorted(set(m[0] for m in lmeta)):
        pl_, a_, b_ = ltab[(nm, "")], ltab[(nm, "a")], ltab[(nm, "b")]
        if not (pl_ and a_ and b_):
            continue
        n_lib += 1
        report.case("library-end:" + nm, False)
        pa, pb, pab = orc.profiles(a_, pl_), orc.profiles(b_, pl_), orc.profiles(a_, b_)
        if not (any(len(p) == 1 and p[0][1] == "left" for p in pa) and any(len(p) == 1 and p[0][1] == "left" for p in pb)
                and any(len(p) == 1 and p[0][1] == "opp" for p in pab)):
            report.fail({"site": "root-anomer", "kind": "not-exactly-one-centre", "root": "library-entry"},
                        {"glycan": nm, "a": a_, "b": b_, "undeclared": pl_, "profiles": {"a_vs_none": pa[:3], "b_vs_none": pb[:3], "a_vs_b": pab[:3]}})
    # (vi) modified reducing ends -- epimerised (<n>e), deoxygenated, D-/L- prefixed, substituted --, bare and with a child:
    #      suffix = option, and the declared forms differ from the undeclared one in exactly one centre
    mods_ = ["2e", "3e", "4e", "6d", "2d", "NAc", "3S", "2F", "6Ac", "4Me", "N", "2e3e", "6d4e", "3e6S"]
    ends_ = []
    for b_ in (["Glc", "Gal", "Man", "Tal", "Ido"] if tier == "thorough" else r.sample(["Glc", "Gal", "Man", "Tal", "Ido"], 2)):
        for m_ in (mods_ if tier == "thorough" else r.sample(mods_, 5) + ["2e"]):
            for pre_ in (("", "L-", "D-") if tier == "thorough" else ("", r.choice(["L-", "D-"]))):
                ends_.append(pre_ + b_ + m_)
    mreqs, mmeta = [], []
    for e_ in sorted(set(ends_)):
        used_ = set(ch for ch in e_ if ch.isdigit())
        free_ = [p_ for p_ in "346" if p_ not in used_]
        for txt in ([e_] + ([f"Man(a1-{free_[0]}){e_}"] if free_ else [])):
            for key_, sfx_, kw_ in (("n", "", {}), ("sa", " a", {}), ("sb", " b", {}), ("oa", "", {"root_orientation": "a"}), ("ob", "", {"root_orientation": "b"})):
                mreqs.append({"iupac": txt + sfx_, "kw": kw_}); mmeta.append((txt, key_))
    mtab = {m: o["smiles"] for m, o in zip(mmeta, C.run_impl_parallel("convert_many", mreqs))}
    n_mod = 0
    for txt in sorted(set(m[0] for m in mmeta)):
        pl_, a_, b_ = mtab[(txt, "n")], mtab[(txt, "sa")], mtab[(txt, "sb")]
        if not (pl_ and a_ and b_):
            continue
        n_mod += 1
        report.case("modified-end:" + txt, "(" in txt)
        for an_ in "ab":
            got_, want_ = mtab[(txt, "o" + an_)], mtab[(txt, "s" + an_)]
            if not got_ or not orc.same(got_, want_):
                report.fail({"site": "root-anomer", "kind": "suffix-vs-option", "suffix": "-", "option": an_, "root": "modified-residue"},
                            {"glycan": txt, "root_orientation": an_, "observed": got_, "expected_same_as": want_,
                             "problem": "anomer given by option differs from the same anomer given by suffix"})
        pa, pb, pab = orc.profiles(a_, pl_), orc.profiles(b_, pl_), orc.profiles(a_, b_)
        if not (any(len(p) == 1 and p[0][1] == "left" for p in pa) and any(len(p) == 1 and p[0][1] == "left" for p in pb)
                and any(len(p) == 1 and p[0][1] == "opp" for p in pab)):
            report.fail({"site": "root-anomer", "kind": "not-exactly-one-centre", "root": "modified-residue"},
                        {"glycan": txt, "a": a_, "b": b_, "undeclared": pl_, "profiles": {"a_vs_none": pa[:3], "b_vs_none": pb[:3], "a_vs_b": pab[:3]}})
    # objects whose SMILES is assembled lazily (tree_only=True; full=False with an undetermined part)
    for root in (ends[:8] if tier == "quick" else ends):
        poss = T.RES[root][1] if root in T.RES else extra_pos[root]
        txt = f"Gal(b1-{poss[0]}){root}"
        for opt in ("a", "b"):
            sreqs.append({"iupac": txt, "kw": {"root_orientation": opt, "tree_only": True}}); smeta.append((txt, opt, "opt", 100.5))
            sreqs.append({"iupac": txt, "kw": {"root_orientation": opt, "tree_only": True, "full": False}}); smeta.append((txt, opt, "opt", 100.25))
    souts = C.run_impl_parallel("convert_many", sreqs)
    stab = {m: o["smiles"] for m, o in zip(smeta, souts)}
    swept = 0
    for (txt, an, kind, st), got in stab.items():
        if kind != "opt":
            continue
        want = stab[(txt, an, "ref", 100)]
        if not want:
            continue
        swept += 1
        report.cov["evaluations"] += 1
        if not got or not orc.same(got, want):
            report.fail({"site": "start", "kind": "molecule-changed" if got else "empty", "start": "linkage-position" if str(st) in txt.split(")")[0][-1:] else ("range" if 1 <= st <= 9 else str(st)),
                         "anomer_by": "option"},
                        {"glycan": txt, "root_orientation": an, "start": st, "observed": got, "with_suffix_and_default_start": want,
                         "problem": "anomer given by option + start differs from the same anomer given by suffix",
                         "replay_cmd": "./check C13 --replay <this file>"})
    orc.close()
    if broken and not report.violations:
        report.fail({"site": "proof", "kind": "obligation-broken"},
                    {"no_failing_input": True, "what_no_longer_checks": broken, "theorems": names_thm})
    report.assumptions = ["A-rdkit-write: a SMILES rooted at another atom denotes the same molecule (decided per input by Iso.same_molecule)"]
    extra = {"rule": "glycans x root anomer {none,a,b} by suffix x option {n,a,b} x start in {1..9,100,0,-1,42,10,1000} (quick: 7 of them); plus every reducing-end residue of the generator's vocabulary and further ring forms x every free position x anomer by option x start on the linkage position; distinct glycans, non-trivial = at least 2 residues",
             "conversions": len(reqs) + len(sreqs), "reducing_end_sweep": swept, "library_reducing_ends": n_lib, "modified_reducing_ends": n_mod, "grammar_residue_checks": n_gram, "print_assumptions": res.assumptions.get(f"Props/{PROP}.v", "").strip().splitlines()[-4:]}
    return report.finish("proof", ob, dis, names_thm, trusted=C.TRUSTED, extra=extra)


def backbone_cyclic(t):
    return t.name in T.RES


def replay(path):
    rp = json.load(open(path))
    kw = {"root_orientation": rp.get("root_orientation", "n")}
    if "start" in rp:
        kw["start"] = rp["start"]
    o = C.run_impl("convert_many", {"items": [{"iupac": rp["glycan"], "kw": kw}]})["results"][0]
    print(json.dumps({"request": [rp["glycan"], kw], "now": o}, indent=1))
    return 1
