"""C16 Structural queries agree with the structure."""
import json
import os
import re
import sys
from collections import Counter

sys.path.insert(0, os.path.dirname(os.path.dirname(os.path.abspath(__file__))))
import common as C          # noqa: E402
import gtree as T           # noqa: E402
import chem                 # noqa: E402

PROP = "C16"
DEPS = ["Model/Count.v", "Spec/Reader.v", "Proofs/ReaderThm.v", "Spec/Chem.v"]
BASE = {"Neu5Ac": "Neu", "Neu5Gc": "Neu", "GlcNAc": "Glc", "GalNAc": "Gal", "ManNAc": "Man", "GlcN": "Glc", "GalN": "Gal"}


_SAC = None


def sac_codes():
    global _SAC
    if _SAC is None:
        g4 = open(os.path.join(C.REPO, "glyles/grammar/Glycan.g4")).read()
        lits = []
        for rule in ("SAC", "COUNT"):
            m = re.search(r"\n" + rule + r":\s*(.*?);", g4, re.S)
            lits += re.findall(r"'([^']+)'", m.group(1))
        _SAC = sorted(set(lits), key=lambda x: -len(x))
    return _SAC


def base(name):
    """the monosaccharide code of a written residue: its longest SAC / COUNT token"""
    for i in range(len(name)):
        for code in sac_codes():
            if name.startswith(code, i):
                return code
    return name


def leaves(t):
    return [t.name] if not t.kids else [x for _, _, _, k in t.kids for x in leaves(k)]


def subchains(t):
    """every path (as a written chain) from a node down to one of its descendants along first children"""
    out = []
    def walk(n):
        cur, names, links = n, [n.name], []
        while cur.kids:
            an, c, p, k = cur.kids[0]
            links.append(f"({an}{c}-{p})")
            names.append(k.name)
            cur = k
            out.append("".join(nm + ln for nm, ln in zip(reversed(names[1:]), reversed(links))) + names[0])
        for _, _, _, k in n.kids:
            walk(k)
    walk(t)
    return sorted(set(out))[:6]


def root_subchains(t):
    """the sub-chains of subchains(t) that start at the reducing end itself"""
    out = []
    cur, names, links = t, [t.name], []
    while cur.kids:
        an, c, p, k = cur.kids[0]
        links.append(f"({an}{c}-{p})")
        names.append(k.name)
        cur = k
        out.append("".join(nm + ln for nm, ln in zip(reversed(names[1:]), reversed(links))) + names[0])
    return out


def run(tier):
    res = C.build()
    report = C.Report(PROP, tier)
    ob, dis, names_thm, broken = C.proof_gate(report, res, PROP, DEPS)
    orc = chem.Oracle()
    r = C.rng(PROP)
    n = 40 if tier == "quick" else 400
    vocab = ["Glc", "Man", "Gal", "Fuc", "Xyl", "GlcNAc", "GalNAc", "Neu5Ac", "Galf", "Araf", "Fruf", "Kdo", "Glc6S", "Gal3S", "Rha", "GlcN", "Man6P", "Glc3Ac", "Ribf", "Ara",
             "Glc6Bz", "Gal3Bn", "Gal6Tr", "Man4Fmoc", "Glc2Pic"]
    # residues that carry rings of their own (aromatic groups): ring / atom / bond counts of summary() must include them
    T.RES.setdefault("Glc6Bz", (1, (2, 3, 4), (), "hexp-mod")); T.RES.setdefault("Gal3Bn", (1, (2, 4, 6), (), "hexp-mod"))
    T.RES.setdefault("Gal6Tr", (1, (2, 3, 4), (), "hexp-mod")); T.RES.setdefault("Man4Fmoc", (1, (2, 3, 6), (), "hexp-mod"))
    T.RES.setdefault("Glc2Pic", (1, (3, 4, 6), (), "hexp-mod"))
    for nm in ("Ribf", "Ara", "Araf", "Rha"):
        pass
    trees = [T.random_tree(r, r.randint(1, 8), names=vocab, p_branch=0.45) for _ in range(n)]
    items = []
    prefixed = {}
    for t in trees:
        present = sorted(set(t.residues()))
        qs = r.sample(present, min(3, len(present))) + r.sample(["Glc", "Gal", "Man", "Fuc", "GlcNAc", "Galf", "Neu5Ac", "Glcp", "Gal a", "Fruf", "Ara", "Xyl", "Glc6S", "GlcN"], 3)
        # the residue's own and the opposite D-/L- series, spelled out
        for nm in r.sample(present, min(2, len(present))):
            if not nm.startswith(("D-", "L-")):
                qs += ["D-" + nm, "L-" + nm]
                prefixed.update({"D-" + nm: nm, "L-" + nm: nm})
        # a third of the glycans with the reducing-end anomer given by option: the tree stays what was written
        kw = {"root_orientation": r.choice("ab")} if len(items) % 3 == 1 else {}
        items.append({"iupac": T.render(t), "queries": sorted(set(qs)), "self": True, "subchains": subchains(t), "kw": kw})
    # glycans with undetermined linkages contain themselves and their own sub-chains too (tree-level queries)
    qitems = []
    for t in trees[:(12 if tier == "quick" else 100)]:
        tj = t.to_json()
        cand = []
        def walk_(j):
            for k_ in j["kids"]:
                cand.append(k_); walk_(k_[3])
        walk_(tj)
        if not cand:
            continue
        v = r.choice(cand)
        if r.random() < 0.5:
            v[0] = "?"
        else:
            v[2] = "?"
        t2 = T.from_json(tj)
        qitems.append({"iupac": T.render(t2), "queries": [], "self": True, "subchains": subchains(t2), "kw": {"tree_only": True}})
    # glycans written with their reducing-end anomer contain themselves (all matching modes) and their sub-chains
    n_undet = len(qitems)
    for t in trees[:(14 if tier == "quick" else 150)]:
        an_ = r.choice("ab")
        # sub-chains that contain the reducing end are written with its anomer too; the reducing end alone is one of them
        subs_ = [q_ + " " + an_ for q_ in root_subchains(t)[:4]] + [t.name + " " + an_]
        qitems.append({"iupac": T.render(t) + " " + an_, "queries": [], "self": True, "subchains": sorted(set(subs_)), "kw": {}})
    qouts = C.run_impl_parallel("queries", qitems, extra={"tmp": os.path.join(C.BUILD, "tmp_c16q")}) if qitems else []
    for qi_, (it_, o_) in enumerate(zip(qitems, qouts)):
        report.case(("undetermined:" if qi_ < n_undet else "anomer-suffix:") + it_["iupac"], True)
        if o_.get("exc"):
            continue
        if o_.get("self") and (any(isinstance(x, str) for x in o_["self"]) or min(o_["self"]) < 1):
            report.fail({"site": "count", "kind": "self-not-contained", "linkage": "undetermined" if qi_ < n_undet else "written-root-anomer"}, {"glycan": it_["iupac"], "counts_of_itself": o_["self"]})
        for q, c3 in o_.get("sub_all_fg", {}).items():
            if qi_ >= n_undet and (isinstance(c3, str) or c3 < 1):
                report.fail({"site": "count", "kind": "own-subchain-not-found", "linkage": "written-root-anomer", "mode": "every"},
                            {"glycan": it_["iupac"], "subchain": q, "count_match_all_fg": c3,
                             "problem": "a sub-chain of the glycan (same residues, written the same way) is not found under match_all_fg"})
        for q, (c1, c2) in o_.get("sub", {}).items():
            if isinstance(c1, str) or isinstance(c2, str) or c1 < 1 or c2 < 1:
                report.fail({"site": "count", "kind": "own-subchain-not-found", "linkage": "undetermined" if qi_ < n_undet else "written-root-anomer"}, {"glycan": it_["iupac"], "subchain": q, "counts": [c1, c2]})
    outs = C.run_impl_parallel("queries", items, extra={"tmp": os.path.join(C.BUILD, "tmp_c16")})
    # stand-alone molecules of the prefixed queries and of the residues they are derived from
    alone_names = sorted(set(prefixed) | set(prefixed.values()))
    alone = {nm: o["smiles"] for nm, o in zip(alone_names, chem.convert_all(alone_names))}
    nq = 0
    for t, it, o in zip(trees, items, outs):
        txt = it["iupac"]
        report.case(txt, t.size() >= 2, {"glycan": txt, "queries": it["queries"]} if nq < 4 else None)
        if o.get("exc") or not o.get("smiles"):
            report.fail({"site": "queries", "kind": "raised-or-empty"}, {"glycan": txt, "observed": o})
            continue
        s = o.get("summary")
        if s is None:
            report.fail({"site": "summary", "kind": "raised"}, {"glycan": txt, "exc": o.get("summary_exc")})
        else:
            d = orc.describe(o["smiles"])
            exp = {"monomers": t.size(), "root": t.name, "depth": t.depth(), "leaves": sorted(leaves(t)), "types": dict(Counter(t.residues())),
                   "formula": d["formula"], "atoms": d["heavy"], "rings": d["rings"], "bonds": len([b for b in d["bonds"].split(";") if b])}
            got = {"monomers": s["monomers"], "root": s["root"], "depth": s["depth"], "leaves": sorted(s["leaves"]), "types": s["types"],
                   "formula": s["formula"], "atoms": s["atoms"], "rings": s["rings"], "bonds": s["bonds"]}
            for k in exp:
                if exp[k] != got[k]:
                    report.fail({"site": "summary", "kind": k},
                                {"glycan": txt, "field": k, "reported": got[k], "of_the_tree_or_molecule": exp[k],
                                 "replay_cmd": "./check C16 --replay <this file>"})
        # count with single-residue queries
        res_list = t.residues()
        lv = leaves(t)
        for q, per_scope in o["counts"].items():
            nq += 1
            qb = base(q.split(" ")[0])
            want = {"match_nodes": sum(1 for x in res_list if base(x) == qb), "match_leaves": sum(1 for x in lv if base(x) == qb),
                    "match_root": 1 if base(t.name) == qb else 0}
            for scope, (c_none, c_some, c_every) in per_scope.items():
                if any(isinstance(x, str) for x in (c_none, c_some, c_every)):
                    report.fail({"site": "count", "kind": "raised", "scope": scope}, {"glycan": txt, "query": q, "observed": per_scope[scope]})
                    continue
                if c_none != want[scope]:
                    report.fail({"site": "count", "kind": "single-residue-count", "scope": scope},
                                {"glycan": txt, "query": q, "scope": scope, "count": c_none, "residues_of_that_sugar": want[scope],
                                 "problem": "count() of a single-residue query is not the number of residues of that sugar",
                                 "replay_cmd": "./check C16 --replay <this file>"})
                if not (c_every <= c_some <= c_none):
                    spelled = "ring-or-anomer-in-query" if re.search(r"(p|f| a| b|a|b)$", q) and q not in vocab else "plain-query"
                    if q in prefixed:
                        a, b = alone.get(q), alone.get(prefixed[q])
                        spelled = "config-prefix-same-molecule" if a and b and orc.same(a, b) else "config-prefix-different-molecule"
                    report.fail({"site": "count", "kind": "not-monotone", "query_spelling": spelled},
                                {"glycan": txt, "query": q, "scope": scope, "none_some_every": [c_none, c_some, c_every],
                                 "problem": "stricter functional-group matching found more"})
        if o.get("self") and (any(isinstance(x, str) for x in o["self"]) or min(o["self"]) < 1):
            report.fail({"site": "count", "kind": "self-not-contained"}, {"glycan": txt, "counts_of_itself": o["self"]})
        for q, (c1, c2) in o.get("sub", {}).items():
            if isinstance(c1, str) or isinstance(c2, str) or c1 < 1 or c2 < 1:
                report.fail({"site": "count", "kind": "own-subchain-not-found"}, {"glycan": txt, "subchain": q, "counts": [c1, c2]})
        # save_dot: same nodes and edges as the tree
        dot = o.get("dot", "")
        dn = sorted(re.findall(r'^\s*(\d+)\s*\[label="?([^"\]]+)"?\]', dot, re.M))
        de = sorted(re.findall(r'^\s*(\d+)\s*->\s*(\d+)\s*\[label="?([^"\]]+)"?\]', dot, re.M))
        tn = sorted((str(i), nm) for i, nm in o["nodes"])
        te = sorted((str(b), str(a), lab) for a, b, lab in o["edges"])
        if dn != tn or de != te:
            report.fail({"site": "save_dot", "kind": "nodes-or-edges-differ"}, {"glycan": txt, "dot_nodes": dn, "tree_nodes": tn, "dot_edges": de, "tree_edges": te})
    orc.close()
    if broken and not report.violations:
        report.fail({"site": "proof", "kind": "obligation-broken"},
                    {"no_failing_input": True, "what_no_longer_checks": broken, "theorems": names_thm})
    report.assumptions = ["A-networkx: DiGraphMatcher enumerates the embeddings for multi-residue queries (only 'at least one' is checked for self and sub-chains)",
                          "formula / atoms / bonds / rings of summary() are compared with Spec/Chem functions of the Coq reading of the returned SMILES (rings = cyclomatic number)"]
    extra = {"rule": "random glycans (1-8 residues) x single-residue queries from the glycan's own residues (also with the D-/L- series spelled out, own and opposite) and from the library x {none, some, every} x {nodes, leaves, root}; the glycan with itself and with its own sub-chains (also with an undetermined linkage, and written with its reducing-end anomer); summary(); save_dot",
             "single_residue_queries": nq, "print_assumptions": res.assumptions.get(f"Props/{PROP}.v", "").strip().splitlines()[-5:]}
    return report.finish("proof", ob, dis, names_thm, trusted=C.TRUSTED, extra=extra)


def replay(path):
    rp = json.load(open(path))
    it = {"iupac": rp["glycan"], "queries": [rp["query"]] if "query" in rp else [], "self": True, "subchains": []}
    o = C.run_impl("queries", {"items": [it], "tmp": os.path.join(C.BUILD, "tmp_replay")})["results"][0]
    print(json.dumps({k: o.get(k) for k in ("summary", "counts", "self")}, indent=1)[:3000])
    return 1
