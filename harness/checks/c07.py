"""C07 The order in which branches are written is immaterial."""
import itertools
import json
import os
import sys

sys.path.insert(0, os.path.dirname(os.path.dirname(os.path.abspath(__file__))))
import common as C          # noqa: E402
import gtree as T           # noqa: E402
import chem                 # noqa: E402

PROP = "C07"
DEPS = ["Spec/Smiles.v", "Spec/Chem.v", "Spec/Iso.v", "Spec/Graft.v"]


def permutations_of(t, limit, r):
    """writings of the same tree: every branching residue's kids permuted (all permutations of one residue at a
    time, plus random joint permutations)"""
    base = t.to_json()
    out = []

    def nodes(j, path=()):
        yield path, j
        for i, k in enumerate(j["kids"]):
            yield from nodes(k[3], path + (i,))

    def with_perm(j, path, perm):
        j = json.loads(json.dumps(j))
        cur = j
        for i in path:
            cur = cur["kids"][i][3]
        cur["kids"] = [cur["kids"][i] for i in perm]
        return j

    for path, n in nodes(base):
        k = len(n["kids"])
        if k >= 2:
            for perm in itertools.permutations(range(k)):
                if list(perm) != list(range(k)):
                    out.append(with_perm(base, path, perm))
    r.shuffle(out)
    return out[:limit]

MUST_CONVERT = set()      # writings of trees that are known to be realisable: an empty result for them is reported


def shape_twins(r, n):
    """trees with two arms made of the same residues and the same linkages, one branched and one linear:
    R[ X[A(3), B(4)] (3) , X[A(3)[B(4)]] (6) ] -- anything that summarises a subtree without its shape confuses them"""
    out = []
    for _ in range(n):
        x = r.choice(["GlcNAc", "Man", "Gal", "Glc"])
        a, b = r.sample(["Fuc", "Gal", "Man", "Glc", "Xyl", "Rha"], 2)
        la, lb = r.choice("ab"), r.choice("ab")
        lx = r.choice("ab")
        pa, pb = r.sample([3, 4], 2) if x != "GlcNAc" else (3, 4)
        if pb not in T.RES[a][1]:
            pa, pb = pb, pa
        if pb not in T.RES[a][1] or pa not in T.RES[x][1] or pb not in T.RES[x][1]:
            continue
        branched = T.Node(x, [(la, 1, pa, T.Node(a)), (lb, 1, pb, T.Node(b))])
        linear = T.Node(x, [(la, 1, pa, T.Node(a, [(lb, 1, pb, T.Node(b))]))])
        arms = [(lx, 1, 3, branched), (lx, 1, 6, linear)]
        if r.random() < 0.5:
            arms.reverse()
            arms = [(arms[0][0], 1, 3, arms[0][3]), (arms[1][0], 1, 6, arms[1][3])]
        out.append(T.Node(r.choice(["Gal", "Man", "Glc"]), arms))
    return out

def bicyclic_roots(r, n):
    """1,6-anhydro reducing ends with two or three substituents, one of them a chain: which of them is written as the
    main chain (and is therefore walked last) must not matter"""
    out = []
    for _ in range(n):
        root = r.choice(["1,6-Anhydro-Glc", "1,6-Anhydro-Gal"])
        poss = r.sample([2, 3, 4], r.choice([2, 3]))
        kids = []
        for i, p_ in enumerate(poss):
            leaf = T.Node(r.choice(["Man", "Fuc", "Gal", "Xyl"]))
            if i == 0:
                kids.append((r.choice("ab"), 1, p_, T.Node(r.choice(["Gal", "Glc", "Man"]), [(r.choice("ab"), 1, r.choice([2, 3]), leaf)])))
            else:
                kids.append((r.choice("ab"), 1, p_, leaf))
        r.shuffle(kids)
        out.append(T.Node(root, kids))
    return out


def make_trees(r, tier):
    n = 24 if tier == "quick" else 200
    trees = []
    for i in range(n):
        size = r.randint(3, 8) if tier == "quick" else r.randint(3, 13)
        names = None if i % 3 else ["Glc", "Man", "Gal", "GlcNAc", "Fuc", "Neu5Ac", "Kdo", "Fruf", "GlcN", "Xyl", "Galf"]
        t = T.random_tree(r, size, names=names, p_branch=0.75)
        if any(len(k.kids) >= 2 for k in all_nodes(t)):
            trees.append(t)
    # linkages written without an anomer, next to siblings that have one
    for _ in range(8 if tier == "quick" else 80):
        t = T.random_tree(r, r.randint(3, 7), names=["Glc", "Man", "Gal", "GlcNAc", "Fuc", "Xyl"], p_branch=0.8, anomers=["a", "b", "", ""])
        if any(len(k.kids) >= 2 for k in all_nodes(t)):
            trees.append(t)
    trees += shape_twins(r, 6 if tier == "quick" else 60)
    trees += bicyclic_roots(r, 6 if tier == "quick" else 40)
    # two branches reaching the parent through the two free OH groups of one phosphate (phosphodiester bridges), alone
    # and next to a branch on an ordinary position, on root and inner residues
    for _ in range(4 if tier == "quick" else 30):
        par, pp = r.choice([("Glc6P", 6), ("Man6P", 6), ("Gal3P", 3), ("GlcNAc6P", 6), ("Gal6P", 6)])
        T.RES.setdefault(par, (1, (2, 3, 4, 6), (), "phospho"))
        a_, b_ = r.sample(["Man", "Gal", "Glc", "Fuc", "Xyl", "GlcNAc"], 2)
        kids = [(r.choice("ab"), 1, pp, T.Node(a_)), (r.choice("ab"), 1, pp, T.Node(b_, [("a", 1, 3, T.Node("Man"))] if r.random() < 0.4 else []))]
        if r.random() < 0.5:
            kids.append((r.choice("ab"), 1, 4 if pp != 4 else 2, T.Node("Xyl")))
        node = T.Node(par, kids)
        trees.append(node if r.random() < 0.5 else T.Node("Glc", [("b", 1, 4, node)]))
        MUST_CONVERT.add(T.render(trees[-1]))
    # four substituents on a non-root and on the root residue, nested
    four = T.Node("Glc", [("b", 1, 4, T.Node("Man", [("a", 1, 2, T.Node("Gal")), ("a", 1, 3, T.Node("Fuc")), ("b", 1, 4, T.Node("Xyl")), ("a", 2, 6, T.Node("Neu5Ac"))]))])
    trees.append(four)
    trees.append(T.Node("Man", [("a", 1, 2, T.Node("Gal")), ("a", 1, 3, T.Node("Fuc")), ("b", 1, 4, T.Node("Xyl")), ("b", 1, 6, T.Node("GlcNAc"))]))
    trees.append(T.Node("Glc", [("b", 1, 3, four.kids[0][3]), ("a", 1, 6, T.Node("Man", [("a", 1, 2, T.Node("Man")), ("a", 1, 3, T.Node("Gal")), ("a", 1, 4, T.Node("Glc")), ("a", 1, 6, T.Node("Rha"))]))]))
    return trees


def all_nodes(t):
    yield t
    for _, _, _, k in t.kids:
        yield from all_nodes(k)


def run(tier):
    res = C.build()
    report = C.Report(PROP, tier)
    ob, dis, names_thm, broken = C.proof_gate(report, res, PROP, DEPS)
    orc = chem.Oracle()
    r = C.rng(PROP)
    trees = make_trees(r, tier)
    groups = []
    texts = []
    for t in trees:
        variants = [t.to_json()] + permutations_of(t, 8 if tier == "quick" else 30, r)
        ws = [T.render(T.from_json(v)) for v in variants]
        groups.append((t, ws))
        texts.extend(ws)
    uniq = sorted(set(texts))
    outs = dict(zip(uniq, chem.convert_all(uniq)))
    # the same for glycans that convert only under full=False (one undetermined linkage or one unsupported modification)
    import re as _re
    pgroups = []
    for t, ws in groups[:(25 if tier == "quick" else 200)]:
        kind = r.choice(["q", "mod"])
        def spoil(w):
            if kind == "q":
                return _re.sub(r"\(([ab])(\d)-(\d)\)", r"(?\2-\3)", w, count=1)
            return _re.sub(r"(Glc|Man|Gal)\(", r"\g<1>6Leu(", w, count=1)
        # spoil the same residue / linkage in every writing: mark it in the tree instead of the text
        tj = t.to_json()
        nodes_ = []
        def walk_(j):
            nodes_.append(j)
            for k_ in j["kids"]:
                walk_(k_[3])
        walk_(tj)
        cand = [j for j in nodes_ if j["kids"]]
        if not cand:
            continue
        victim = r.choice(cand)["kids"][0]
        if kind == "q":
            victim[0] = "?"
        else:
            if victim[3]["name"] not in ("Glc", "Man", "Gal") or any(k_[2] == 6 for k_ in victim[3]["kids"]):
                victim[0] = "?"
            else:
                victim[3]["name"] += "6Leu"
        t2 = T.from_json(tj)
        variants = [t2.to_json()] + permutations_of(t2, 6 if tier == "quick" else 20, r)
        pgroups.append([T.render(T.from_json(v)) for v in variants])
    puniq = sorted(set(w for g_ in pgroups for w in g_))
    pouts = dict(zip(puniq, chem.convert_all(puniq, kw={"full": False})))
    ptodo = sorted(set((pouts[g_[0]]["smiles"], pouts[w]["smiles"]) for g_ in pgroups for w in g_[1:] if pouts[g_[0]]["smiles"] and pouts[w]["smiles"]))
    pverdict = dict(zip(ptodo, chem.same_many(ptodo)))
    n_partial = 0
    for g_ in pgroups:
        base_ = pouts[g_[0]]["smiles"]
        for w in g_[1:]:
            o_ = pouts[w]["smiles"]
            n_partial += 1
            report.case("full=False: " + g_[0] + " ~ " + w, True)
            if bool(base_) != bool(o_) or (base_ and not pverdict[(base_, o_)]):
                report.fail({"site": "order", "kind": "different-molecule-full-false"},
                            {"written": g_[0], "permuted": w, "options": {"full": False}, "results": [base_, o_],
                             "problem": "under full=False two writings of the same partially convertible tree give different results"})
    n_pairs = 0
    todo = sorted(set((outs[ws[0]]["smiles"], outs[w]["smiles"]) for t, ws in groups for w in ws[1:]
                      if outs[ws[0]]["smiles"] and outs[w]["smiles"]))
    verdict = dict(zip(todo, chem.same_many(todo)))
    for t, ws in groups:
        base = outs[ws[0]]["smiles"]
        maxk = max(len(n.kids) for n in all_nodes(t))
        for w in ws[1:]:
            n_pairs += 1
            report.case(ws[0] + " ~ " + w, True, {"written": ws[0], "permuted": w, "max_substituents": maxk} if n_pairs <= 4 else None)
            o = outs[w]["smiles"]
            if not base and not o:
                if ws[0] in MUST_CONVERT:
                    report.fail({"site": "order", "kind": "empty-for-every-writing", "max_kids": maxk},
                                {"written": ws[0], "permuted": w, "results": [base, o],
                                 "problem": "a realisable glycan (two branches bound through the two free hydroxyls of one phosphate) comes back empty in every writing"})
                continue
            if bool(base) != bool(o):
                report.fail({"site": "order", "kind": "empty-vs-molecule", "max_kids": maxk},
                            {"written": ws[0], "permuted": w, "results": [base, o]})
                continue
            if not verdict[(base, o)]:
                report.fail({"site": "order", "kind": "different-molecule", "max_kids": maxk},
                            {"written": ws[0], "permuted": w, "results": [base, o],
                             "problem": "two writings of the same tree that differ only in the order of branches give different molecules",
                             "replay_cmd": "./check C07 --replay <this file>"})
    orc.close()
    if broken and not report.violations:
        report.fail({"site": "proof", "kind": "obligation-broken"},
                    {"no_failing_input": True, "what_no_longer_checks": broken, "theorems": names_thm})
    report.assumptions = ["molecule identity is Iso.same_molecule (constitution + tetrahedral parity + cis/trans geometry of marked double bonds)"]
    extra = {"rule": "trees with at least one branching residue (up to four substituents, on root and non-root residues, ketose and N-linked parents, two branches through one phosphate); for each, all permutations of the substituents of one residue at a time (which includes the choice of the unbracketed main chain); distinct pairs of writings",
             "pairs": n_pairs, "pairs_full_false_partial": n_partial, "print_assumptions": res.assumptions.get(f"Props/{PROP}.v", "").strip().splitlines()[-3:],
             "partial": "whole-tree permutation invariance is decided per input; proved: atom-level commutation of two condensations"}
    return report.finish("proof", ob, dis, names_thm, trusted=C.TRUSTED, extra=extra)


def replay(path):
    rp = json.load(open(path))
    o = chem.convert_all([rp["written"], rp["permuted"]])
    orc = chem.Oracle()
    ok = bool(o[0]["smiles"]) == bool(o[1]["smiles"]) and (not o[0]["smiles"] or orc.same(o[0]["smiles"], o[1]["smiles"]))
    print(json.dumps({"written": rp["written"], "permuted": rp["permuted"], "now": [x["smiles"] for x in o]}, indent=1))
    print("property holds on this input" if ok else "property FAILS on this input")
    return 0 if ok else 1
