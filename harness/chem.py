"""Shared helpers of the chemistry checks: conversion through the public API, Coq-evaluated descriptors."""
import collections
import re

import common as C


def parse_formula(f):
    return collections.Counter({m.group(1): int(m.group(2) or 1) for m in re.finditer(r"([A-Z][a-z]?)(\d*)", f)})


def fmt_formula(c):
    return "".join(f"{k}{v}" for k, v in sorted(c.items()) if v)


class Oracle:
    """Coq spec functions (extracted) with a cache"""

    def __init__(self):
        self.drv = C.Driver()
        self.cache = {}

    def describe(self, s):
        if s not in self.cache:
            self.cache[s] = C.describe(self.drv, s)
        return self.cache[s]

    # a call that exceeds Driver.TIMEOUT is undecided: it is counted (Driver.timeouts, copied into the evidence) and
    # not reported as a difference
    def same(self, a, b):
        return self.drv.call("same", a, b) in ("1", "TIMEOUT")

    def mirror(self, a, b):
        return self.drv.call("mirror", a, b) in ("1", "TIMEOUT")

    def profiles(self, a, b):
        out = self.drv.call("profiles", a, b)
        if out in ("ERR", ""):
            return [] if out == "ERR" else [[]]
        res = []
        for p in out.split("|"):
            res.append([(int(x.split(":")[0]), x.split(":")[1]) for x in p.split(";") if x])
        return res

    def close(self):
        self.drv.close()


def convert_all(names, kw=None, workers=14):
    reqs = [{"iupac": n, "kw": kw or {}} for n in names]
    return C.run_impl_parallel("convert_many", reqs, workers=workers)


def same_many(pairs, workers=12):
    """same_molecule for many pairs of SMILES, in a pool of driver processes; identical strings are the same molecule"""
    import threading
    from concurrent.futures import ThreadPoolExecutor
    local = threading.local()
    made = []

    def one(ab):
        a, b = ab
        if a == b:
            return True
        if not hasattr(local, "orc"):
            local.orc = Oracle()
            made.append(local.orc)
        return local.orc.same(a, b)

    with ThreadPoolExecutor(max_workers=workers) as ex:
        out = list(ex.map(one, pairs))
    for o in made:
        o.close()
    return out
