"""Encoding of values / worlds for the extracted PyLite interpreter (op 'pycall' of the driver)."""


def hx(s):
    return s.encode("latin-1").hex()


def unhx(h):
    return bytes.fromhex(h).decode("latin-1")


def enc_value(v):
    """v: tagged value {"t":..., "v":...} or python primitives / lists"""
    if isinstance(v, dict):
        t = v["t"]
        if t == "none":
            return "n"
        if t == "bool":
            return "T" if v["v"] else "F"
        if t == "int":
            return "i%d;" % v["v"]
        if t == "str":
            return "s" + hx(v["v"]) + ";"
        if t == "pylist":
            return "l%d;" % len(v["v"]) + "".join(enc_value(x) for x in v["v"])
        if t == "gen":
            return "g%d;" % len(v["v"]) + "".join(enc_value(x) for x in v["v"])
        raise ValueError("not representable in PyLite: " + t)
    if v is None:
        return "n"
    if v is True:
        return "T"
    if v is False:
        return "F"
    if isinstance(v, int):
        return "i%d;" % v
    if isinstance(v, str):
        return "s" + hx(v) + ";"
    if isinstance(v, list):
        return "l%d;" % len(v) + "".join(enc_value(x) for x in v)
    raise ValueError(v)


def representable(v):
    return v["t"] in ("none", "int", "str") and (v["t"] != "str" or all(ord(c) < 128 for c in v["v"]))


class Rd:
    def __init__(self, s):
        self.s, self.i = s, 0

    def next(self):
        c = self.s[self.i]
        self.i += 1
        return c

    def semi(self):
        j = self.s.index(";", self.i)
        t = self.s[self.i:j]
        self.i = j + 1
        return t


def dec_value(r):
    c = r.next()
    if c == "n":
        return None
    if c == "T":
        return True
    if c == "F":
        return False
    if c == "i":
        return int(r.semi())
    if c == "s":
        return unhx(r.semi())
    if c in "lug":
        n = int(r.semi())
        return [dec_value(r) for _ in range(n)]
    return "<" + c + ">"


def enc_strs(l):
    return "%d;" % len(l) + "".join(hx(s) + ";" for s in l)


def enc_world(files, parent_ok, stdin=(), disabled=False, closed=False):
    out = ("T" if disabled else "F") + ("T" if closed else "F")
    out += "%d;" % len(files)
    for p, ls in files:
        out += hx(p) + ";" + enc_strs(ls)
    out += enc_strs(list(parent_ok)) + enc_strs(list(stdin))
    return out


def dec_strs(r):
    n = int(r.semi())
    return [unhx(r.semi()) for _ in range(n)]


def dec_world(s):
    r = Rd(s)
    disabled = r.next() == "T"
    closed = r.next() == "T"
    nf = int(r.semi())
    files = {}
    for _ in range(nf):
        p = unhx(r.semi())
        files[p] = dec_strs(r)
    out = dec_strs(r)
    err = dec_strs(r)
    return {"disabled": disabled, "closed": closed, "files": files, "stdout": out, "stderr": err}


def enc_conv(table):
    """table: list of (tagged value, full bool, smiles or None(parse error) or Exception marker)"""
    out = "%d;" % len(table)
    for v, full, res in table:
        out += enc_value(v) + ("T" if full else "F")
        if res == "":
            out += "x"      # the implementation's "" may be a ParseError or any other Exception: both give ""
        else:
            out += "k" + hx(res) + ";"
    return out
