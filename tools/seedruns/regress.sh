#!/bin/bash
# every seeded change against the check(s) that should catch it; prints one line per (change, check)
cd /verif
declare -A EXTRA=( [C07i]="C01" [C01i]="C05 C07" [C04i]="C11 C12" [C10i]="C02" [C06h]="C08 C14" [C03h]="C06" [C02h]="C09" [C12h]="C11" [C15h]="C03" [C09h]="C15 C03" [C07h]="C01" [C01h]="C13" [C14h]="C08" [C02]="C01" [C06]="C08" [C02g]="C11" )
for d in seeded/*/; do
  m=$(basename $d)
  p=${m:0:3}
  [ -n "$1" ] && [[ ! " $* " =~ " $m " ]] && continue
  if ! git -C /repo apply --check /verif/$d/patch.diff 2>/dev/null; then echo "$m APPLY-FAIL"; continue; fi
  git -C /repo apply /verif/$d/patch.diff
  for c in $p ${EXTRA[$m]}; do
    n=$(./check $c quick 2>&1 | grep -c "^VIOLATION")
    echo "$m $c violations=$n"
  done
  git -C /repo checkout -- .
done
