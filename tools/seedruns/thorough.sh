#!/bin/bash
mkdir -p /verif/_build/seedruns
cd /verif
for i in $(seq -w 1 17); do
  c=C$i
  s=$(date +%s)
  ./check $c thorough > _build/seedruns/$c.thorough.log 2>&1
  echo "$c thorough exit=$? $(grep -c VIOLATION _build/seedruns/$c.thorough.log) violations $(( $(date +%s) - s ))s"
done
