#!/bin/bash
mkdir -p /verif/_build/seedruns
# all quick checks under several seeds; summary of exits and VIOLATION lines
cd /verif
for seed in "$@"; do
  for i in $(seq -w 1 17); do
    c=C$i
    VERIF_SEED=$seed ./check $c quick > _build/seedruns/$c.$seed.log 2>&1
    echo "$c seed=$seed exit=$? $(grep -c VIOLATION _build/seedruns/$c.$seed.log) violations"
  done
done
