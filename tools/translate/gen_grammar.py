"""Regenerate coq/Gen/Grammar.v from glyles/grammar/Glycan.g4 (rules as EBNF terms, token table in priority order).
Fail-closed: anything outside the subset of ANTLR syntax used by the grammar raises."""
import os
import re

OUTPUTS = ["Gen/Grammar.v"]


class TranslationError(Exception):
    pass


def cs(s):
    for ch in s:
        if ord(ch) < 32 or ord(ch) > 126:
            raise TranslationError(f"non-printable character in grammar literal {s!r}")
    return '"' + s.replace('"', '""') + '"'


TOKEN_RE = re.compile(r"""\s*(?:(?P<lit>'(?:[^'\\]|\\.)*')|(?P<id>[A-Za-z_][A-Za-z_0-9]*)|(?P<op>\.\.|[|()*+?:;]))""")


def tokenize(text):
    text = re.sub(r"//[^\n]*", "", text)
    text = re.sub(r"/\*.*?\*/", "", text, flags=re.S)
    pos, out = 0, []
    while pos < len(text):
        if text[pos:].strip() == "":
            break
        m = TOKEN_RE.match(text, pos)
        if not m:
            raise TranslationError(f"cannot tokenize grammar at: {text[pos:pos + 30]!r}")
        pos = m.end()
        if m.group("lit"):
            body = m.group("lit")[1:-1]
            if "\\" in body:
                raise TranslationError(f"escape sequences in literals are not supported: {body!r}")
            out.append(("lit", body))
        elif m.group("id"):
            out.append(("id", m.group("id")))
        else:
            out.append(("op", m.group("op")))
    return out


class P:
    def __init__(self, toks):
        self.t, self.i = toks, 0

    def peek(self):
        return self.t[self.i] if self.i < len(self.t) else (None, None)

    def eat(self, kind=None, val=None):
        k, v = self.peek()
        if (kind and k != kind) or (val is not None and v != val):
            raise TranslationError(f"expected {kind} {val}, found {k} {v}")
        self.i += 1
        return v

    # alt := seq ('|' seq)*
    def alt(self):
        items = [self.seq()]
        while self.peek() == ("op", "|"):
            self.eat()
            items.append(self.seq())
        return ("alt", items) if len(items) > 1 else items[0]

    def seq(self):
        items = []
        while True:
            k, v = self.peek()
            if k in ("lit", "id") or (k, v) == ("op", "("):
                items.append(self.suffixed())
            else:
                break
        if not items:
            return ("eps",)
        return ("seq", items) if len(items) > 1 else items[0]

    def suffixed(self):
        a = self.atom()
        while self.peek()[0] == "op" and self.peek()[1] in "*+?":
            op = self.eat()
            a = ({"*": "star", "+": "plus", "?": "opt"}[op], a)
        return a

    def atom(self):
        k, v = self.peek()
        if k == "lit":
            self.eat()
            if self.peek() == ("op", ".."):
                self.eat()
                hi = self.eat("lit")
                return ("range", v, hi)
            return ("lit", v)
        if k == "id":
            self.eat()
            return ("ref", v)
        if (k, v) == ("op", "("):
            self.eat()
            a = self.alt()
            self.eat("op", ")")
            return a
        raise TranslationError(f"unexpected {k} {v}")


def emit_expr(e, implicit):
    k = e[0]
    if k == "lit":
        return f"(Tok {cs(implicit[e[1]])})"
    if k == "ref":
        return f"(Tok {cs(e[1])})" if e[1][0].isupper() else f"(NT {cs(e[1])})"
    if k == "eps":
        return "Eps"
    if k in ("star", "plus", "opt"):
        return f"({k.capitalize()} {emit_expr(e[1], implicit)})"
    if k == "seq":
        out = emit_expr(e[1][-1], implicit)
        for x in reversed(e[1][:-1]):
            out = f"(Seq {emit_expr(x, implicit)} {out})"
        return out
    if k == "alt":
        out = emit_expr(e[1][-1], implicit)
        for x in reversed(e[1][:-1]):
            out = f"(Alt {emit_expr(x, implicit)} {out})"
        return out
    raise TranslationError(f"unsupported construct {k} in a parser rule")


def collect_lits(e, acc):
    if e[0] == "lit":
        if e[1] not in acc:
            acc.append(e[1])
    elif e[0] in ("star", "plus", "opt"):
        collect_lits(e[1], acc)
    elif e[0] in ("seq", "alt"):
        for x in e[1]:
            collect_lits(x, acc)


def token_table_of(repo):
    """the token table [(name, 'lits' | 'num', literals)] in priority order (used by gen_atn.py for presentation order)"""
    return _parse(repo)[3]


def generate(repo):
    gname, rules, implicit, table = _parse(repo)
    return _emit(gname, rules, implicit, table)


def _parse(repo):
    text = open(os.path.join(repo, "glyles/grammar/Glycan.g4")).read()
    toks = tokenize(text)
    p = P(toks)
    if p.eat("id") != "grammar":
        raise TranslationError("expected 'grammar'")
    gname = p.eat("id")
    p.eat("op", ";")
    rules, lexrules = [], []
    while p.peek()[0] is not None:
        name = p.eat("id")
        p.eat("op", ":")
        body = p.alt()
        p.eat("op", ";")
        (lexrules if name[0].isupper() else rules).append((name, body))
    # implicit tokens: literals used in parser rules that are not the sole body of a lexer rule, in order of appearance
    lex_single = {}
    for name, body in lexrules:
        if body[0] == "lit":
            lex_single.setdefault(body[1], name)
    lits = []
    for _, body in rules:
        collect_lits(body, lits)
    implicit, table = {}, []
    n = 0
    for l in lits:
        if l in lex_single:
            implicit[l] = lex_single[l]
        else:
            implicit[l] = f"T__{n}"
            table.append((f"T__{n}", "lits", [l]))
            n += 1
    for name, body in lexrules:
        if body[0] == "lit":
            table.append((name, "lits", [body[1]]))
        elif body[0] == "alt" and all(x[0] == "lit" for x in body[1]):
            table.append((name, "lits", [x[1] for x in body[1]]))
        elif body == ("seq", [("range", "1", "9"), ("star", ("range", "0", "9"))]):
            table.append((name, "num", []))
        else:
            raise TranslationError(f"lexer rule {name} has an unsupported shape")
    return gname, rules, implicit, table


def _emit(gname, rules, implicit, table):
    out = ["(* GENERATED by tools/translate/gen_grammar.py from glyles/grammar/Glycan.g4 -- do not edit *)",
           "From Coq Require Import String List.", "From GV Require Import Spec.Ebnf.", "Import ListNotations.",
           "Open Scope string_scope.", "",
           f"Definition grammar_name : string := {cs(gname)}.",
           "(* token table in priority order: implicit literal tokens first, then the lexer rules as declared *)",
           "Definition token_table : list (string * tokdef) := ["]
    out.append(";\n".join(
        f"  ({cs(nm)}, " + ("TNum" if kind == "num" else "TLits [" + "; ".join(cs(x) for x in ls) + "]") + ")"
        for nm, kind, ls in table))
    out.append("].")
    out.append("Definition rules : list (string * expr) := [")
    out.append(";\n".join(f"  ({cs(nm)}, {emit_expr(b, implicit)})" for nm, b in rules))
    out.append("].")
    out.append(f"Definition start_rule : string := {cs(rules[0][0])}.")
    out.append("")
    return {"Gen/Grammar.v": "\n".join(out)}


if __name__ == "__main__":
    import sys
    print(generate(sys.argv[1] if len(sys.argv) > 1 else "/repo")["Gen/Grammar.v"])
