"""Regenerate coq/Gen/Tables.v from the working tree: monosaccharide tables, functional groups, conflict lists,
ketoses2, marker tables. Python `ast` only, fail-closed: any shape outside the expected one raises."""
import ast
import os

OUTPUTS = ["Gen/Tables.v"]


class TranslationError(Exception):
    pass


def coq_str(s):
    if not isinstance(s, str):
        raise TranslationError(f"not a string: {s!r}")
    for ch in s:
        if ord(ch) < 32 or ord(ch) > 126:
            raise TranslationError(f"non-printable character in table string {s!r}")
    return '"' + s.replace('"', '""') + '"'


def const_eval(node):
    """Evaluate string/int constant expressions built from + and * only."""
    if isinstance(node, ast.Constant) and isinstance(node.value, (str, int)):
        return node.value
    if isinstance(node, ast.BinOp) and isinstance(node.op, ast.Add):
        a, b = const_eval(node.left), const_eval(node.right)
        if type(a) is type(b):
            return a + b
    if isinstance(node, ast.BinOp) and isinstance(node.op, ast.Mult):
        a, b = const_eval(node.left), const_eval(node.right)
        if isinstance(a, str) and isinstance(b, int) or isinstance(a, int) and isinstance(b, str):
            return a * b
    raise TranslationError(f"unsupported constant expression at line {getattr(node, 'lineno', '?')}: {ast.dump(node)[:120]}")


ENUMS = {
    "Config": {"UNDEF": 0, "ALPHA": 1, "BETA": 2},
    "Enantiomer": {"D": 0, "L": 1, "U": 2},
    "Lactole": {"UNKNOWN": 0, "OPEN": 1, "FURANOSE": 5, "PYRANOSE": 6},
}


def enum_val(node, which):
    if isinstance(node, ast.Attribute) and isinstance(node.value, ast.Name) and node.value.id == which \
            and node.attr in ENUMS[which]:
        return ENUMS[which][node.attr]
    raise TranslationError(f"expected {which}.<member> at line {node.lineno}")


def check_enums(repo):
    """The numeric values used above must be those of glyles/glycans/utils.py."""
    tree = ast.parse(open(os.path.join(repo, "glyles/glycans/utils.py")).read())
    found = {}
    for node in tree.body:
        if isinstance(node, ast.ClassDef) and node.name in ENUMS:
            vals = {}
            for st in node.body:
                if isinstance(st, ast.Assign) and len(st.targets) == 1 and isinstance(st.targets[0], ast.Name) \
                        and isinstance(st.value, ast.Constant):
                    vals[st.targets[0].id] = st.value.value
            found[node.name] = vals
    if found != ENUMS:
        raise TranslationError(f"enum values changed: {found}")


def monomer_table(repo, rel, cls):
    tree = ast.parse(open(os.path.join(repo, rel)).read())
    for node in tree.body:
        if isinstance(node, ast.ClassDef) and node.name == cls:
            for st in node.body:
                if isinstance(st, ast.Assign) and len(st.targets) == 1 and isinstance(st.targets[0], ast.Name) \
                        and st.targets[0].id == "__monomers":
                    if not isinstance(st.value, ast.Dict):
                        raise TranslationError(f"{cls}.__monomers is not a dict display")
                    rows = []
                    seen = set()
                    for k, v in zip(st.value.keys, st.value.values):
                        key = const_eval(k)
                        if key in seen:
                            raise TranslationError(f"duplicate key {key} in {cls}")
                        seen.add(key)
                        if not isinstance(v, ast.Dict):
                            raise TranslationError(f"row {key} is not a dict display")
                        d = {}
                        for kk, vv in zip(v.keys, v.values):
                            d[const_eval(kk)] = vv
                        extra = set(d) - {"name", "config", "isomer", "lactole", "smiles", "c1_find", "ring_size"}
                        if extra:
                            raise TranslationError(f"row {key}: unknown fields {extra}")
                        c1 = None
                        if "c1_find" in d:
                            # expected: lambda x: c1_finder(x, "<smiles>")  or a Name (c1_ino_finder)
                            lam = d["c1_find"]
                            if isinstance(lam, ast.Lambda) and isinstance(lam.body, ast.Call) and \
                                    isinstance(lam.body.func, ast.Name) and len(lam.body.args) == 2:
                                c1 = lam.body.func.id + ":" + const_eval(lam.body.args[1])
                            elif isinstance(lam, ast.Lambda) and isinstance(lam.body, ast.Call) and \
                                    isinstance(lam.body.func, ast.Name) and len(lam.body.args) == 1:
                                c1 = lam.body.func.id
                            else:
                                raise TranslationError(f"row {key}: unsupported c1_find")
                        rows.append((key, const_eval(d["name"]), enum_val(d["config"], "Config"),
                                     enum_val(d["isomer"], "Enantiomer"), enum_val(d["lactole"], "Lactole"),
                                     const_eval(d["smiles"]),
                                     const_eval(d["ring_size"]) if "ring_size" in d else -1, c1 or ""))
                    return rows
    raise TranslationError(f"{cls}.__monomers not found in {rel}")


def module_value(tree, name):
    for node in tree.body:
        if isinstance(node, ast.Assign) and len(node.targets) == 1 and isinstance(node.targets[0], ast.Name) \
                and node.targets[0].id == name:
            return node.value
    raise TranslationError(f"module-level {name} not found")


def str_list(node):
    if not isinstance(node, (ast.List, ast.Tuple, ast.Set)):
        raise TranslationError("expected list display")
    return [const_eval(e) for e in node.elts]


def marker_tables(repo):
    """get_dummy_atoms() and the placeholder table of assemble_chains: (atomic number, symbol/regex)."""
    tree = ast.parse(open(os.path.join(repo, "glyles/glycans/mono/monomer.py")).read())
    dummy = None
    for node in ast.walk(tree):
        if isinstance(node, ast.FunctionDef) and node.name == "get_dummy_atoms":
            rets = [n for n in ast.walk(node) if isinstance(n, ast.Return)]
            if len(rets) != 1:
                raise TranslationError("get_dummy_atoms: expected one return")
            dummy = ast.literal_eval(rets[0].value)
    if dummy is None:
        raise TranslationError("get_dummy_atoms not found")
    tree = ast.parse(open(os.path.join(repo, "glyles/glycans/mono/reactor.py")).read())
    ph = None
    for node in ast.walk(tree):
        if isinstance(node, ast.FunctionDef) and node.name == "assemble_chains":
            for st in ast.walk(node):
                if isinstance(st, ast.Assign) and isinstance(st.targets[0], ast.Name) and st.targets[0].id == "placeholder":
                    ph = ast.literal_eval(st.value)
    if ph is None:
        raise TranslationError("placeholder table not found")
    return dummy, ph


def generate(repo):
    check_enums(repo)
    pyr = monomer_table(repo, "glyles/glycans/factory/factory_p.py", "PyranoseFactory")
    fur = monomer_table(repo, "glyles/glycans/factory/factory_f.py", "FuranoseFactory")
    opn = monomer_table(repo, "glyles/glycans/factory/factory_o.py", "OpenFactory")
    rt = ast.parse(open(os.path.join(repo, "glyles/glycans/mono/reactor.py")).read())
    fg_node = module_value(rt, "functional_groups")
    if not isinstance(fg_node, ast.Dict):
        raise TranslationError("functional_groups is not a dict display")
    fgs = []
    seen = {}
    for k, v in zip(fg_node.keys, fg_node.values):
        kk, vv = const_eval(k), const_eval(v)
        if kk in seen:            # python keeps the last value, at the first key's position
            fgs[seen[kk]] = (kk, vv)
        else:
            seen[kk] = len(fgs)
            fgs.append((kk, vv))
    lists = {n: str_list(module_value(rt, n)) for n in
             ("preserve_elem", "n_conflict", "o_conflict", "p_conflict", "c_conflict")}
    ut = ast.parse(open(os.path.join(repo, "glyles/glycans/utils.py")).read())
    k2 = module_value(ut, "ketoses2")
    if not isinstance(k2, ast.Set):
        raise TranslationError("ketoses2 is not a set display")
    ket = []
    for e in k2.elts:
        if not (isinstance(e, ast.Tuple) and len(e.elts) == 2):
            raise TranslationError("ketoses2 entry is not a pair")
        ket.append((const_eval(e.elts[0]), enum_val(e.elts[1], "Lactole")))
    dummy, ph = marker_tables(repo)

    out = []
    w = out.append
    w("(* GENERATED by tools/translate/gen_tables.py from the GlyLES working tree -- do not edit *)")
    w("From Coq Require Import String ZArith List.")
    w("Import ListNotations.")
    w("Open Scope string_scope.")
    w("")
    w("Record row := mkRow { r_key : string; r_name : string; r_config : nat; r_isomer : nat; r_lactole : nat;")
    w("                      r_smiles : string; r_ring_size : Z; r_c1 : string }.")
    for nm, rows in (("pyranoses", pyr), ("furanoses", fur), ("opens", opn)):
        w(f"Definition {nm} : list row := [")
        w(";\n".join(f"  mkRow {coq_str(k)} {coq_str(n)} {c} {i} {l} {coq_str(s)} ({rs})%Z {coq_str(c1)}"
                     for (k, n, c, i, l, s, rs, c1) in rows))
        w("].")
    w("Definition functional_groups : list (string * string) := [")
    w(";\n".join(f"  ({coq_str(k)}, {coq_str(v)})" for k, v in fgs))
    w("].")
    for n, l in lists.items():
        w(f"Definition {n} : list string := [" + "; ".join(coq_str(x) for x in l) + "].")
    w("Definition ketoses2 : list (string * nat) := [" + "; ".join(f"({coq_str(a)}, {b})" for a, b in sorted(ket)) + "].")
    w("(* linkage markers: (atomic number, symbol, regex) for O and N per child *)")
    w("Definition dummy_atoms : list ((nat * string * string) * (nat * string * string)) := [")
    w(";\n".join(f"  (({o[0]}, {coq_str(o[1])}, {coq_str(o[2])}), ({n[0]}, {coq_str(n[1])}, {coq_str(n[2])}))" for o, n in dummy))
    w("].")
    for idx, nm in ((0, "placeholder_o"), (1, "placeholder_c")):
        w(f"Definition {nm} : list (nat * string) := [" + "; ".join(f"({a}, {coq_str(b)})" for a, b in ph[idx]) + "].")
    w("")
    return {"Gen/Tables.v": "\n".join(out)}


if __name__ == "__main__":
    import sys
    for k, v in generate(sys.argv[1] if len(sys.argv) > 1 else "/repo").items():
        print(k, len(v))
