"""Regenerate coq/Gen/WalkerGen.v from TreeWalker.__walk (glyles/glycans/poly/walker.py): the dispatch on the number
of children of a parse-tree node and, per case, the sequence of recursive walks, __add_node and __add_edge calls, as a
Coq function over Model/Walker's generic parse trees.  Fail-closed: any statement outside the shapes listed in
`stmt` raises."""
import ast
import os

OUTPUTS = ["Gen/WalkerGen.v"]


class TranslationError(Exception):
    pass


def is_self_call(node, name):
    return (isinstance(node, ast.Call) and isinstance(node.func, ast.Attribute) and isinstance(node.func.value, ast.Name)
            and node.func.value.id == "self" and node.func.attr in (name, "_TreeWalker" + name))


def child_index(node):
    """children[i] -> i"""
    if (isinstance(node, ast.Subscript) and isinstance(node.value, ast.Name) and node.value.id == "children"
            and isinstance(node.slice, ast.Constant) and isinstance(node.slice.value, int) and node.slice.value >= 0):
        return node.slice.value
    raise TranslationError("expected children[<non-negative literal>], found " + ast.dump(node)[:80])


def var(node):
    if isinstance(node, ast.Name) and node.id.isidentifier():
        return node.id
    raise TranslationError("expected a variable, found " + ast.dump(node)[:80])


def cond(test):
    """len(children) == K [and isinstance(children[I], GlycanParser.BranchContext)] -> (K, I or None)"""
    parts = test.values if isinstance(test, ast.BoolOp) and isinstance(test.op, ast.And) else [test]
    k, br = None, None
    for p in parts:
        if (isinstance(p, ast.Compare) and len(p.ops) == 1 and isinstance(p.ops[0], ast.Eq) and isinstance(p.left, ast.Call)
                and isinstance(p.left.func, ast.Name) and p.left.func.id == "len" and len(p.left.args) == 1
                and isinstance(p.left.args[0], ast.Name) and p.left.args[0].id == "children"
                and isinstance(p.comparators[0], ast.Constant) and isinstance(p.comparators[0].value, int)):
            if k is not None:
                raise TranslationError("two length tests in one condition")
            k = p.comparators[0].value
        elif (isinstance(p, ast.Call) and isinstance(p.func, ast.Name) and p.func.id == "isinstance" and len(p.args) == 2
              and isinstance(p.args[1], ast.Attribute) and p.args[1].attr == "BranchContext"):
            if br is not None:
                raise TranslationError("two isinstance tests in one condition")
            br = child_index(p.args[0])
        else:
            raise TranslationError("unsupported condition " + ast.dump(p)[:100])
    if k is None:
        raise TranslationError("a case without a test on len(children)")
    return k, br


def stmt(s):
    """one statement of a case body -> ('walk', target_var|None, child, parent_var) | ('node', var, child) |
    ('edge', parent_var, child_var, child) | ('ret', var)"""
    if isinstance(s, ast.Return):
        return ("ret", var(s.value))
    if isinstance(s, ast.Expr) and is_self_call(s.value, "__walk"):
        a = s.value.args
        if len(a) != 2:
            raise TranslationError("__walk with other than two arguments")
        return ("walk", None, child_index(a[0]), var(a[1]))
    if isinstance(s, ast.Assign) and len(s.targets) == 1:
        tgt = var(s.targets[0])
        if is_self_call(s.value, "__walk"):
            a = s.value.args
            if len(a) != 2:
                raise TranslationError("__walk with other than two arguments")
            return ("walk", tgt, child_index(a[0]), var(a[1]))
        if is_self_call(s.value, "__add_node"):
            a = s.value.args
            if len(a) != 1:
                raise TranslationError("__add_node with other than one argument")
            return ("node", tgt, child_index(a[0]))
    if (isinstance(s, ast.AugAssign) and isinstance(s.op, ast.BitAnd) and isinstance(s.target, ast.Attribute)
            and isinstance(s.target.value, ast.Name) and s.target.value.id == "self" and s.target.attr == "full"
            and is_self_call(s.value, "__add_edge")):
        a = s.value.args
        if len(a) != 3:
            raise TranslationError("__add_edge with other than three arguments")
        return ("edge", var(a[0]), var(a[1]), child_index(a[2]))
    raise TranslationError("unsupported statement in __walk: " + ast.unparse(s)[:100])


def cases_of(fn):
    body = [s for s in fn.body if not (isinstance(s, ast.Expr) and isinstance(s.value, ast.Constant))]
    # 1. the guard against error / terminal nodes
    g = body[0]
    if not (isinstance(g, ast.If) and all(isinstance(x, ast.Raise) for x in g.body)):
        raise TranslationError("__walk does not start with the ErrorNode / TerminalNode guard")
    # 2. children = list(t.getChildren())
    c = body[1]
    if ast.unparse(c) != "children = list(t.getChildren())":
        raise TranslationError("expected 'children = list(t.getChildren())', found " + ast.unparse(c)[:80])
    # 3. the if / elif chain
    node = body[2]
    if not isinstance(node, ast.If) or len(body) != 4 or not isinstance(body[3], ast.Raise):
        raise TranslationError("__walk is not 'guard; children = ...; if/elif chain; raise'")
    cases = []
    while True:
        k, br = cond(node.test)
        cases.append((k, br, [stmt(s) for s in node.body]))
        if len(node.orelse) == 1 and isinstance(node.orelse[0], ast.If):
            node = node.orelse[0]
        elif not node.orelse:
            break
        else:
            raise TranslationError("an else branch in the dispatch of __walk")
    for k, br, acts in cases:
        if not acts or acts[-1][0] != "ret" or any(a[0] == "ret" for a in acts[:-1]):
            raise TranslationError("a case of __walk does not end in exactly one return")
    return cases


def emit_case(k, br, acts):
    env = {"parent"}            # variables in scope (Coq names are the Python names)
    out, close = [], 0
    for a in acts:
        if a[0] == "walk":
            _, tgt, ci, pv = a
            if pv not in env:
                raise TranslationError(f"variable {pv} used before assignment")
            name = tgt if tgt else "_"
            out.append(f"match nth_error kids {ci} with Some c{ci} => match walk_gen f c{ci} {pv} g with Some ({name}, g) =>")
            close += 2
            if tgt:
                env.add(tgt)
        elif a[0] == "node":
            _, tgt, ci = a
            out.append(f"match nth_error kids {ci} with Some (PRes d{ci}) => let '({tgt}, g) := add_node g d{ci} in")
            close += 1
            env.add(tgt)
        elif a[0] == "edge":
            _, pv, cv, ci = a
            if pv not in env or cv not in env:
                raise TranslationError("edge between unassigned variables")
            out.append(f"match nth_error kids {ci} with Some (PCon e{ci}) => let g := add_edge_g g {pv} {cv} e{ci} in")
            close += 1
        else:
            if a[1] not in env:
                raise TranslationError("return of an unassigned variable")
            out.append(f"Some ({a[1]}, g)")
    text = "\n          ".join(out)
    # close the matches: every opened 'match ... with Some .. =>' gets '| _ => None end'
    text += "\n          " + " ".join("| _ => None end" for _ in range(close))
    test = f"Nat.eqb (length kids) {k}"
    if br is not None:
        test += f" && is_branch_at kids {br}"
    return test, text


def generate(repo):
    src = open(os.path.join(repo, "glyles/glycans/poly/walker.py")).read()
    tree = ast.parse(src)
    fn = None
    for cls in tree.body:
        if isinstance(cls, ast.ClassDef) and cls.name == "TreeWalker":
            for m in cls.body:
                if isinstance(m, ast.FunctionDef) and m.name == "__walk":
                    fn = m
    if fn is None:
        raise TranslationError("TreeWalker.__walk not found")
    if [a.arg for a in fn.args.args] != ["self", "t", "parent"]:
        raise TranslationError("signature of __walk changed")
    cases = cases_of(fn)
    out = ["(* GENERATED by tools/translate/gen_walker.py from TreeWalker.__walk (glyles/glycans/poly/walker.py) -- do not edit *)",
           "From Coq Require Import String Bool Arith List.",
           "From GV Require Import Model.Edge Model.Walker.",
           "Import ListNotations.",
           "Open Scope list_scope.", "",
           "Definition is_branch_at (kids : list ptree) (i : nat) : bool :=",
           "  match nth_error kids i with Some (PBranch _) => true | _ => false end.", "",
           f"(* the {len(cases)} cases of the dispatch, in source order; the ErrorNode / TerminalNode guard and the final raise are None *)",
           "Fixpoint walk_gen (fuel : nat) (t : ptree) (parent : nat) (g : graph) : option (nat * graph) :=",
           "  match fuel with",
           "  | 0 => None",
           "  | S f =>",
           "      match t with",
           "      | PBranch kids =>"]
    for k, br, acts in cases:
        test, text = emit_case(k, br, acts)
        out.append(f"          if {test} then")
        out.append("          " + text)
        out.append("          else")
    out.append("          None")
    out.append("      | _ => None")
    out.append("      end")
    out.append("  end.")
    out.append("")
    out.append("Definition walk_cases : list (nat * option nat) := [" + "; ".join(
        f"({k}, {'Some ' + str(br) if br is not None else 'None'})" for k, br, _ in cases) + "].")
    out.append("")
    return {"Gen/WalkerGen.v": "\n".join(out)}


if __name__ == "__main__":
    import sys
    for k, v in generate(sys.argv[1] if len(sys.argv) > 1 else "/repo").items():
        print(v)
