"""Regenerate coq/Gen/Atn.v from the generated ANTLR files glyles/grammar/GlycanLexer.py and GlycanParser.py:
the token definitions and the parser rules as they are encoded in the serialized ATNs that the library really runs
(decompiled to the same EBNF terms as Gen/Grammar.v, which comes from Glycan.g4). Props/C15.v proves the two equal up
to the order of single-token alternatives.  Fail-closed: an ATN construct outside the shapes ANTLR emits for
( ... | ... ), ( ... )?, ( ... )*, ( ... )+ raises."""
import importlib.util
import os
import sys

OUTPUTS = ["Gen/Atn.v"]


class TranslationError(Exception):
    pass


def cs(s):
    for ch in s:
        if ord(ch) < 32 or ord(ch) > 126:
            raise TranslationError(f"non-printable character in literal {s!r}")
    return '"' + s.replace('"', '""') + '"'


def load(repo, name):
    path = os.path.join(repo, "glyles", "grammar", name + ".py")
    spec = importlib.util.spec_from_file_location("gv_atn_" + name, path)
    mod = importlib.util.module_from_spec(spec)
    spec.loader.exec_module(mod)
    return getattr(mod, name)


def decompile(atn, ri, leaf):
    """EBNF AST of rule ri: ('seq', [...]) / ('alt', [...]) / ('star', x) / ('plus', x) / ('opt', x) / leaf items"""
    from antlr4.atn.ATNState import (BasicState, RuleStartState, RuleStopState, BlockEndState, StarLoopEntryState,
                                     StarLoopbackState, PlusBlockStartState, PlusLoopbackState, LoopEndState,
                                     BasicBlockStartState, StarBlockStartState, TokensStartState)
    from antlr4.atn.Transition import AtomTransition, RangeTransition, SetTransition, RuleTransition, EpsilonTransition

    stop = atn.ruleToStopState[ri]
    budget = [20000]

    def mk_seq(items):
        return items[0] if len(items) == 1 else (("eps",) if not items else ("seq", items))

    def mk_alt(alts):
        return alts[0] if len(alts) == 1 else ("alt", alts)

    def block(start):
        """alternatives of a block start state, each decompiled up to its end state"""
        end = start.endState
        alts = []
        for t in start.transitions:
            if not isinstance(t, EpsilonTransition):
                raise TranslationError(f"block start {start.stateNumber}: non-epsilon transition")
            alts.append(seq(t.target, end))
        return alts, end

    def seq(s, end):
        items = []
        while s is not end:
            budget[0] -= 1
            if budget[0] < 0:
                raise TranslationError("ATN walk does not terminate")
            if isinstance(s, (RuleStopState,)):
                raise TranslationError(f"ran into the rule stop state before {end.stateNumber}")
            if isinstance(s, StarLoopEntryState):
                tr = s.transitions
                if len(tr) != 2:
                    raise TranslationError("star loop entry without two transitions")
                body = [t.target for t in tr if isinstance(t.target, StarBlockStartState)]
                out = [t.target for t in tr if isinstance(t.target, LoopEndState)]
                if len(body) != 1 or len(out) != 1:
                    raise TranslationError("unexpected star loop shape")
                alts, bend = block(body[0])
                lb = bend.transitions[0].target
                if not isinstance(lb, StarLoopbackState) or lb.transitions[0].target is not s:
                    raise TranslationError("star loop does not loop back to its entry")
                items.append(("star", mk_alt(alts)))
                s = out[0].transitions[0].target
            elif isinstance(s, PlusBlockStartState):
                alts, bend = block(s)
                lb = bend.transitions[0].target
                if not isinstance(lb, PlusLoopbackState):
                    raise TranslationError("plus block does not end in a loop-back state")
                tg = [t.target for t in lb.transitions]
                out = [x for x in tg if isinstance(x, LoopEndState)]
                if len(tg) != 2 or s not in tg or len(out) != 1:
                    raise TranslationError("unexpected plus loop shape")
                items.append(("plus", mk_alt(alts)))
                s = out[0].transitions[0].target
            elif isinstance(s, BasicBlockStartState):
                alts, bend = block(s)
                empties = [a for a in alts if a == ("eps",)]
                rest = [a for a in alts if a != ("eps",)]
                if empties:
                    if len(empties) != 1 or not rest:
                        raise TranslationError("unexpected optional block")
                    items.append(("opt", mk_alt(rest)))
                else:
                    items.append(mk_alt(alts))
                s = bend.transitions[0].target
            elif isinstance(s, (BasicState, RuleStartState, TokensStartState, BlockEndState, LoopEndState)):
                if len(s.transitions) != 1:
                    raise TranslationError(f"state {s.stateNumber} ({type(s).__name__}) with {len(s.transitions)} transitions")
                t = s.transitions[0]
                if isinstance(t, RuleTransition):
                    items.append(leaf("rule", t.ruleIndex))
                    s = t.followState
                elif isinstance(t, AtomTransition):
                    items.append(leaf("atom", t.label_))
                    s = t.target
                elif isinstance(t, RangeTransition):
                    items.append(leaf("range", (t.start, t.stop)))
                    s = t.target
                elif isinstance(t, SetTransition):
                    vals = []
                    for iv in t.label.intervals:
                        vals.extend(range(iv.start, iv.stop))
                    items.append(leaf("set", vals))
                    s = t.target
                elif isinstance(t, EpsilonTransition):
                    s = t.target
                else:
                    raise TranslationError(f"unsupported transition {type(t).__name__}")
            else:
                raise TranslationError(f"unsupported ATN state {type(s).__name__}")
        return mk_seq(items)

    return seq(atn.ruleToStartState[ri], stop)


def flatten_alts(e):
    return [x for a in e[1] for x in flatten_alts(a)] if e[0] == "alt" else [e]


def lexer_table(L):
    """[(name, 'lits', [..]) | (name, 'num', [])] from the lexer ATN, in rule order (= priority order)"""
    def leaf(kind, v):
        if kind == "atom":
            return ("chars", [v])
        if kind == "range":
            return ("chars", list(range(v[0], v[1] + 1)))
        if kind == "set":
            return ("chars", list(v))
        raise TranslationError("rule reference inside a lexer rule (fragments are not supported)")

    def strings(e):
        """finite language of e as a list of strings, or raise"""
        k = e[0]
        if k == "chars":
            return [chr(c) for c in e[1]]
        if k == "eps":
            return [""]
        if k == "seq":
            out = [""]
            for x in e[1]:
                xs = strings(x)
                out = [a + b for a in out for b in xs]
                if len(out) > 100000:
                    raise TranslationError("lexer rule too large")
            return out
        if k == "alt":
            return [s for x in e[1] for s in strings(x)]
        if k == "opt":
            return [""] + strings(e[1])
        raise TranslationError("loop")

    table = []
    for ri, name in enumerate(L.ruleNames):
        e = decompile(L.atn, ri, leaf)
        one_nine, zero_nine = list(range(49, 58)), list(range(48, 58))
        if e == ("seq", [("chars", one_nine), ("star", ("chars", zero_nine))]):
            table.append((name, "num", []))
            continue
        try:
            table.append((name, "lits", strings(e)))
        except TranslationError:
            table.append((name, "lits", ["<not a finite set of literals nor [1-9][0-9]*: " + repr(e)[:80].replace('"', "'") + ">"]))
    # the token type of rule i is i+1; the lexer must say so
    return table


def parser_rules(P, token_names):
    def leaf(kind, v):
        if kind == "rule":
            return ("nt", P.ruleNames[v])
        if kind == "atom":
            return ("tok", token_names[v])
        if kind == "set":
            return ("alt", [("tok", token_names[x]) for x in v])
        if kind == "range":
            return ("alt", [("tok", token_names[x]) for x in range(v[0], v[1] + 1)])
        raise TranslationError(kind)
    return [(name, decompile(P.atn, ri, leaf)) for ri, name in enumerate(P.ruleNames)]


def emit_expr(e):
    k = e[0]
    if k == "tok":
        return f"(Tok {cs(e[1])})"
    if k == "nt":
        return f"(NT {cs(e[1])})"
    if k == "eps":
        return "Eps"
    if k in ("star", "plus", "opt"):
        return f"({k.capitalize()} {emit_expr(e[1])})"
    if k in ("seq", "alt"):
        ctor = "Seq" if k == "seq" else "Alt"
        out = emit_expr(e[1][-1])
        for x in reversed(e[1][:-1]):
            out = f"({ctor} {emit_expr(x)} {out})"
        return out
    raise TranslationError(f"unsupported construct {k}")


def generate(repo):
    L = load(repo, "GlycanLexer")
    P = load(repo, "GlycanParser")
    table = lexer_table(L)
    # token type numbers: type i+1 is lexer rule i; the parser's symbolic / literal names must agree with that
    token_names = {0: "<INVALID>"}
    for i, (name, _, _) in enumerate(table):
        token_names[i + 1] = name
    for t, nm in enumerate(P.symbolicNames):
        if nm != "<INVALID>" and token_names.get(t) != nm:
            raise TranslationError(f"parser token type {t} is {nm}, lexer rule {t - 1} is {token_names.get(t)}")
    for i, nm in enumerate(L.ruleNames):
        if nm.startswith("T__") is False and getattr(L, nm, None) != i + 1:
            raise TranslationError(f"lexer constant {nm} is not {i + 1}")
    rules = parser_rules(P, token_names)
    # literals of a token in the order of Glycan.g4 where they occur there (the order inside one token is immaterial for
    # longest-match lexing; single characters are merged into sets by ANTLR and lose their order)
    import gen_grammar
    g4 = {nm: ls for nm, kind, ls in gen_grammar.token_table_of(repo) if kind == "lits"}
    out = ["(* GENERATED by tools/translate/gen_atn.py from glyles/grammar/GlycanLexer.py and GlycanParser.py (serialized ATNs) -- do not edit *)",
           "From Coq Require Import String List.", "From GV Require Import Spec.Ebnf.", "Import ListNotations.",
           "Open Scope string_scope.", "",
           "(* token definitions as the generated lexer encodes them, in rule (= priority) order *)",
           "Definition atn_token_table : list (string * tokdef) := ["]
    rows = []
    for nm, kind, ls in table:
        if kind == "num":
            rows.append(f"  ({cs(nm)}, TNum)")
        else:
            ref = g4.get(nm, [])
            ordered = [x for x in ref if x in ls] + [x for x in ls if x not in ref]
            if len(ordered) != len(ls):
                ordered = ls            # duplicates: show as they are
            rows.append(f"  ({cs(nm)}, TLits [" + "; ".join(cs(x) for x in ordered) + "])")
    out.append(";\n".join(rows))
    out.append("].")
    out.append("(* parser rules as the generated parser's ATN encodes them *)")
    out.append("Definition atn_rules : list (string * expr) := [")
    out.append(";\n".join(f"  ({cs(nm)}, {emit_expr(b)})" for nm, b in rules))
    out.append("].")
    out.append(f"Definition atn_start_rule : string := {cs(P.ruleNames[0])}.")
    out.append("")
    return {"Gen/Atn.v": "\n".join(out)}


if __name__ == "__main__":
    sys.path.insert(0, os.path.dirname(os.path.abspath(__file__)))
    for k, v in generate(sys.argv[1] if len(sys.argv) > 1 else "/repo").items():
        print(v[:6000])
