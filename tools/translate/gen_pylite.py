"""Translate glyles/converter.py and glyles/__main__.py into PyLite program terms (coq/Gen/Converter.v).
Fail-closed: every construct outside the subset raises TranslationError.
Also emits Gen/Sites.v: an inventory of process-state effects (stdout writes, logger toggles) found in the
whole package, used by C11 / C12."""
import ast
import os

OUTPUTS = ["Gen/Converter.v", "Gen/Sites.v"]


class TranslationError(Exception):
    pass


def cs(s):
    if not isinstance(s, str):
        raise TranslationError(f"not a string: {s!r}")
    out = []
    for ch in s:
        if ord(ch) < 32 or ord(ch) > 126:
            out.append("?")
        else:
            out.append(ch)
    return '"' + "".join(out).replace('"', '""') + '"'


def clist(items):
    return "[" + "; ".join(items) + "]"


class Fn:
    """translation state of one function"""

    def __init__(self, name, fresh_lists=()):
        self.name = name
        self.fresh = set(fresh_lists)   # locals known to hold a list created in this function
        self.params = set()
        self.loopvars = set()
        self.is_gen = False


def const_value(v):
    if v is None:
        return "VNone"
    if v is True:
        return "(VBool true)"
    if v is False:
        return "(VBool false)"
    if isinstance(v, int):
        return f"(VInt ({v})%Z)"
    if isinstance(v, str):
        return f"(VStr {cs(v)})"
    raise TranslationError(f"unsupported constant {v!r}")


def dotted(node):
    if isinstance(node, ast.Name):
        return node.id
    if isinstance(node, ast.Attribute):
        b = dotted(node.value)
        return None if b is None else b + "." + node.attr
    return None


USER_FUNCS = {"preprocess_glycans", "convert", "convert_generator", "generate", "parse_list", "main"}


def expr(fn, e):
    if isinstance(e, ast.Constant):
        return f"(EConst {const_value(e.value)})"
    if isinstance(e, ast.JoinedStr):
        # f-strings only reach the log / error texts; kept opaque
        return '(EConst (VStr "<fstring>"))'
    if isinstance(e, ast.Name):
        return f"(EVar {cs(e.id)})"
    d = dotted(e)
    if d == "sys.stdout":
        return "(EConst VStdout)"
    if d == "sys.stderr":
        return "(EConst VStderr)"
    if d in ("logging.INFO",):
        return "(EConst (VInt 20%Z))"
    if isinstance(e, ast.Compare) and len(e.ops) == 1:
        l, op, r = e.left, e.ops[0], e.comparators[0]
        if isinstance(op, ast.Is) and isinstance(r, ast.Constant) and r.value is None:
            return f"(EIsNone {expr(fn, l)})"
        if isinstance(op, ast.IsNot) and isinstance(r, ast.Constant) and r.value is None:
            return f"(EIsNotNone {expr(fn, l)})"
        if isinstance(op, ast.IsNot) and dotted(r) == "sys.stdout":
            # identity with the one stdout object is equality of the model value
            return f"(ENe {expr(fn, l)} (EConst VStdout))"
        if isinstance(op, ast.Eq):
            return f"(EEq {expr(fn, l)} {expr(fn, r)})"
        if isinstance(op, ast.NotEq):
            return f"(ENe {expr(fn, l)} {expr(fn, r)})"
        if isinstance(op, (ast.In, ast.NotIn)) and isinstance(r, (ast.List, ast.Tuple)):
            c = "EIn" if isinstance(op, ast.In) else "ENotIn"
            return f"({c} {expr(fn, l)} {clist([expr(fn, x) for x in r.elts])})"
        raise TranslationError(f"{fn.name}: unsupported comparison at line {e.lineno}")
    if isinstance(e, ast.BoolOp):
        c = "EAnd" if isinstance(e.op, ast.And) else "EOr"
        out = expr(fn, e.values[-1])
        for v in reversed(e.values[:-1]):
            out = f"({c} {expr(fn, v)} {out})"
        return out
    if isinstance(e, ast.UnaryOp) and isinstance(e.op, ast.Not):
        return f"(ENot {expr(fn, e.operand)})"
    if isinstance(e, ast.List):
        return f"(EList {clist([expr(fn, x) for x in e.elts])})"
    if isinstance(e, ast.Tuple):
        return f"(ETuple {clist([expr(fn, x) for x in e.elts])})"
    if isinstance(e, ast.Subscript):
        return f"(ESub {expr(fn, e.value)} {expr(fn, e.slice)})"
    if isinstance(e, ast.ListComp):
        if len(e.generators) != 1 or e.generators[0].ifs or e.generators[0].is_async or \
                not isinstance(e.generators[0].target, ast.Name):
            raise TranslationError(f"{fn.name}: unsupported comprehension at line {e.lineno}")
        g = e.generators[0]
        return f"(EListComp {expr(fn, e.elt)} {cs(g.target.id)} {expr(fn, g.iter)})"
    if isinstance(e, ast.Call):
        return call(fn, e)
    raise TranslationError(f"{fn.name}: unsupported expression {type(e).__name__} at line {getattr(e, 'lineno', '?')}")


def call(fn, e):
    f = e.func
    d = dotted(f)
    args = e.args
    kws = {k.arg: k.value for k in e.keywords}
    if any(k.arg is None for k in e.keywords):
        raise TranslationError(f"{fn.name}: **kwargs call at line {e.lineno}")

    def noargs_kw(n, allow=()):
        if len(args) != n or set(kws) - set(allow):
            raise TranslationError(f"{fn.name}: unexpected arguments to {d} at line {e.lineno}")

    # joblib idiom: Parallel()(delayed(g)(a, b) for x in it)
    if isinstance(f, ast.Call) and dotted(f.func) == "Parallel" and not f.args and not f.keywords \
            and len(args) == 1 and isinstance(args[0], ast.GeneratorExp) and not kws:
        ge = args[0]
        if len(ge.generators) != 1 or ge.generators[0].ifs or not isinstance(ge.generators[0].target, ast.Name):
            raise TranslationError(f"{fn.name}: unsupported Parallel generator at line {e.lineno}")
        elt = ge.elt
        if not (isinstance(elt, ast.Call) and isinstance(elt.func, ast.Call) and dotted(elt.func.func) == "delayed"
                and len(elt.func.args) == 1 and isinstance(elt.func.args[0], ast.Name) and not elt.keywords
                and elt.func.args[0].id in USER_FUNCS):
            raise TranslationError(f"{fn.name}: unsupported delayed(...) shape at line {e.lineno}")
        g = ge.generators[0]
        return (f"(EParMap {cs(elt.func.args[0].id)} {cs(g.target.id)} "
                f"{clist([expr(fn, a) for a in elt.args])} {expr(fn, g.iter)})")
    if d == "len":
        noargs_kw(1)
        return f"(ELen {expr(fn, args[0])})"
    if d == "isinstance":
        noargs_kw(2)
        if not isinstance(args[1], ast.Name) or args[1].id not in ("list", "str", "tuple", "dict", "int"):
            raise TranslationError(f"{fn.name}: unsupported isinstance type at line {e.lineno}")
        return f"(EIsInstance {expr(fn, args[0])} {cs(args[1].id)})"
    if d == "os.path.isfile":
        noargs_kw(1)
        return f'(EPrim "isfile" [{expr(fn, args[0])}])'
    if d == "os.path.isdir":
        # only the idiom isdir(dirname(abspath(p)))
        noargs_kw(1)
        a = args[0]
        if isinstance(a, ast.Call) and dotted(a.func) == "os.path.dirname" and len(a.args) == 1 and \
                isinstance(a.args[0], ast.Call) and dotted(a.args[0].func) == "os.path.abspath" and len(a.args[0].args) == 1:
            return f'(EPrim "parent_dir_exists" [{expr(fn, a.args[0].args[0])}])'
        raise TranslationError(f"{fn.name}: unsupported os.path.isdir argument at line {e.lineno}")
    if d == "open":
        if len(args) == 2 and not kws and isinstance(args[1], ast.Constant) and args[1].value in ("r", "w"):
            return f'(EPrim "open" [{expr(fn, args[0])}; {expr(fn, args[1])}])'
        raise TranslationError(f"{fn.name}: unsupported open(...) at line {e.lineno}")
    if d == "logging.getLogger":
        noargs_kw(0)
        return '(EPrim "getLogger" [])'
    if d == "logging.basicConfig":
        if args or set(kws) - {"level"}:
            raise TranslationError(f"{fn.name}: unsupported basicConfig at line {e.lineno}")
        return '(EPrim "basicConfig" [])'
    if d in ("logging.info", "logging.warning", "logging.error"):
        if kws:
            raise TranslationError(f"{fn.name}: unsupported logging call at line {e.lineno}")
        for a in args:
            expr(fn, a)   # must be translatable (and therefore effect free) even though its text is dropped
        return f'(EPrim "log_{d.split(".")[1]}" [])'
    if d == "input":
        return '(EPrim "input" [])'
    if d == "exit":
        return '(EPrim "exit" [])'
    if d == "parse_args":
        noargs_kw(1)
        return f'(EPrim "parse_args" [{expr(fn, args[0])}])'
    if d == "vars" or d == "type":
        raise TranslationError(f"{fn.name}: unsupported builtin {d}")
    # Glycan(g, full=f).get_smiles()
    if isinstance(f, ast.Attribute) and f.attr == "get_smiles" and not args and not kws and \
            isinstance(f.value, ast.Call) and dotted(f.value.func) == "Glycan":
        g = f.value
        if len(g.args) == 1 and set(k.arg for k in g.keywords) == {"full"}:
            return f'(EPrim "get_smiles" [{expr(fn, g.args[0])}; {expr(fn, g.keywords[0].value)}])'
        raise TranslationError(f"{fn.name}: unsupported Glycan(...) arguments at line {e.lineno}")
    if isinstance(f, ast.Attribute) and f.attr == "strip" and not args and not kws:
        return f'(EPrim "strip" [{expr(fn, f.value)}])'
    if isinstance(f, ast.Attribute) and f.attr == "readlines" and not args and not kws:
        return f'(EPrim "readlines" [{expr(fn, f.value)}])'
    if isinstance(f, ast.Attribute) and f.attr in ("__str__",) and not args:
        return '(EConst (VStr "<str>"))'
    if isinstance(f, ast.Name) and f.id in USER_FUNCS:
        pos = clist([expr(fn, a) for a in args])
        kw = clist([f"({cs(k)}, {expr(fn, v)})" for k, v in kws.items()])
        return f"(ECall {cs(f.id)} {pos} {kw})"
    raise TranslationError(f"{fn.name}: unsupported call {d or ast.dump(f)[:60]} at line {e.lineno}")


def block(fn, body):
    out = []
    for s in body:
        out.extend(stmt(fn, s))
    return clist(out)


def stmt(fn, s):
    if isinstance(s, ast.Expr) and isinstance(s.value, ast.Constant) and isinstance(s.value.value, str):
        return []          # docstring
    if isinstance(s, ast.Pass):
        return []
    if isinstance(s, ast.Assign):
        if len(s.targets) != 1:
            raise TranslationError(f"{fn.name}: chained assignment at line {s.lineno}")
        t = s.targets[0]
        if isinstance(t, ast.Name):
            if isinstance(s.value, ast.Name):
                # x = y would alias a possibly mutable caller-owned object; not in the subset
                raise TranslationError(f"{fn.name}: aliasing assignment {t.id} = {s.value.id} at line {s.lineno}")
            if isinstance(s.value, (ast.List, ast.ListComp)):
                fn.fresh.add(t.id)
            else:
                fn.fresh.discard(t.id)
            return [f"SAssign {cs(t.id)} {expr(fn, s.value)}"]
        if isinstance(t, ast.Subscript) and isinstance(t.value, ast.Name):
            return [f"SAssignSub {cs(t.value.id)} {expr(fn, t.slice)} {expr(fn, s.value)}"]
        if isinstance(t, ast.Attribute) and isinstance(t.value, ast.Name) and t.attr == "disabled":
            return [f"SSetDisabled {cs(t.value.id)} {expr(fn, s.value)}"]
        raise TranslationError(f"{fn.name}: unsupported assignment target at line {s.lineno}")
    if isinstance(s, ast.AugAssign):
        if isinstance(s.op, ast.Add) and isinstance(s.target, ast.Name):
            if s.target.id in fn.params or s.target.id in fn.loopvars:
                raise TranslationError(f"{fn.name}: '+=' on {s.target.id}, which may be a caller-owned object (line {s.lineno})")
            return [f"SExtend {cs(s.target.id)} {expr(fn, s.value)}"]
        raise TranslationError(f"{fn.name}: unsupported augmented assignment at line {s.lineno}")
    if isinstance(s, ast.Expr):
        v = s.value
        if isinstance(v, ast.Yield):
            fn.is_gen = True
            if v.value is None:
                raise TranslationError("bare yield")
            return [f"SYield {expr(fn, v.value)}"]
        if isinstance(v, ast.Call):
            d = dotted(v.func)
            if isinstance(v.func, ast.Attribute) and v.func.attr == "append" and isinstance(v.func.value, ast.Name) \
                    and len(v.args) == 1 and not v.keywords:
                x = v.func.value.id
                if x in fn.params or x in fn.loopvars:
                    raise TranslationError(f"{fn.name}: append on {x}, which may be a caller-owned object (line {s.lineno})")
                return [f"SAppend {cs(x)} {expr(fn, v.args[0])}"]
            if isinstance(v.func, ast.Attribute) and v.func.attr == "close" and not v.args and not v.keywords:
                return [f"SClose {expr(fn, v.func.value)}"]
            if d == "print":
                kws = {k.arg: k.value for k in v.keywords}
                if set(kws) - {"file", "sep"}:
                    raise TranslationError(f"{fn.name}: unsupported print keywords at line {s.lineno}")
                sep = " "
                if "sep" in kws:
                    if not (isinstance(kws["sep"], ast.Constant) and isinstance(kws["sep"].value, str)):
                        raise TranslationError("print sep must be a constant")
                    sep = kws["sep"].value
                file = expr(fn, kws["file"]) if "file" in kws else "(EConst VStdout)"
                return [f"SPrint {clist([expr(fn, a) for a in v.args])} {file} {cs(sep)}"]
            return [f"SExpr {expr(fn, v)}"]
        raise TranslationError(f"{fn.name}: unsupported expression statement at line {s.lineno}")
    if isinstance(s, ast.If):
        return [f"SIf {expr(fn, s.test)} {block(fn, s.body)} {block(fn, s.orelse)}"]
    if isinstance(s, ast.For):
        if s.orelse:
            raise TranslationError("for-else")
        if isinstance(s.target, ast.Name):
            xs = [s.target.id]
        elif isinstance(s.target, ast.Tuple) and all(isinstance(x, ast.Name) for x in s.target.elts):
            xs = [x.id for x in s.target.elts]
        else:
            raise TranslationError(f"{fn.name}: unsupported loop target at line {s.lineno}")
        it = expr(fn, s.iter)
        for x in xs:
            fn.fresh.discard(x)
            fn.loopvars.add(x)
        return [f"SFor {clist([cs(x) for x in xs])} {it} {block(fn, s.body)}"]
    if isinstance(s, ast.Return):
        if isinstance(s.value, ast.Name) and s.value.id in fn.params:
            raise TranslationError(f"{fn.name}: returns its parameter {s.value.id} (aliasing) at line {s.lineno}")
        return ["SReturn " + ("None" if s.value is None else f"(Some {expr(fn, s.value)})")]
    if isinstance(s, ast.Raise):
        if isinstance(s.exc, ast.Call) and dotted(s.exc.func) == "ValueError":
            return ["SRaise ExValue"]
        raise TranslationError(f"{fn.name}: unsupported raise at line {s.lineno}")
    if isinstance(s, ast.Try) and s.finalbody and not s.handlers and not s.orelse:
        return [f"SFinally {block(fn, s.body)} {block(fn, s.finalbody)}"]
    if isinstance(s, ast.Try):
        if s.orelse or s.finalbody:
            raise TranslationError(f"{fn.name}: try/else/finally at line {s.lineno}")
        hs = []
        for h in s.handlers:
            if not isinstance(h.type, ast.Name) or h.type.id not in ("ParseError", "ValueError", "Exception"):
                raise TranslationError(f"{fn.name}: unsupported except clause at line {h.lineno}")
            hs.append(f"({cs(h.type.id)}, {block(fn, h.body)})")
        return [f"STry {block(fn, s.body)} {clist(hs)}"]
    if isinstance(s, ast.With):
        if len(s.items) != 1:
            raise TranslationError("multi-item with")
        it = s.items[0]
        d = dotted(it.context_expr.func) if isinstance(it.context_expr, ast.Call) else None
        if d == "parallel_backend" and it.optional_vars is None:
            # joblib backend selection: no effect on values (assumption A-joblib)
            return [x for st in s.body for x in stmt(fn, st)]
        if d == "open" and isinstance(it.optional_vars, ast.Name):
            fn.fresh.discard(it.optional_vars.id)
            return [f"SAssign {cs(it.optional_vars.id)} {expr(fn, it.context_expr)}"] + \
                   [x for st in s.body for x in stmt(fn, st)]
        raise TranslationError(f"{fn.name}: unsupported with statement at line {s.lineno}")
    raise TranslationError(f"{fn.name}: unsupported statement {type(s).__name__} at line {s.lineno}")


def fundef(node):
    fn = Fn(node.name)
    a = node.args
    if a.vararg or a.kwarg or a.kwonlyargs or a.posonlyargs:
        raise TranslationError(f"{node.name}: unsupported parameter kinds")
    names = [x.arg for x in a.args]
    defaults = [None] * (len(names) - len(a.defaults)) + list(a.defaults)
    ps = []
    for n, d in zip(names, defaults):
        if d is None:
            ps.append(f"({cs(n)}, None)")
        else:
            dd = dotted(d)
            if isinstance(d, ast.Constant):
                ps.append(f"({cs(n)}, Some {const_value(d.value)})")
            elif dd == "logging.INFO":
                ps.append(f"({cs(n)}, Some (VInt 20%Z))")
            else:
                raise TranslationError(f"{node.name}: unsupported default for {n}")
    fn.params = set(names)
    body = block(fn, node.body)
    return f"mkFun {cs(node.name)} {clist(ps)}\n    {body}", fn.is_gen


def site_inventory(repo):
    """every print(...) call, logger.disabled assignment, sys.stdout use and .close() in the package (not grammar/, viz)"""
    sites = []
    base = os.path.join(repo, "glyles")
    for root, _, files in os.walk(base):
        for f in sorted(files):
            if not f.endswith(".py"):
                continue
            rel = os.path.relpath(os.path.join(root, f), repo)
            if "/grammar/" in rel:
                continue
            tree = ast.parse(open(os.path.join(root, f)).read())
            parents = {}
            for n in ast.walk(tree):
                for c in ast.iter_child_nodes(n):
                    parents[c] = n
            def owner(n):
                while n in parents:
                    n = parents[n]
                    if isinstance(n, (ast.FunctionDef, ast.AsyncFunctionDef)):
                        return n.name
                return "<module>"
            for n in ast.walk(tree):
                if isinstance(n, ast.Call) and dotted(n.func) == "print":
                    kws = {k.arg: k.value for k in n.keywords}
                    tgt = "stdout"
                    if "file" in kws:
                        tgt = dotted(kws["file"]) or "<expr>"
                    sites.append(("print:" + tgt, rel, owner(n)))
                if isinstance(n, ast.Assign):
                    for t in n.targets:
                        if isinstance(t, ast.Attribute) and t.attr == "disabled":
                            v = n.value.value if isinstance(n.value, ast.Constant) else "?"
                            sites.append((f"logger.disabled={v}", rel, owner(n)))
                if isinstance(n, ast.Attribute) and dotted(n) == "sys.stdout":
                    sites.append(("sys.stdout", rel, owner(n)))
                if isinstance(n, ast.Call) and isinstance(n.func, ast.Attribute) and n.func.attr in ("write", "writelines") \
                        and dotted(n.func.value) in ("sys.stdout", "sys.__stdout__"):
                    sites.append(("write:stdout", rel, owner(n)))
    return sorted(sites)


def generate(repo):
    out = ["(* GENERATED by tools/translate/gen_pylite.py from glyles/converter.py and glyles/__main__.py -- do not edit *)",
           "From Coq Require Import String ZArith List.", "From GV Require Import Model.PyLite.",
           "Import ListNotations.", "Open Scope string_scope.", ""]
    funs, gens = [], []
    for rel, wanted in (("glyles/converter.py", ["preprocess_glycans", "convert", "convert_generator", "generate"]),
                        ("glyles/__main__.py", ["parse_list", "main"])):
        tree = ast.parse(open(os.path.join(repo, rel)).read())
        found = {n.name: n for n in tree.body if isinstance(n, ast.FunctionDef)}
        # module level code other than imports, defs and the __main__ guard is not in the subset
        for n in tree.body:
            if isinstance(n, (ast.Import, ast.ImportFrom, ast.FunctionDef)):
                continue
            if isinstance(n, ast.Expr) and isinstance(n.value, ast.Constant):
                continue
            if isinstance(n, ast.If) and isinstance(n.test, ast.Compare) and dotted(n.test.left) == "__name__":
                continue
            raise TranslationError(f"{rel}: unsupported module-level statement at line {n.lineno}")
        extra = set(found) - set(wanted) - {"parse_args"}
        if extra:
            raise TranslationError(f"{rel}: functions not covered by the model: {sorted(extra)}")
        for w in wanted:
            if w not in found:
                raise TranslationError(f"{rel}: function {w} not found")
            text, is_gen = fundef(found[w])
            out.append(f"Definition fn_{w} : fundef :=\n  {text}.")
            out.append("")
            funs.append(f"fn_{w}")
            if is_gen:
                gens.append(w)
    out.append("Definition program : list fundef := " + clist(funs) + ".")
    out.append("Definition generator_functions : list string := " + clist([cs(g) for g in gens]) + ".")
    out.append("")
    sites = site_inventory(repo)
    so = ["(* GENERATED by tools/translate/gen_pylite.py: process-state effect sites of the package -- do not edit *)",
          "From Coq Require Import String List.", "Import ListNotations.", "Open Scope string_scope.", "",
          "Definition effect_sites : list (string * string * string) := ["]
    so.append(";\n".join(f"  ({cs(k)}, {cs(f)}, {cs(o)})" for k, f, o in sites))
    so.append("].")
    so.append("")
    return {"Gen/Converter.v": "\n".join(out), "Gen/Sites.v": "\n".join(so)}


if __name__ == "__main__":
    import sys
    for k, v in generate(sys.argv[1] if len(sys.argv) > 1 else "/repo").items():
        print("=====", k)
        print(v)
