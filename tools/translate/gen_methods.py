"""Regenerate coq/Gen/Methods.v: small decision methods of the library as Coq functions --
  Glycan.get_smiles (the full / tree_only / tree_full gate),
  TreeWalker.__add_edge (normal form of a written linkage, '?' test),
  MonomerFactory.create (which table a residue is taken from, given its ring letter).
Fail-closed: the statement skeleton of each method and every atomic condition must be one of the listed shapes."""
import ast
import os

OUTPUTS = ["Gen/Methods.v"]


class TranslationError(Exception):
    pass


def cs(s):
    for ch in s:
        if ord(ch) < 32 or ord(ch) > 126:
            raise TranslationError(f"non-printable character in literal {s!r}")
    return '"' + s.replace('"', '""') + '"'


def find_method(tree, cls, name):
    for c in tree.body:
        if isinstance(c, ast.ClassDef) and c.name == cls:
            for m in c.body:
                if isinstance(m, ast.FunctionDef) and m.name == name:
                    return m
    raise TranslationError(f"{cls}.{name} not found")


def no_doc(body):
    return [s for s in body if not (isinstance(s, ast.Expr) and isinstance(s.value, ast.Constant) and isinstance(s.value.value, str))]


def boolexpr(e, atoms):
    """and / or / not over atomic conditions; an atomic condition is looked up by its source text"""
    for item in atoms:
        if callable(item):
            r = item(e)
            if r is not None:
                return r
    if isinstance(e, ast.BoolOp):
        op = " && " if isinstance(e.op, ast.And) else " || "
        return "(" + op.join(boolexpr(v, atoms) for v in e.values) + ")"
    if isinstance(e, ast.UnaryOp) and isinstance(e.op, ast.Not):
        return "(negb " + boolexpr(e.operand, atoms) + ")"
    txt = ast.unparse(e)
    for item in atoms:
        if callable(item):
            r = item(e)
            if r is not None:
                return r
        elif txt == item[0]:
            return item[1]
    raise TranslationError("unsupported condition: " + txt[:120])


# ------------------------------------------------------------------ Glycan.get_smiles
def gen_get_smiles(repo):
    tree = ast.parse(open(os.path.join(repo, "glyles/glycans/poly/glycan.py")).read())
    fn = find_method(tree, "Glycan", "get_smiles")
    body = no_doc(fn.body)
    if len(body) != 3:
        raise TranslationError("get_smiles: expected 'if gate: return \"\"; if cached is None: compute; return cached'")
    g, comp, ret = body
    if not (isinstance(g, ast.If) and not g.orelse and len(g.body) == 1 and isinstance(g.body[0], ast.Return)
            and isinstance(g.body[0].value, ast.Constant) and g.body[0].value.value == ""):
        raise TranslationError("get_smiles: first statement is not 'if ...: return \"\"'")
    atoms = [("self.tree_only", "tree_only"), ("self.full", "full"), ("self.tree_full", "tree_full")]
    cond = boolexpr(g.test, atoms)
    if not (isinstance(comp, ast.If) and ast.unparse(comp.test) == "self.glycan_smiles is None" and not comp.orelse):
        raise TranslationError("get_smiles: second statement is not 'if self.glycan_smiles is None:'")
    assigns = [ast.unparse(s) for s in comp.body]
    if len(assigns) != 2 or not assigns[0].startswith("self.parse_tree, self.tree_full = TreeWalker(self.factory, False).parse(") \
            or not assigns[1].replace("\n", "").replace(" ", "").startswith("self.glycan_smiles=checked_smiles(Merger(self.factory).merge(self.parse_tree,self.root_orientation,start=self.start))"):
        raise TranslationError("get_smiles: the computation of the SMILES is not 'walk; checked_smiles(merge(...))': " + " | ".join(assigns)[:200])
    if ast.unparse(ret) != "return self.glycan_smiles":
        raise TranslationError("get_smiles: does not return self.glycan_smiles")
    return ["(* Glycan.get_smiles: [merged] is what Merger.merge returns for the walked tree; checked_smiles is Gate.gate *)",
            "Definition gen_get_smiles (tree_only tree_full full : bool) (merged : str) : str :=",
            f"  if {cond} then [] else gate merged.", ""]


# ------------------------------------------------------------------ TreeWalker.__add_edge
def strexpr(e):
    if isinstance(e, ast.Constant) and isinstance(e.value, str):
        return cs(e.value)
    if isinstance(e, ast.Name) and e.id in ("con", "bond"):
        return e.id
    if isinstance(e, ast.BinOp) and isinstance(e.op, ast.Add):
        return "(" + strexpr(e.left) + " ++ " + strexpr(e.right) + ")"
    txt = ast.unparse(e)
    if txt == "con[0]":
        return "(head1 con)"
    if txt == "con[1:]":
        return "(tail1 con)"
    if isinstance(e, ast.IfExp):
        t = ast.unparse(e.test).replace("'", '"')
        if t == '(self.g.nodes[child]["type"].get_lactole, self.g.nodes[child]["type"].get_name()) in ketoses2':
            return f"(if ketose then {strexpr(e.body)} else {strexpr(e.orelse)})"
        raise TranslationError("add_edge: unsupported test of a conditional expression: " + t[:120])
    raise TranslationError("add_edge: unsupported string expression " + txt[:100])


def gen_add_edge(repo):
    tree = ast.parse(open(os.path.join(repo, "glyles/glycans/poly/walker.py")).read())
    fn = find_method(tree, "TreeWalker", "__add_edge")
    body = no_doc(fn.body)
    if [a.arg for a in fn.args.args] != ["self", "parent", "child", "con"]:
        raise TranslationError("add_edge: signature changed")
    if len(body) != 5:
        raise TranslationError("add_edge: expected five statements")
    s0, s1, s2, s3, s4 = body
    if ast.unparse(s0).replace("\n", " ") != "if parent == child:     return True":
        raise TranslationError("add_edge: first statement is not 'if parent == child: return True'")
    if ast.unparse(s1) != "con = self.context2str(con)":
        raise TranslationError("add_edge: second statement is not 'con = self.context2str(con)'")
    if ast.unparse(s3) != "self.g.add_edge(parent, child, type=con)":
        raise TranslationError("add_edge: the edge is not added as self.g.add_edge(parent, child, type=con)")
    if ast.unparse(s4).replace('"', "'") != "return '?' not in con":
        raise TranslationError("add_edge: the result is not '\"?\" not in con'")

    def has(e):
        if isinstance(e, ast.Compare) and len(e.ops) == 1 and isinstance(e.left, ast.Constant) and isinstance(e.left.value, str) \
                and len(e.left.value) == 1 and isinstance(e.comparators[0], ast.Name) and e.comparators[0].id == "con":
            c = '(has_char ' + cs(e.left.value) + '%char con)'
            return c if isinstance(e.ops[0], ast.In) else ("(negb " + c + ")" if isinstance(e.ops[0], ast.NotIn) else None)
        return None

    def block(stmts, k):
        """statements that may rebind con / bond, then continuation k (a Coq term using con)"""
        if not stmts:
            return k
        s, rest = stmts[0], stmts[1:]
        if isinstance(s, ast.Assign) and len(s.targets) == 1 and isinstance(s.targets[0], ast.Name) and s.targets[0].id in ("con", "bond"):
            return f"(let {s.targets[0].id} := {strexpr(s.value)} in {block(rest, k)})"
        if isinstance(s, ast.If) and not s.orelse:
            # only con is live after the if
            return f"(let con := (if {boolexpr(s.test, [has])} then {block(s.body, 'con')} else con) in {block(rest, k)})"
        raise TranslationError("add_edge: unsupported statement " + ast.unparse(s)[:100])

    return ["(* TreeWalker.__add_edge: the label stored on the edge (parent <> child), and the value handed back to 'full' *)",
            "Definition head1 (s : string) : string := match s with String c _ => String c EmptyString | EmptyString => EmptyString end.",
            "Definition tail1 (s : string) : string := match s with String _ r => r | EmptyString => EmptyString end.",
            "Definition gen_add_edge (ketose : bool) (con : string) : string :=",
            "  " + block([s2], "con") + ".",
            "Definition gen_edge_ok (label : string) : bool := negb (has_char \"?\"%char label).", ""]


# ------------------------------------------------------------------ MonomerFactory.create
def gen_create(repo):
    tree = ast.parse(open(os.path.join(repo, "glyles/glycans/factory/factory.py")).read())
    fn = find_method(tree, "MonomerFactory", "create")
    body = no_doc(fn.body)
    # locate the if-chain that assigns 'monomer'
    chain = [s for s in body if isinstance(s, ast.If) and any(isinstance(x, ast.Assign) and ast.unparse(x.targets[0]) == "monomer" for x in s.body)]
    if len(chain) != 1:
        raise TranslationError("create: expected exactly one if-chain assigning 'monomer'")
    idx = body.index(chain[0])
    # what precedes it must be the known preamble (name / config / ring_index), nothing else may touch 'monomer' or 'name' later on
    pre = [ast.unparse(s).replace("\n", " ") for s in body[:idx]]
    expected_pre = [
        "tmp = list(zip(*recipe))",
        "name = recipe[tmp[1].index(GlycanLexer.SAC)][0]",
        "if name == 'Sug':     name = 'Oct'",
        "config_index = tmp[1].index(GlycanLexer.TYPE) if GlycanLexer.TYPE in tmp[1] else None",
        "ring_index = tmp[1].index(GlycanLexer.RING) if GlycanLexer.RING in tmp[1] else None",
        "if config is not None and len(config) > 0:     name = config + '_' + name     recipe.append((config, GlycanLexer.TYPE)) elif config_index is not None:     name = recipe[config_index][0] + '_' + name",
    ]
    if [" ".join(p.split()) for p in pre] != [" ".join(p.split()) for p in expected_pre]:
        raise TranslationError("create: the statements before the table lookup changed: " + " ;; ".join(pre)[:400])

    def ring_test(e):
        # (ring_index is None or recipe[ring_index][0] != 'x')
        if isinstance(e, ast.BoolOp) and isinstance(e.op, ast.Or) and len(e.values) == 2 and ast.unparse(e.values[0]) == "ring_index is None":
            c = e.values[1]
            if isinstance(c, ast.Compare) and ast.unparse(c.left) == "recipe[ring_index][0]" and len(c.ops) == 1 \
                    and isinstance(c.comparators[0], ast.Constant) and isinstance(c.comparators[0].value, str) and len(c.comparators[0].value) == 1:
                if isinstance(c.ops[0], ast.NotEq):
                    return f"(ring_not {cs(c.comparators[0].value)}%char ring)"
        if isinstance(e, ast.BoolOp) and isinstance(e.op, ast.And) and len(e.values) == 2 and ast.unparse(e.values[0]) == "ring_index is not None":
            c = e.values[1]
            if isinstance(c, ast.Compare) and ast.unparse(c.left) == "recipe[ring_index][0]" and len(c.ops) == 1 \
                    and isinstance(c.ops[0], ast.Eq) and isinstance(c.comparators[0], ast.Constant) and len(str(c.comparators[0].value)) == 1:
                return f"(ring_is {cs(c.comparators[0].value)}%char ring)"
        return None

    atoms = [ring_test, ("name in self.pyranose_fac", "in_p"), ("name in self.furanose_fac", "in_f"), ("name in self.open_fac", "in_o"),
             ("name[-3:].upper() == 'SUC'", "is_suc")]
    results = {"Monomer(**self.pyranose_fac[name], recipe=recipe)": "CPyranose", "Monomer(**self.furanose_fac[name], recipe=recipe)": "CFuranose",
               "Monomer(**self.open_fac[name], recipe=recipe)": "COpen", "Monomer(**self.succinic_acid(), recipe=recipe)": "CSuc",
               "Monomer(**self.unknown_monomer(name), recipe=recipe)": "CUnknown"}

    def res(stmts):
        if len(stmts) != 1 or not isinstance(stmts[0], ast.Assign) or ast.unparse(stmts[0].targets[0]) != "monomer":
            raise TranslationError("create: a branch of the lookup does more than assign 'monomer'")
        r = results.get(ast.unparse(stmts[0].value))
        if r is None:
            raise TranslationError("create: unknown source of a monomer: " + ast.unparse(stmts[0].value)[:100])
        return r

    def chain_expr(node):
        t = boolexpr(node.test, atoms)
        if len(node.orelse) == 1 and isinstance(node.orelse[0], ast.If):
            e = chain_expr(node.orelse[0])
        elif node.orelse:
            e = res(node.orelse)
        else:
            raise TranslationError("create: the lookup chain has no final else")
        return f"if {t} then {res(node.body)}\n  else {e}"

    # after the chain 'monomer' may only be passed through react, and 'full' combined with the lactole test
    post = [" ".join(ast.unparse(s).split()) for s in body[idx + 1:]]
    expected_post = ["full = False", "if not tree_only: monomer, full = monomer.react(*tmp)",
                     "full &= monomer.get_lactole() != Lactole.UNKNOWN", "return (monomer, full)"]
    if post != expected_post:
        raise TranslationError("create: the statements after the table lookup changed: " + " ;; ".join(post)[:300])
    return ["(* MonomerFactory.create: the table a residue is taken from; in_p / in_f / in_o: the looked-up name (with its",
            "   anomer prefix) is a key of the pyranose / furanose / open-form table, ring: the ring letter written, if any *)",
            "Inductive choice := CPyranose | CFuranose | COpen | CSuc | CUnknown.",
            "Definition ring_not (c : ascii) (ring : option ascii) : bool := match ring with None => true | Some d => negb (Ascii.eqb d c) end.",
            "Definition ring_is (c : ascii) (ring : option ascii) : bool := match ring with None => false | Some d => Ascii.eqb d c end.",
            "Definition gen_create_choice (in_p in_f in_o is_suc : bool) (ring : option ascii) : choice :=",
            "  " + chain_expr(chain[0]) + ".", ""]


def generate(repo):
    out = ["(* GENERATED by tools/translate/gen_methods.py from glycan.py (get_smiles), walker.py (__add_edge), factory.py (create) -- do not edit *)",
           "From Coq Require Import Ascii String Bool List.",
           "From GV Require Import Base.Util Spec.Smiles Spec.Chem Model.Gate Model.Edge.",
           "Import ListNotations.", "Open Scope string_scope.", ""]
    out += gen_get_smiles(repo)
    out += gen_add_edge(repo)
    out += gen_create(repo)
    return {"Gen/Methods.v": "\n".join(out)}


if __name__ == "__main__":
    import sys
    for k, v in generate(sys.argv[1] if len(sys.argv) > 1 else "/repo").items():
        print(v)
