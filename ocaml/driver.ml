(* line-oriented driver around the functions extracted from Coq (Gv).
   input :  op <TAB> arg1 <TAB> arg2 ...   (args escaped: \t \n \r \\ \xHH)
   output:  one line per input line *)
open Gv

let explode s = List.init (String.length s) (String.get s)
let implode l = String.init (List.length l) (List.nth l)
let implode l = let b = Buffer.create 64 in List.iter (Buffer.add_char b) l; Buffer.contents b
let rec int_of_nat = function O -> 0 | S n -> 1 + int_of_nat n
let rec nat_of_int n = if n <= 0 then O else S (nat_of_int (n - 1))
let rec int_of_pos = function XH -> 1 | XO p -> 2 * int_of_pos p | XI p -> 2 * int_of_pos p + 1
let int_of_z = function Z0 -> 0 | Zpos p -> int_of_pos p | Zneg p -> - (int_of_pos p)

let unescape s =
  let b = Buffer.create (String.length s) in
  let n = String.length s in
  let i = ref 0 in
  while !i < n do
    (if s.[!i] = '\\' && !i + 1 < n then begin
       (match s.[!i + 1] with
        | 't' -> Buffer.add_char b '\t'; i := !i + 1
        | 'n' -> Buffer.add_char b '\n'; i := !i + 1
        | 'r' -> Buffer.add_char b '\r'; i := !i + 1
        | '\\' -> Buffer.add_char b '\\'; i := !i + 1
        | 'x' when !i + 3 < n ->
            Buffer.add_char b (Char.chr (int_of_string ("0x" ^ String.sub s (!i + 2) 2))); i := !i + 3
        | c -> Buffer.add_char b '\\'; Buffer.add_char b c; i := !i + 1)
     end else Buffer.add_char b s.[!i]);
    incr i
  done;
  Buffer.contents b

let escape s =
  let b = Buffer.create (String.length s) in
  String.iter (fun c -> match c with
    | '\t' -> Buffer.add_string b "\\t" | '\n' -> Buffer.add_string b "\\n"
    | '\r' -> Buffer.add_string b "\\r" | '\\' -> Buffer.add_string b "\\\\"
    | c when Char.code c < 32 || Char.code c > 126 -> Buffer.add_string b (Printf.sprintf "\\x%02x" (Char.code c))
    | c -> Buffer.add_char b c) s;
  Buffer.contents b

let b2s b = if b then "1" else "0"

let formula_str f =
  (* Hill order: C, H, then alphabetical *)
  let l = List.map (fun (s, n) -> (implode s, int_of_nat n)) f in
  let l = List.filter (fun (_, n) -> n > 0) l in
  let has_c = List.mem_assoc "C" l in
  let key (s, _) = if has_c then (if s = "C" then (0, s) else if s = "H" then (1, s) else (2, s)) else (2, s) in
  let l = List.sort (fun a b -> compare (key a) (key b)) l in
  String.concat "" (List.map (fun (s, n) -> if n = 1 then s else s ^ string_of_int n) l)

let sdiff_str = function
  | SSame -> "same" | SOpposite -> "opp" | SOnlyLeft -> "left" | SOnlyRight -> "right" | SBroken -> "broken"

let describe s =
  match sem_str (explode s) with
  | None -> "ERR"
  | Some m ->
      let atoms = String.concat ";" (List.mapi (fun i a ->
          Printf.sprintf "%s,%s,%d,%d,%s,%d" (implode a.a_sym) (b2s a.a_arom) (int_of_z a.a_chg)
            (int_of_nat (total_h m (nat_of_int i) a))
            (match a.a_chir with ChNone -> "n" | ChCCW -> "ccw" | ChCW -> "cw")
            (int_of_nat (degree m (nat_of_int i)))) m.m_atoms) in
      let bonds = String.concat ";" (List.map (fun ((a, b), s) ->
          Printf.sprintf "%d,%d,%s" (int_of_nat a) (int_of_nat b)
            (match s with BSingle -> "1" | BDouble -> "2" | BTriple -> "3" | BArom -> "a" | BUp -> "u" | BDown -> "d")) m.m_bonds) in
      let nbrs = String.concat ";" (List.map (fun l ->
          String.concat "," (List.map (function None -> "H" | Some j -> string_of_int (int_of_nat j)) l)) m.m_nbrs) in
      Printf.sprintf "OK\t%s\t%d\t%d\t%d\t%d\t%s\t%s\t%s\t%s\t%s\t%s\t%s" (formula_str (formula m)) (int_of_z (charge m))
        (int_of_nat (n_rings m)) (int_of_nat (n_components m)) (int_of_nat (n_heavy m))
        (b2s (no_markers m)) (b2s (elements_ok m)) (b2s (all_valences_ok m)) (b2s (smiles_valid (explode s)))
        atoms bonds nbrs

let with2 a b f =
  match sem_str (explode a), sem_str (explode b) with
  | Some x, Some y -> f x y
  | _, _ -> "ERR"

let handlers : (string * (string list -> string)) list ref = ref []
let register name f = handlers := (name, f) :: !handlers

let () =
  register "describe" (function [s] -> describe s | _ -> "BADARGS");
  register "valid" (function [s] -> b2s (smiles_valid (explode s)) | _ -> "BADARGS");
  register "same" (function [a; b] -> with2 a b (fun x y -> b2s (same_molecule x y)) | _ -> "BADARGS");
  register "samecons" (function [a; b] -> with2 a b (fun x y -> b2s (same_constitution x y)) | _ -> "BADARGS");
  register "mirror" (function [a; b] -> with2 a b (fun x y -> b2s (mirror_image x y)) | _ -> "BADARGS");
  register "profiles" (function [a; b] -> with2 a b (fun x y ->
      String.concat "|" (List.map (fun p -> String.concat ";" (List.map (fun (i, d) ->
          Printf.sprintf "%d:%s" (int_of_nat i) (sdiff_str d)) p)) (iso_profiles x y))) | _ -> "BADARGS")

let main () =
  try
    while true do
      let line = input_line stdin in
      let parts = List.map unescape (String.split_on_char '\t' line) in
      let out =
        match parts with
        | op :: args ->
            (match List.assoc_opt op !handlers with
             | Some f -> (try f args with Stack_overflow -> "EXN stack" | e -> "EXN " ^ Printexc.to_string e)
             | None -> "UNKNOWN-OP")
        | [] -> "EMPTY" in
      print_string out; print_char '\n'; flush stdout
    done
  with End_of_file -> ()
