(* line-oriented driver around the functions extracted from Coq (Gv).
   input :  op <TAB> arg1 <TAB> arg2 ...   (args escaped: \t \n \r \\ \xHH)
   output:  one line per input line *)
open Gv

let explode s = List.init (String.length s) (String.get s)
let implode l = String.init (List.length l) (List.nth l)
let implode l = let b = Buffer.create 64 in List.iter (Buffer.add_char b) l; Buffer.contents b
let rec int_of_nat = function O -> 0 | S n -> 1 + int_of_nat n
let rec nat_of_int n = if n <= 0 then O else S (nat_of_int (n - 1))
let rec int_of_pos = function XH -> 1 | XO p -> 2 * int_of_pos p | XI p -> 2 * int_of_pos p + 1
let int_of_z = function Z0 -> 0 | Zpos p -> int_of_pos p | Zneg p -> - (int_of_pos p)

let unescape s =
  let b = Buffer.create (String.length s) in
  let n = String.length s in
  let i = ref 0 in
  while !i < n do
    (if s.[!i] = '\\' && !i + 1 < n then begin
       (match s.[!i + 1] with
        | 't' -> Buffer.add_char b '\t'; i := !i + 1
        | 'n' -> Buffer.add_char b '\n'; i := !i + 1
        | 'r' -> Buffer.add_char b '\r'; i := !i + 1
        | '\\' -> Buffer.add_char b '\\'; i := !i + 1
        | 'x' when !i + 3 < n ->
            Buffer.add_char b (Char.chr (int_of_string ("0x" ^ String.sub s (!i + 2) 2))); i := !i + 3
        | c -> Buffer.add_char b '\\'; Buffer.add_char b c; i := !i + 1)
     end else Buffer.add_char b s.[!i]);
    incr i
  done;
  Buffer.contents b

let escape s =
  let b = Buffer.create (String.length s) in
  String.iter (fun c -> match c with
    | '\t' -> Buffer.add_string b "\\t" | '\n' -> Buffer.add_string b "\\n"
    | '\r' -> Buffer.add_string b "\\r" | '\\' -> Buffer.add_string b "\\\\"
    | c when Char.code c < 32 || Char.code c > 126 -> Buffer.add_string b (Printf.sprintf "\\x%02x" (Char.code c))
    | c -> Buffer.add_char b c) s;
  Buffer.contents b

let b2s b = if b then "1" else "0"

let formula_str f =
  (* Hill order: C, H, then alphabetical *)
  let l = List.map (fun (s, n) -> (implode s, int_of_nat n)) f in
  let l = List.filter (fun (_, n) -> n > 0) l in
  let has_c = List.mem_assoc "C" l in
  let key (s, _) = if has_c then (if s = "C" then (0, s) else if s = "H" then (1, s) else (2, s)) else (2, s) in
  let l = List.sort (fun a b -> compare (key a) (key b)) l in
  String.concat "" (List.map (fun (s, n) -> if n = 1 then s else s ^ string_of_int n) l)

let sdiff_str = function
  | SSame -> "same" | SOpposite -> "opp" | SOnlyLeft -> "left" | SOnlyRight -> "right" | SBroken -> "broken"

let describe s =
  match sem_str (explode s) with
  | None -> "ERR"
  | Some m ->
      let atoms = String.concat ";" (List.mapi (fun i a ->
          Printf.sprintf "%s,%s,%d,%d,%s,%d" (implode a.a_sym) (b2s a.a_arom) (int_of_z a.a_chg)
            (int_of_nat (total_h m (nat_of_int i) a))
            (match a.a_chir with ChNone -> "n" | ChCCW -> "ccw" | ChCW -> "cw")
            (int_of_nat (degree m (nat_of_int i)))) m.m_atoms) in
      let bonds = String.concat ";" (List.map (fun ((a, b), s) ->
          Printf.sprintf "%d,%d,%s" (int_of_nat a) (int_of_nat b)
            (match s with BSingle -> "1" | BDouble -> "2" | BTriple -> "3" | BArom -> "a" | BUp -> "u" | BDown -> "d")) m.m_bonds) in
      let nbrs = String.concat ";" (List.map (fun l ->
          String.concat "," (List.map (function None -> "H" | Some j -> string_of_int (int_of_nat j)) l)) m.m_nbrs) in
      Printf.sprintf "OK\t%s\t%d\t%d\t%d\t%d\t%s\t%s\t%s\t%s\t%s\t%s\t%s" (formula_str (formula m)) (int_of_z (charge m))
        (int_of_nat (n_rings m)) (int_of_nat (n_components m)) (int_of_nat (n_heavy m))
        (b2s (no_markers m)) (b2s (elements_ok m)) (b2s (all_valences_ok m)) (b2s (smiles_valid (explode s)))
        atoms bonds nbrs

let with2 a b f =
  match sem_str (explode a), sem_str (explode b) with
  | Some x, Some y -> f x y
  | _, _ -> "ERR"

let handlers : (string * (string list -> string)) list ref = ref []
let register name f = handlers := (name, f) :: !handlers

let () =
  register "describe" (function [s] -> describe s | _ -> "BADARGS");
  register "valid" (function [s] -> b2s (smiles_valid (explode s)) | _ -> "BADARGS");
  register "same" (function [a; b] -> with2 a b (fun x y -> b2s (same_molecule_f x y)) | _ -> "BADARGS");
  register "samecons" (function [a; b] -> with2 a b (fun x y -> b2s (same_constitution_f x y)) | _ -> "BADARGS");
  register "mirror" (function [a; b] -> with2 a b (fun x y -> b2s (mirror_image_f x y)) | _ -> "BADARGS");
  register "profiles" (function [a; b] -> with2 a b (fun x y ->
      String.concat "|" (List.map (fun p -> String.concat ";" (List.map (fun (i, d) ->
          Printf.sprintf "%d:%s" (int_of_nat i) (sdiff_str d)) p)) (iso_profiles_f x y))) | _ -> "BADARGS")

let main () =
  try
    while true do
      let line = input_line stdin in
      let parts = List.map unescape (String.split_on_char '\t' line) in
      let out =
        match parts with
        | op :: args ->
            (match List.assoc_opt op !handlers with
             | Some f -> (try f args with Stack_overflow -> "EXN stack" | e -> "EXN " ^ Printexc.to_string e)
             | None -> "UNKNOWN-OP")
        | [] -> "EMPTY" in
      print_string out; print_char '\n'; flush stdout
    done
  with End_of_file -> ()

(* ------------------------------------------------------------------ PyLite: run the translated converter *)

let hex_of s = String.concat "" (List.map (fun c -> Printf.sprintf "%02x" (Char.code c)) (explode s))
let unhex h = String.init (String.length h / 2) (fun i -> Char.chr (int_of_string ("0x" ^ String.sub h (2 * i) 2)))

let rec pos_of_int n = if n = 1 then XH else if n land 1 = 0 then XO (pos_of_int (n / 2)) else XI (pos_of_int (n / 2))
let z_of_int n = if n = 0 then Z0 else if n > 0 then Zpos (pos_of_int n) else Zneg (pos_of_int (-n))

(* reader over a string with a cursor *)
type rd = { s : string; mutable i : int }
let peek r = r.s.[r.i]
let next r = let c = r.s.[r.i] in r.i <- r.i + 1; c
let until_semi r =
  let j = String.index_from r.s r.i ';' in
  let t = String.sub r.s r.i (j - r.i) in r.i <- j + 1; t
let rec rvalue r : value =
  match next r with
  | 'n' -> VNone | 'T' -> VBool true | 'F' -> VBool false
  | 'i' -> VInt (z_of_int (int_of_string (until_semi r)))
  | 's' -> VStr (explode (unhex (until_semi r)))
  | 'l' -> let n = int_of_string (until_semi r) in VList (List.init n (fun _ -> rvalue r))
  | 'u' -> let n = int_of_string (until_semi r) in VTuple (List.init n (fun _ -> rvalue r))
  | 'g' -> let n = int_of_string (until_semi r) in VGen (List.init n (fun _ -> rvalue r))
  | 'o' -> VStdout
  | c -> failwith (Printf.sprintf "bad value tag %c" c)
(* List.init evaluates in order for small n? not guaranteed: do it explicitly *)
let rec rvalues r n = if n = 0 then [] else let v = rvalue_seq r in v :: rvalues r (n - 1)
and rvalue_seq r : value =
  match next r with
  | 'n' -> VNone | 'T' -> VBool true | 'F' -> VBool false
  | 'i' -> VInt (z_of_int (int_of_string (until_semi r)))
  | 's' -> VStr (explode (unhex (until_semi r)))
  | 'l' -> let n = int_of_string (until_semi r) in VList (rvalues r n)
  | 'u' -> let n = int_of_string (until_semi r) in VTuple (rvalues r n)
  | 'g' -> let n = int_of_string (until_semi r) in VGen (rvalues r n)
  | 'o' -> VStdout
  | c -> failwith (Printf.sprintf "bad value tag %c" c)

let rec wvalue b (v : value) =
  match v with
  | VNone -> Buffer.add_char b 'n'
  | VBool true -> Buffer.add_char b 'T' | VBool false -> Buffer.add_char b 'F'
  | VInt z -> Buffer.add_string b (Printf.sprintf "i%d;" (int_of_z z))
  | VStr s -> Buffer.add_string b ("s" ^ hex_of (implode s) ^ ";")
  | VList l -> Buffer.add_string b (Printf.sprintf "l%d;" (List.length l)); List.iter (wvalue b) l
  | VTuple l -> Buffer.add_string b (Printf.sprintf "u%d;" (List.length l)); List.iter (wvalue b) l
  | VGen l -> Buffer.add_string b (Printf.sprintf "g%d;" (List.length l)); List.iter (wvalue b) l
  | VDict _ -> Buffer.add_char b 'd'
  | VFile (_, _) -> Buffer.add_char b 'h'
  | VStdout -> Buffer.add_char b 'o'
  | VStderr -> Buffer.add_char b 'e'
  | VLogger -> Buffer.add_char b 'L'

let rstrs r = let n = int_of_string (until_semi r) in
  let rec go k = if k = 0 then [] else let h = until_semi r in explode (unhex h) :: go (k - 1) in go n

let rworld r : world =
  let disabled = (next r = 'T') in
  let closed = (next r = 'T') in
  let nf = int_of_string (until_semi r) in
  let rec files k = if k = 0 then [] else
      let p = explode (unhex (until_semi r)) in let ls = rstrs r in (p, ls) :: files (k - 1) in
  let fs = files nf in
  let ok = rstrs r in
  let stdin_ = rstrs r in
  { w_disabled = disabled; w_stdout = []; w_stdout_closed = closed; w_stderr = []; w_files = fs;
    w_parent_ok = ok; w_stdin = stdin_ }

let wstrs b l = Buffer.add_string b (Printf.sprintf "%d;" (List.length l));
  List.iter (fun s -> Buffer.add_string b (hex_of (implode s) ^ ";")) l

let wworld b (w : world) =
  Buffer.add_char b (if w.w_disabled then 'T' else 'F');
  Buffer.add_char b (if w.w_stdout_closed then 'T' else 'F');
  Buffer.add_string b (Printf.sprintf "%d;" (List.length w.w_files));
  List.iter (fun (p, ls) -> Buffer.add_string b (hex_of (implode p) ^ ";"); wstrs b ls) w.w_files;
  wstrs b w.w_stdout; wstrs b w.w_stderr

(* conv table: count; then entries value full kind *)
let rconv r =
  let n = int_of_string (until_semi r) in
  let rec go k = if k = 0 then [] else
      let v = rvalue_seq r in
      let f = rvalue_seq r in
      let res = match next r with
        | 'k' -> Inl (explode (unhex (until_semi r)))
        | 'p' -> Inr ExParse
        | _ -> Inr (ExOther (explode "Exception")) in
      (v, f, res) :: go (k - 1) in
  let tbl = go n in
  fun (g : value) (f : value) ->
    let key v = let b = Buffer.create 16 in wvalue b v; Buffer.contents b in
    let kg = key g and kf = key f in
    match List.find_opt (fun (v, f', _) -> key v = kg && key f' = kf) tbl with
    | Some (_, _, r) -> r
    | None -> Inr (ExOther (explode "Unlisted"))

let wexn b = function
  | ExParse -> Buffer.add_string b "ExParse" | ExValue -> Buffer.add_string b "ExValue"
  | ExExit -> Buffer.add_string b "ExExit" | ExOther t -> Buffer.add_string b ("ExOther:" ^ implode t)

let () =
  register "pycall" (function
    | [fn; args; world; convt; isgen] ->
        let a = rvalue_seq { s = args; i = 0 } in
        let pos = (match a with VList l -> l | _ -> failwith "args") in
        let w = rworld { s = world; i = 0 } in
        let conv = rconv { s = convt; i = 0 } in
        let fuel = nat_of_int 200 in
        let b = Buffer.create 256 in
        if isgen = "1" then begin
          let ((o, ys), w') = call_gen conv program fuel (explode fn) pos [] w in
          (match o with
           | ONormal -> Buffer.add_string b "normal\t"
           | OReturn v -> Buffer.add_string b "return\t"
           | ORaise e -> Buffer.add_string b "raise:"; wexn b e; Buffer.add_char b '\t');
          wvalue b (VList ys); Buffer.add_char b '\t'; wworld b w'
        end else begin
          let (r, w') = call conv program fuel (explode fn) pos [] w in
          (match r with
           | Inl v -> Buffer.add_string b "ok\t"; wvalue b v
           | Inr e -> Buffer.add_string b "raise:"; wexn b e; Buffer.add_string b "\tn");
          Buffer.add_char b '\t'; wworld b w'
        end;
        Buffer.contents b
    | _ -> "BADARGS");
  register "pystrip" (function [s] -> escape (implode (py_strip (explode s))) | _ -> "BADARGS")

(* ------------------------------------------------------------------ library (C08) *)
let () =
  register "libissues" (function
    | [which] ->
        let l = if which = "full" then library_issues else library_issues_fast in
        String.concat "\x1f" (List.map (fun i -> implode (issue_text i)) l)
    | _ -> "BADARGS");
  register "librows" (function
    | [] ->
        let row t (r : row) = Printf.sprintf "%s\x1e%s\x1e%s\x1e%d\x1e%d\x1e%d\x1e%s" t (implode r.r_key) (implode r.r_name)
            (int_of_nat r.r_config) (int_of_nat r.r_isomer) (int_of_nat r.r_lactole) (implode r.r_smiles) in
        String.concat "\x1f" (List.map (row "p") pyranoses @ List.map (row "f") furanoses @ List.map (row "o") opens)
    | _ -> "BADARGS")

let () =
  register "fgtokens" (function
    | [] -> String.concat "\x1f" (List.map (fun (k, v) -> implode k ^ "\x1e" ^ implode v) functional_groups)
    | _ -> "BADARGS")

let () =
  register "gate" (function [s] -> escape (implode (gate (explode s))) | _ -> "BADARGS")

(* ------------------------------------------------------------------ glycan-level spec (C01 family) *)
let rec rgtree r : gtree option =
  let smi = unhex (until_semi r) in
  let n = int_of_string (until_semi r) in
  let m = sem_str (explode smi) in
  let rec kids k acc = if k = 0 then Some (List.rev acc) else begin
      let ppos = int_of_string (until_semi r) in
      match rgtree r with
      | Some t -> kids (k - 1) ((nat_of_int ppos, t) :: acc)
      | None -> (ignore (kids_skip (k - 1)); None) end
  and kids_skip k = if k = 0 then () else begin ignore (until_semi r); ignore (rgtree r); kids_skip (k - 1) end in
  let ks = kids n [] in
  match m, ks with
  | Some m, Some ks -> Some (GT (m, ks))
  | _, _ -> None

let () =
  register "denotes" (function
    | [out; tree] ->
        (match sem_str (explode out), rgtree { s = tree; i = 0 } with
         | Some o, Some t ->
             (match denotes_with same_molecule_f o (strip_tree t) with
              | Some true -> "1" | Some false -> "0" | None -> "NOSPEC")
         | None, _ -> "ERR-out"
         | _, None -> "ERR-tree")
    | _ -> "BADARGS")

(* ------------------------------------------------------------------ merger model (string level) *)
let sres_str = function MOk s -> "OK\t" ^ escape (implode s) | MRaise -> "RAISE\t"
let () =
  register "relabel" (function [s; off] -> escape (implode (relabel (explode s) (nat_of_int (int_of_string off)))) | _ -> "BADARGS");
  register "sanitize" (function [s] -> sres_str (sanitize (explode s)) | _ -> "BADARGS");
  register "mergechildren" (function
    | me :: children ->
        let pairs = List.map (fun (((_, o), _), ((_, n), _)) -> (o, n)) dummy_atoms in
        sres_str (merge_children (explode me) pairs (List.map explode children))
    | _ -> "BADARGS")

let () =
  register "splicechildren" (function
    | me :: children ->
        let pairs = List.map (fun (((_, o), _), ((_, n), _)) -> (o, n)) dummy_atoms in
        String.concat "\t" (List.map (function SpFresh -> "FRESH" | SpReused l -> "REUSED " ^ string_of_int (int_of_nat l) | SpOther -> "OTHER")
                              (splice_children (explode me) pairs (List.map explode children)))
    | _ -> "BADARGS")

let () =
  register "splicestr" (function
    | me :: children ->
        let pairs = List.map (fun (((_, o), _), ((_, n), _)) -> (o, n)) dummy_atoms in
        String.concat "" (List.map (fun b -> if b then "1" else "0") (splice_str_children (explode me) pairs (List.map explode children)))
    | _ -> "BADARGS")

let () =
  register "specmol" (function
    | [tree] ->
        (match rgtree { s = tree; i = 0 } with
         | Some t -> (match glycan_mol false (strip_tree t) with Some m -> "1" | None -> "NOSPEC")
         | None -> "ERR-tree")
    | _ -> "BADARGS")

(* ------------------------------------------------------------------ grammar (C15) *)
let () =
  register "accepts_plain" (function
    | [s] -> (match accepts token_table rules start_rule (explode s) with
              | Some true -> "1" | Some false -> "0" | None -> "FUEL")
    | _ -> "BADARGS");
  register "accepts" (function
    | [s] -> (match accepts_m token_table rules start_rule (explode s) with
              | Some true -> "1" | Some false -> "0" | None -> "FUEL")
    | _ -> "BADARGS");
  register "lex" (function
    | [s] -> (match lex token_table (nat_of_int (String.length s + 1)) (explode s) with
              | Some l -> String.concat "\x1f" (List.map (fun (n, t) -> implode n ^ "\x1e" ^ escape (implode t)) l)
              | None -> "NOLEX")
    | _ -> "BADARGS")

(* ------------------------------------------------------------------ reader (C03) *)
(* items: R<hex>; C<hex>; [ ]   separated by nothing;  result: canonical nested text of the rose tree *)
let rec ritems r : item list =
  if r.i >= String.length r.s then [] else
  match next r with
  | 'R' -> let h = until_semi r in IRes (explode (unhex h)) :: ritems r
  | 'C' -> let h = until_semi r in ICon (explode (unhex h)) :: ritems r
  | '[' -> ILb :: ritems r
  | ']' -> IRb :: ritems r
  | c -> failwith "bad item"
let rec rose_str (Rose (n, kids)) =
  "(" ^ hex_of (implode n) ^ String.concat "" (List.map (fun (l, k) -> "<" ^ hex_of (implode l) ^ ">" ^ rose_str k) kids) ^ ")"
let () =
  register "read" (function
    | [its] -> (match read (ritems { s = its; i = 0 }) with Some t -> rose_str t | None -> "NOREAD")
    | _ -> "BADARGS")

let () =
  register "addedge" (function
    | [which; name; lactole; con] ->
        let k = if which = "code" then code_ketose_test (explode name) (nat_of_int (int_of_string lactole))
                else spec_ketose_test (explode name) (nat_of_int (int_of_string lactole)) in
        implode (add_edge k (explode con))
    | _ -> "BADARGS")

(* ------------------------------------------------------------------ modifications (C04) *)
let () =
  register "modcheck" (function
    | out :: base :: rest ->
        let rec pairs = function
          | p :: f :: r -> (match sem_str (explode f) with
                            | Some fm -> (match pairs r with Some l -> Some ((nat_of_int (int_of_string p), fm) :: l) | None -> None)
                            | None -> None)
          | [] -> Some []
          | _ -> None in
        (match sem_str (explode out), sem_str (explode base), pairs rest with
         | Some o, Some b, Some mods ->
             let b' = strip_h b in
             (match modify_all b' b' mods with
              | Some e -> if same_molecule_f o e then "1" else "0"
              | None -> "NOSPEC")
         | None, _, _ -> "ERR-out"
         | _, None, _ -> "ERR-base"
         | _, _, None -> "ERR-frag")
    | _ -> "BADARGS")

(* carbon notation of fatty acyl groups: acyl <iso 0|1> <ante 0|1> <n> [c<p> | t<p> | <p>]...  ->  token \x1e fragment *)
let () =
  register "acyl" (function
    | iso :: ante :: n :: dbs ->
        let db s = match s.[0] with
          | 'c' -> (DbCis, nat_of_int (int_of_string (String.sub s 1 (String.length s - 1))))
          | 't' -> (DbTrans, nat_of_int (int_of_string (String.sub s 1 (String.length s - 1))))
          | _ -> (DbPlain, nat_of_int (int_of_string s)) in
        let a = { ac_iso = (iso = "1"); ac_ante = (ante = "1"); ac_n = nat_of_int (int_of_string n); ac_dbs = List.map db dbs } in
        (match acyl_text a with
         | Some t -> implode (acyl_token a) ^ "\x1e" ^ implode t
         | None -> "NOSPEC")
    | _ -> "BADARGS")

let () =
  register "polycarbon" (function
    | [name] -> (match parse_poly_carbon (explode name) with Some t -> "S" ^ implode t | None -> "NONE")
    | _ -> "BADARGS")

(* ------------------------------------------------------------------ skeleton changes (C14) *)
let () =
  let yes b = if b then "1" else "0" in
  register "skeleton" (function
    | kind :: out :: parent :: args ->
        (match sem_str (explode out), sem_str (explode parent) with
         | Some o, Some p0 ->
             let p = strip_h p0 in
             let n k = nat_of_int (int_of_string (List.nth args k)) in
             (match kind with
              | "ol" -> (match reduce_ring p with
                         | Some (r, c) -> yes (same_except_at_f r o (fun i -> int_of_nat i = int_of_nat c))
                         | None -> "NOSPEC")
              | "onic" -> (match reduce_ring p with
                           | Some (r, c) -> yes (same_except_at_f (oxidise r c) o (fun i -> false))
                           | None -> "NOSPEC")
              | "aric" -> (match reduce_ring p, terminal_carbon p with
                           | Some (r, c), Some t -> yes (same_except_at_f (oxidise (oxidise r c) t) o (fun i -> false))
                           | _, _ -> "NOSPEC")
              | "uronic" -> (match terminal_carbon p with
                             | Some t -> yes (same_molecule_f (oxidise p t) o)
                             | None -> "NOSPEC")
              | "deoxy" -> (match deoxy p (n 0) with Some e -> yes (same_molecule_f e o) | None -> "NOSPEC")
              | "anhydro" -> (match anhydro p (n 0) (n 1) with Some e -> yes (same_molecule_f e o) | None -> "NOSPEC")
              | "epimer" -> (match position p (n 0) with
                             | Some (x, _) -> yes (inverted_exactly_at_f p o (fun i -> int_of_nat i = int_of_nat x))
                             | None -> "NOSPEC")
              | "size" -> (match chain_length (strip_h o) with
                           | Some k -> yes (int_of_nat k = int_of_string (List.nth args 0))
                           | None -> "NOSPEC")
              | _ -> "BADKIND")
         | None, _ -> "ERR-out"
         | _, None -> "ERR-parent")
    | _ -> "BADARGS")

(* ------------------------------------------------------------------ walker model (C03) *)
let rec rptree r : ptree =
  match next r with
  | 'R' -> PRes (explode (unhex (until_semi r)))
  | 'C' -> PCon (explode (unhex (until_semi r)))
  | 'T' -> PTok (explode (unhex (until_semi r)))
  | 'B' -> let n = int_of_string (until_semi r) in
           let rec kids k = if k = 0 then [] else let x = rptree r in x :: kids (k - 1) in
           PBranch (kids n)
  | c -> failwith "bad ptree"
let () =
  register "walkmodel" (function
    | [enc] ->
        let r = { s = enc; i = 0 } in
        (match rptree r with
         | PBranch kids ->
             (* the walker regenerated from TreeWalker.__walk; it must also agree with the hand model *)
             let gen = parse_begin_with walk_gen (nat_of_int 500) kids in
             if gen <> parse_begin (nat_of_int 500) kids then "MODELS-DIFFER" else
             (match gen with
              | Some g ->
                  String.concat "\x1f" (List.map (fun n -> hex_of (implode n)) g.g_nodes) ^ "\t" ^
                  String.concat "\x1f" (List.map (fun ((p, c), l) -> Printf.sprintf "%d,%d,%s" (int_of_nat p) (int_of_nat c) (hex_of (implode l))) g.g_edges)
              | None -> "RAISE")
         | _ -> "BADTREE")
    | _ -> "BADARGS")
