(* Model/Root.v -- the reducing end: which anomer the root gets (Merger.mark / Monomer.to_chirality /
   is_non_chiral) and which atom the SMILES starts from (Merger.merge). *)
From Coq Require Import List Arith Bool.
Import ListNotations.

(* configurations: 0 undefined, 1 alpha, 2 beta. The suffix of the written root wins; the option only applies when
   the root was written without an anomer (is_non_chiral) *)
Definition root_config (suffix option_ : nat) : nat :=
  if Nat.eqb suffix 0 then option_ else suffix.

(* the start atom: the unique atom whose id is [start], else the atom with id 1 (C1) *)
Definition positions_of (ids : list nat) (x : nat) : list nat :=
  map fst (filter (fun p => Nat.eqb (snd p) x) (combine (seq 0 (length ids)) ids)).

Definition start_position (ids : list nat) (start : nat) : option nat :=
  match positions_of ids start with
  | [p] => Some p
  | _ => match positions_of ids 1 with [p] => Some p | _ => None end
  end.
