(* Model/PyLite.v -- a small deep embedding of the Python subset in which converter.py and __main__.py are
   written, with an executable big-step semantics over an explicit world (logger flag, stdout, files, log).
   tools/translate/gen_pylite.py regenerates the program terms (Gen/Converter.v) from the source on every run;
   constructs outside this subset make the translator refuse.
   The only call left abstract is  Glycan(g, full=f).get_smiles()  : parameter [conv] of the semantics. *)
From Coq Require Import Ascii String ZArith Bool Arith Lia List.
Import ListNotations.
Open Scope string_scope.

Inductive exn := ExParse | ExValue | ExOther (tag : string) | ExExit.

Inductive value :=
| VNone | VBool (b : bool) | VInt (z : Z) | VStr (s : string)
| VList (l : list value) | VTuple (l : list value)
| VDict (d : list (string * value))
| VGen (l : list value)                  (* an iterator with these items left *)
| VFile (p : string) (writing : bool)
| VStdout | VStderr | VLogger.

Record world := mkWorld {
  w_disabled : bool;                           (* logging.getLogger().disabled *)
  w_stdout : list string;                      (* lines printed to sys.stdout, in order *)
  w_stdout_closed : bool;
  w_stderr : list string;
  w_files : list (string * list string);       (* existing regular files: path -> lines *)
  w_parent_ok : list string;                   (* paths whose parent directory exists *)
  w_stdin : list string }.                     (* answers to input() *)
(* logging output (handlers, records) is not part of the modelled world: no property speaks about it *)

Inductive expr :=
| EConst (v : value)
| EVar (x : string)
| EIsNone (e : expr) | EIsNotNone (e : expr)
| ENot (e : expr) | EAnd (a b : expr) | EOr (a b : expr)
| EEq (a b : expr) | ENe (a b : expr)
| EIn (e : expr) (l : list expr) | ENotIn (e : expr) (l : list expr)
| EIsInstance (e : expr) (ty : string)
| ELen (e : expr)
| EList (l : list expr) | ETuple (l : list expr)
| ESub (e k : expr)
| EPrim (f : string) (args : list expr)                                   (* built-ins, see [prim] *)
| ECall (f : string) (args : list expr) (kw : list (string * expr))      (* translated functions *)
| EListComp (body : expr) (x : string) (iter : expr)
| EParMap (f : string) (x : string) (args : list expr) (iter : expr).   (* Parallel()(delayed(f)(args) for x in iter) *)

Inductive stmt :=
| SAssign (x : string) (e : expr)
| SAssignSub (x : string) (k : expr) (e : expr)
| SSetDisabled (x : string) (e : expr)            (* x.disabled = e  where x is the root logger *)
| SAppend (x : string) (e : expr)                 (* x.append(e) *)
| SExtend (x : string) (e : expr)                 (* x += e *)
| SExpr (e : expr)
| SPrint (args : list expr) (file : expr) (sep : string)
| SClose (e : expr)
| SIf (c : expr) (t f : list stmt)
| SFor (xs : list string) (iter : expr) (body : list stmt)
| SReturn (e : option expr)
| SYield (e : expr)
| SRaise (e : exn)
| STry (body : list stmt) (handlers : list (string * list stmt))
| SFinally (body : list stmt) (fin : list stmt).

Record fundef := mkFun { f_name : string; f_params : list (string * option value); f_body : list stmt }.

Definition env := list (string * value).

Fixpoint lookup (x : string) (e : env) : option value :=
  match e with [] => None | (y, v) :: r => if String.eqb x y then Some v else lookup x r end.
Fixpoint update (x : string) (v : value) (e : env) : env :=
  match e with
  | [] => [(x, v)]
  | (y, w) :: r => if String.eqb x y then (y, v) :: r else (y, w) :: update x v r
  end.

(* ------------------------------------------------------------------ Python helpers *)

Definition is_ws (c : ascii) : bool :=
  let n := nat_of_ascii c in ((n =? 32) || ((9 <=? n) && (n <=? 13)) || ((28 <=? n) && (n <=? 31)))%nat.

Fixpoint lstrip (s : string) : string :=
  match s with String c r => if is_ws c then lstrip r else s | EmptyString => s end.
Fixpoint rev_string (s acc : string) : string :=
  match s with String c r => rev_string r (String c acc) | EmptyString => acc end.
Definition py_strip (s : string) : string :=
  rev_string (lstrip (rev_string (lstrip s) "")) "".

Fixpoint value_eqb_aux (fuel : nat) (a b : value) : bool :=
  match fuel with 0 => false | S f =>
  let leq := fix leq (x y : list value) : bool :=
      match x, y with [], [] => true | u :: x', v :: y' => value_eqb_aux f u v && leq x' y' | _, _ => false end in
  match a, b with
  | VNone, VNone => true
  | VBool x, VBool y => Bool.eqb x y
  | VInt x, VInt y => Z.eqb x y
  | VBool x, VInt y | VInt y, VBool x => Z.eqb (if x then 1 else 0) y
  | VStr x, VStr y => String.eqb x y
  | VList x, VList y => leq x y
  | VTuple x, VTuple y => leq x y
  | VStdout, VStdout | VStderr, VStderr | VLogger, VLogger => true
  | VFile p w, VFile q v => String.eqb p q && Bool.eqb w v
  | _, _ => false
  end end.
Definition value_eqb := value_eqb_aux 50.

Definition truthy (v : value) : bool :=
  match v with
  | VNone => false | VBool b => b | VInt z => negb (Z.eqb z 0) | VStr s => negb (String.eqb s "")
  | VList l | VTuple l => match l with [] => false | _ => true end
  | VDict d => match d with [] => false | _ => true end
  | _ => true
  end.

(* str() as far as print needs it; opaque values get a fixed text *)
Definition py_str (v : value) : string :=
  match v with
  | VStr s => s | VNone => "None" | VBool true => "True" | VBool false => "False"
  | VInt z => match z with Z0 => "0" | _ => "<int>" end
  | _ => "<object>"
  end.

Fixpoint join (sep : string) (l : list string) : string :=
  match l with [] => "" | [x] => x | x :: r => x ++ sep ++ join sep r end.

Fixpoint chars (s : string) : list value :=
  match s with EmptyString => [] | String c r => VStr (String c EmptyString) :: chars r end.

Definition file_lines (w : world) (p : string) : option (list string) :=
  (fix go (l : list (string * list string)) := match l with
     | [] => None | (q, ls) :: r => if String.eqb p q then Some ls else go r end) (w_files w).
Definition isfile (w : world) (v : value) : bool :=
  match v with VStr p => match file_lines w p with Some _ => true | None => false end | _ => false end.

Fixpoint set_file (p : string) (ls : list string) (l : list (string * list string)) :=
  match l with
  | [] => [(p, ls)]
  | (q, x) :: r => if String.eqb p q then (q, ls) :: r else (q, x) :: set_file p ls r
  end.

Definition w_set_disabled (w : world) (b : bool) : world :=
  mkWorld b (w_stdout w) (w_stdout_closed w) (w_stderr w) (w_files w) (w_parent_ok w) (w_stdin w).
Definition w_out_add (w : world) (s : string) : world :=
  mkWorld (w_disabled w) (w_stdout w ++ [s]) (w_stdout_closed w) (w_stderr w) (w_files w) (w_parent_ok w) (w_stdin w).
Definition w_err_add (w : world) (s : string) : world :=
  mkWorld (w_disabled w) (w_stdout w) (w_stdout_closed w) (w_stderr w ++ [s]) (w_files w) (w_parent_ok w) (w_stdin w).
Definition w_close_stdout (w : world) : world :=
  mkWorld (w_disabled w) (w_stdout w) true (w_stderr w) (w_files w) (w_parent_ok w) (w_stdin w).
Definition w_set_files (w : world) (fs : list (string * list string)) : world :=
  mkWorld (w_disabled w) (w_stdout w) (w_stdout_closed w) (w_stderr w) fs (w_parent_ok w) (w_stdin w).
Definition w_pop_stdin (w : world) : world :=
  mkWorld (w_disabled w) (w_stdout w) (w_stdout_closed w) (w_stderr w) (w_files w) (w_parent_ok w) (tl (w_stdin w)).

Definition res (A : Type) := (A + exn)%type.

(* items of an iterable *)
Definition iter_items (v : value) : res (list value) :=
  match v with
  | VList l | VTuple l | VGen l => inl l
  | VStr s => inl (chars s)
  | VDict d => inl (map (fun kv => VStr (fst kv)) d)
  | _ => inr (ExOther "TypeError")
  end.

Definition py_len (v : value) : res Z :=
  match v with
  | VList l | VTuple l => inl (Z.of_nat (length l))
  | VStr s => inl (Z.of_nat (String.length s))
  | VDict d => inl (Z.of_nat (length d))
  | _ => inr (ExOther "TypeError")
  end.

Definition isinstance (v : value) (ty : string) : bool :=
  match v with
  | VList _ => String.eqb ty "list"
  | VStr _ => String.eqb ty "str"
  | VTuple _ => String.eqb ty "tuple"
  | VDict _ => String.eqb ty "dict"
  | VInt _ => String.eqb ty "int"
  | VBool _ => String.eqb ty "bool" || String.eqb ty "int"
  | _ => false
  end.

Definition subscript (v k : value) : res value :=
  match v, k with
  | VDict d, VStr s => match lookup s d with Some x => inl x | None => inr (ExOther "KeyError") end
  | VList l, VInt z | VTuple l, VInt z =>
      if (z <? 0)%Z then inr (ExOther "IndexError") else
      match nth_error l (Z.to_nat z) with Some x => inl x | None => inr (ExOther "IndexError") end
  | _, _ => inr (ExOther "TypeError")
  end.

(* argparse as main() uses it:  -i x1 .. xn -o out  in either order  (assumption A-argparse) *)
Fixpoint take_args (l : list value) : list value * list value :=
  match l with
  | VStr s :: r => if String.eqb s "-i" || String.eqb s "--input" || String.eqb s "-o" || String.eqb s "--output"
                   then ([], l) else let (a, b) := take_args r in (VStr s :: a, b)
  | _ => ([], l)
  end.
Definition parse_args (args : list value) : res value :=
  let is_i s := String.eqb s "-i" || String.eqb s "--input" in
  let is_o s := String.eqb s "-o" || String.eqb s "--output" in
  match args with
  | VStr f1 :: r1 =>
      let (a1, r2) := take_args r1 in
      match r2 with
      | VStr f2 :: r3 =>
          let (a2, r4) := take_args r3 in
          match r4 with
          | [] =>
              if is_i f1 && is_o f2 then
                match a1, a2 with _ :: _, [o] => inl (VDict [("input", VList a1); ("output", o)]) | _, _ => inr ExExit end
              else if is_o f1 && is_i f2 then
                match a1, a2 with [o], _ :: _ => inl (VDict [("input", VList a2); ("output", o)]) | _, _ => inr ExExit end
              else inr ExExit
          | _ => inr ExExit
          end
      | _ => inr ExExit
      end
  | _ => inr ExExit
  end.

Section Sem.
  (* the one abstract call: Glycan(g, full=f).get_smiles() *)
  Variable conv : value -> value -> res string.
  Variable prog : list fundef.

  Fixpoint find_fun (f : string) (l : list fundef) : option fundef :=
    match l with [] => None | d :: r => if String.eqb f (f_name d) then Some d else find_fun f r end.

  (* built-ins: pure in the values, effects on the world *)
  Definition prim (f : string) (args : list value) (w : world) : res value * world :=
    match f, args with
    | "isfile", [v] => (inl (VBool (isfile w v)), w)
    | "parent_dir_exists", [VStr p] => (inl (VBool (existsb (String.eqb p) (w_parent_ok w))), w)
    | "open", [VStr p; VStr "r"] =>
        (match file_lines w p with Some _ => inl (VFile p false) | None => inr (ExOther "FileNotFoundError") end, w)
    | "open", [VStr p; VStr "w"] =>
        if existsb (String.eqb p) (w_parent_ok w)
        then (inl (VFile p true), w_set_files w (set_file p [] (w_files w)))
        else (inr (ExOther "FileNotFoundError"), w)
    | "readlines", [VFile p false] =>
        (match file_lines w p with Some ls => inl (VList (map VStr ls)) | None => inr (ExOther "FileNotFoundError") end, w)
    | "strip", [VStr s] => (inl (VStr (py_strip s)), w)
    | "getLogger", [] => (inl VLogger, w)
    | "basicConfig", _ => (inl VNone, w)
    | "log_info", _ => (inl VNone, w)
    | "log_warning", _ => (inl VNone, w)
    | "log_error", _ => (inl VNone, w)
    | "get_smiles", [g; fl] => (match conv g fl with inl s => inl (VStr s) | inr e => inr e end, w)
    | "parse_args", [VList a] => (parse_args a, w)
    | "input", _ => (inl (VStr (hd "" (w_stdin w))), w_pop_stdin w)
    | "exit", _ => (inr ExExit, w)
    | _, _ => (inr (ExOther "TypeError"), w)
    end.

  Definition catches (h : string) (e : exn) : bool :=
    match h, e with
    | "ParseError", ExParse => true
    | "ValueError", (ExParse | ExValue) => true
    | "Exception", (ExParse | ExValue | ExOther _) => true
    | _, _ => false
    end.

  Inductive outcome := ONormal | OReturn (v : value) | ORaise (e : exn).

  Record st := mkSt { s_env : env; s_world : world; s_yield : list value }.

  Definition bind_params (ps : list (string * option value)) (pos : list value) (kw : list (string * value))
    : option env :=
    (fix go (ps : list (string * option value)) (pos : list value) : option env :=
       match ps with
       | [] => match pos with [] => Some [] | _ => None end
       | (x, d) :: r =>
           match pos with
           | v :: pos' => option_map (cons (x, v)) (go r pos')
           | [] => match lookup x kw, d with
                   | Some v, _ => option_map (cons (x, v)) (go r [])
                   | None, Some v => option_map (cons (x, v)) (go r [])
                   | None, None => None
                   end
           end
       end) ps pos.

  (* loop combinators: the recursive semantics below passes itself (at smaller fuel) to these *)
  Fixpoint evals_with (ev : expr -> world -> res value * world) (l : list expr) (w : world)
    : res (list value) * world :=
    match l with
    | [] => (inl [], w)
    | x :: r => match ev x w with
                | (inl v, w1) => match evals_with ev r w1 with
                                 | (inl vs, w2) => (inl (v :: vs), w2)
                                 | (inr ex, w2) => (inr ex, w2) end
                | (inr ex, w1) => (inr ex, w1)
                end
    end.

  Fixpoint evkw_with (ev : expr -> world -> res value * world) (l : list (string * expr)) (w : world)
    : res (list (string * value)) * world :=
    match l with
    | [] => (inl [], w)
    | (k, x) :: r => match ev x w with
                     | (inl v, w1) => match evkw_with ev r w1 with
                                      | (inl kvs, w2) => (inl ((k, v) :: kvs), w2)
                                      | (inr ex, w2) => (inr ex, w2) end
                     | (inr ex, w1) => (inr ex, w1)
                     end
    end.

  Fixpoint map_res (g : value -> world -> res value * world) (l : list value) (w : world)
    : res (list value) * world :=
    match l with
    | [] => (inl [], w)
    | i :: r => match g i w with
                | (inl u, w1) => match map_res g r w1 with
                                 | (inl us, w2) => (inl (u :: us), w2)
                                 | (inr ex, w2) => (inr ex, w2) end
                | (inr ex, w1) => (inr ex, w1)
                end
    end.

  Definition bind_targets (xs : list string) (i : value) (en : env) : option env :=
    match xs with
    | [x1] => Some (update x1 i en)
    | _ => match i with
           | VTuple comps | VList comps =>
               if (length comps =? length xs)%nat
               then Some (fold_left (fun e '(x, c) => update x c e) (combine xs comps) en)
               else None
           | _ => None end
    end.

  Fixpoint for_loop (body : st -> outcome * st) (xs : list string) (l : list value) (s : st) : outcome * st :=
    match l with
    | [] => (ONormal, s)
    | i :: r =>
        match bind_targets xs i (s_env s) with
        | None => (ORaise (ExOther "ValueError"), s)
        | Some en' =>
            match body (mkSt en' (s_world s) (s_yield s)) with
            | (ONormal, s1) => for_loop body xs r s1
            | other => other
            end
        end
    end.

  (* a block runs its statements in order, at one fuel level *)
  Fixpoint block_with (ex : stmt -> st -> outcome * st) (b : list stmt) (s : st) : outcome * st :=
    match b with
    | [] => (ONormal, s)
    | x :: r => match ex x s with
                | (ONormal, s1) => block_with ex r s1
                | other => other
                end
    end.

  Definition lift_list (r : res (list value) * world) : res value * world :=
    match r with (inl vs, w) => (inl (VList vs), w) | (inr ex, w) => (inr ex, w) end.

  Fixpoint eval (fuel : nat) (e : expr) (en : env) (w : world) {struct fuel} : res value * world :=
    match fuel with 0 => (inr (ExOther "fuel"), w) | S f =>
    let evals := evals_with (fun x w => eval f x en w) in
    match e with
    | EConst v => (inl v, w)
    | EVar x => (match lookup x en with Some v => inl v | None => inr (ExOther "NameError") end, w)
    | EIsNone a => match eval f a en w with
                   | (inl v, w1) => (inl (VBool (match v with VNone => true | _ => false end)), w1)
                   | r => r end
    | EIsNotNone a => match eval f a en w with
                      | (inl v, w1) => (inl (VBool (match v with VNone => false | _ => true end)), w1)
                      | r => r end
    | ENot a => match eval f a en w with (inl v, w1) => (inl (VBool (negb (truthy v))), w1) | r => r end
    | EAnd a b => match eval f a en w with
                  | (inl v, w1) => if truthy v then eval f b en w1 else (inl v, w1)
                  | r => r end
    | EOr a b => match eval f a en w with
                 | (inl v, w1) => if truthy v then (inl v, w1) else eval f b en w1
                 | r => r end
    | EEq a b => match eval f a en w with
                 | (inl v, w1) => match eval f b en w1 with
                                  | (inl u, w2) => (inl (VBool (value_eqb v u)), w2) | r => r end
                 | r => r end
    | ENe a b => match eval f a en w with
                 | (inl v, w1) => match eval f b en w1 with
                                  | (inl u, w2) => (inl (VBool (negb (value_eqb v u))), w2) | r => r end
                 | r => r end
    | EIn a l => match eval f a en w with
                 | (inl v, w1) => match evals l w1 with
                                  | (inl vs, w2) => (inl (VBool (existsb (value_eqb v) vs)), w2)
                                  | (inr ex, w2) => (inr ex, w2) end
                 | r => r end
    | ENotIn a l => match eval f a en w with
                    | (inl v, w1) => match evals l w1 with
                                     | (inl vs, w2) => (inl (VBool (negb (existsb (value_eqb v) vs))), w2)
                                     | (inr ex, w2) => (inr ex, w2) end
                    | r => r end
    | EIsInstance a ty => match eval f a en w with
                          | (inl v, w1) => (inl (VBool (isinstance v ty)), w1) | r => r end
    | ELen a => match eval f a en w with
                | (inl v, w1) => (match py_len v with inl z => inl (VInt z) | inr ex => inr ex end, w1)
                | r => r end
    | EList l => lift_list (evals l w)
    | ETuple l => match evals l w with (inl vs, w1) => (inl (VTuple vs), w1) | (inr ex, w1) => (inr ex, w1) end
    | ESub a k => match eval f a en w with
                  | (inl v, w1) => match eval f k en w1 with
                                   | (inl u, w2) => (subscript v u, w2) | r => r end
                  | r => r end
    | EPrim p args => match evals args w with
                      | (inl vs, w1) => prim p vs w1
                      | (inr ex, w1) => (inr ex, w1) end
    | ECall g args kw =>
        match evals args w with
        | (inr ex, w1) => (inr ex, w1)
        | (inl vs, w1) =>
            match evkw_with (fun x w => eval f x en w) kw w1 with
            | (inr ex, w2) => (inr ex, w2)
            | (inl kvs, w2) => call f g vs kvs w2
            end
        end
    | EListComp body x it =>
        match eval f it en w with
        | (inl v, w1) =>
            match iter_items v with
            | inr ex => (inr ex, w1)
            | inl items => lift_list (map_res (fun i w => eval f body (update x i en) w) items w1)
            end
        | r => r end
    | EParMap g x args it =>
        (* joblib: results in submission order; a worker's changes to process state do not reach the parent
           (assumption A-joblib); the world is threaded only so that the log is kept *)
        match eval f it en w with
        | (inl v, w1) =>
            match iter_items v with
            | inr ex => (inr ex, w1)
            | inl items =>
                lift_list (map_res (fun i w =>
                   match evals_with (fun a w => eval f a (update x i en) w) args w with
                   | (inr ex, w1) => (inr ex, w1)
                   | (inl vs, w1) => call f g vs [] w1
                   end) items w1)
            end
        | r => r end
    end end

  with call (fuel : nat) (g : string) (pos : list value) (kw : list (string * value)) (w : world)
       {struct fuel} : res value * world :=
    match fuel with 0 => (inr (ExOther "fuel"), w) | S f =>
    match find_fun g prog with
    | None => (inr (ExOther "NameError"), w)
    | Some d =>
        match bind_params (f_params d) pos kw with
        | None => (inr (ExOther "TypeError"), w)
        | Some en =>
            match block_with (exec f) (f_body d) (mkSt en w []) with
            | (ONormal, s) => (inl VNone, s_world s)
            | (OReturn v, s) => (inl v, s_world s)
            | (ORaise ex, s) => (inr ex, s_world s)
            end
        end
    end end

  with exec (fuel : nat) (x : stmt) (s : st) {struct fuel} : outcome * st :=
    match fuel with 0 => (ORaise (ExOther "fuel"), s) | S f =>
    let en := s_env s in let w := s_world s in let ys := s_yield s in
    match x with
    | SAssign v e => match eval f e en w with
                     | (inl u, w1) => (ONormal, mkSt (update v u en) w1 ys)
                     | (inr ex, w1) => (ORaise ex, mkSt en w1 ys) end
    | SAssignSub v k e =>
        match eval f k en w with
        | (inl (VStr ks), w1) =>
            match eval f e en w1 with
            | (inl u, w2) => match lookup v en with
                             | Some (VDict d) => (ONormal, mkSt (update v (VDict (update ks u d)) en) w2 ys)
                             | _ => (ORaise (ExOther "TypeError"), mkSt en w2 ys) end
            | (inr ex, w2) => (ORaise ex, mkSt en w2 ys) end
        | (inl _, w1) => (ORaise (ExOther "TypeError"), mkSt en w1 ys)
        | (inr ex, w1) => (ORaise ex, mkSt en w1 ys) end
    | SSetDisabled v e =>
        match lookup v en with
        | Some VLogger => match eval f e en w with
                          | (inl u, w1) => (ONormal, mkSt en (w_set_disabled w1 (truthy u)) ys)
                          | (inr ex, w1) => (ORaise ex, mkSt en w1 ys) end
        | Some _ => (ORaise (ExOther "AttributeError"), s)
        | None => (ORaise (ExOther "NameError"), s)      (* UnboundLocalError *)
        end
    | SAppend v e =>
        match eval f e en w with
        | (inl u, w1) => match lookup v en with
                         | Some (VList l) => (ONormal, mkSt (update v (VList (l ++ [u])) en) w1 ys)
                         | _ => (ORaise (ExOther "AttributeError"), mkSt en w1 ys) end
        | (inr ex, w1) => (ORaise ex, mkSt en w1 ys) end
    | SExtend v e =>
        match eval f e en w with
        | (inl u, w1) => match lookup v en with
                         | Some (VList l) =>
                             match iter_items u with
                             | inl items => (ONormal, mkSt (update v (VList (l ++ items)) en) w1 ys)
                             | inr ex => (ORaise ex, mkSt en w1 ys) end
                         | _ => (ORaise (ExOther "TypeError"), mkSt en w1 ys) end
        | (inr ex, w1) => (ORaise ex, mkSt en w1 ys) end
    | SExpr e => match eval f e en w with
                 | (inl _, w1) => (ONormal, mkSt en w1 ys)
                 | (inr ex, w1) => (ORaise ex, mkSt en w1 ys) end
    | SPrint args file sep =>
        match evals_with (fun a w => eval f a en w) args w with
        | (inr ex, w1) => (ORaise ex, mkSt en w1 ys)
        | (inl vs, w1) =>
            let line := join sep (map py_str vs) in
            match eval f file en w1 with
            | (inl VStdout, w2) =>
                if w_stdout_closed w2 then (ORaise (ExValue), mkSt en w2 ys)
                else (ONormal, mkSt en (w_out_add w2 line) ys)
            | (inl VStderr, w2) => (ONormal, mkSt en (w_err_add w2 line) ys)
            | (inl (VFile p true), w2) =>
                match file_lines w2 p with
                | Some ls => (ONormal, mkSt en (w_set_files w2 (set_file p (ls ++ [line]) (w_files w2))) ys)
                | None => (ORaise (ExOther "ValueError"), mkSt en w2 ys) end
            | (inl _, w2) => (ORaise (ExOther "AttributeError"), mkSt en w2 ys)
            | (inr ex, w2) => (ORaise ex, mkSt en w2 ys)
            end
        end
    | SClose e =>
        match eval f e en w with
        | (inl VStdout, w1) => (ONormal, mkSt en (w_close_stdout w1) ys)
        | (inl (VFile _ _), w1) => (ONormal, mkSt en w1 ys)
        | (inl _, w1) => (ORaise (ExOther "AttributeError"), mkSt en w1 ys)
        | (inr ex, w1) => (ORaise ex, mkSt en w1 ys) end
    | SIf c t e =>
        match eval f c en w with
        | (inl v, w1) => block_with (exec f) (if truthy v then t else e) (mkSt en w1 ys)
        | (inr ex, w1) => (ORaise ex, mkSt en w1 ys) end
    | SFor xs it body =>
        match eval f it en w with
        | (inr ex, w1) => (ORaise ex, mkSt en w1 ys)
        | (inl v, w1) =>
            match iter_items v with
            | inr ex => (ORaise ex, mkSt en w1 ys)
            | inl items => for_loop (block_with (exec f) body) xs items (mkSt en w1 ys)
            end
        end
    | SReturn None => (OReturn VNone, s)
    | SReturn (Some e) => match eval f e en w with
                          | (inl v, w1) => (OReturn v, mkSt en w1 ys)
                          | (inr ex, w1) => (ORaise ex, mkSt en w1 ys) end
    | SYield e => match eval f e en w with
                  | (inl v, w1) => (ONormal, mkSt en w1 (ys ++ [v]))
                  | (inr ex, w1) => (ORaise ex, mkSt en w1 ys) end
    | SRaise ex => (ORaise ex, s)
    | STry body hs =>
        match block_with (exec f) body s with
        | (ORaise ex, s1) =>
            match find (fun h => catches (fst h) ex) hs with
            | Some (_, hb) => block_with (exec f) hb s1
            | None => (ORaise ex, s1)
            end
        | other => other
        end
    | SFinally body fin =>
        match block_with (exec f) body s with
        | (o, s1) => match block_with (exec f) fin s1 with
                     | (ONormal, s2) => (o, s2)
                     | other => other
                     end
        end
    end end.

  (* a generator function: run the body, return what it yielded, in order, and the final world *)
  Definition call_gen (fuel : nat) (g : string) (pos : list value) (kw : list (string * value)) (w : world)
    : outcome * list value * world :=
    match find_fun g prog with
    | None => (ORaise (ExOther "NameError"), [], w)
    | Some d =>
        match bind_params (f_params d) pos kw with
        | None => (ORaise (ExOther "TypeError"), [], w)
        | Some en => let '(o, s) := block_with (exec fuel) (f_body d) (mkSt en w []) in (o, s_yield s, s_world s)
        end
    end.
End Sem.
