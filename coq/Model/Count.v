(* Model/Count.v -- Glycan.count for single-residue queries (recipe_equality) and the tree statistics of
   Glycan.summary, over the written tree. *)
From Coq Require Import String Bool Arith List.
From GV Require Import Spec.Reader.
Import ListNotations.
Open Scope list_scope.

(* what recipe_equality looks at in a residue *)
Record resid := mkResid {
  rd_sac : string;                 (* the monosaccharide token(s) of the recipe *)
  rd_recipe : list string;         (* all recipe entries (token text with its type) *)
  rd_struct : nat }.               (* class of the residue's structure under kekulised canonical SMILES *)

Inductive mode := MNone | MSome | MEvery.

Definition node_match (m : mode) (g q : resid) : bool :=
  match m with
  | MNone => String.eqb (rd_sac g) (rd_sac q)
  | MSome => forallb (fun t => existsb (String.eqb t) (rd_recipe g)) (rd_recipe q)
  | MEvery => Nat.eqb (rd_struct g) (rd_struct q)
  end.

(* match_nodes / match_leaves / match_root with a one-residue query *)
Definition count_in (m : mode) (scope : list resid) (q : resid) : nat :=
  length (filter (fun g => node_match m g q) scope).

(* tree statistics of summary() *)
Definition summary_monomers (t : rose) : nat := size t.
Definition summary_root (t : rose) : string := root_name t.
Definition summary_leaves (t : rose) : list string := leaves t.
Definition summary_depth (t : rose) : nat := height t.
Definition summary_types (t : rose) : list string := names t.
