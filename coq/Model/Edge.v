(* Model/Edge.v -- TreeWalker.__add_edge: how a written linkage becomes an edge label, and the specified
   normal form with the child's anomeric carbon as default (Gen.Tables.ketoses2). *)
From Coq Require Import Ascii String Bool List.
From GV Require Import Gen.Tables.
Import ListNotations.
Open Scope string_scope.

Fixpoint has_char (c : ascii) (s : string) : bool :=
  match s with EmptyString => false | String d r => Ascii.eqb c d || has_char c r end.

(* the code compares (bound method get_lactole, name) with the pairs of ketoses2: never equal *)
Definition code_ketose_test (name : string) (lactole : nat) : bool := false.

(* the specified default: the child is one of the 2-ketoses of the code base, in whatever ring form *)
Definition spec_ketose_test (name : string) (lactole : nat) : bool :=
  existsb (fun '(n, l) => String.eqb n name) ketoses2.

Definition add_edge (ketose : bool) (con : string) : string :=
  if negb (has_char "("%char con) && negb (has_char ")"%char con) then
    let con1 := if negb (has_char "-"%char con)
                then match con with
                     | String t rest => String t ((if ketose then "2-" else "1-") ++ rest)
                     | EmptyString => con
                     end
                else con in
    "(" ++ con1 ++ ")"
  else con.

Definition edge_determined (label : string) : bool := negb (has_char "?"%char label).

(* the three written forms of one linkage: typ in {a, b, ?}, child position c, parent position p *)
Definition form_full (t c p : string) : string := "(" ++ t ++ c ++ "-" ++ p ++ ")".
Definition form_nopar (t c p : string) : string := t ++ c ++ "-" ++ p.
Definition form_short (t p : string) : string := t ++ p.
