(* Model/Walker.v -- model of TreeWalker (walker.py): __parse, __walk with its dispatch on the number of children of
   a parse-tree node, __add_node (ids in order of creation), __add_edge (through Model/Edge.add_edge).
   Parse trees are generic: a node of rule 'branch' / 'begin' with its children, residues (rule deriv) and linkages
   (rule con) as leaves carrying their text, other terminals as tokens. *)
From Coq Require Import Ascii String Bool Arith Lia List.
From GV Require Import Model.Edge.
Import ListNotations.
Open Scope list_scope.

Inductive ptree :=
| PRes (name : string)            (* a deriv subtree: the residue as written *)
| PCon (text : string)            (* a con subtree: the linkage as written *)
| PTok (text : string)            (* any other terminal: '[' ']' ' ' 'a' 'b' ... *)
| PBranch (kids : list ptree).    (* a branch node *)

Record graph := mkGraph {
  g_nodes : list string;                     (* node id = position *)
  g_edges : list (nat * nat * string) }.     (* (parent, child, label) in insertion order *)

Definition add_node (g : graph) (name : string) : nat * graph :=
  (length (g_nodes g), mkGraph (g_nodes g ++ [name]) (g_edges g)).

(* __add_edge: parent == child adds nothing (floating parts); the label is normalised by Edge.add_edge with the
   ketose test as coded (never true) *)
Definition add_edge_g (g : graph) (parent child : nat) (con : string) : graph :=
  if Nat.eqb parent child then g
  else mkGraph (g_nodes g) (g_edges g ++ [(parent, child, add_edge false con)]).

Definition is_branch (t : ptree) : bool := match t with PBranch _ => true | _ => false end.

(* __walk(t, parent): returns the id the walk hands back, or None where the code raises *)
Fixpoint walk (fuel : nat) (t : ptree) (parent : nat) (g : graph) : option (nat * graph) :=
  match fuel with
  | 0 => None
  | S f =>
      match t with
      | PBranch kids =>
          match kids with
          | [PRes d; PCon c] =>
              let (id, g1) := add_node g d in Some (id, add_edge_g g1 parent id c)
          | [PRes d; PCon c; PBranch k] =>
              match walk f (PBranch k) parent g with
              | Some (p', g1) => let (id, g2) := add_node g1 d in Some (id, add_edge_g g2 p' id c)
              | None => None
              end
          | [_; PBranch k; _] =>
              match walk f (PBranch k) parent g with
              | Some (_, g1) => Some (parent, g1)
              | None => None
              end
          | [PRes d; PCon c; _; b1; _; rest] =>
              match walk f rest parent g with
              | Some (nid, g1) =>
                  match walk f b1 nid g1 with
                  | Some (_, g2) => let (id, g3) := add_node g2 d in Some (id, add_edge_g g3 nid id c)
                  | None => None
                  end
              | None => None
              end
          | [PRes d; PCon c; _; b1; _; _; b2; _; rest] =>
              match walk f rest parent g with
              | Some (nid, g1) =>
                  match walk f b1 nid g1 with
                  | Some (_, g2) =>
                      match walk f b2 nid g2 with
                      | Some (_, g3) => let (id, g4) := add_node g3 d in Some (id, add_edge_g g4 nid id c)
                      | None => None
                      end
                  | None => None
                  end
              | None => None
              end
          | [PRes d; PCon c; _; b1; _; _; b2; _; _; b3; _; rest] =>
              match walk f rest parent g with
              | Some (nid, g1) =>
                  match walk f b1 nid g1 with
                  | Some (_, g2) =>
                      match walk f b2 nid g2 with
                      | Some (_, g3) =>
                          match walk f b3 nid g3 with
                          | Some (_, g4) => let (id, g5) := add_node g4 d in Some (id, add_edge_g g5 nid id c)
                          | None => None
                          end
                      | None => None
                      end
                  | None => None
                  end
              | None => None
              end
          | _ => None
          end
      | _ => None          (* TerminalNode / other: UnreachableError *)
      end
  end.

(* __parse on the children of 'begin' (brace-free input): [deriv] | [branch; deriv] | [deriv; ' '; TYPE] |
   [branch; deriv; ' '; TYPE]; the root's written configuration is appended to its name by the factory *)
Definition parse_begin_with (W : nat -> ptree -> nat -> graph -> option (nat * graph))
           (fuel : nat) (kids : list ptree) : option graph :=
  let g0 := mkGraph [] [] in
  match kids with
  | [PRes d] => Some (snd (add_node g0 d))
  | [b; PRes d] =>
      let (id, g1) := add_node g0 d in
      match W fuel b id g1 with Some (_, g2) => Some g2 | None => None end
  | [PRes d; PTok _; PTok cfg] => Some (snd (add_node g0 (d ++ cfg)))
  | [b; PRes d; PTok _; PTok cfg] =>
      let (id, g1) := add_node g0 (d ++ cfg) in
      match W fuel b id g1 with Some (_, g2) => Some g2 | None => None end
  | _ => None
  end.

Definition parse_begin := parse_begin_with walk.

(* residues written in a parse tree, left to right *)
Fixpoint residues (t : ptree) : list string :=
  match t with
  | PRes d => [d]
  | PBranch kids => (fix go (l : list ptree) : list string :=
                       match l with [] => [] | x :: r => residues x ++ go r end) kids
  | _ => []
  end.

(* the six productions of rule 'branch' *)
Inductive shaped : ptree -> Prop :=
| Sh2 d c : shaped (PBranch [PRes d; PCon c])
| Sh3 d c k : shaped (PBranch k) -> shaped (PBranch [PRes d; PCon c; PBranch k])
| ShBr a k z : shaped (PBranch k) -> shaped (PBranch [PTok a; PBranch k; PTok z])
| Sh6 d c t1 k1 t2 kr :
    shaped (PBranch k1) -> shaped (PBranch kr) ->
    shaped (PBranch [PRes d; PCon c; PTok t1; PBranch k1; PTok t2; PBranch kr])
| Sh9 d c t1 k1 t2 t3 k2 t4 kr :
    shaped (PBranch k1) -> shaped (PBranch k2) -> shaped (PBranch kr) ->
    shaped (PBranch [PRes d; PCon c; PTok t1; PBranch k1; PTok t2; PTok t3; PBranch k2; PTok t4; PBranch kr])
| Sh12 d c t1 k1 t2 t3 k2 t4 t5 k3 t6 kr :
    shaped (PBranch k1) -> shaped (PBranch k2) -> shaped (PBranch k3) -> shaped (PBranch kr) ->
    shaped (PBranch [PRes d; PCon c; PTok t1; PBranch k1; PTok t2; PTok t3; PBranch k2; PTok t4; PTok t5; PBranch k3;
                     PTok t6; PBranch kr]).
