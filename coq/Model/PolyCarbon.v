(* Model/PolyCarbon.v -- hand-written model of SMILESReaktor.parse_poly_carbon (glyles/glycans/mono/reactor.py): the
   text of a fatty acyl group from its name <pos>[a][i]C<n>[={...}][c{...}], statement by statement:
     ante = name[1] == "a"; iso = name[2 if ante else 1] == "i"; count = int(re.findall(r'\d+', name)[1])
     start/end/chain; parts = re.findall(r'\{[\w|,]*}', name); pre = name[name.index(part) - 1]; the mods list;
     the range test; insertion in descending order of position (sorted(..., reverse=True) is stable, a later element of
     equal position is inserted in front of an earlier one); .replace("//", "/").
   None stands for an exception of the Python code (NotImplementedError, ValueError, IndexError).
   The correspondence check runs this function and the implementation on the same names and compares the strings;
   Proofs/PolyCarbonThm.v relates it to the specification Spec/Acyl.v. *)
From Coq Require Import Ascii String Bool Arith List.
From GV Require Import Base.Util.
Import ListNotations.
Open Scope nat_scope.

Definition chr_is (c : ascii) (s : string) : bool := match s2l s with [d] => Ascii.eqb c d | _ => false end.
Definition nth_chr (i : nat) (l : str) : option ascii := nth_error l i.
Definition nth_is (i : nat) (l : str) (s : string) : bool := match nth_chr i l with Some c => chr_is c s | None => false end.

(* re.findall(r'\d+', name) *)
Fixpoint numbers_aux (fuel : nat) (l : str) : list str :=
  match fuel with
  | 0 => []
  | S f => match l with
           | [] => []
           | c :: r => if is_digit c then let (d, t) := span_digits l in d :: numbers_aux f t
                       else numbers_aux f r
           end
  end.
Definition numbers (l : str) : list str := numbers_aux (S (length l)) l.

(* [\w|,]* *)
Definition group_chr (c : ascii) : bool := is_digit c || is_upper c || is_lower c || chr_is c "_" || chr_is c "|" || chr_is c ",".
Fixpoint span_group (l : str) : str * str :=
  match l with
  | c :: r => if group_chr c then let (d, t) := span_group r in (c :: d, t) else ([], l)
  | [] => ([], [])
  end.

(* re.findall(r'\{[\w|,]*}', name): the bodies of the groups, in order *)
Fixpoint groups_aux (fuel : nat) (l : str) : list str :=
  match fuel with
  | 0 => []
  | S f => match l with
           | [] => []
           | c :: r => if chr_is c "{" then
                         let (body, t) := span_group r in
                         match t with
                         | d :: t' => if chr_is d "}" then body :: groups_aux f t' else groups_aux f r
                         | [] => groups_aux f r
                         end
                       else groups_aux f r
           end
  end.
Definition groups (l : str) : list str := groups_aux (S (length l)) l.

(* name.index(part) *)
Fixpoint index_sub (p s : str) : option nat :=
  if prefixb p s then Some 0 else
  match s with
  | [] => None
  | _ :: r => option_map S (index_sub p r)
  end.

Fixpoint split_comma (l : str) (cur : str) : list str :=
  match l with
  | [] => [rev cur]
  | c :: r => if chr_is c "," then rev cur :: split_comma r [] else split_comma r (c :: cur)
  end.

Definition all_digits (l : str) : bool := match l with [] => false | _ => forallb is_digit l end.
Definition py_int (l : str) : option nat := if all_digits l then Some (str2nat l) else None.

Fixpoint seq_opt {A} (l : list (option (list A))) : option (list A) :=
  match l with
  | [] => Some []
  | None :: _ => None
  | Some x :: r => match seq_opt r with Some y => Some (x ++ y) | None => None end
  end.

Definition bs : str := ["\"%char].

(* the (pos, text) pairs of one index entry of a "={...}" group *)
Definition eq_mods (i : str) : option (list (nat * str)) :=
  match i with
  | [] => None                                                   (* i[0] raises IndexError *)
  | c :: r =>
      if chr_is c "c" then match py_int r with
                           | Some p => Some [(p - 1, s2l "/"); (p, s2l "="); (p + 1, bs)]
                           | None => None end
      else if chr_is c "t" then match py_int r with
                                | Some p => Some [(p - 1, s2l "/"); (p, s2l "="); (p + 1, s2l "/")]
                                | None => None end
      else match py_int i with Some p => Some [(p, s2l "=")] | None => None end
  end.

Definition ring_mods (i : str) : option (list (nat * str)) :=
  match py_int i with Some p => Some [(p, s2l "2")] | None => None end.

Definition part_mods (name body : str) : option (list (nat * str)) :=
  let part := s2l "{" ++ body ++ s2l "}" in
  match index_sub part name with
  | Some (S k) =>                                               (* name[k]; index 0 would read name[-1] *)
      let idx := split_comma body [] in
      if nth_is k name "c" then seq_opt (map ring_mods idx)
      else if nth_is k name "=" then seq_opt (map eq_mods idx)
      else Some []
  | _ => None
  end.

(* sorted(mods, key=pos, reverse=True), stable: insertion sort (from the right) that puts an element in front of the
   later ones of equal key *)
Fixpoint insert_desc (x : nat * str) (l : list (nat * str)) : list (nat * str) :=
  match l with
  | [] => [x]
  | y :: r => if fst y <=? fst x then x :: l else y :: insert_desc x r
  end.
Definition sort_desc (l : list (nat * str)) : list (nat * str) := fold_right insert_desc [] l.

Definition insert_at (i : nat) (m chain : str) : str := firstn i chain ++ m ++ skipn i chain.

(* str.replace("//", "/"): left to right, non-overlapping *)
Fixpoint replace_dslash (l : str) : str :=
  match l with
  | a :: ((b :: r) as t) => if chr_is a "/" && chr_is b "/" then s2l "/" ++ replace_dslash r else a :: replace_dslash t
  | _ => l
  end.

Definition max_pos (l : list (nat * str)) : nat := fold_right (fun x m => Nat.max (fst x) m) 0 l.

(* the second half of the function: chain, range test, insertion loop, gluing.  count = number of carbons named, sub =
   carbons that go into the branched end, mods = None when building the list raised *)
Definition assemble (count sub : nat) (end_ : str) (has_parts : bool) (mods : option (list (nat * str))) : option str :=
  if count <? sub + 1 then None else          (* "C" * negative is "", the result is no acyl group: not modelled *)
  let chain := repeat "C"%char (count - sub - 1) in
  if negb has_parts then Some (replace_dslash (s2l "OC(=O)" ++ chain ++ end_))
  else match mods with
       | None => None
       | Some [] => None                                     (* max() of an empty list *)
       | Some mods =>
           if length chain <? max_pos mods - 1 then None
           else if existsb (fun x => Nat.eqb (fst x) 0) mods then None      (* pos - 1 = -1: slices from the end, not modelled *)
           else Some (replace_dslash (s2l "OC(=O)" ++ fold_left (fun ch x => insert_at (fst x - 1) (snd x) ch) (sort_desc mods) chain ++ end_))
       end.

Definition parse_poly_carbon (name : str) : option str :=
  let ante := nth_is 1 name "a" in
  let iso := nth_is (if ante then 2 else 1) name "i" in
  match nth_error (numbers name) 1 with
  | None => None
  | Some cnt =>
      let count := str2nat cnt in
      if ante && negb iso then None else
      let '(end_, sub) := if ante && iso then (s2l "(C)CC", 3) else if iso then (s2l "(C)C", 2) else ([], 0) in
      let parts := groups name in
      assemble count sub end_ (match parts with [] => false | _ => true end) (seq_opt (map (part_mods name) parts))
  end.
