(* Model/Library.v -- the coherence checks of the monosaccharide library (C08), as executable functions over the
   tables regenerated in Gen/Tables.v. Each check returns the list of offending keys, so that a failing run
   names its rows. *)
From Coq Require Import Ascii String ZArith Bool Arith Lia List.
From GV Require Import Base.Util Spec.Smiles Spec.Chem Spec.Iso Gen.Tables.
Import ListNotations.
Open Scope list_scope.
Open Scope nat_scope.

Definition row_mol (r : row) : option mol := sem_str (s2l (r_smiles r)).

Definition key_base (k : string) : string :=
  match k with
  | String a (String "_"%char rest) => if (Ascii.eqb a "A"%char || Ascii.eqb a "B"%char)%bool then rest else k
  | _ => k
  end.
Definition key_cfg (k : string) : nat :=
  match k with
  | String a (String "_"%char _) => if Ascii.eqb a "A"%char then 1 else if Ascii.eqb a "B"%char then 2 else 0
  | _ => 0
  end.

Fixpoint find_row (k : string) (t : list row) : option row :=
  match t with [] => None | r :: rest => if String.eqb k (r_key r) then Some r else find_row k rest end.

(* ------------------------------------------------------------------ graph helpers *)

Definition neighbours (m : mol) (i : nat) : list nat :=
  flat_map (fun '(a, b, _) => if Nat.eqb a i then [b] else if Nat.eqb b i then [a] else []) (m_bonds m).

Definition atom_at (m : mol) (i : nat) : atom := nth i (m_atoms m) (mkAtom [] false false 0 ChNone 0 0%Z).
Definition is_el (m : mol) (i : nat) (e : string) : bool := sym_is (atom_at m i) e.

(* breadth-first distances from [src] in the graph without the bond (x, y); fuel = number of atoms *)
Fixpoint bfs (m : mol) (x y : nat) (fuel : nat) (frontier seen : list nat) (d : nat) (target : nat) : option nat :=
  match fuel with
  | 0 => None
  | S f =>
      if memb Nat.eqb target frontier then Some d else
      let next := flat_map (fun i => filter (fun j => negb (memb Nat.eqb j seen) &&
                                                       negb ((Nat.eqb i x && Nat.eqb j y) || (Nat.eqb i y && Nat.eqb j x)))
                                            (neighbours m i)) frontier in
      let next := nodup Nat.eq_dec next in
      match next with
      | [] => None
      | _ => bfs m x y f next (seen ++ next) (S d) target
      end
  end.

(* size of the smallest ring through the bond (x, y), if any *)
Definition ring_through (m : mol) (x y : nat) : option nat :=
  option_map S (bfs m x y (length (m_atoms m)) [x] [x] 0 y).

(* anomeric carbons: a carbon with a ring oxygen and a second, exocyclic O/N substituent, both singly bonded.
   Returns (carbon, ring oxygen, ring size). *)
Definition anomeric_sites (m : mol) : list (nat * nat * nat) :=
  flat_map (fun c =>
    if is_el m c "C" then
      let hetero := filter (fun j => (is_el m j "O" || is_el m j "N") &&
                                     (bond_class (bond_between m c j) =? 1)) (neighbours m c) in
      flat_map (fun o =>
        if is_el m o "O" && (degree m o =? 2) then
          match ring_through m c o with
          | Some n => if existsb (fun j => negb (Nat.eqb j o) &&
                                           match ring_through m c j with Some _ => false | None => true end) hetero
                      then [(c, o, n)] else []
          | None => []
          end
        else []) hetero
    else []) (seq 0 (length (m_atoms m))).

(* ------------------------------------------------------------------ edits *)

Definition set_atom (m : mol) (i : nat) (f : atom -> atom) : mol :=
  mkMol (upd_nth i f (m_atoms m)) (m_nbrs m) (m_bonds m).

Definition erase_chir (a : atom) : atom :=
  mkAtom (a_sym a) (a_arom a) (a_brk a) (a_iso a) ChNone (a_h a) (a_chg a).

Definition flip_chir (a : atom) : atom :=
  mkAtom (a_sym a) (a_arom a) (a_brk a) (a_iso a)
         (match a_chir a with ChCCW => ChCW | ChCW => ChCCW | ChNone => ChNone end) (a_h a) (a_chg a).

(* the model of to_enantiomer: every tag is inverted *)
Definition flip_all (m : mol) : mol := mkMol (map flip_chir (m_atoms m)) (m_nbrs m) (m_bonds m).

(* open the ring at the anomeric carbon and reduce: the bond C1-O(ring) goes, both ends get a hydrogen, the
   former anomeric carbon is no stereocentre any more *)
Definition add_h (a : atom) : atom :=
  if a_brk a then mkAtom (a_sym a) (a_arom a) true (a_iso a) ChNone (S (a_h a)) (a_chg a) else a.

Definition reduce_open (m : mol) (c o : nat) : mol :=
  let bonds := filter (fun '(a, b, _) => negb ((Nat.eqb a c && Nat.eqb b o) || (Nat.eqb a o && Nat.eqb b c))) (m_bonds m) in
  let nbrs := map (fun '(i, l) =>
                     if Nat.eqb i c then filter (fun x => negb (opt_nat_eqb x (Some o))) l
                     else if Nat.eqb i o then filter (fun x => negb (opt_nat_eqb x (Some c))) l else l)
                  (combine (seq 0 (length (m_nbrs m))) (m_nbrs m)) in
  mkMol (upd_nth o add_h (upd_nth c (fun a => erase_chir (add_h a)) (m_atoms m))) nbrs bonds.

(* ------------------------------------------------------------------ the checks *)

Inductive issue :=
| IParse (key : string)
| IAnomer (key : string) (what : string)
| IDup (k1 k2 : string)
| IRing (key : string)
| IFormula (key : string)
| IAlditol (key : string) (what : string)
| IMirror (key : string)
| IFlags (key : string).

Definition is_single_opposite (p : list (nat * sdiff)) (ok : nat -> bool) : bool :=
  match p with [(c, SOpposite)] => ok c | _ => false end.
Definition is_single_left (p : list (nat * sdiff)) (ok : nat -> bool) : bool :=
  match p with [(c, SOnlyLeft)] => ok c | _ => false end.

(* A and B rows differ at exactly the anomeric carbon; erasing it gives the undefined row *)
Definition check_anomers (t : list row) : list issue :=
  flat_map (fun r =>
    if Nat.eqb (key_cfg (r_key r)) 1 then
      let base := key_base (r_key r) in
      match find_row (String "B" (String "_" base)) t, find_row base t, row_mol r with
      | Some rb, Some ru, Some ma =>
          match row_mol rb, row_mol ru with
          | Some mb, Some mu =>
              let an := map (fun '(c, _, _) => c) (anomeric_sites (strip_h ma)) in
              let isan c := memb Nat.eqb c an in
              (if existsb (fun p => is_single_opposite p isan) (iso_profiles ma mb) then []
               else [IAnomer (r_key r) "a and b do not differ at exactly the anomeric carbon"]) ++
              (if existsb (fun p => is_single_left p isan) (iso_profiles ma mu) then []
               else [IAnomer (r_key r) "erasing the anomeric centre of a does not give the undefined form"]) ++
              (if existsb (fun p => is_single_left p (fun _ => true)) (iso_profiles mb mu) then []
               else [IAnomer (r_key rb) "erasing the anomeric centre of b does not give the undefined form"])
          | _, _ => [IParse base]
          end
      | None, _, _ => [IAnomer (r_key r) "no b row"]
      | _, None, _ => [IAnomer (r_key r) "no undefined row"]
      | _, _, None => [IParse (r_key r)]
      end
    else []) t.

(* ring size of the hemiacetal ring equals the lactole flag; open rows have no such ring; a cyclitol
   (no anomeric carbon at all, e.g. inositol) must at least have a ring of the stated size *)
Definition any_ring_of_size (m : mol) (n : nat) : bool :=
  existsb (fun '(a, b, _) => match ring_through m a b with Some k => Nat.eqb k n | None => false end) (m_bonds m).

Definition check_ring (t : list row) : list issue :=
  flat_map (fun r =>
    match row_mol r with
    | None => [IParse (r_key r)]
    | Some m =>
        let sizes := map (fun '(_, _, n) => n) (anomeric_sites m) in
        if Nat.eqb (r_lactole r) 1 then (match sizes with [] => [] | _ => [IRing (r_key r)] end)
        else match sizes with
             | [] => if any_ring_of_size m (r_lactole r) then [] else [IRing (r_key r)]
             | _ => if memb Nat.eqb (r_lactole r) sizes then [] else [IRing (r_key r)]
             end
    end) t.

(* different keys denote different molecules (within and across the ring tables) *)
Fixpoint pairs_dup (l : list (string * mol * list (str * nat))) : list issue :=
  match l with
  | [] => []
  | (k, m, f) :: rest =>
      flat_map (fun '(k', m', f') => if formula_eqb f f' && same_molecule m m' then [IDup k k'] else []) rest
      ++ pairs_dup rest
  end.

Definition with_mols (prefix : string) (t : list row) : list (string * mol * list (str * nat)) :=
  flat_map (fun r => match row_mol r with
                     | Some m => [((prefix ++ r_key r)%string, m, formula m)]
                     | None => [] end) t.

Definition check_distinct (p f : list row) : list issue :=
  pairs_dup (with_mols "p:" p ++ with_mols "f:" f).

(* reference compositions of the sugar classes (textbook values); codes not listed are only checked for
   agreement between their own a / b / undefined rows *)
Definition class_formula : list (string * list (string * nat)) :=
  let hex := [("C", 6); ("H", 12); ("O", 6)] in
  let pen := [("C", 5); ("H", 10); ("O", 5)] in
  let dhex := [("C", 6); ("H", 12); ("O", 5)] in
  let ddhex := [("C", 6); ("H", 12); ("O", 4)] in
  [("GLC", hex); ("MAN", hex); ("GAL", hex); ("GUL", hex); ("ALT", hex); ("ALL", hex); ("TAL", hex); ("IDO", hex);
   ("FRU", hex); ("TAG", hex); ("SOR", hex); ("PSI", hex); ("HEX", hex);
   ("ARA", pen); ("LYX", pen); ("XYL", pen); ("RIB", pen); ("PEN", pen); ("RUL", pen); ("XUL", pen); ("API", pen);
   ("QUI", dhex); ("RHA", dhex); ("FUC", dhex);
   ("OLI", ddhex); ("TYV", ddhex); ("ABE", ddhex); ("PAR", ddhex); ("DIG", ddhex); ("COL", ddhex);
   ("HEP", [("C", 7); ("H", 14); ("O", 7)]); ("OCT", [("C", 8); ("H", 16); ("O", 8)]);
   ("ERY", [("C", 4); ("H", 8); ("O", 4)]); ("THRE", [("C", 4); ("H", 8); ("O", 4)]);
   ("NEU", [("C", 9); ("H", 17); ("N", 1); ("O", 8)]); ("KDN", [("C", 9); ("H", 16); ("O", 9)]);
   ("KDO", [("C", 8); ("H", 14); ("O", 8)]); ("MUR", [("C", 9); ("H", 17); ("N", 1); ("O", 7)]);
   ("SED", [("C", 7); ("H", 14); ("O", 7)])]%string.

Definition ref_formula (f : list (string * nat)) : list (str * nat) := map (fun '(s, n) => (s2l s, n)) f.

Definition check_formula (t : list row) : list issue :=
  flat_map (fun r =>
    match row_mol r with
    | None => [IParse (r_key r)]
    | Some m =>
        let base := key_base (r_key r) in
        (match (fix look (l : list (string * list (string * nat))) := match l with
                  | [] => None | (k, f) :: rest => if String.eqb k base then Some f else look rest end) class_formula with
         | Some f => if formula_eqb (formula m) (ref_formula f) then [] else [IFormula (r_key r)]
         | None => []
         end) ++
        (match find_row base t with
         | Some ru => match row_mol ru with
                      | Some mu => if formula_eqb (formula m) (formula mu) then [] else [IFormula (r_key r)]
                      | None => [] end
         | None => []
         end)
    end) t.

(* ring forms reduce to the alditol row: open the hemiacetal ring of the undefined row and compare with
   the "-OL" row, allowing only the former anomeric carbon (a new centre for 2-ketoses) to be unspecified *)
Definition check_alditol (t opens : list row) : list issue :=
  flat_map (fun r =>
    if Nat.eqb (key_cfg (r_key r)) 0 then
      match find_row (r_key r ++ "-OL")%string opens, row_mol r with
      | Some ro, Some m =>
          match row_mol ro with
          | Some mo =>
              let ms := strip_h m in
              match filter (fun '(_, _, n) => Nat.eqb n (r_lactole r)) (anomeric_sites ms) with
              | (c, o, _) :: _ =>
                  let red := reduce_open ms c o in
                  if existsb (fun p => forallb (fun '(i, d) => Nat.eqb i c && sdiff_eqb d SOnlyRight) p) (iso_profiles red mo)
                  then [] else [IAlditol (r_key r) "ring form does not reduce to the -ol row"]
              | [] => [IAlditol (r_key r) "no hemiacetal ring"]
              end
          | None => [IParse (r_key ro)]
          end
      | _, _ => []
      end
    else []) t.

(* pyranose and furanose entries of one code reduce to one and the same alditol (also where the library has no
   "-OL" row to compare with): open both rings at the anomeric carbon, reduce, compare *)
Definition reduced (r : row) : option mol :=
  match row_mol r with
  | Some m =>
      let ms := strip_h m in
      match filter (fun '(_, _, n) => Nat.eqb n (r_lactole r)) (anomeric_sites ms) with
      | (c, o, _) :: _ => Some (reduce_open ms c o)
      | [] => None
      end
  | None => None
  end.

Definition check_forms (p f : list row) : list issue :=
  flat_map (fun r =>
    if Nat.eqb (key_cfg (r_key r)) 0 then
      match find_row (r_key r) f with
      | Some rf =>
          match reduced r, reduced rf with
          | Some a, Some b => if same_molecule a b then [] else [IAlditol (r_key r) "pyranose and furanose entries reduce to different alditols"]
          | _, _ => [IAlditol (r_key r) "no hemiacetal ring in one of the ring forms"]
          end
      | None => []
      end
    else []) p.

(* inverting every tag gives the mirror image (model of to_enantiomer), for every row *)
Definition check_mirror (t : list row) : list issue :=
  flat_map (fun r => match row_mol r with
                     | Some m => if mirror_image m (flip_all m) then [] else [IMirror (r_key r)]
                     | None => [IParse (r_key r)] end) t.

(* the descriptive fields of a row: the config flag is the one its key spells, and name, D/L series and
   lactole flag are the same for the a / b / undefined rows of one code *)
Definition check_flags (t : list row) : list issue :=
  flat_map (fun r =>
    (if Nat.eqb (r_config r) (key_cfg (r_key r)) then [] else [IFlags (r_key r)]) ++
    match find_row (key_base (r_key r)) t with
    | Some ru => if String.eqb (r_name r) (r_name ru) && Nat.eqb (r_isomer r) (r_isomer ru) &&
                    Nat.eqb (r_lactole r) (r_lactole ru) then [] else [IFlags (r_key r)]
    | None => [IFlags (r_key r)]
    end) t.

Definition library_issues : list issue :=
  check_flags pyranoses ++ check_flags furanoses ++ check_flags opens ++
  check_anomers pyranoses ++ check_anomers furanoses ++
  check_ring pyranoses ++ check_ring furanoses ++ check_ring opens ++
  check_formula pyranoses ++ check_formula furanoses ++
  check_alditol pyranoses opens ++ check_alditol furanoses opens ++ check_forms pyranoses furanoses ++
  check_mirror pyranoses ++ check_mirror furanoses ++ check_mirror opens ++
  check_distinct pyranoses furanoses.

Definition issue_key (i : issue) : string :=
  match i with
  | IParse k | IAnomer k _ | IRing k | IFormula k | IAlditol k _ | IMirror k | IFlags k => k
  | IDup k1 _ => k1
  end.

Definition issue_text (i : issue) : string :=
  (match i with
   | IParse k => "parse:" ++ k
   | IAnomer k w => "anomer:" ++ k ++ ":" ++ w
   | IDup a b => "duplicate:" ++ a ++ "=" ++ b
   | IRing k => "ring-size:" ++ k
   | IFormula k => "formula:" ++ k
   | IAlditol k w => "alditol:" ++ k ++ ":" ++ w
   | IMirror k => "mirror:" ++ k
   | IFlags k => "flags:" ++ k
   end)%string.

(* the fast part (everything but the pairwise distinctness and the mirror sweep), for run-time diagnosis *)
Definition library_issues_fast : list issue :=
  check_flags pyranoses ++ check_flags furanoses ++ check_flags opens ++
  check_anomers pyranoses ++ check_anomers furanoses ++
  check_ring pyranoses ++ check_ring furanoses ++ check_ring opens ++
  check_formula pyranoses ++ check_formula furanoses ++
  check_alditol pyranoses opens ++ check_alditol furanoses opens ++ check_forms pyranoses furanoses.
