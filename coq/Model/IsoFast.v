(* Model/IsoFast.v -- the isomorphism search of Spec/Iso.v made fast without changing what it computes:
   (1) candidates for the image of atom i are taken among the neighbours of the image of an already mapped neighbour of
       i (every other candidate fails Iso.consistent anyway);
   (2) "is there an isomorphism with property p" stops at the first one instead of listing all of them.
   Proofs/IsoFastThm.v proves each function equal to the specification it replaces. *)
From Coq Require Import Ascii String ZArith Bool Arith Lia List.
From GV Require Import Base.Util Spec.Smiles Spec.Chem Spec.Iso.
Import ListNotations.
Open Scope list_scope.
Open Scope nat_scope.

Definition adjacent (m : mol) (a b : nat) : bool := bond_class (bond_between m a b) =? 1.

(* an already mapped neighbour of i in m1 *)
Definition anchor (m1 : mol) (phi : list nat) (i : nat) : option nat :=
  find (fun k => adjacent m1 k i) (seq 0 (length phi)).

Definition cands (m1 m2 : mol) (phi : list nat) (i : nat) : list nat :=
  match anchor m1 phi i with
  | Some k => filter (fun j => adjacent m2 (nth k phi 0) j) (seq 0 (length (m_atoms m2)))
  | None => seq 0 (length (m_atoms m2))
  end.

Fixpoint isos_from_f (m1 m2 : mol) (todo : list nat) (phi : list nat) : list (list nat) :=
  match todo with
  | [] => [phi]
  | i :: rest =>
      flat_map (fun j => if consistent m1 m2 phi i j then isos_from_f m1 m2 rest (phi ++ [j]) else [])
               (cands m1 m2 phi i)
  end.

Definition all_isos_f (m1 m2 : mol) : list (list nat) :=
  if (length (m_atoms m1) =? length (m_atoms m2)) && (length (m_bonds m1) =? length (m_bonds m2))
  then isos_from_f m1 m2 (seq 0 (length (m_atoms m1))) [] else [].

(* first success *)
Fixpoint exists_from (p : list nat -> bool) (m1 m2 : mol) (todo : list nat) (phi : list nat) : bool :=
  match todo with
  | [] => p phi
  | i :: rest =>
      existsb (fun j => if consistent m1 m2 phi i j then exists_from p m1 m2 rest (phi ++ [j]) else false) (cands m1 m2 phi i)
  end.

Definition exists_iso (p : list nat -> bool) (m1 m2 : mol) : bool :=
  (length (m_atoms m1) =? length (m_atoms m2)) && (length (m_bonds m1) =? length (m_bonds m2)) &&
  exists_from p m1 m2 (seq 0 (length (m_atoms m1))) [].

Definition void_centre_f (m : mol) (c : nat) : bool :=
  exists_iso (fun psi => Nat.eqb (nth c psi (S c)) c &&
                         match stereo_profile m m psi with
                         | [(c', SOpposite)] => Nat.eqb c' c
                         | _ => false
                         end && ez_same m m psi) m m.

Definition diff_void_f (a b : mol) (phi : list nat) (d : nat * sdiff) : bool :=
  match d with
  | (i, SOpposite) => void_centre_f a i
  | (i, SOnlyLeft) => void_centre_f a i
  | (i, SOnlyRight) => void_centre_f b (nth i phi 0)
  | _ => false
  end.

Definition same_molecule_f (m1 m2 : mol) : bool :=
  let a := strip_h m1 in let b := strip_h m2 in
  exists_iso (fun phi => match stereo_profile a b phi with [] => true | _ => false end && ez_same a b phi) a b ||
  exists_iso (fun phi => forallb (diff_void_f a b phi) (stereo_profile a b phi) && ez_same a b phi) a b.

Definition same_constitution_f (m1 m2 : mol) : bool :=
  exists_iso (fun _ => true) (strip_h m1) (strip_h m2).

Definition mirror_image_f (m1 m2 : mol) : bool :=
  let a := strip_h m1 in let b := strip_h m2 in
  exists_iso (fun phi => forallb (fun i =>
                                    let d := stereo_at a b phi i in
                                    match a_chir (nth i (m_atoms a) (mkAtom [] false false 0 ChNone 0 0%Z)) with
                                    | ChNone => sdiff_eqb d SSame || diff_void_f a b phi (i, d)
                                    | _ => sdiff_eqb d SOpposite || void_centre_f a i end)
                                 (seq 0 (length (m_atoms a))) && ez_same a b phi) a b.

Definition iso_profiles_f (m1 m2 : mol) : list (list (nat * sdiff)) :=
  let a := strip_h m1 in let b := strip_h m2 in
  map (stereo_profile a b) (all_isos_f a b).

Definition same_except_at_f (m1 m2 : mol) (ok : nat -> bool) : bool :=
  let a := strip_h m1 in let b := strip_h m2 in
  exists_iso (fun phi => forallb (fun d => ok (fst d) || diff_void_f a b phi d) (stereo_profile a b phi) && ez_same a b phi) a b.

Definition inverted_exactly_at_f (m1 m2 : mol) (at_ : nat -> bool) : bool :=
  let a := strip_h m1 in let b := strip_h m2 in
  exists_iso (fun phi =>
                forallb (fun i => let d := stereo_at a b phi i in
                                  if at_ i then sdiff_eqb d SOpposite
                                  else sdiff_eqb d SSame || diff_void_f a b phi (i, d))
                        (seq 0 (length (m_atoms a))) && ez_same a b phi) a b.
