(* Model/Splice.v -- the decidable side of the splice theorem (Proofs/Embed.v): for one substitution made by
   Merger.merge_int (the marker atom of the host string is replaced by the child's string), compute the host's
   machine state at the marker and decide whether the child's ring-closure labels are fresh there. *)
From Coq Require Import Ascii String ZArith Bool Arith Lia List.
From GV Require Import Base.Util Spec.Smiles Model.Merger.
Import ListNotations.
Open Scope list_scope.
Open Scope nat_scope.

Definition is_marker (sym : str) (t : tok) : bool :=
  match t with TAtom a => str_eqb (a_sym a) sym | _ => false end.

(* tokens before the first marker atom, tokens after it *)
Fixpoint split_marker (sym : str) (ts : list tok) : option (list tok * list tok) :=
  match ts with
  | [] => None
  | t :: r => if is_marker sym t then Some ([], r)
              else match split_marker sym r with Some (a, b) => Some (t :: a, b) | None => None end
  end.

Definition tok_fresh (st : pst) (t : tok) : bool :=
  match t with
  | TRing l => match find_open l (p_open st) with None => true | Some _ => false end
  | _ => true
  end.

Definition fresh_check (st : pst) (rest : list tok) : bool := forallb (tok_fresh st) rest.

Definition not_dot (t : tok) : bool := match t with TDot => false | _ => true end.

Inductive splice_verdict :=
| SpFresh            (* all hypotheses of the embedding theorem hold *)
| SpReused (l : nat) (* label l of the child is open in the host at the marker *)
| SpOther.           (* the theorem does not speak about this substitution (no marker, unreadable, pending bond, dot) *)

Fixpoint first_reused (st : pst) (rest : list tok) : option nat :=
  match rest with
  | [] => None
  | t :: r => if tok_fresh st t then first_reused st r else match t with TRing l => Some l | _ => None end
  end.

(* host state at the splice point for an O-marker (the child replaces the marker) *)
Definition host_state (sym : str) (me : str) : option (pst * list tok) :=
  match lexS me with
  | Some tm =>
      match split_marker sym tm with
      | Some (pre, post) => match run pst0 pre with Some st => Some (st, post) | None => None end
      | None => None
      end
  | None => None
  end.

(* nothing else is attached to the marker atom: it ends the string or its branch *)
Definition post_ok (post : list tok) : bool :=
  match post with [] => true | TClose :: _ => true | _ => false end.

Definition splice_check (sym : str) (me child : str) : splice_verdict :=
  match host_state sym me, lexS child with
  | Some (st, post), Some (TAtom a0 :: rest) =>
      match first_reused st rest with
      | Some l => SpReused l
      | None =>
          match p_cur st, p_pend st with
          | Some _, None =>
              if forallb not_dot rest && Nat.eqb (length (p_slots st)) (length (p_atoms st)) && post_ok post
              then SpFresh else SpOther
          | _, _ => SpOther
          end
      end
  | _, _ => SpOther
  end.

(* the loop of merge_int: one verdict per child, on the string as it stands when that child is plugged in.
   For an N-marker the text put in is "N(" + child[1:] + ")": that text is what the check is given. *)
Fixpoint splice_children (me : str) (pairs : list (str * str)) (children : list str) : list splice_verdict :=
  match children, pairs with
  | [], _ => []
  | _, [] => []
  | ch :: cr, (osym, nsym) :: pr =>
      let v := if containsb osym me then splice_check osym me ch
               else if containsb nsym me then splice_check nsym me ("N"%char :: "("%char :: tl ch ++ [")"%char]) else SpOther in
      v :: match merge_child me osym nsym ch with
           | MOk me' => splice_children me' pr cr
           | MRaise => []
           end
  end.
