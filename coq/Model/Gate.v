(* Model/Gate.v -- the exit gate of Glycan.get_smiles (checked_smiles): a string is handed out only if it is a
   valid molecule; otherwise the empty string. *)
From Coq Require Import List Bool.
From GV Require Import Base.Util Spec.Smiles Spec.Chem.
Import ListNotations.

Definition gate (s : str) : str := if smiles_valid s then s else [].

(* Glycan.get_smiles: "" unless (tree_only or tree_full = full); the stored string has passed the gate *)
Definition get_smiles_model (tree_only tree_full full : bool) (merged : str) : str :=
  if negb tree_only && negb (Bool.eqb tree_full full) then [] else gate merged.
