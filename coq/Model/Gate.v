(* Model/Gate.v -- the exit gate of Glycan.get_smiles (checked_smiles): a string is handed out only if it is a
   valid molecule; otherwise the empty string. *)
From Coq Require Import List Bool.
From GV Require Import Base.Util Spec.Smiles Spec.Chem.
Import ListNotations.

Definition gate (s : str) : str := if smiles_valid s then s else [].

(* Glycan.get_smiles: "" when a full conversion was requested (and not tree_only) but the tree is not fully
   realisable; otherwise the stored string, which has passed the gate *)
Definition get_smiles_model (tree_only tree_full full : bool) (merged : str) : str :=
  if negb tree_only && full && negb tree_full then [] else gate merged.

(* TreeWalker.full / Glycan.tree_full: the conjunction, accumulated with &=, of: every residue is known, every
   modification is realised, every linkage is determined (no '?'), and the graph is connected *)
Definition tree_full_model (residues_known groups_known edges_determined : list bool) (connected : bool) : bool :=
  fold_left andb (residues_known ++ groups_known ++ edges_determined) true && connected.
