(* Model/Memo.v -- the recogniser of Spec/Ebnf.v with a memo table at the non-terminals: what rule n leaves of the
   token list w is computed once. (Without it the six alternatives of 'branch', which share the prefix
   deriv con '[' branch ']', re-read every inner branch three times: 4^depth.) Verified in Proofs/RecogMemo.v. *)
From Coq Require Import Ascii String Bool Arith Lia List.
From GV Require Import Spec.Ebnf.
Import ListNotations.
Open Scope list_scope.

Fixpoint list_eqb (a b : list string) : bool :=
  match a, b with
  | [], [] => true
  | x :: a', y :: b' => String.eqb x y && list_eqb a' b'
  | _, _ => false
  end.

(* remainders without repetitions (repetitions multiply along a sequence) *)
Definition memb (x : list string) (l : list (list string)) : bool := existsb (list_eqb x) l.
Fixpoint dedup (l : list (list string)) : list (list string) :=
  match l with
  | [] => []
  | x :: r => let d := dedup r in if memb x d then d else x :: d
  end.

Arguments dedup : simpl never.

(* entries: rule name, length of the remaining input, the remaining input, what the rule leaves of it *)
Definition table := list (string * nat * list string * list (list string)).

Fixpoint lookup_tb (tb : table) (n : string) (len : nat) (w : list string) : option (list (list string)) :=
  match tb with
  | [] => None
  | (m, k, v, l) :: r =>
      if String.eqb n m && Nat.eqb len k && list_eqb w v then Some l else lookup_tb r n len w
  end.

(* thread the table through a list of continuations *)
Fixpoint mapm (F : list string -> table -> option (list (list string) * table)) (l : list (list string)) (tb : table)
  : option (list (list string) * table) :=
  match l with
  | [] => Some ([], tb)
  | x :: r =>
      match F x tb with
      | Some (y, tb1) => match mapm F r tb1 with Some (z, tb2) => Some (y ++ z, tb2) | None => None end
      | None => None
      end
  end.

Fixpoint endsm (g : grammar) (fuel : nat) (e : expr) (w : list string) (tb : table)
  : option (list (list string) * table) :=
  match fuel with
  | 0 => None
  | S f =>
      match e with
      | Tok t => match w with
                 | x :: r => if String.eqb x t then Some ([r], tb) else Some ([], tb)
                 | [] => Some ([], tb)
                 end
      | NT n =>
          let len := length w in
          match lookup_tb tb n len w with
          | Some l => Some (l, tb)
          | None =>
              match lookup_rule n g with
              | Some b => match endsm g f b w tb with
                          | Some (l, tb1) => let l' := dedup l in Some (l', (n, len, w, l') :: tb1)
                          | None => None
                          end
              | None => Some ([], tb)
              end
          end
      | Seq a b => match endsm g f a w tb with
                   | Some (l, tb1) => match mapm (endsm g f b) l tb1 with
                                      | Some (r, tb2) => Some (dedup r, tb2)
                                      | None => None
                                      end
                   | None => None
                   end
      | Alt a b => match endsm g f a w tb with
                   | Some (x, tb1) => match endsm g f b w tb1 with
                                      | Some (y, tb2) => Some (dedup (x ++ y), tb2)
                                      | None => None
                                      end
                   | None => None
                   end
      | Star a => match endsm g f a w tb with
                  | Some (l, tb1) =>
                      match mapm (endsm g f (Star a)) (filter (fun w1 => length w1 <? length w) l) tb1 with
                      | Some (r, tb2) => Some (dedup (w :: r), tb2)
                      | None => None
                      end
                  | None => None
                  end
      | Plus a => match endsm g f a w tb with
                  | Some (l, tb1) => match mapm (endsm g f (Star a)) l tb1 with
                                     | Some (r, tb2) => Some (dedup r, tb2)
                                     | None => None
                                     end
                  | None => None
                  end
      | Opt a => match endsm g f a w tb with Some (l, tb1) => Some (w :: l, tb1) | None => None end
      | Eps => Some ([w], tb)
      end
  end.

Definition recognise_m (g : grammar) (fuel : nat) (start : string) (w : list string) : option bool :=
  match endsm g fuel (NT start) w [] with
  | Some (l, _) => Some (existsb (fun r => match r with [] => true | _ => false end) l)
  | None => None
  end.

Definition accepts_m (tbl : list (string * tokdef)) (g : grammar) (start : string) (s : string) : option bool :=
  let full := ("#" ++ s ++ "#")%string in
  match lex tbl (S (String.length full)) full with
  | None => Some false
  | Some toks =>
      let names := map fst toks in
      recognise_m g (200 + 40 * length names) start names
  end.
