(* Model/Merger.v -- character-level model of the text surgery in glyles/glycans/poly/merger.py (merge_int),
   glyles/glycans/mono/monomer.py (shift, the relabelling loop of to_smiles) and glyles/glycans/utils.py
   (sanitize_smiles). RDKit's rooted SMILES of every marked residue enters as data (oracle). *)
From Coq Require Import Ascii String ZArith Bool Arith Lia List.
From GV Require Import Base.Util.
Import ListNotations.
Open Scope list_scope.
Open Scope nat_scope.

(* ------------------------------------------------------------------ shift / relabel (monomer.py) *)

(* shift(d, offset): str(int(d) + offset), with a '%' in front unless it is a single character *)
Definition shift (d : str) (offset : nat) : str :=
  let x := nat2str (str2nat d + offset) in
  match x with [_] => x | _ => "%"%char :: x end.

(* characters of the class [A-G|I-Za-z|\]|%] *)
Definition label_class (c : ascii) : bool :=
  let n := nat_of_ascii c in
  ((65 <=? n) && (n <=? 71)) || ((73 <=? n) && (n <=? 90)) || ((97 <=? n) && (n <=? 122)) ||
  (n =? 124) || (n =? 93) || (n =? 37).

(* the loop over re.finditer(r'[A-G|I-Za-z|\]|%]\d+'): leftmost, non-overlapping, greedy digit runs *)
Fixpoint relabel_aux (fuel : nat) (s : str) (off : nat) : str :=
  match fuel with
  | 0 => s
  | S f =>
      match s with
      | [] => []
      | c :: r =>
          if label_class c then
            let (ds, rest) := span_digits r in
            match ds with
            | [] => c :: relabel_aux f r off
            | _ => (if Ascii.eqb c "%"%char then shift ds off
                    else c :: flat_map (fun d => shift [d] off) ds) ++ relabel_aux f rest off
            end
          else c :: relabel_aux f r off
      end
  end.
Definition relabel (s : str) (off : nat) : str := relabel_aux (S (length s)) s off.

(* ------------------------------------------------------------------ sanitize_smiles (utils.py) *)

Fixpoint find_sub (p s : str) (i : nat) : option nat :=
  if prefixb p s then Some i else
  match s with [] => None | _ :: r => find_sub p r (S i) end.

(* get_index_forward(s, i): index of the bracket closing the one opened at i *)
Fixpoint index_forward (s : str) (k depth : nat) : option nat :=
  match s with
  | [] => None
  | c :: r =>
      let depth' := if Ascii.eqb c "("%char then S depth else if Ascii.eqb c ")"%char then depth - 1 else depth in
      if depth' =? 0 then Some k else index_forward r (S k) depth'
  end.

Definition slice (s : str) (a b : nat) : str := firstn (b - a) (skipn a s).

(* get_index_backward(s, i): scans k = i, i-1, ..., 1 *)
Fixpoint index_backward_aux (rev_prefix : str) (k depth : nat) : option nat :=
  match rev_prefix with
  | [] => None
  | c :: r =>
      if k =? 0 then None else
      let depth' := if Ascii.eqb c ")"%char then S depth else if Ascii.eqb c "("%char then depth - 1 else depth in
      if depth' =? 0 then Some k else index_backward_aux r (k - 1) depth'
  end.
Definition index_backward (s : str) (i : nat) : option nat :=
  index_backward_aux (rev (firstn (S i) s)) i 0.

Inductive sres := MOk (s : str) | MRaise.

Fixpoint sanitize_open (fuel : nat) (s : str) : sres :=
  match fuel with
  | 0 => MOk s
  | S f =>
      match find_sub ["("; "("]%char s 0 with
      | None => MOk s
      | Some m =>
          match index_forward (skipn (S m) s) (S m) 0 with
          | Some idx => sanitize_open f (firstn (S m) s ++ slice s (m + 2) idx ++ skipn (S idx) s)
          | None => (* -1 in python: slices with negative index *)
              sanitize_open f (firstn (S m) s ++ slice s (m + 2) (length s - 1) ++ skipn 0 s)
          end
      end
  end.

Fixpoint sanitize_close (fuel : nat) (s : str) : sres :=
  match fuel with
  | 0 => MOk s
  | S f =>
      match find_sub [")"; ")"]%char s 0 with
      | None => MOk s
      | Some m =>
          match index_backward s m with
          | Some idx => sanitize_close f (firstn idx s ++ slice s (S idx) (S m) ++ skipn (m + 2) s)
          | None => (* -1 in python *)
              sanitize_close f (firstn (length s - 1) s ++ slice s 0 (S m) ++ skipn (m + 2) s)
          end
      end
  end.

Definition sanitize (s : str) : sres :=
  match sanitize_open (length s) s with
  | MOk s1 => sanitize_close (length s1) s1
  | MRaise => MRaise
  end.

(* ------------------------------------------------------------------ marker substitution (merger.py) *)

(* does s start with the regex  \[<sym>H*\d*\]  ?  returns the rest *)
Fixpoint skip_while (p : ascii -> bool) (s : str) : str :=
  match s with c :: r => if p c then skip_while p r else s | [] => [] end.

Fixpoint strip_prefix_l (p s : str) : option str :=
  match p, s with
  | [], _ => Some s
  | x :: p', y :: s' => if Ascii.eqb x y then strip_prefix_l p' s' else None
  | _ :: _, [] => None
  end.

Definition match_marker (sym s : str) : option str :=
  match s with
  | c0 :: r =>
      if Ascii.eqb c0 "["%char then
        match strip_prefix_l sym r with
        | Some r1 =>
            let r2 := skip_while (fun c => Ascii.eqb c "H"%char) r1 in
            let r3 := skip_while is_digit r2 in
            match r3 with
            | c1 :: rest => if Ascii.eqb c1 "]"%char then Some rest else None
            | [] => None
            end
        | None => None
        end
      else None
  | [] => None
  end.

(* re.sub(pattern, repl, s): every match is replaced *)
Fixpoint sub_marker (fuel : nat) (sym repl s : str) : str :=
  match fuel with
  | 0 => s
  | S f =>
      match s with
      | [] => []
      | c :: r =>
          match match_marker sym s with
          | Some rest => repl ++ sub_marker f sym repl rest
          | None => c :: sub_marker f sym repl r
          end
      end
  end.

(* one child: the O-marker symbol is tried first (plain substring test), then the N-marker; the replacement is
   inserted literally (re.sub with a function) *)
Definition merge_child (me : str) (osym nsym : str) (child : str) : sres :=
  if containsb osym me then sanitize (sub_marker (S (length me)) osym child me)
  else if containsb nsym me then
    sanitize (sub_marker (S (length me)) nsym ("N"%char :: "("%char :: tl child ++ [")"%char]) me)
  else sanitize me.

(* the loop of merge_int over zip(children, get_dummy_atoms()) *)
Fixpoint merge_children (me : str) (pairs : list (str * str)) (children : list str) : sres :=
  match children, pairs with
  | [], _ => MOk me
  | _, [] => MOk me
  | ch :: cr, (osym, nsym) :: pr =>
      match merge_child me osym nsym ch with
      | MOk me' => merge_children me' pr cr
      | MRaise => MRaise
      end
  end.
