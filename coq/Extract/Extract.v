(* Extract/Extract.v -- OCaml extraction of the executable spec and model functions.
   Directives used: those of ExtrOcamlBasic (bool, option, unit, list, prod, sumbool, sumor as OCaml
   types; andb/orb inlined) and ExtrOcamlString (ascii => char, string => char list). nat, N, Z, positive
   stay the extracted inductive datatypes. *)
From Coq Require Import Extraction ExtrOcamlBasic ExtrOcamlString.
From GV Require Import Base.Util Spec.Smiles Spec.Chem Spec.Iso Model.PyLite Gen.Converter Gen.Tables Model.Library Model.Gate Spec.Graft Model.Merger Spec.Ebnf Gen.Grammar Spec.Reader Model.Edge Spec.Modify Spec.Acyl Model.PolyCarbon Spec.Skeleton Model.Walker Model.Splice Model.Memo Gen.WalkerGen Model.IsoFast Proofs.SpliceStr.
Extraction Language OCaml.
Extraction "../_build/extracted/gv.ml"
  Util.s2l Util.nat2str Util.str2nat
  Smiles.sem_str Smiles.lexS
  Chem.formula Chem.charge Chem.n_rings Chem.n_components Chem.n_heavy Chem.mol_valid Chem.smiles_valid
  Chem.no_markers Chem.elements_ok Chem.all_valences_ok Chem.no_empty_branch Chem.total_h Chem.degree Chem.no_dup_bonds
  PyLite.call PyLite.call_gen Converter.program Converter.generator_functions PyLite.py_strip
  Library.library_issues Library.library_issues_fast Library.issue_text Library.check_distinct Library.check_mirror Library.anomeric_sites Library.reduce_open Library.flip_all
  Tables.pyranoses Tables.furanoses Tables.opens Tables.functional_groups
  Gate.gate Gate.get_smiles_model
  Graft.denotes Graft.denotes_with Graft.strip_tree Graft.glycan_mol Graft.backbone Graft.residue_frame
  Merger.relabel Merger.merge_children Merger.sanitize Tables.dummy_atoms
  Ebnf.accepts Memo.accepts_m Ebnf.lex Grammar.token_table Grammar.rules Grammar.start_rule
  Reader.read Reader.render Reader.size
  Edge.add_edge Edge.code_ketose_test Edge.spec_ketose_test
  Modify.modify_all Modify.fragment_kind Acyl.acyl_text Acyl.acyl_token PolyCarbon.parse_poly_carbon
  Skeleton.deoxy Skeleton.anhydro Skeleton.oxidise Skeleton.reduce_ring Skeleton.terminal_carbon Skeleton.chain_length Skeleton.position Iso.same_except_at Iso.inverted_exactly_at
  Walker.parse_begin Walker.parse_begin_with Walker.walk WalkerGen.walk_gen
  Splice.splice_children Splice.splice_check SpliceStr.splice_str_children
  IsoFast.same_molecule_f IsoFast.same_constitution_f IsoFast.mirror_image_f IsoFast.iso_profiles_f IsoFast.same_except_at_f IsoFast.inverted_exactly_at_f
  Iso.same_molecule Iso.same_constitution Iso.mirror_image Iso.iso_profiles Iso.strip_h.
