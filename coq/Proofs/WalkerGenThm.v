(* Proofs/WalkerGenThm.v -- the walker regenerated from TreeWalker.__walk (Gen/WalkerGen.v) and the hand model
   (Model/Walker.v) are the same function on every parse tree built from the six productions of rule 'branch';
   hence the theorems of Proofs/WalkerThm.v hold for the code as it stands. *)
From Coq Require Import String Bool Arith Lia List.
From GV Require Import Model.Edge Model.Walker Gen.WalkerGen Proofs.WalkerThm.
Import ListNotations.
Open Scope list_scope.

Theorem walk_gen_eq : forall t, shaped t -> forall f p g, walk_gen f t p g = walk f t p g.
Proof.
  induction 1 as [d c | d c k Hk IHk | a k z Hk IHk | d c t1 k1 t2 kr H1 IH1 Hr IHr
                  | d c t1 k1 t2 t3 k2 t4 kr H1 IH1 H2 IH2 Hr IHr
                  | d c t1 k1 t2 t3 k2 t4 t5 k3 t6 kr H1 IH1 H2 IH2 H3 IH3 Hr IHr];
    intros f p g; (destruct f as [|f]; [reflexivity|]);
    cbn [walk_gen walk length nth_error Nat.eqb is_branch_at andb].
  - reflexivity.
  - rewrite IHk. destruct (walk f (PBranch k) p g) as [[p' g1]|]; reflexivity.
  - rewrite IHk. destruct (walk f (PBranch k) p g) as [[p' g1]|]; reflexivity.
  - rewrite IHr. destruct (walk f (PBranch kr) p g) as [[nid g1]|]; [|reflexivity].
    rewrite IH1. destruct (walk f (PBranch k1) nid g1) as [[x g2]|]; reflexivity.
  - rewrite IHr. destruct (walk f (PBranch kr) p g) as [[nid g1]|]; [|reflexivity].
    rewrite IH1. destruct (walk f (PBranch k1) nid g1) as [[x g2]|]; [|reflexivity].
    rewrite IH2. destruct (walk f (PBranch k2) nid g2) as [[x2 g3]|]; reflexivity.
  - rewrite IHr. destruct (walk f (PBranch kr) p g) as [[nid g1]|]; [|reflexivity].
    rewrite IH1. destruct (walk f (PBranch k1) nid g1) as [[x g2]|]; [|reflexivity].
    rewrite IH2. destruct (walk f (PBranch k2) nid g2) as [[x2 g3]|]; [|reflexivity].
    rewrite IH3. destruct (walk f (PBranch k3) nid g3) as [[x3 g4]|]; reflexivity.
Qed.

(* the counting theorem, for the regenerated walker *)
Corollary walk_gen_inv : forall t, shaped t -> forall f p g id g',
  walk_gen f t p g = Some (id, g') -> p < length (g_nodes g) ->
  length (g_nodes g') = length (g_nodes g) + length (residues t) /\
  firstn (length (g_nodes g)) (g_nodes g') = g_nodes g /\
  id < length (g_nodes g') /\
  length (g_edges g') = length (g_edges g) + length (residues t).
Proof.
  intros t Ht f p g id g' H Hp. rewrite (walk_gen_eq t Ht) in H.
  destruct (walk_inv t Ht f p g id g' H Hp) as ([L F] & Hid & He). repeat split; assumption.
Qed.

(* the whole brace-free glycan through the regenerated walker *)
Theorem parse_begin_gen_eq f b d :
  shaped b -> parse_begin_with walk_gen f [b; PRes d] = parse_begin f [b; PRes d].
Proof.
  intro Hs. unfold parse_begin, parse_begin_with. destruct b as [? | ? | ? | kids]; try (inversion Hs; fail).
  cbn [add_node]. rewrite (walk_gen_eq _ Hs). reflexivity.
Qed.

Corollary parse_begin_gen_counts f b d g :
  shaped b -> parse_begin_with walk_gen f [b; PRes d] = Some g ->
  length (g_nodes g) = S (length (residues b)) /\ nth_error (g_nodes g) 0 = Some d /\
  length (g_edges g) = length (residues b).
Proof. intros Hs H. rewrite (parse_begin_gen_eq f b d Hs) in H. exact (parse_begin_counts f b d g Hs H). Qed.
