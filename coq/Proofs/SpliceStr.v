(* Proofs/SpliceStr.v -- the substitution theorem for the strings the merger model handles:
   Merger.merge_child (regex substitution of the marker by the child's text, then sanitize_smiles) followed by the
   SMILES reading is the graph substitution of Proofs/Suffix.splice_sem, whenever the decidable side conditions of
   [splice_str_check] hold (one marker, fresh ring labels, marker ends its branch, pieces lex separately and do not
   join at their boundaries, no doubled parentheses for sanitize to remove). *)
From Coq Require Import Ascii String ZArith Bool Arith Lia List.
From GV Require Import Base.Util Spec.Smiles Model.Merger Model.Splice Proofs.Embed Proofs.Suffix Proofs.SpliceThm Proofs.LexApp.
Import ListNotations.
Open Scope list_scope.
Open Scope nat_scope.

(* first occurrence of the marker pattern: text before, the marker's own text, text after *)
Fixpoint find_marker (sym s : str) : option (str * str * str) :=
  match s with
  | [] => None
  | c :: r =>
      match match_marker sym s with
      | Some post => Some ([], firstn (length s - length post) s, post)
      | None => match find_marker sym r with Some (p, m, q) => Some (c :: p, m, q) | None => None end
      end
  end.

Fixpoint no_marker (sym s : str) : bool :=
  match s with
  | [] => true
  | _ :: r => match match_marker sym s with Some _ => false | None => no_marker sym r end
  end.

Lemma skip_while_suffix (p : ascii -> bool) s : exists x, s = x ++ skip_while p s.
Proof.
  induction s as [|c r [x IH]]; cbn [skip_while]; [exists []; reflexivity|].
  destruct (p c); [exists (c :: x); cbn [app]; f_equal; exact IH | exists []; reflexivity].
Qed.

Lemma strip_prefix_l_inv p : forall s r, strip_prefix_l p s = Some r -> s = p ++ r.
Proof.
  induction p as [|x p IH]; intros s r H; cbn [strip_prefix_l] in H; [inversion H; reflexivity|].
  destruct s as [|y s]; [discriminate|]. destruct (Ascii.eqb_spec x y) as [->|]; [|discriminate].
  cbn [app]. f_equal. apply IH. exact H.
Qed.

Lemma match_marker_suffix sym s post : match_marker sym s = Some post -> exists m, s = m ++ post /\ m <> [].
Proof.
  unfold match_marker. destruct s as [|c0 r]; [discriminate|].
  destruct (Ascii.eqb c0 "["%char); [|discriminate].
  destruct (strip_prefix_l sym r) as [r1|] eqn:E1; [|discriminate].
  apply strip_prefix_l_inv in E1. subst r.
  destruct (skip_while_suffix (fun c => Ascii.eqb c "H"%char) r1) as [x1 H1].
  set (r2 := skip_while (fun c => Ascii.eqb c "H"%char) r1) in *.
  destruct (skip_while_suffix is_digit r2) as [x2 H2].
  set (r3 := skip_while is_digit r2) in *.
  destruct r3 as [|c1 rest] eqn:E3; [discriminate|]. destruct (Ascii.eqb c1 "]"%char); [|discriminate].
  intro H; inversion H; subst post.
  exists (c0 :: sym ++ x1 ++ x2 ++ [c1]). split; [|discriminate].
  cbn [app]. f_equal. rewrite H1, H2. rewrite <- !app_assoc. reflexivity.
Qed.

Lemma find_marker_split sym s : forall p m q, find_marker sym s = Some (p, m, q) ->
  s = p ++ m ++ q /\ m <> [] /\ match_marker sym (m ++ q) = Some q.
Proof.
  induction s as [|c r IH]; intros p m q H; cbn [find_marker] in H; [discriminate|].
  destruct (match_marker sym (c :: r)) as [post|] eqn:E.
  - destruct (match_marker_suffix _ _ _ E) as (m0 & Hs & Hne).
    assert (Em : firstn (length (c :: r) - length post) (c :: r) = m0).
    { rewrite Hs, app_length. replace (length m0 + length post - length post) with (length m0) by lia.
      rewrite firstn_app, firstn_all, Nat.sub_diag. cbn. apply app_nil_r. }
    rewrite Em in H. inversion H; subst p m q. cbn [app].
    split; [exact Hs|]. split; [exact Hne|]. rewrite <- Hs. exact E.
  - destruct (find_marker sym r) as [[[p' m'] q']|] eqn:Ef; [|discriminate]. inversion H; subst.
    destruct (IH _ _ _ eq_refl) as (Hs & Hne & Hm). repeat split; [cbn [app]; f_equal; exact Hs | exact Hne | exact Hm].
Qed.

Lemma sub_marker_none sym repl s : forall fuel, no_marker sym s = true -> sub_marker fuel sym repl s = s.
Proof.
  induction s as [|c r IH]; intros fuel H; destruct fuel as [|f]; cbn [sub_marker]; try reflexivity.
  cbn [no_marker] in H. destruct (match_marker sym (c :: r)); [discriminate|]. rewrite IH by exact H. reflexivity.
Qed.

(* re.sub on a string with exactly one marker *)
Lemma sub_marker_once sym repl s : forall fuel p m q,
  find_marker sym s = Some (p, m, q) -> no_marker sym q = true -> length s < fuel ->
  sub_marker fuel sym repl s = p ++ repl ++ q.
Proof.
  induction s as [|c r IH]; intros fuel p m q H Hq Hf; cbn [find_marker] in H; [discriminate|].
  destruct fuel as [|f]; [lia|]. cbn [sub_marker].
  destruct (match_marker sym (c :: r)) as [post|] eqn:E.
  - inversion H; subst. cbn [app]. rewrite sub_marker_none by exact Hq. reflexivity.
  - destruct (find_marker sym r) as [[[p' m'] q']|] eqn:Ef; [|discriminate]. inversion H; subst.
    cbn [app]. f_equal. apply (IH f p' m q eq_refl Hq). cbn [length] in Hf. lia.
Qed.

Lemma find_sub_none_open s : find_sub ["("; "("]%char s 0 = None -> forall fuel, sanitize_open fuel s = MOk s.
Proof. intros H [|f]; cbn [sanitize_open]; [reflexivity | rewrite H; reflexivity]. Qed.

Lemma find_sub_none_close s : find_sub [")"; ")"]%char s 0 = None -> forall fuel, sanitize_close fuel s = MOk s.
Proof. intros H [|f]; cbn [sanitize_close]; [reflexivity | rewrite H; reflexivity]. Qed.

Definition no_double_paren (s : str) : bool :=
  match find_sub ["("; "("]%char s 0, find_sub [")"; ")"]%char s 0 with None, None => true | _, _ => false end.

Lemma sanitize_id s : no_double_paren s = true -> sanitize s = MOk s.
Proof.
  unfold no_double_paren, sanitize. destruct (find_sub ["("; "("]%char s 0) eqn:E1; [discriminate|].
  destruct (find_sub [")"; ")"]%char s 0) eqn:E2; [discriminate|]. intros _.
  rewrite (find_sub_none_open _ E1), (find_sub_none_close _ E2). reflexivity.
Qed.

(* the decidable side conditions, on strings *)
Definition splice_str_check (sym me child : str) : bool :=
  match find_marker sym me with
  | Some (p, m, q) =>
      containsb sym me && no_marker sym q &&
      match lexS p, lexS m, lexS q, lexS child with
      | Some tp, Some [TAtom am], Some tq, Some (TAtom a0 :: rest) =>
          str_eqb (a_sym am) sym && negb (existsb (is_marker sym) tp) &&
          no_join p (m ++ q) && no_join m q && no_join p (child ++ q) && no_join child q &&
          no_double_paren (p ++ child ++ q) &&
          match splice_check sym me child with SpFresh => true | _ => false end
      | _, _, _, _ => false
      end
  | None => false
  end.

Lemma split_marker_first sym tp am tq :
  existsb (is_marker sym) tp = false -> is_marker sym (TAtom am) = true ->
  split_marker sym (tp ++ TAtom am :: tq) = Some (tp, tq).
Proof.
  intros H Hm. induction tp as [|t tp IH]; cbn [app split_marker].
  - rewrite Hm. reflexivity.
  - cbn [existsb] in H. apply orb_false_iff in H as [H1 H2]. rewrite H1, (IH H2). reflexivity.
Qed.

(* The string-level substitution theorem: what Merger.merge_child returns for an O-marker reads as the host's molecule
   with the marker atom replaced by the child's molecule. *)
Theorem sub_marker_sem sym me child Mh Mk :
  splice_str_check sym me child = true -> sem_str me = Some Mh -> sem_str child = Some Mk ->
  exists p m q tp am tq a0 rest st c sk Me N1 N2 A2 B2,
    find_marker sym me = Some (p, m, q) /\
    sanitize (sub_marker (S (length me)) sym child me) = MOk (p ++ child ++ q) /\
    lexS p = Some tp /\ lexS m = Some [TAtom am] /\ lexS q = Some tq /\ lexS child = Some (TAtom a0 :: rest) /\
    run pst0 tp = Some st /\ p_cur st = Some c /\ run pst0 (TAtom a0 :: rest) = Some sk /\
    sem_str (p ++ child ++ q) = Some Me /\
    m_atoms Mh = p_atoms st ++ am :: A2 /\
    m_atoms Me = p_atoms st ++ m_atoms Mk ++ A2 /\
    m_nbrs Mh = N1 ++ (Some c :: repeat None (a_h am)) :: N2 /\ length N1 = length (p_atoms st) /\
    m_nbrs Me = map (map (option_map (ren st sk))) N1 ++ graft_nbrs st c (m_nbrs Mk) ++ map (map (option_map (ren st sk))) N2 /\
    m_bonds Mh = p_bonds st ++ (c, length (p_atoms st), default_bond (nth c (p_atoms st) am) am) :: B2 /\
    m_bonds Me = p_bonds st ++ (c, length (p_atoms st), link_bond st c a0) :: map (sh_bond st) (m_bonds Mk) ++ map (ren_bond st sk) B2.
Proof.
  unfold splice_str_check. intros H Hh Hk.
  destruct (find_marker sym me) as [[[p m] q]|] eqn:Ef; [|discriminate].
  apply andb_true_iff in H as [H H2]. apply andb_true_iff in H as [Hc Hq].
  destruct (lexS p) as [tp|] eqn:Ep; [|discriminate].
  destruct (lexS m) as [[|[am| | | | |] [|? ?]]|] eqn:Em; try discriminate.
  destruct (lexS q) as [tq|] eqn:Eq; [|discriminate].
  destruct (lexS child) as [[|[a0| | | | |] rest]|] eqn:Ec; try discriminate.
  repeat (apply andb_true_iff in H2 as [H2 ?]).
  match goal with H : match splice_check sym me child with _ => _ end = true |- _ =>
    destruct (splice_check sym me child) eqn:Esc; try discriminate end.
  destruct (find_marker_split _ _ _ _ _ Ef) as (Hme & Hmne & Hmm).
  (* token view of the host *)
  assert (Elex : lexS me = Some (tp ++ [TAtom am] ++ tq)).
  { rewrite Hme. apply lexS_app3; assumption. }
  assert (Hmark : is_marker sym (TAtom am) = true) by (cbn [is_marker]; assumption).
  assert (Hnomark : existsb (is_marker sym) tp = false) by (apply negb_true_iff; assumption).
  (* unfold the token-level check on this very decomposition *)
  unfold splice_check, host_state in Esc. rewrite Elex in Esc. cbn [app] in Esc.
  rewrite (split_marker_first sym tp am tq Hnomark Hmark) in Esc. rewrite Ec in Esc.
  destruct (run pst0 tp) as [st|] eqn:Er; [|discriminate].
  destruct (first_reused st rest) eqn:Efr; [discriminate|].
  destruct (p_cur st) as [c|] eqn:Ecur; [|discriminate].
  destruct (p_pend st) eqn:Epd; [discriminate|].
  destruct (forallb not_dot rest) eqn:Ed; [|discriminate]. cbn [andb] in Esc.
  destruct (Nat.eqb (length (p_slots st)) (length (p_atoms st))) eqn:El; [|discriminate]. cbn [andb] in Esc.
  destruct (post_ok tq) eqn:Epost; [|discriminate].
  assert (Hpost : match tq with [] => True | t :: _ => t = TClose end).
  { destruct tq as [|[| | | |?|] ?]; try discriminate; try exact I; reflexivity. }
  assert (Hnd : ~ In TDot rest).
  { intro Hin. rewrite forallb_forall in Ed. specialize (Ed _ Hin). discriminate. }
  (* molecules *)
  unfold sem_str, opt_bind in Hh, Hk. rewrite Elex in Hh. rewrite Ec in Hk. cbn [app] in Hh.
  destruct (splice_sem tp am tq a0 rest st c Mh Mk Er Ecur Epd Hk Hnd (fresh_of_check _ _ Efr) Hpost Hh)
    as (sk & Me & N1 & N2 & A2 & B2 & S1 & S2 & S3 & S4 & S5 & S6 & S7 & S8 & S9).
  exists p, m, q, tp, am, tq, a0, rest, st, c, sk, Me, N1, N2, A2, B2.
  assert (Emerge : sanitize (sub_marker (S (length me)) sym child me) = MOk (p ++ child ++ q)).
  { rewrite (sub_marker_once sym child me (S (length me)) p m q Ef Hq ltac:(lia)). apply sanitize_id. assumption. }
  assert (Esem : sem_str (p ++ child ++ q) = Some Me).
  { unfold sem_str, opt_bind. rewrite (lexS_app3 p child q tp (TAtom a0 :: rest) tq Ep Ec Eq) by assumption. exact S2. }
  repeat split; try assumption; reflexivity.
Qed.

Definition n_text (child : str) : str := "N"%char :: "("%char :: tl child ++ [")"%char].

(* O-marker: the child's text replaces the marker *)
Corollary merge_child_sem sym nsym me child :
  splice_str_check sym me child = true ->
  merge_child me sym nsym child = sanitize (sub_marker (S (length me)) sym child me).
Proof.
  intro H. unfold merge_child. unfold splice_str_check in H.
  destruct (find_marker sym me) as [[[p m] q]|]; [|discriminate].
  apply andb_true_iff in H as [H _]. apply andb_true_iff in H as [Hc _]. rewrite Hc. reflexivity.
Qed.

(* N-marker: "N(" + child[1:] + ")" replaces the marker, when the parent has no O-marker of this pair *)
Corollary merge_child_sem_N osym nsym me child :
  containsb osym me = false -> splice_str_check nsym me (n_text child) = true ->
  merge_child me osym nsym child = sanitize (sub_marker (S (length me)) nsym (n_text child) me).
Proof.
  intros Ho H. unfold merge_child. rewrite Ho. unfold splice_str_check in H.
  destruct (find_marker nsym me) as [[[p m] q]|]; [|discriminate].
  apply andb_true_iff in H as [H _]. apply andb_true_iff in H as [Hc _]. rewrite Hc. reflexivity.
Qed.

(* the loop of merge_int: for every child, does the string-level theorem apply to its substitution? *)
Fixpoint splice_str_children (me : str) (pairs : list (str * str)) (children : list str) : list bool :=
  match children, pairs with
  | [], _ => []
  | _, [] => []
  | ch :: cr, (osym, nsym) :: pr =>
      (if containsb osym me then splice_str_check osym me ch else splice_str_check nsym me (n_text ch)) ::
      match merge_child me osym nsym ch with
      | MOk me' => splice_str_children me' pr cr
      | MRaise => []
      end
  end.
