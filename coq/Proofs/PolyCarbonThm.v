(* Proofs/PolyCarbonThm.v -- the model of SMILESReaktor.parse_poly_carbon (Model/PolyCarbon.v) against the specification
   of carbon notation (Spec/Acyl.v).
   BOUNDED: the theorem is a computation over the finite domain [enum] -- every chain length up to 26, normal / iso /
   anteiso, every list of at most two double bonds (cis, trans or without geometry, positions up to 26) --, the bound is
   part of the statement (In_enum gives the readable membership condition).
   The hypothesis code_writes excludes the designations the code cannot write: a double bond with a geometry directly
   conjugated (p + 2) to a preceding cis double bond -- the shared single bond would need the mark "\" for the first and
   gets "/" for the second (PolyCarbon_refuted_conjugated shows the resulting text, which no SMILES reader accepts). *)
From Coq Require Import Ascii String Bool Arith List Lia.
From GV Require Import Base.Util Spec.Acyl Model.PolyCarbon.
Import ListNotations.
Open Scope nat_scope.

Definition stereo (k : dbkind) : bool := match k with DbPlain => false | _ => true end.

Fixpoint code_writes (l : list (dbkind * nat)) : bool :=
  match l with
  | (k1, p) :: (((k2, q) :: _) as r) =>
      negb (match k1 with DbCis => true | _ => false end && stereo k2 && Nat.eqb q (p + 2)) && code_writes r
  | _ => true
  end.

Definition opt_str_eqb (a b : option str) : bool :=
  match a, b with
  | Some x, Some y => str_eqb x y
  | None, None => true
  | _, _ => false
  end.

Lemma opt_str_eqb_eq a b : opt_str_eqb a b = true -> a = b.
Proof.
  destruct a as [x|], b as [y|]; cbn; intro H; try discriminate; [|reflexivity].
  apply str_eqb_eq in H. subst. reflexivity.
Qed.

Definition name_of (a : acyl) : str := s2l "6" ++ acyl_token a.

Definition ok_case (a : acyl) : bool :=
  if acyl_ok a && code_writes (ac_dbs a) then opt_str_eqb (parse_poly_carbon (name_of a)) (acyl_text a) else true.

Definition BOUND := 27.
Definition kinds := [DbCis; DbTrans; DbPlain].
Definition ds : list (dbkind * nat) := flat_map (fun k => map (fun p => (k, p)) (seq 0 BOUND)) kinds.
Definition dbl : list (list (dbkind * nat)) :=
  [] :: map (fun d => [d]) ds ++ flat_map (fun d1 => map (fun d2 => [d1; d2]) ds) ds.
Definition enum : list acyl :=
  flat_map (fun iso => flat_map (fun ante => flat_map (fun n => map (mkAcyl iso ante n) dbl) (seq 0 BOUND)) [false; true]) [false; true].

Lemma In_bool (b : bool) : In b [false; true].
Proof. destruct b; cbn; auto. Qed.

Lemma In_ds k p : p < BOUND -> In (k, p) ds.
Proof.
  intro Hp. unfold ds. apply in_flat_map. exists k. split.
  - destruct k; cbn; auto.
  - apply in_map. apply in_seq. lia.
Qed.

Lemma In_dbl l : length l <= 2 -> Forall (fun d => snd d < BOUND) l -> In l dbl.
Proof.
  intros Hl Hf. unfold dbl. destruct l as [|[k1 p1] [|[k2 p2] [|? ?]]]; cbn [length] in Hl; try lia.
  - left. reflexivity.
  - right. apply in_or_app. left. apply (in_map (fun d => [d])). inversion Hf; subst. apply In_ds. assumption.
  - right. apply in_or_app. right. inversion Hf as [|? ? H1 Hr]; subst. inversion Hr as [|? ? H2 _]; subst.
    apply in_flat_map. exists (k1, p1). split; [apply In_ds; assumption|].
    apply (in_map (fun d2 => [(k1, p1); d2])). apply In_ds. assumption.
Qed.

(* the domain of the theorem, readably *)
Lemma In_enum a :
  ac_n a < BOUND -> length (ac_dbs a) <= 2 -> Forall (fun d => snd d < BOUND) (ac_dbs a) -> In a enum.
Proof.
  destruct a as [iso ante n dbs]. cbn [ac_n ac_dbs]. intros Hn Hl Hf. unfold enum.
  apply in_flat_map. exists iso. split; [apply In_bool|].
  apply in_flat_map. exists ante. split; [apply In_bool|].
  apply in_flat_map. exists n. split; [apply in_seq; lia|].
  apply in_map. apply In_dbl; assumption.
Qed.

Lemma enum_check : forallb ok_case enum = true.
Proof. vm_compute. reflexivity. Qed.

Theorem poly_carbon_is_the_designation_bounded a :
  ac_n a < BOUND -> length (ac_dbs a) <= 2 -> Forall (fun d => snd d < BOUND) (ac_dbs a) ->
  acyl_ok a = true -> code_writes (ac_dbs a) = true ->
  parse_poly_carbon (name_of a) = acyl_text a.
Proof.
  intros Hn Hl Hf Hok Hw.
  pose proof (proj1 (forallb_forall _ _) enum_check a (In_enum a Hn Hl Hf)) as H.
  unfold ok_case in H. rewrite Hok, Hw in H. cbn [andb] in H. apply opt_str_eqb_eq. exact H.
Qed.

(* non-vacuity and the excluded case *)
Example poly_carbon_examples :
  option_map l2s (parse_poly_carbon (s2l "6C18={t10,c12}")) = Some "OC(=O)CCCCCCCC/C=C/C=C\CCCCC"%string /\
  option_map l2s (parse_poly_carbon (s2l "3aiC15")) = Some "OC(=O)CCCCCCCCCCC(C)CC"%string /\
  acyl_ok (mkAcyl false false 18 [(DbTrans, 10); (DbCis, 12)]) = true /\
  code_writes [(DbTrans, 10); (DbCis, 12)] = true.
Proof. vm_compute. repeat split. Qed.

Example PolyCarbon_refuted_conjugated :
  option_map l2s (parse_poly_carbon (s2l "6C18={c9,t11}")) = Some "OC(=O)CCCCCCC/C=C/\C=C/CCCCCC"%string /\
  option_map l2s (acyl_text (mkAcyl false false 18 [(DbCis, 9); (DbTrans, 11)])) = Some "OC(=O)CCCCCCC/C=C\C=C\CCCCCC"%string.
Proof. vm_compute. repeat split. Qed.

(* ------------------------------------------------------------------ three double bonds (BOUNDED: unbranched chains of
   fewer than 20 carbons; covers the conjugated trienoic acids, e.g. C18={c9,t11,t13}) *)
Definition BOUND3 := 20.
Definition ds3 : list (dbkind * nat) := flat_map (fun k => map (fun p => (k, p)) (seq 0 BOUND3)) kinds.
Definition enum3 : list acyl :=
  flat_map (fun n => flat_map (fun d1 => flat_map (fun d2 => map (fun d3 => mkAcyl false false n [d1; d2; d3]) ds3) ds3) ds3) (seq 0 BOUND3).

Lemma In_ds3 k p : p < BOUND3 -> In (k, p) ds3.
Proof.
  intro Hp. unfold ds3. apply in_flat_map. exists k. split.
  - destruct k; cbn; auto.
  - apply in_map. apply in_seq. lia.
Qed.

Lemma enum3_check : forallb ok_case enum3 = true.
Proof. vm_compute. reflexivity. Qed.

Theorem poly_carbon_three_double_bonds_bounded n d1 d2 d3 :
  n < BOUND3 -> snd d1 < BOUND3 -> snd d2 < BOUND3 -> snd d3 < BOUND3 ->
  acyl_ok (mkAcyl false false n [d1; d2; d3]) = true -> code_writes [d1; d2; d3] = true ->
  parse_poly_carbon (name_of (mkAcyl false false n [d1; d2; d3])) = acyl_text (mkAcyl false false n [d1; d2; d3]).
Proof.
  intros Hn H1 H2 H3 Hok Hw.
  assert (Hin : In (mkAcyl false false n [d1; d2; d3]) enum3).
  { unfold enum3. apply in_flat_map. exists n. split; [apply in_seq; lia|].
    destruct d1 as [k1 p1], d2 as [k2 p2], d3 as [k3 p3]. cbn [snd] in *.
    apply in_flat_map. exists (k1, p1). split; [apply In_ds3; assumption|].
    apply in_flat_map. exists (k2, p2). split; [apply In_ds3; assumption|].
    apply (in_map (fun d3 => mkAcyl false false n [(k1, p1); (k2, p2); d3])). apply In_ds3. assumption. }
  pose proof (proj1 (forallb_forall _ _) enum3_check _ Hin) as H.
  unfold ok_case in H. cbn [ac_dbs] in H. rewrite Hok, Hw in H. cbn [andb] in H. apply opt_str_eqb_eq. exact H.
Qed.

Example three_double_bonds_example :
  acyl_ok (mkAcyl false false 18 [(DbCis, 9); (DbTrans, 11); (DbTrans, 13)]) = true /\
  code_writes [(DbCis, 9); (DbTrans, 11); (DbTrans, 13)] = false /\
  code_writes [(DbTrans, 9); (DbTrans, 11); (DbCis, 13)] = true.
Proof. vm_compute. repeat split. Qed.
