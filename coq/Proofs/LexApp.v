(* Proofs/LexApp.v -- the SMILES lexer is a homomorphism at token boundaries:
   lexS (a ++ b) = lexS a ++ lexS b  unless the last character of a and the first of b join to the two-letter
   element symbols Cl / Br.  (Lifts the substitution theorem from token lists to the strings the merger handles.) *)
From Coq Require Import Ascii String ZArith Bool Arith Lia List.
From GV Require Import Base.Util Spec.Smiles.
Import ListNotations.
Open Scope list_scope.
Open Scope nat_scope.

Lemma strip_prefix_app p : forall l r b, strip_prefix p l = Some r -> strip_prefix p (l ++ b) = Some (r ++ b).
Proof.
  induction p as [|x p IH]; intros l r b H; cbn [strip_prefix] in *.
  - inversion H; subst. reflexivity.
  - destruct l as [|y l]; [discriminate|]. cbn [app]. destruct (Ascii.eqb x y); [apply IH; exact H | discriminate].
Qed.

Lemma strip_prefix_inv p : forall l r, strip_prefix p l = Some r -> l = p ++ r.
Proof.
  induction p as [|x p IH]; intros l r H; cbn [strip_prefix] in H.
  - inversion H; reflexivity.
  - destruct l as [|y l]; [discriminate|]. destruct (Ascii.eqb_spec x y) as [->|]; [|discriminate].
    cbn [app]. f_equal. apply IH; exact H.
Qed.

(* a failed match stays failed when the text is long enough to have decided it *)
Lemma strip_prefix_none_app p : forall l b, strip_prefix p l = None -> length p <= length l -> strip_prefix p (l ++ b) = None.
Proof.
  induction p as [|x p IH]; intros l b H Hl; cbn [strip_prefix] in *; [discriminate|].
  destruct l as [|y l]; [cbn in Hl; lia|]. cbn [app]. destruct (Ascii.eqb x y); [|reflexivity].
  apply IH; [exact H | cbn [length] in Hl; lia].
Qed.

Lemma split_at_rb_app l : forall a r b, split_at_rb l = Some (a, r) -> split_at_rb (l ++ b) = Some (a, r ++ b).
Proof.
  induction l as [|c l IH]; intros a r b H; cbn [split_at_rb app] in *; [discriminate|].
  destruct (Ascii.eqb c "]"%char); [inversion H; subst; reflexivity|].
  destruct (split_at_rb l) as [[a' r']|] eqn:E; [|discriminate]. inversion H; subst.
  rewrite (IH _ _ b eq_refl). reflexivity.
Qed.

Lemma split_at_rb_inv l : forall a r, split_at_rb l = Some (a, r) -> l = a ++ "]"%char :: r.
Proof.
  induction l as [|c l IH]; intros a r H; cbn [split_at_rb] in H; [discriminate|].
  destruct (Ascii.eqb_spec c "]"%char) as [->|]; [inversion H; subst; reflexivity|].
  destruct (split_at_rb l) as [[a' r']|] eqn:E; [|discriminate]. inversion H; subst.
  cbn [app]. f_equal. apply IH. reflexivity.
Qed.

Lemma lex_bracket_app l a r b : lex_bracket l = Some (a, r) -> lex_bracket (l ++ b) = Some (a, r ++ b).
Proof.
  unfold lex_bracket. destruct (split_at_rb l) as [[ins rest]|] eqn:E; [|discriminate].
  rewrite (split_at_rb_app _ _ _ b E). destruct (parse_bracket ins); [|discriminate].
  intro H; inversion H; subst. reflexivity.
Qed.

Lemma lex_bracket_inv l a r : lex_bracket l = Some (a, r) -> exists ins, l = ins ++ "]"%char :: r.
Proof.
  unfold lex_bracket. destruct (split_at_rb l) as [[ins rest]|] eqn:E; [|discriminate].
  destruct (parse_bracket ins); [|discriminate]. intro H; inversion H; subst. exists ins. apply split_at_rb_inv. exact E.
Qed.

(* the only way two strings join into another token: C|l and B|r *)
Definition joins (c d : ascii) : bool :=
  (Ascii.eqb c "C"%char && Ascii.eqb d "l"%char) || (Ascii.eqb c "B"%char && Ascii.eqb d "r"%char).

Definition no_join (a b : str) : bool :=
  match rev a, b with
  | c :: _, d :: _ => negb (joins c d)
  | _, _ => true
  end.

Lemma no_join_suffix x rest b : rest <> [] -> no_join (x ++ rest) b = no_join rest b.
Proof.
  intro Hne. unfold no_join. rewrite rev_app_distr.
  destruct (rev rest) as [|c t] eqn:E; [|reflexivity].
  exfalso. apply Hne. apply (f_equal (@rev ascii)) in E. rewrite rev_involutive in E. exact E.
Qed.

(* organic-subset atoms *)
Lemma lex_organic_app tbl : forall l a rest b,
  (forall w e, In (w, e) tbl -> sp w l = None -> sp w (l ++ b) = None) ->
  lex_organic tbl l = Some (a, rest) -> lex_organic tbl (l ++ b) = Some (a, rest ++ b).
Proof.
  induction tbl as [|[w [e ar]] tbl IH]; intros l a rest b Hn H; cbn [lex_organic] in *; [discriminate|].
  destruct (sp w l) as [r|] eqn:E.
  - inversion H; subst. unfold sp in *. rewrite (strip_prefix_app _ _ _ b E). reflexivity.
  - rewrite (Hn w (e, ar) (or_introl eq_refl) E). apply IH; [|exact H].
    intros w' e' Hin. apply (Hn w' e'). right; exact Hin.
Qed.

Lemma organic_stable l b : l <> [] -> no_join l b = true ->
  forall w e, In (w, e) organic -> sp w l = None -> sp w (l ++ b) = None.
Proof.
  intros Hne Hj w e Hin Hs. unfold sp in *.
  destruct b as [|d b]; [rewrite app_nil_r; exact Hs|].
  destruct (le_lt_dec (length (s2l w)) (length l)) as [Hle|Hlt]; [apply strip_prefix_none_app; assumption|].
  (* only the two-letter symbols can be longer than a non-empty l, and then l is one character *)
  destruct l as [|c [|c2 l]]; [contradiction| |].
  - unfold organic in Hin. cbn [In] in Hin.
    repeat (destruct Hin as [Hin|Hin]; [inversion Hin; subst; clear Hin |]); try (cbn in Hlt; lia); try contradiction.
    + (* Cl *) cbn [app]. unfold no_join in Hj. cbn [rev app] in Hj.
      change (s2l "Cl") with ["C"%char; "l"%char]. cbn [strip_prefix].
      destruct (Ascii.eqb "C"%char c) eqn:E1; [|reflexivity]. destruct (Ascii.eqb "l"%char d) eqn:E2; [|reflexivity].
      apply Ascii.eqb_eq in E1, E2. subst. vm_compute in Hj. discriminate.
    + (* Br *) cbn [app]. unfold no_join in Hj. cbn [rev app] in Hj.
      change (s2l "Br") with ["B"%char; "r"%char]. cbn [strip_prefix].
      destruct (Ascii.eqb "B"%char c) eqn:E1; [|reflexivity]. destruct (Ascii.eqb "r"%char d) eqn:E2; [|reflexivity].
      apply Ascii.eqb_eq in E1, E2. subst. vm_compute in Hj. discriminate.
  - exfalso. unfold organic in Hin. cbn [In] in Hin.
    repeat (destruct Hin as [Hin|Hin]; [inversion Hin; subst; clear Hin |]); try (cbn in Hlt; lia); contradiction.
Qed.

Lemma lexS_aux_mono f : forall l t k, lexS_aux f l = Some t -> lexS_aux (k + f) l = Some t.
Proof.
  induction f as [|f IH]; intros l t k H; [discriminate|].
  replace (k + S f) with (S (k + f)) by lia. cbn [lexS_aux] in *.
  destruct l as [|c r]; [exact H|].
  repeat match goal with
         | H : context [if ?x then _ else _] |- _ => destruct x
         | H : context [match bond_of_char ?c with _ => _ end] |- _ => destruct (bond_of_char c)
         end;
  try (destruct (lexS_aux f r) as [t0|] eqn:E; [|discriminate]; rewrite (IH _ _ k E); exact H).
  - destruct r as [|d1 [|d2 r']]; try discriminate. destruct (is_digit d1 && is_digit d2); [|discriminate].
    destruct (lexS_aux f r') as [t0|] eqn:E; [|discriminate]. rewrite (IH _ _ k E). exact H.
  - destruct (lex_bracket r) as [[a r']|]; [|discriminate].
    destruct (lexS_aux f r') as [t0|] eqn:E; [|discriminate]. rewrite (IH _ _ k E). exact H.
  - destruct (lex_organic organic (c :: r)) as [[a r']|]; [|discriminate].
    destruct (lexS_aux f r') as [t0|] eqn:E; [|discriminate]. rewrite (IH _ _ k E). exact H.
Qed.

Lemma no_join_nil b : no_join [] b = true.
Proof. reflexivity. Qed.

Lemma no_join_tail c r b : no_join (c :: r) b = true -> no_join r b = true.
Proof.
  intro H. destruct r as [|c2 r]; [reflexivity|].
  rewrite <- (no_join_suffix [c] (c2 :: r) b) by discriminate. exact H.
Qed.

Lemma no_join_drop x rest b : no_join (x ++ rest) b = true -> no_join rest b = true.
Proof.
  intro H. destruct rest as [|c r]; [reflexivity|]. rewrite <- (no_join_suffix x (c :: r) b) by discriminate. exact H.
Qed.

Lemma lexS_aux_app f : forall a ta b fb tb,
  lexS_aux f a = Some ta -> lexS_aux fb b = Some tb -> no_join a b = true ->
  lexS_aux (f + fb) (a ++ b) = Some (ta ++ tb).
Proof.
  induction f as [|f IH]; intros a ta b fb tb Ha Hb Hj; [discriminate|].
  destruct a as [|c r].
  - cbn [lexS_aux] in Ha. inversion Ha; subst. cbn [app]. apply lexS_aux_mono. exact Hb.
  - cbn [Nat.add app]. cbn [lexS_aux] in Ha |- *.
    assert (Step : forall t rest ta', lexS_aux f rest = Some ta' -> no_join rest b = true ->
                   option_map (cons t) (lexS_aux (f + fb) (rest ++ b)) = Some ((t :: ta') ++ tb)).
    { intros t rest ta' E Hr. rewrite (IH _ _ _ _ _ E Hb Hr). reflexivity. }
    pose proof (no_join_tail _ _ _ Hj) as Hjr.
    destruct (isc c "("); [destruct (lexS_aux f r) as [t0|] eqn:E; [|discriminate]; inversion Ha; subst; apply Step; assumption|].
    destruct (isc c ")"); [destruct (lexS_aux f r) as [t0|] eqn:E; [|discriminate]; inversion Ha; subst; apply Step; assumption|].
    destruct (isc c "."); [destruct (lexS_aux f r) as [t0|] eqn:E; [|discriminate]; inversion Ha; subst; apply Step; assumption|].
    destruct (bond_of_char c); [destruct (lexS_aux f r) as [t0|] eqn:E; [|discriminate]; inversion Ha; subst; apply Step; assumption|].
    destruct (isc c "%").
    { destruct r as [|d1 [|d2 r']]; try discriminate. cbn [app].
      destruct (is_digit d1 && is_digit d2); [|discriminate].
      destruct (lexS_aux f r') as [t0|] eqn:E; [|discriminate]. inversion Ha; subst. apply Step; [exact E|].
      apply (no_join_drop [c; d1; d2] r' b). exact Hj. }
    destruct (isc c "[").
    { destruct (lex_bracket r) as [[a0 r']|] eqn:El; [|discriminate].
      rewrite (lex_bracket_app _ _ _ b El).
      destruct (lexS_aux f r') as [t0|] eqn:E; [|discriminate]. inversion Ha; subst. apply Step; [exact E|].
      destruct (lex_bracket_inv _ _ _ El) as [ins ->].
      apply (no_join_drop (c :: ins ++ ["]"%char]) r' b). cbn [app]. rewrite <- app_assoc. exact Hj. }
    destruct (is_digit c); [destruct (lexS_aux f r) as [t0|] eqn:E; [|discriminate]; inversion Ha; subst; apply Step; assumption|].
    destruct (lex_organic organic (c :: r)) as [[a0 r']|] eqn:Eo; [|discriminate].
    change (c :: r ++ b) with ((c :: r) ++ b).
    rewrite (lex_organic_app organic (c :: r) a0 r' b (organic_stable (c :: r) b ltac:(discriminate) Hj) Eo).
    destruct (lexS_aux f r') as [t0|] eqn:E; [|discriminate]. inversion Ha; subst. apply Step; [exact E|].
    (* r' is a suffix of c :: r *)
    assert (Hsuf : exists x, c :: r = x ++ r').
    { clear -Eo. revert Eo. generalize organic as tbl. induction tbl as [|[w [e ar]] tbl IHt]; intro H; cbn [lex_organic] in H; [discriminate|].
      destruct (sp w (c :: r)) as [rr|] eqn:Es; [|apply IHt; exact H].
      inversion H; subst. exists (s2l w). apply strip_prefix_inv. exact Es. }
    destruct Hsuf as [x Hx]. rewrite Hx in Hj. apply (no_join_drop x r' b). exact Hj.
Qed.

Lemma lex_organic_shorter tbl : forall l a r, (forall w e, In (w, e) tbl -> w <> EmptyString) ->
  lex_organic tbl l = Some (a, r) -> length r < length l.
Proof.
  induction tbl as [|[w [e ar]] tbl IH]; intros l a r Hw H; cbn [lex_organic] in H; [discriminate|].
  destruct (sp w l) as [rr|] eqn:Es.
  - inversion H; subst. unfold sp in Es. apply strip_prefix_inv in Es. subst l. rewrite app_length.
    assert (w <> EmptyString) by (apply (Hw w (e, ar)); left; reflexivity).
    destruct w; [contradiction|]. cbn. lia.
  - eapply IH; [|exact H]. intros w' e' Hin. apply (Hw w' e'). right; exact Hin.
Qed.

Lemma organic_nonempty : forall w e, In (w, e) organic -> w <> EmptyString.
Proof.
  intros w e Hin. unfold organic in Hin. cbn [In] in Hin.
  repeat (destruct Hin as [Hin|Hin]; [inversion Hin; subst; discriminate |]). contradiction.
Qed.

(* fuel: any successful run is reproduced by every fuel above the length of the input *)
Lemma lexS_aux_enough F : forall l t, lexS_aux F l = Some t -> forall f, length l < f -> lexS_aux f l = Some t.
Proof.
  induction F as [|F IH]; intros l t H f Hf; [discriminate|].
  destruct f as [|f]; [lia|]. cbn [lexS_aux] in *.
  destruct l as [|c r]; [exact H|]. cbn [length] in Hf.
  assert (Step : forall t0 rest ta', lexS_aux F rest = Some ta' -> length rest <= length r ->
                 option_map (cons t0) (lexS_aux f rest) = Some (t0 :: ta')).
  { intros t0 rest ta' E Hl. rewrite (IH _ _ E f ltac:(lia)). reflexivity. }
  destruct (isc c "("); [destruct (lexS_aux F r) as [t0|] eqn:E; [|discriminate]; inversion H; subst; apply Step; [exact E | lia]|].
  destruct (isc c ")"); [destruct (lexS_aux F r) as [t0|] eqn:E; [|discriminate]; inversion H; subst; apply Step; [exact E | lia]|].
  destruct (isc c "."); [destruct (lexS_aux F r) as [t0|] eqn:E; [|discriminate]; inversion H; subst; apply Step; [exact E | lia]|].
  destruct (bond_of_char c); [destruct (lexS_aux F r) as [t0|] eqn:E; [|discriminate]; inversion H; subst; apply Step; [exact E | lia]|].
  destruct (isc c "%").
  { destruct r as [|d1 [|d2 r']]; try discriminate. destruct (is_digit d1 && is_digit d2); [|discriminate].
    destruct (lexS_aux F r') as [t0|] eqn:E; [|discriminate]. inversion H; subst. apply Step; [exact E | cbn; lia]. }
  destruct (isc c "[").
  { destruct (lex_bracket r) as [[a0 r']|] eqn:El; [|discriminate].
    destruct (lexS_aux F r') as [t0|] eqn:E; [|discriminate]. inversion H; subst. apply Step; [exact E|].
    destruct (lex_bracket_inv _ _ _ El) as [ins ->]. rewrite app_length. cbn. lia. }
  destruct (is_digit c); [destruct (lexS_aux F r) as [t0|] eqn:E; [|discriminate]; inversion H; subst; apply Step; [exact E | lia]|].
  destruct (lex_organic organic (c :: r)) as [[a0 r']|] eqn:Eo; [|discriminate].
  destruct (lexS_aux F r') as [t0|] eqn:E; [|discriminate]. inversion H; subst. apply Step; [exact E|].
  pose proof (lex_organic_shorter organic _ _ _ organic_nonempty Eo) as Hs. cbn [length] in Hs. lia.
Qed.

(* the lexer is a homomorphism at token boundaries *)
Theorem lexS_app a b ta tb :
  lexS a = Some ta -> lexS b = Some tb -> no_join a b = true -> lexS (a ++ b) = Some (ta ++ tb).
Proof.
  unfold lexS. intros Ha Hb Hj.
  pose proof (lexS_aux_app _ _ _ _ _ _ Ha Hb Hj) as H.
  eapply lexS_aux_enough; [exact H | lia].
Qed.

(* three pieces: host prefix, child, host remainder *)
Corollary lexS_app3 a b c ta tb tc :
  lexS a = Some ta -> lexS b = Some tb -> lexS c = Some tc ->
  no_join a (b ++ c) = true -> no_join b c = true ->
  lexS (a ++ b ++ c) = Some (ta ++ tb ++ tc).
Proof.
  intros Ha Hb Hc H1 H2. apply lexS_app; [exact Ha | apply lexS_app; assumption | exact H1].
Qed.
