(* Proofs/ReaderThm.v -- the reader inverts the notation: read (render t) = t for every tree. *)
From Coq Require Import String Bool Arith Lia List.
From GV Require Import Spec.Reader.
Import ListNotations.
Open Scope list_scope.

Fixpoint rb (ks : list (string * rose)) : list item :=
  match ks with
  | [] => []
  | (l, k) :: r => [ILb] ++ render k ++ [ICon l] ++ [IRb] ++ rb r
  end.

Lemma render_leaf n : render (Rose n []) = [IRes n].
Proof. reflexivity. Qed.

Lemma render_cons n l k bs : render (Rose n ((l, k) :: bs)) = render k ++ [ICon l] ++ rb bs ++ [IRes n].
Proof.
  cbn [render]. rewrite <- !app_assoc.
  match goal with |- context [?F bs ++ [IRes n]] => assert (E : F bs = rb bs) end.
  { induction bs as [|[l' k'] r IH]; [reflexivity|]. cbn [rb]. rewrite IH. reflexivity. }
  rewrite E. reflexivity.
Qed.

Lemma rb_app a b : rb (a ++ b) = rb a ++ rb b.
Proof.
  induction a as [|[l k] r IH]; [reflexivity|]. cbn [app rb]. rewrite IH, <- !app_assoc. reflexivity.
Qed.

(* where the loop over children must stop: not at a linkage, not at a closing bracket followed by a linkage *)
Definition stop (rest : list item) : Prop :=
  match rest with
  | ICon _ :: _ => False
  | IRb :: ICon _ :: _ => False
  | _ => True
  end.

Lemma loop_stop nodef n g rest acc : stop rest -> kids_loop nodef n (S g) rest acc = Some (Rose n acc, rest).
Proof.
  intro H. cbn [kids_loop]. destruct rest as [|[?|?| |] r]; try reflexivity; try contradiction.
  destruct r as [|[?|?| |] r']; try reflexivity; contradiction.
Qed.

Lemma size_kid_lt n l k ks : In (l, k) ks -> size k < size (Rose n ks).
Proof.
  cbn [size]. induction ks as [|[l' k'] r IH]; [intros []|].
  intros [E|Hin]; cbn [fold_right snd].
  - inversion E; subst. lia.
  - specialize (IH Hin). lia.
Qed.

Lemma rev_bracket (x : list item) l : rev ([ILb] ++ x ++ [ICon l] ++ [IRb]) = IRb :: ICon l :: rev x ++ [ILb].
Proof.
  cbn [app]. cbn [rev]. rewrite rev_app_distr. cbn [rev app]. reflexivity.
Qed.

Section Loop.
  Variable nodef : list item -> option (rose * list item).
  Variable n : string.

  (* the bracketed children, met in reverse, are pushed in written order *)
  Lemma loop_brackets : forall bs,
    (forall l k x, In (l, k) bs -> nodef (rev (render k) ++ ILb :: x) = Some (k, ILb :: x)) ->
    forall tail acc g, length bs < g ->
      kids_loop nodef n g (rev (rb bs) ++ tail) acc = kids_loop nodef n (g - length bs) tail (bs ++ acc).
  Proof.
    induction bs as [|[l k] bs IH] using rev_ind; intros Hk tail acc g Hg.
    - cbn [rb rev app length]. rewrite Nat.sub_0_r. reflexivity.
    - rewrite rb_app, rev_app_distr. cbn [rb]. rewrite app_nil_r.
      rewrite rev_bracket.
      rewrite app_length in Hg. cbn [length] in Hg.
      destruct g as [|g]; [lia|].
      rewrite <- !app_assoc. cbn [app kids_loop].
      rewrite <- app_assoc. cbn [app].
      rewrite (Hk l k (rev (rb bs) ++ tail)) by (apply in_or_app; right; left; reflexivity).
      rewrite IH; [| intros l0 k0 x Hin; apply (Hk l0); apply in_or_app; left; exact Hin | lia].
      rewrite app_length. cbn [length].
      replace (S g - (length bs + 1)) with (g - length bs) by lia.
      reflexivity.
  Qed.
End Loop.

Lemma node_render : forall N t, size t <= N -> forall fuel rest, N <= fuel -> stop rest ->
  node fuel (rev (render t) ++ rest) = Some (t, rest).
Proof.
  induction N as [|N IH]; intros t Hs fuel rest Hf Hstop.
  - destruct t; cbn [size] in Hs; lia.
  - destruct fuel as [|f]; [lia|]. destruct t as [n kids].
    destruct kids as [|[l k] bs].
    + rewrite render_leaf. cbn [rev app node]. apply loop_stop. exact Hstop.
    + rewrite render_cons. rewrite !rev_app_distr. cbn [rev app]. rewrite <- !app_assoc. cbn [app node].
      assert (Hkids : forall l0 k0, In (l0, k0) ((l, k) :: bs) -> size k0 <= N).
      { intros l0 k0 Hin. pose proof (size_kid_lt n l0 k0 _ Hin). lia. }
      rewrite loop_brackets.
      * rewrite app_nil_r.
        remember (S (length _) - length bs) as g eqn:Eg.
        destruct g as [|g].
        { exfalso. rewrite !app_length in Eg. cbn [length] in Eg. rewrite rev_length in Eg.
          assert (length bs <= length (rb bs)).
          { clear. induction bs as [|[l' k'] r IHr]; [cbn; lia|]. cbn [rb length app]. rewrite !app_length. cbn [length]. lia. }
          lia. }
        cbn [kids_loop].
        rewrite (IH k); [reflexivity | apply (Hkids l); left; reflexivity | lia | exact Hstop].
      * intros l0 k0 x Hin. apply IH; [apply (Hkids l0); right; exact Hin | lia | exact I].
      * rewrite !app_length. cbn [length]. rewrite rev_length.
        assert (length bs <= length (rb bs)).
        { clear. induction bs as [|[l' k'] r IHr]; [cbn; lia|]. cbn [rb length app]. rewrite !app_length. cbn [length]. lia. }
        lia.
Qed.

Lemma size_le_render t : size t <= length (render t).
Proof.
  assert (H : forall N t, size t <= N -> size t <= length (render t)).
  { induction N as [|N IH]; intros [n kids] Hs; [cbn [size] in Hs; lia|].
    destruct kids as [|[l k] bs]; [cbn; lia|].
    rewrite render_cons, !app_length. cbn [length size fold_right snd] in *.
    assert (Hk : size k <= length (render k)) by (apply IH; lia).
    assert (Hb : fold_right (fun lk acc => size (snd lk) + acc) 0 bs <= length (rb bs)).
    { assert (Hall : forall l' k', In (l', k') bs -> size k' <= N).
      { intros l' k' Hin. pose proof (size_kid_lt n l' k' ((l, k) :: bs) (or_intror Hin)). cbn [size fold_right snd] in H. lia. }
      clear Hs Hk. induction bs as [|[l' k'] r IHr]; [cbn; lia|].
      cbn [fold_right snd rb app length]. rewrite !app_length. cbn [length].
      assert (size k' <= length (render k')) by (apply IH, (Hall l'); left; reflexivity).
      assert (fold_right (fun lk acc => size (snd lk) + acc) 0 r <= length (rb r))
        by (apply IHr; intros l0 k0 Hin; apply (Hall l0); right; exact Hin).
      lia. }
    lia. }
  apply (H (size t)). lia.
Qed.

(* reading what was rendered gives the tree back: any depth, any number of substituents *)
Theorem read_render t : read (render t) = Some t.
Proof.
  unfold read. pose proof (node_render (size t) t (le_n _) (S (length (render t))) []) as H.
  rewrite app_nil_r in H. rewrite H; [reflexivity | | exact I].
  pose proof (size_le_render t). lia.
Qed.
