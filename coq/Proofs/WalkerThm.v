(* Proofs/WalkerThm.v -- what the tree walker does on every parse tree of rule 'branch': one node per written
   residue, existing nodes untouched, one edge per new node. *)
From Coq Require Import String Bool Arith Lia List.
From GV Require Import Model.Edge Model.Walker.
Import ListNotations.
Open Scope list_scope.

Lemma add_node_spec g d :
  fst (add_node g d) = length (g_nodes g) /\
  g_nodes (snd (add_node g d)) = g_nodes g ++ [d] /\ g_edges (snd (add_node g d)) = g_edges g.
Proof. repeat split. Qed.

Lemma add_edge_nodes g p c con : g_nodes (add_edge_g g p c con) = g_nodes g.
Proof. unfold add_edge_g. destruct (Nat.eqb p c); reflexivity. Qed.

Lemma add_edge_count g p c con : p <> c -> length (g_edges (add_edge_g g p c con)) = S (length (g_edges g)).
Proof.
  intro H. unfold add_edge_g. destruct (Nat.eqb_spec p c); [contradiction|]. cbn [g_edges]. rewrite app_length. cbn. lia.
Qed.

Lemma residues_nil : residues (PBranch []) = [].
Proof. reflexivity. Qed.
Lemma residues_cons x r : residues (PBranch (x :: r)) = residues x ++ residues (PBranch r).
Proof. reflexivity. Qed.
Lemma residues_res d : residues (PRes d) = [d]. Proof. reflexivity. Qed.
Lemma residues_con c : residues (PCon c) = []. Proof. reflexivity. Qed.
Lemma residues_tok c : residues (PTok c) = []. Proof. reflexivity. Qed.

Ltac resid := rewrite ?residues_cons, ?residues_nil, ?residues_res, ?residues_con, ?residues_tok, ?app_nil_r, ?app_nil_l; cbn [app length]; rewrite ?app_length.

Definition extends (g g' : graph) (k : nat) : Prop :=
  length (g_nodes g') = length (g_nodes g) + k /\
  firstn (length (g_nodes g)) (g_nodes g') = g_nodes g.

Lemma extends_trans g1 g2 g3 a b : extends g1 g2 a -> extends g2 g3 b -> extends g1 g3 (a + b).
Proof.
  intros [L1 F1] [L2 F2]. split; [lia|].
  rewrite <- F1 at 2. rewrite <- F2.
  rewrite firstn_firstn. f_equal. lia.
Qed.

Lemma extends_node_edge g d p con :
  extends g (add_edge_g (snd (add_node g d)) p (length (g_nodes g)) con) 1.
Proof.
  split; rewrite add_edge_nodes; cbn [add_node snd g_nodes].
  - rewrite app_length. cbn. lia.
  - rewrite firstn_app, firstn_all, Nat.sub_diag. cbn. apply app_nil_r.
Qed.

(* the main invariant, for every shaped parse tree, every graph, every parent that exists *)
Lemma walk_inv : forall t, shaped t -> forall f p g id g',
  walk f t p g = Some (id, g') -> p < length (g_nodes g) ->
  extends g g' (length (residues t)) /\ id < length (g_nodes g') /\
  length (g_edges g') = length (g_edges g) + length (residues t).
Proof.
  induction 1 as [d c | d c k Hk IHk | a k z Hk IHk | d c t1 k1 t2 kr H1 IH1 Hr IHr
                  | d c t1 k1 t2 t3 k2 t4 kr H1 IH1 H2 IH2 Hr IHr
                  | d c t1 k1 t2 t3 k2 t4 t5 k3 t6 kr H1 IH1 H2 IH2 H3 IH3 Hr IHr];
    intros f p g id g' Hw Hp; (destruct f as [|f]; [discriminate|]); cbn [walk] in Hw.
  - (* deriv con *)
    inversion Hw; subst; clear Hw. resid.
    split; [apply extends_node_edge|]. rewrite add_edge_nodes. cbn [add_node snd g_nodes].
    rewrite app_length. cbn [length]. split; [lia|]. rewrite add_edge_count by lia. cbn [add_node snd g_edges]. lia.
  - (* deriv con branch *)
    destruct (walk f (PBranch k) p g) as [[p' g1]|] eqn:E; [|discriminate].
    inversion Hw; subst; clear Hw.
    destruct (IHk _ _ _ _ _ E Hp) as (Ex & Hid & He).
    resid.
    split.
    + replace (S (length (residues (PBranch k)))) with (length (residues (PBranch k)) + 1) by lia.
      eapply extends_trans; [exact Ex | apply extends_node_edge].
    + rewrite add_edge_nodes. cbn [add_node snd g_nodes]. rewrite app_length. cbn [length].
      split; [lia|]. rewrite add_edge_count by lia. cbn [add_node snd g_edges]. lia.
  - (* [ branch ] *)
    destruct (walk f (PBranch k) p g) as [[x g1]|] eqn:E; [|discriminate].
    inversion Hw; subst; clear Hw.
    destruct (IHk _ _ _ _ _ E Hp) as (Ex & Hid & He).
    resid.
    split; [exact Ex|]. destruct Ex as [L _]. split; [lia | exact He].
  - (* deriv con [b1] rest *)
    destruct (walk f (PBranch kr) p g) as [[nid g1]|] eqn:Er; [|discriminate].
    destruct (walk f (PBranch k1) nid g1) as [[x g2]|] eqn:E1; [|discriminate].
    inversion Hw; subst; clear Hw.
    destruct (IHr _ _ _ _ _ Er Hp) as (Exr & Hnid & Her).
    destruct (IH1 _ _ _ _ _ E1 Hnid) as (Ex1 & _ & He1).
    resid.
    assert (Hn2 : nid < length (g_nodes g2)) by (destruct Ex1 as [L _]; lia).
    split.
    + replace (S (length (residues (PBranch k1)) + length (residues (PBranch kr))))
        with (length (residues (PBranch kr)) + (length (residues (PBranch k1)) + 1)) by lia.
      eapply extends_trans; [exact Exr|]. eapply extends_trans; [exact Ex1 | apply extends_node_edge].
    + rewrite add_edge_nodes. cbn [add_node snd g_nodes]. rewrite app_length. cbn [length].
      split; [lia|]. rewrite add_edge_count by lia. cbn [add_node snd g_edges]. lia.
  - (* two brackets *)
    destruct (walk f (PBranch kr) p g) as [[nid g1]|] eqn:Er; [|discriminate].
    destruct (walk f (PBranch k1) nid g1) as [[x1 g2]|] eqn:E1; [|discriminate].
    destruct (walk f (PBranch k2) nid g2) as [[x2 g3]|] eqn:E2; [|discriminate].
    inversion Hw; subst; clear Hw.
    destruct (IHr _ _ _ _ _ Er Hp) as (Exr & Hnid & Her).
    destruct (IH1 _ _ _ _ _ E1 Hnid) as (Ex1 & _ & He1).
    assert (Hn2 : nid < length (g_nodes g2)) by (destruct Ex1 as [L _]; lia).
    destruct (IH2 _ _ _ _ _ E2 Hn2) as (Ex2 & _ & He2).
    assert (Hn3 : nid < length (g_nodes g3)) by (destruct Ex2 as [L _]; lia).
    resid.
    split.
    + replace (S (length (residues (PBranch k1)) + (length (residues (PBranch k2)) + length (residues (PBranch kr)))))
        with (length (residues (PBranch kr)) + (length (residues (PBranch k1)) + (length (residues (PBranch k2)) + 1))) by lia.
      eapply extends_trans; [exact Exr|]. eapply extends_trans; [exact Ex1|].
      eapply extends_trans; [exact Ex2 | apply extends_node_edge].
    + rewrite add_edge_nodes. cbn [add_node snd g_nodes]. rewrite app_length. cbn [length].
      split; [lia|]. rewrite add_edge_count by lia. cbn [add_node snd g_edges]. lia.
  - (* three brackets *)
    destruct (walk f (PBranch kr) p g) as [[nid g1]|] eqn:Er; [|discriminate].
    destruct (walk f (PBranch k1) nid g1) as [[x1 g2]|] eqn:E1; [|discriminate].
    destruct (walk f (PBranch k2) nid g2) as [[x2 g3]|] eqn:E2; [|discriminate].
    destruct (walk f (PBranch k3) nid g3) as [[x3 g4]|] eqn:E3; [|discriminate].
    inversion Hw; subst; clear Hw.
    destruct (IHr _ _ _ _ _ Er Hp) as (Exr & Hnid & Her).
    destruct (IH1 _ _ _ _ _ E1 Hnid) as (Ex1 & _ & He1).
    assert (Hn2 : nid < length (g_nodes g2)) by (destruct Ex1 as [L _]; lia).
    destruct (IH2 _ _ _ _ _ E2 Hn2) as (Ex2 & _ & He2).
    assert (Hn3 : nid < length (g_nodes g3)) by (destruct Ex2 as [L _]; lia).
    destruct (IH3 _ _ _ _ _ E3 Hn3) as (Ex3 & _ & He3).
    assert (Hn4 : nid < length (g_nodes g4)) by (destruct Ex3 as [L _]; lia).
    resid.
    split.
    + replace (S (length (residues (PBranch k1)) + (length (residues (PBranch k2)) + (length (residues (PBranch k3)) + length (residues (PBranch kr))))))
        with (length (residues (PBranch kr)) + (length (residues (PBranch k1)) + (length (residues (PBranch k2)) + (length (residues (PBranch k3)) + 1)))) by lia.
      eapply extends_trans; [exact Exr|]. eapply extends_trans; [exact Ex1|].
      eapply extends_trans; [exact Ex2|]. eapply extends_trans; [exact Ex3 | apply extends_node_edge].
    + rewrite add_edge_nodes. cbn [add_node snd g_nodes]. rewrite app_length. cbn [length].
      split; [lia|]. rewrite add_edge_count by lia. cbn [add_node snd g_edges]. lia.
Qed.

(* the whole brace-free glycan: one node per written residue, node 0 is the last-written residue (with its
   configuration), and there are exactly (nodes - 1) edges *)
Theorem parse_begin_counts f b d g :
  shaped b -> parse_begin f [b; PRes d] = Some g ->
  length (g_nodes g) = S (length (residues b)) /\ nth_error (g_nodes g) 0 = Some d /\
  length (g_edges g) = length (residues b).
Proof.
  intros Hs Hp. unfold parse_begin, parse_begin_with in Hp.
  destruct b as [? | ? | ? | kids]; try (inversion Hs; fail).
  cbn [add_node] in Hp.
  destruct (walk f (PBranch kids) (length (g_nodes (mkGraph [] []))) (mkGraph (g_nodes (mkGraph [] []) ++ [d]) (g_edges (mkGraph [] [])))) as [[x g2]|] eqn:E;
    [|discriminate].
  inversion Hp; subst; clear Hp.
  destruct (walk_inv _ Hs _ _ _ _ _ E) as ([L F] & _ & He); [cbn; lia|].
  cbn [g_nodes g_edges app length] in *. repeat split; [lia | | lia].
  destruct (g_nodes g) as [|y r]; [cbn in L; lia|]. cbn [firstn] in F. inversion F. reflexivity.
Qed.
