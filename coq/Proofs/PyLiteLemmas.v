(* Proofs/PyLiteLemmas.v -- one-step unfolding equations of the PyLite semantics and a symbolic-execution tactic.
   Every equation is closed by reflexivity: it is the definition of the interpreter, cut into rewrite rules so that
   proofs about the translated programs never unfold the whole mutual fixpoint. *)
From Coq Require Import String ZArith List Bool Lia.
From GV Require Import Model.PyLite.
Import ListNotations.
Open Scope string_scope.

Section Eqs.
  Variable conv : value -> value -> res string.
  Variable prog : list fundef.
  Notation eval := (eval conv prog).
  Notation exec := (exec conv prog).
  Notation call := (call conv prog).
  Notation prim := (prim conv).

  Lemma block_nil (ex : stmt -> st -> outcome * st) s : block_with ex [] s = (ONormal, s).
  Proof. reflexivity. Qed.
  Lemma block_cons (ex : stmt -> st -> outcome * st) x r s :
    block_with ex (x :: r) s =
    match ex x s with (ONormal, s1) => block_with ex r s1 | other => other end.
  Proof. reflexivity. Qed.

  Lemma call_eq f g pos kw w :
    call (S f) g pos kw w =
    match find_fun g prog with
    | None => (inr (ExOther "NameError"), w)
    | Some d =>
        match bind_params (f_params d) pos kw with
        | None => (inr (ExOther "TypeError"), w)
        | Some en =>
            match block_with (exec f) (f_body d) (mkSt en w []) with
            | (ONormal, s) => (inl VNone, s_world s)
            | (OReturn v, s) => (inl v, s_world s)
            | (ORaise ex, s) => (inr ex, s_world s)
            end
        end
    end.
  Proof. reflexivity. Qed.

  Lemma eval_const f v en w : eval (S f) (EConst v) en w = (inl v, w).
  Proof. reflexivity. Qed.
  Lemma eval_var f x en w :
    eval (S f) (EVar x) en w = (match lookup x en with Some v => inl v | None => inr (ExOther "NameError") end, w).
  Proof. reflexivity. Qed.
  Lemma eval_isnone f a en w :
    eval (S f) (EIsNone a) en w =
    match eval f a en w with
    | (inl v, w1) => (inl (VBool (match v with VNone => true | _ => false end)), w1)
    | r => r end.
  Proof. reflexivity. Qed.
  Lemma eval_isnotnone f a en w :
    eval (S f) (EIsNotNone a) en w =
    match eval f a en w with
    | (inl v, w1) => (inl (VBool (match v with VNone => false | _ => true end)), w1)
    | r => r end.
  Proof. reflexivity. Qed.
  Lemma eval_not f a en w :
    eval (S f) (ENot a) en w =
    match eval f a en w with (inl v, w1) => (inl (VBool (negb (truthy v))), w1) | r => r end.
  Proof. reflexivity. Qed.
  Lemma eval_and f a b en w :
    eval (S f) (EAnd a b) en w =
    match eval f a en w with
    | (inl v, w1) => if truthy v then eval f b en w1 else (inl v, w1)
    | r => r end.
  Proof. reflexivity. Qed.
  Lemma eval_or f a b en w :
    eval (S f) (EOr a b) en w =
    match eval f a en w with
    | (inl v, w1) => if truthy v then (inl v, w1) else eval f b en w1
    | r => r end.
  Proof. reflexivity. Qed.
  Lemma eval_eq f a b en w :
    eval (S f) (EEq a b) en w =
    match eval f a en w with
    | (inl v, w1) => match eval f b en w1 with
                     | (inl u, w2) => (inl (VBool (value_eqb v u)), w2) | r => r end
    | r => r end.
  Proof. reflexivity. Qed.
  Lemma eval_ne f a b en w :
    eval (S f) (ENe a b) en w =
    match eval f a en w with
    | (inl v, w1) => match eval f b en w1 with
                     | (inl u, w2) => (inl (VBool (negb (value_eqb v u))), w2) | r => r end
    | r => r end.
  Proof. reflexivity. Qed.
  Lemma eval_notin f a l en w :
    eval (S f) (ENotIn a l) en w =
    match eval f a en w with
    | (inl v, w1) => match evals_with (fun x w => eval f x en w) l w1 with
                     | (inl vs, w2) => (inl (VBool (negb (existsb (value_eqb v) vs))), w2)
                     | (inr ex, w2) => (inr ex, w2) end
    | r => r end.
  Proof. reflexivity. Qed.
  Lemma eval_isinstance f a ty en w :
    eval (S f) (EIsInstance a ty) en w =
    match eval f a en w with (inl v, w1) => (inl (VBool (isinstance v ty)), w1) | r => r end.
  Proof. reflexivity. Qed.
  Lemma eval_len f a en w :
    eval (S f) (ELen a) en w =
    match eval f a en w with
    | (inl v, w1) => (match py_len v with inl z => inl (VInt z) | inr ex => inr ex end, w1)
    | r => r end.
  Proof. reflexivity. Qed.
  Lemma eval_list f l en w :
    eval (S f) (EList l) en w = lift_list (evals_with (fun x w => eval f x en w) l w).
  Proof. reflexivity. Qed.
  Lemma eval_tuple f l en w :
    eval (S f) (ETuple l) en w =
    match evals_with (fun x w => eval f x en w) l w with
    | (inl vs, w1) => (inl (VTuple vs), w1) | (inr ex, w1) => (inr ex, w1) end.
  Proof. reflexivity. Qed.
  Lemma eval_sub f a k en w :
    eval (S f) (ESub a k) en w =
    match eval f a en w with
    | (inl v, w1) => match eval f k en w1 with (inl u, w2) => (subscript v u, w2) | r => r end
    | r => r end.
  Proof. reflexivity. Qed.
  Lemma eval_prim f p args en w :
    eval (S f) (EPrim p args) en w =
    match evals_with (fun x w => eval f x en w) args w with
    | (inl vs, w1) => prim p vs w1
    | (inr ex, w1) => (inr ex, w1) end.
  Proof. reflexivity. Qed.
  Lemma eval_call f g args kw en w :
    eval (S f) (ECall g args kw) en w =
    match evals_with (fun x w => eval f x en w) args w with
    | (inr ex, w1) => (inr ex, w1)
    | (inl vs, w1) =>
        match evkw_with (fun x w => eval f x en w) kw w1 with
        | (inr ex, w2) => (inr ex, w2)
        | (inl kvs, w2) => call f g vs kvs w2
        end
    end.
  Proof. reflexivity. Qed.
  Lemma eval_listcomp f body x it en w :
    eval (S f) (EListComp body x it) en w =
    match eval f it en w with
    | (inl v, w1) =>
        match iter_items v with
        | inr ex => (inr ex, w1)
        | inl items => lift_list (map_res (fun i w => eval f body (update x i en) w) items w1)
        end
    | r => r end.
  Proof. reflexivity. Qed.
  Lemma eval_parmap f g x args it en w :
    eval (S f) (EParMap g x args it) en w =
    match eval f it en w with
    | (inl v, w1) =>
        match iter_items v with
        | inr ex => (inr ex, w1)
        | inl items =>
            lift_list (map_res (fun i w =>
               match evals_with (fun a w => eval f a (update x i en) w) args w with
               | (inr ex, w1) => (inr ex, w1)
               | (inl vs, w1) => call f g vs [] w1
               end) items w1)
        end
    | r => r end.
  Proof. reflexivity. Qed.

  Lemma evals_nil (ev : expr -> world -> res value * world) w : evals_with ev [] w = (inl [], w).
  Proof. reflexivity. Qed.
  Lemma evals_cons (ev : expr -> world -> res value * world) x r w :
    evals_with ev (x :: r) w =
    match ev x w with
    | (inl v, w1) => match evals_with ev r w1 with
                     | (inl vs, w2) => (inl (v :: vs), w2)
                     | (inr ex, w2) => (inr ex, w2) end
    | (inr ex, w1) => (inr ex, w1)
    end.
  Proof. reflexivity. Qed.
  Lemma evkw_nil (ev : expr -> world -> res value * world) w : evkw_with ev [] w = (inl [], w).
  Proof. reflexivity. Qed.
  Lemma evkw_cons (ev : expr -> world -> res value * world) k x r w :
    evkw_with ev ((k, x) :: r) w =
    match ev x w with
    | (inl v, w1) => match evkw_with ev r w1 with
                     | (inl kvs, w2) => (inl ((k, v) :: kvs), w2)
                     | (inr ex, w2) => (inr ex, w2) end
    | (inr ex, w1) => (inr ex, w1)
    end.
  Proof. reflexivity. Qed.

  Lemma exec_assign f v e s :
    exec (S f) (SAssign v e) s =
    match eval f e (s_env s) (s_world s) with
    | (inl u, w1) => (ONormal, mkSt (update v u (s_env s)) w1 (s_yield s))
    | (inr ex, w1) => (ORaise ex, mkSt (s_env s) w1 (s_yield s)) end.
  Proof. reflexivity. Qed.
  Lemma exec_assignsub f v k e s :
    exec (S f) (SAssignSub v k e) s =
    match eval f k (s_env s) (s_world s) with
    | (inl (VStr ks), w1) =>
        match eval f e (s_env s) w1 with
        | (inl u, w2) => match lookup v (s_env s) with
                         | Some (VDict d) => (ONormal, mkSt (update v (VDict (update ks u d)) (s_env s)) w2 (s_yield s))
                         | _ => (ORaise (ExOther "TypeError"), mkSt (s_env s) w2 (s_yield s)) end
        | (inr ex, w2) => (ORaise ex, mkSt (s_env s) w2 (s_yield s)) end
    | (inl _, w1) => (ORaise (ExOther "TypeError"), mkSt (s_env s) w1 (s_yield s))
    | (inr ex, w1) => (ORaise ex, mkSt (s_env s) w1 (s_yield s)) end.
  Proof. reflexivity. Qed.
  Lemma exec_setdisabled f v e s :
    exec (S f) (SSetDisabled v e) s =
    match lookup v (s_env s) with
    | Some VLogger => match eval f e (s_env s) (s_world s) with
                      | (inl u, w1) => (ONormal, mkSt (s_env s) (w_set_disabled w1 (truthy u)) (s_yield s))
                      | (inr ex, w1) => (ORaise ex, mkSt (s_env s) w1 (s_yield s)) end
    | Some _ => (ORaise (ExOther "AttributeError"), s)
    | None => (ORaise (ExOther "NameError"), s)
    end.
  Proof. reflexivity. Qed.
  Lemma exec_append f v e s :
    exec (S f) (SAppend v e) s =
    match eval f e (s_env s) (s_world s) with
    | (inl u, w1) => match lookup v (s_env s) with
                     | Some (VList l) => (ONormal, mkSt (update v (VList (l ++ [u])) (s_env s)) w1 (s_yield s))
                     | _ => (ORaise (ExOther "AttributeError"), mkSt (s_env s) w1 (s_yield s)) end
    | (inr ex, w1) => (ORaise ex, mkSt (s_env s) w1 (s_yield s)) end.
  Proof. reflexivity. Qed.
  Lemma exec_extend f v e s :
    exec (S f) (SExtend v e) s =
    match eval f e (s_env s) (s_world s) with
    | (inl u, w1) => match lookup v (s_env s) with
                     | Some (VList l) =>
                         match iter_items u with
                         | inl items => (ONormal, mkSt (update v (VList (l ++ items)) (s_env s)) w1 (s_yield s))
                         | inr ex => (ORaise ex, mkSt (s_env s) w1 (s_yield s)) end
                     | _ => (ORaise (ExOther "TypeError"), mkSt (s_env s) w1 (s_yield s)) end
    | (inr ex, w1) => (ORaise ex, mkSt (s_env s) w1 (s_yield s)) end.
  Proof. reflexivity. Qed.
  Lemma exec_expr f e s :
    exec (S f) (SExpr e) s =
    match eval f e (s_env s) (s_world s) with
    | (inl _, w1) => (ONormal, mkSt (s_env s) w1 (s_yield s))
    | (inr ex, w1) => (ORaise ex, mkSt (s_env s) w1 (s_yield s)) end.
  Proof. reflexivity. Qed.
  Lemma exec_print f args file sep s :
    exec (S f) (SPrint args file sep) s =
    match evals_with (fun a w => eval f a (s_env s) w) args (s_world s) with
    | (inr ex, w1) => (ORaise ex, mkSt (s_env s) w1 (s_yield s))
    | (inl vs, w1) =>
        let line := join sep (map py_str vs) in
        match eval f file (s_env s) w1 with
        | (inl VStdout, w2) =>
            if w_stdout_closed w2 then (ORaise (ExValue), mkSt (s_env s) w2 (s_yield s))
            else (ONormal, mkSt (s_env s) (w_out_add w2 line) (s_yield s))
        | (inl VStderr, w2) => (ONormal, mkSt (s_env s) (w_err_add w2 line) (s_yield s))
        | (inl (VFile p true), w2) =>
            match file_lines w2 p with
            | Some ls => (ONormal, mkSt (s_env s) (w_set_files w2 (set_file p (ls ++ [line]) (w_files w2))) (s_yield s))
            | None => (ORaise (ExOther "ValueError"), mkSt (s_env s) w2 (s_yield s)) end
        | (inl _, w2) => (ORaise (ExOther "AttributeError"), mkSt (s_env s) w2 (s_yield s))
        | (inr ex, w2) => (ORaise ex, mkSt (s_env s) w2 (s_yield s))
        end
    end.
  Proof. reflexivity. Qed.
  Lemma exec_close f e s :
    exec (S f) (SClose e) s =
    match eval f e (s_env s) (s_world s) with
    | (inl VStdout, w1) => (ONormal, mkSt (s_env s) (w_close_stdout w1) (s_yield s))
    | (inl (VFile _ _), w1) => (ONormal, mkSt (s_env s) w1 (s_yield s))
    | (inl _, w1) => (ORaise (ExOther "AttributeError"), mkSt (s_env s) w1 (s_yield s))
    | (inr ex, w1) => (ORaise ex, mkSt (s_env s) w1 (s_yield s)) end.
  Proof. reflexivity. Qed.
  Lemma exec_if f c t e s :
    exec (S f) (SIf c t e) s =
    match eval f c (s_env s) (s_world s) with
    | (inl v, w1) => block_with (exec f) (if truthy v then t else e) (mkSt (s_env s) w1 (s_yield s))
    | (inr ex, w1) => (ORaise ex, mkSt (s_env s) w1 (s_yield s)) end.
  Proof. reflexivity. Qed.
  Lemma exec_for f xs it body s :
    exec (S f) (SFor xs it body) s =
    match eval f it (s_env s) (s_world s) with
    | (inr ex, w1) => (ORaise ex, mkSt (s_env s) w1 (s_yield s))
    | (inl v, w1) =>
        match iter_items v with
        | inr ex => (ORaise ex, mkSt (s_env s) w1 (s_yield s))
        | inl items => for_loop (block_with (exec f) body) xs items (mkSt (s_env s) w1 (s_yield s))
        end
    end.
  Proof. reflexivity. Qed.
  Lemma exec_return_none f s : exec (S f) (SReturn None) s = (OReturn VNone, s).
  Proof. reflexivity. Qed.
  Lemma exec_return f e s :
    exec (S f) (SReturn (Some e)) s =
    match eval f e (s_env s) (s_world s) with
    | (inl v, w1) => (OReturn v, mkSt (s_env s) w1 (s_yield s))
    | (inr ex, w1) => (ORaise ex, mkSt (s_env s) w1 (s_yield s)) end.
  Proof. reflexivity. Qed.
  Lemma exec_yield f e s :
    exec (S f) (SYield e) s =
    match eval f e (s_env s) (s_world s) with
    | (inl v, w1) => (ONormal, mkSt (s_env s) w1 (s_yield s ++ [v]))
    | (inr ex, w1) => (ORaise ex, mkSt (s_env s) w1 (s_yield s)) end.
  Proof. reflexivity. Qed.
  Lemma exec_raise f ex s : exec (S f) (SRaise ex) s = (ORaise ex, s).
  Proof. reflexivity. Qed.
  Lemma exec_try f body hs s :
    exec (S f) (STry body hs) s =
    match block_with (exec f) body s with
    | (ORaise ex, s1) =>
        match find (fun h => catches (fst h) ex) hs with
        | Some (_, hb) => block_with (exec f) hb s1
        | None => (ORaise ex, s1)
        end
    | other => other
    end.
  Proof. reflexivity. Qed.

  Lemma exec_finally f body fin s :
    exec (S f) (SFinally body fin) s =
    match block_with (exec f) body s with
    | (o, s1) => match block_with (exec f) fin s1 with
                 | (ONormal, s2) => (o, s2)
                 | other => other
                 end
    end.
  Proof. reflexivity. Qed.

  Lemma for_loop_nil body xs s : for_loop body xs [] s = (ONormal, s).
  Proof. reflexivity. Qed.
  Lemma for_loop_cons body xs i r s :
    for_loop body xs (i :: r) s =
    match bind_targets xs i (s_env s) with
    | None => (ORaise (ExOther "ValueError"), s)
    | Some en' =>
        match body (mkSt en' (s_world s) (s_yield s)) with
        | (ONormal, s1) => for_loop body xs r s1
        | other => other
        end
    end.
  Proof. reflexivity. Qed.
End Eqs.

Lemma value_eqb_int a b : value_eqb (VInt a) (VInt b) = Z.eqb a b.
Proof. reflexivity. Qed.
Lemma value_eqb_str a b : value_eqb (VStr a) (VStr b) = String.eqb a b.
Proof. reflexivity. Qed.
Lemma len_nil_eqb : Z.eqb (Z.of_nat (@length value [])) 0 = true.
Proof. reflexivity. Qed.
Lemma len_cons_eqb (x : value) l : Z.eqb (Z.of_nat (length (x :: l))) 0 = false.
Proof. reflexivity. Qed.

Section PrimEqs.
  Variable conv : value -> value -> res string.
  Notation prim := (prim conv).
  Lemma prim_isfile v w : prim "isfile" [v] w = (inl (VBool (isfile w v)), w).
  Proof. reflexivity. Qed.
  Lemma prim_parent p w : prim "parent_dir_exists" [VStr p] w = (inl (VBool (existsb (String.eqb p) (w_parent_ok w))), w).
  Proof. reflexivity. Qed.
  Lemma prim_open_r p w :
    prim "open" [VStr p; VStr "r"] w =
    (match file_lines w p with Some _ => inl (VFile p false) | None => inr (ExOther "FileNotFoundError") end, w).
  Proof. reflexivity. Qed.
  Lemma prim_open_w p w :
    prim "open" [VStr p; VStr "w"] w =
    if existsb (String.eqb p) (w_parent_ok w)
    then (inl (VFile p true), w_set_files w (set_file p [] (w_files w)))
    else (inr (ExOther "FileNotFoundError"), w).
  Proof. reflexivity. Qed.
  Lemma prim_readlines p w :
    prim "readlines" [VFile p false] w =
    (match file_lines w p with Some ls => inl (VList (map VStr ls)) | None => inr (ExOther "FileNotFoundError") end, w).
  Proof. reflexivity. Qed.
  Lemma prim_strip s w : prim "strip" [VStr s] w = (inl (VStr (py_strip s)), w).
  Proof. reflexivity. Qed.
  Lemma prim_getLogger w : prim "getLogger" [] w = (inl VLogger, w).
  Proof. reflexivity. Qed.
  Lemma prim_basicConfig w : prim "basicConfig" [] w = (inl VNone, w).
  Proof. reflexivity. Qed.
  Lemma prim_log_info w : prim "log_info" [] w = (inl VNone, w).
  Proof. reflexivity. Qed.
  Lemma prim_log_warning w : prim "log_warning" [] w = (inl VNone, w).
  Proof. reflexivity. Qed.
  Lemma prim_log_error w : prim "log_error" [] w = (inl VNone, w).
  Proof. reflexivity. Qed.
  Lemma prim_get_smiles g fl w :
    prim "get_smiles" [g; fl] w = (match conv g fl with inl s => inl (VStr s) | inr e => inr e end, w).
  Proof. reflexivity. Qed.
  Lemma prim_parse_args a w : prim "parse_args" [VList a] w = (parse_args a, w).
  Proof. reflexivity. Qed.
  Lemma prim_input w : prim "input" [] w = (inl (VStr (hd "" (w_stdin w))), w_pop_stdin w).
  Proof. reflexivity. Qed.
  Lemma prim_exit w : prim "exit" [] w = (inr ExExit, w).
  Proof. reflexivity. Qed.
End PrimEqs.

(* what the small-step rules may compute on their own *)
Ltac pycbn :=
  cbn [s_env s_world s_yield lookup update String.eqb Ascii.eqb Bool.eqb fst snd
       find_fun f_name f_params f_body bind_params option_map truthy negb andb orb
       lift_list bind_targets fold_left combine length Nat.eqb find catches
       w_disabled w_stdout w_stdout_closed w_stderr w_files w_parent_ok w_stdin
       hd tl app map join py_str iter_items isinstance subscript nth_error
       py_len].

Ltac pystep :=
  match goal with
  | |- context [block_with _ (_ :: _) _] => rewrite block_cons
  | |- context [block_with _ [] _] => rewrite block_nil
  | |- context [evals_with _ [] _] => rewrite evals_nil
  | |- context [evals_with _ (_ :: _) _] => rewrite evals_cons
  | |- context [evkw_with _ [] _] => rewrite evkw_nil
  | |- context [evkw_with _ (_ :: _) _] => rewrite evkw_cons
  | |- context [for_loop _ _ [] _] => rewrite for_loop_nil
  | |- context [PyLite.eval _ _ (S _) ?e _ _] =>
      match e with
      | EConst _ => rewrite eval_const
      | EVar _ => rewrite eval_var
      | EIsNone _ => rewrite eval_isnone
      | EIsNotNone _ => rewrite eval_isnotnone
      | ENot _ => rewrite eval_not
      | EAnd _ _ => rewrite eval_and
      | EOr _ _ => rewrite eval_or
      | EEq _ _ => rewrite eval_eq
      | ENe _ _ => rewrite eval_ne
      | ENotIn _ _ => rewrite eval_notin
      | EIsInstance _ _ => rewrite eval_isinstance
      | ELen _ => rewrite eval_len
      | EList _ => rewrite eval_list
      | ETuple _ => rewrite eval_tuple
      | ESub _ _ => rewrite eval_sub
      | EPrim _ _ => rewrite eval_prim
      | ECall _ _ _ => rewrite eval_call
      | EListComp _ _ _ => rewrite eval_listcomp
      | EParMap _ _ _ _ => rewrite eval_parmap
      end
  | |- context [PyLite.exec _ _ (S _) ?x _] =>
      match x with
      | SAssign _ _ => rewrite exec_assign
      | SAssignSub _ _ _ => rewrite exec_assignsub
      | SSetDisabled _ _ => rewrite exec_setdisabled
      | SAppend _ _ => rewrite exec_append
      | SExtend _ _ => rewrite exec_extend
      | SExpr _ => rewrite exec_expr
      | SPrint _ _ _ => rewrite exec_print
      | SClose _ => rewrite exec_close
      | SIf _ _ _ => rewrite exec_if
      | SFor _ _ _ => rewrite exec_for
      | SReturn None => rewrite exec_return_none
      | SReturn (Some _) => rewrite exec_return
      | SYield _ => rewrite exec_yield
      | SRaise _ => rewrite exec_raise
      | STry _ _ => rewrite exec_try
      | SFinally _ _ => rewrite exec_finally
      end
  end.

Ltac pyprim :=
  match goal with
  | |- context [PyLite.prim _ ?name _ _] =>
      match name with
      | "isfile" => rewrite prim_isfile
      | "parent_dir_exists" => rewrite prim_parent
      | "open" => first [rewrite prim_open_r | rewrite prim_open_w]
      | "readlines" => rewrite prim_readlines
      | "strip" => rewrite prim_strip
      | "getLogger" => rewrite prim_getLogger
      | "basicConfig" => rewrite prim_basicConfig
      | "log_info" => rewrite prim_log_info
      | "log_warning" => rewrite prim_log_warning
      | "log_error" => rewrite prim_log_error
      | "get_smiles" => rewrite prim_get_smiles
      | "parse_args" => rewrite prim_parse_args
      | "input" => rewrite prim_input
      | "exit" => rewrite prim_exit
      end
  end.

Ltac py := repeat (first [pystep | pyprim]; pycbn).


(* execute the first statement of a block in isolation (small goal), then continue *)
Ltac sstep :=
  rewrite block_cons;
  match goal with
  | |- context [exec ?c ?p ?f ?x ?s] =>
      let H := fresh "Hst" in
      let r := fresh "r" in
      evar (r : (outcome * st)%type);
      assert (H : exec c p f x s = r) by (py; subst r; reflexivity);
      subst r; rewrite H; clear H; pycbn
  end.

Ltac run1 :=
  match goal with
  | |- context [block_with _ [] _] => rewrite block_nil
  | |- context [value_eqb (VInt _) (VInt _)] => rewrite value_eqb_int
  | |- context [Z.eqb (Z.of_nat (@length value [])) 0] => rewrite len_nil_eqb
  | |- context [Z.eqb (Z.of_nat (length (_ :: _))) 0] => rewrite len_cons_eqb
  | |- context [block_with _ (_ :: _) _] => sstep
  end.
Ltac run := repeat (run1; pycbn).
