(* Proofs/Embed.v -- the embedding theorem for spliced SMILES fragments.

   A fragment (a complete SMILES that starts with an atom, e.g. a child glycan written from its anomeric oxygen)
   that is spliced into a host string right after a position where the host's machine state is S -- current atom c,
   no pending bond -- builds, inside the host, exactly the structure it builds on its own: the same atoms in the
   same order, the same bonds, ring closures and neighbour slots, all renumbered by the number of host atoms (and of
   host ring bonds), plus one bond from c to the fragment's first atom. The only hypothesis about the contents is
   FRESHNESS: no ring-closure label of the fragment is open in the host at the splice point. (Where it fails, the
   fragment closes a ring of the host: the macrocycle defect.) Holds for every host state and every fragment. *)
From Coq Require Import Ascii String ZArith Bool Arith Lia List.
From GV Require Import Base.Util Spec.Smiles.
Import ListNotations.
Open Scope list_scope.
Open Scope nat_scope.

Section Emb.
  Variable S : pst.                 (* host state at the splice point *)
  Variable c : nat.                 (* its current atom *)
  Hypothesis Hcur : p_cur S = Some c.
  Hypothesis Hslots : length (p_slots S) = length (p_atoms S).

  Let n := length (p_atoms S).
  Let r0 := p_nring S.

  Definition sh_slot (s : slot) : slot :=
    match s with SAtom j => SAtom (n + j) | SH => SH | SRing k => SRing (r0 + k) end.

  Definition sh_slots (sl : list (list slot)) : list (list slot) :=
    match sl with
    | [] => []
    | s0 :: rest => (SAtom c :: map sh_slot s0) :: map (map sh_slot) rest
    end.

  Definition sh_bond (b : nat * nat * bsym) : nat * nat * bsym := let '(a, b', s) := b in (n + a, n + b', s).
  Definition sh_ring (r : nat * (nat * nat)) : nat * (nat * nat) := let '(k, (a, b)) := r in (r0 + k, (n + a, n + b)).
  Definition sh_open (o : nat * (nat * option bsym * nat)) : nat * (nat * option bsym * nat) :=
    let '(l, (a, b, k)) := o in (l, (n + a, b, r0 + k)).

  (* the fragment's own first atom *)
  Variable a0 : atom.

  Definition link_bond : bsym := default_bond (nth c (p_atoms S) a0) a0.

  (* the host state in which the fragment's stand-alone state [s] is embedded *)
  Definition embed (s : pst) : pst :=
    mkPst (p_atoms S ++ p_atoms s)
          (add_slot c (SAtom n) (p_slots S) ++ sh_slots (p_slots s))
          (p_bonds S ++ [(c, n, link_bond)] ++ map sh_bond (p_bonds s))
          (p_rings S ++ map sh_ring (p_rings s))
          (option_map (fun x => n + x) (p_cur s))
          (map (fun x => n + x) (p_stack s) ++ p_stack S)
          (p_pend s)
          (map sh_open (p_open s) ++ p_open S)
          (r0 + p_nring s).

  (* states of a stand-alone run after the first atom *)
  Definition good (s : pst) : Prop :=
    (exists x, p_cur s = Some x) /\ length (p_slots s) = length (p_atoms s) /\ 0 < length (p_atoms s) /\
    nth_error (p_atoms s) 0 = Some a0.

  Lemma find_open_sh l o :
    find_open l (map sh_open o ++ p_open S) =
    match find_open l o with
    | Some (a, b, k) => Some (n + a, b, r0 + k)
    | None => find_open l (p_open S)
    end.
  Proof.
    induction o as [|[l' [[a b] k]] o IH]; cbn [map app find_open sh_open]; [reflexivity|].
    destruct (Nat.eqb l l'); [reflexivity | exact IH].
  Qed.

  Lemma remove_open_sh l o :
    find_open l o <> None ->
    remove_open l (map sh_open o ++ p_open S) = map sh_open (remove_open l o) ++ p_open S.
  Proof.
    induction o as [|[l' [[a b] k]] o IH]; cbn [map app find_open remove_open sh_open]; [intro H; contradiction|].
    destruct (Nat.eqb l l'); [reflexivity|]. intro H. cbn [map app]. rewrite IH by exact H. reflexivity.
  Qed.

  Lemma upd_nth_app2 {A} (f : A -> A) (l1 l2 : list A) x :
    upd_nth (length l1 + x) f (l1 ++ l2) = l1 ++ upd_nth x f l2.
  Proof. induction l1 as [|y l1 IH]; cbn [length app upd_nth Nat.add]; [reflexivity | rewrite IH; reflexivity]. Qed.

  Lemma add_slot_length i s sl : length (add_slot i s sl) = length sl.
  Proof. unfold add_slot. apply upd_nth_length. Qed.

  Lemma sh_slots_add x s sl :
    sl <> [] ->
    sh_slots (add_slot x s sl) = add_slot x (sh_slot s) (sh_slots sl).
  Proof.
    intro Hne. destruct sl as [|s0 rest]; [contradiction|]. unfold add_slot.
    destruct x as [|x]; cbn [upd_nth sh_slots].
    - rewrite map_app. reflexivity.
    - f_equal. clear Hne s0. revert x. induction rest as [|y rest IH]; intros [|x]; cbn [upd_nth map]; try reflexivity.
      + rewrite map_app. reflexivity.
      + rewrite IH. reflexivity.
  Qed.

  Lemma map_sh_repeat k : map sh_slot (repeat SH k) = repeat SH k.
  Proof. induction k as [|k IH]; cbn [repeat map sh_slot]; [reflexivity | rewrite IH; reflexivity]. Qed.

  Lemma sh_slots_snoc sl new :
    sl <> [] -> sh_slots (sl ++ [new]) = sh_slots sl ++ [map sh_slot new].
  Proof.
    intro Hne. destruct sl as [|s0 rest]; [contradiction|]. cbn [app sh_slots]. rewrite map_app. reflexivity.
  Qed.

  Lemma embed_slots_add s x sl' :
    length (p_slots s) = length (p_atoms s) -> 0 < length (p_atoms s) ->
    add_slot (n + x) (sh_slot sl') (add_slot c (SAtom n) (p_slots S) ++ sh_slots (p_slots s)) =
    add_slot c (SAtom n) (p_slots S) ++ sh_slots (add_slot x sl' (p_slots s)).
  Proof.
    intros Hl Hp. unfold add_slot at 1.
    replace n with (length (add_slot c (SAtom n) (p_slots S))) at 1 by (rewrite add_slot_length; exact Hslots).
    rewrite upd_nth_app2. f_equal. rewrite sh_slots_add; [reflexivity|].
    destruct (p_slots s); [cbn in Hl; lia | discriminate].
  Qed.

  (* one step of the fragment, alone and embedded *)
  Lemma step_embed s t s' :
    good s -> t <> TDot ->
    (forall l, t = TRing l -> find_open l (p_open s) = None -> find_open l (p_open S) = None) ->
    step s t = Some s' -> step (embed s) t = Some (embed s') /\ good s'.
  Proof.
    intros ([x Hx] & Hl & Hp & H0) Hnd Hfresh Hstep.
    assert (Hne : p_slots s <> []) by (destruct (p_slots s); [cbn in Hl; lia | discriminate]).
    destruct t as [a | b | | | l | ]; cbn [step] in *; [ | | | | | congruence].
    - (* atom *)
      rewrite Hx in Hstep. inversion Hstep; subst s'; clear Hstep. split.
      + unfold embed. cbn [p_cur p_atoms p_slots p_bonds p_rings p_stack p_pend p_open p_nring option_map].
        rewrite Hx. cbn [option_map].
        assert (E1 : length (p_atoms S ++ p_atoms s) = n + length (p_atoms s)) by (rewrite app_length; reflexivity).
        rewrite E1.
        replace (nth (n + x) (p_atoms S ++ p_atoms s) a) with (nth x (p_atoms s) a)
          by (symmetry; apply app_nth2_plus).
        f_equal. f_equal; try reflexivity.
        * rewrite app_assoc. reflexivity.
        * change (SAtom (n + length (p_atoms s))) with (sh_slot (SAtom (length (p_atoms s)))).
          rewrite embed_slots_add by assumption.
          rewrite sh_slots_snoc.
          2:{ unfold add_slot; intro E; apply (f_equal (@length _)) in E; rewrite upd_nth_length in E;
              destruct (p_slots s); [contradiction | discriminate]. }
          rewrite <- app_assoc. cbn [map sh_slot]. rewrite map_sh_repeat. reflexivity.
        * rewrite map_app. cbn [map sh_bond]. rewrite <- !app_assoc. reflexivity.
      + repeat split.
        * exists (length (p_atoms s)). reflexivity.
        * cbn [p_slots p_atoms]. rewrite !app_length, add_slot_length. cbn [length]. lia.
        * cbn [p_atoms]. rewrite app_length. lia.
        * cbn [p_atoms]. rewrite nth_error_app1 by exact Hp. exact H0.
    - (* bond symbol *)
      rewrite Hx in Hstep. destruct (p_pend s) eqn:Ep; [discriminate|].
      inversion Hstep; subst s'; clear Hstep. split.
      + unfold embed. cbn [p_cur p_atoms p_slots p_bonds p_rings p_stack p_pend p_open p_nring]. rewrite Hx, Ep. cbn [option_map]. reflexivity.
      + repeat split; try assumption. exists x; first [exact Hx | reflexivity].
    - (* open branch *)
      rewrite Hx in Hstep. destruct (p_pend s) eqn:Ep; [discriminate|].
      inversion Hstep; subst s'; clear Hstep. split.
      + unfold embed. cbn [p_cur p_atoms p_slots p_bonds p_rings p_stack p_pend p_open p_nring]. rewrite Hx, Ep. cbn [option_map map app]. reflexivity.
      + repeat split; try assumption. exists x; first [exact Hx | reflexivity].
    - (* close branch *)
      destruct (p_stack s) as [|y st] eqn:Es; [discriminate|]. destruct (p_pend s) eqn:Ep; [discriminate|].
      inversion Hstep; subst s'; clear Hstep. split.
      + unfold embed. cbn [p_cur p_atoms p_slots p_bonds p_rings p_stack p_pend p_open p_nring]. rewrite Es, Ep. cbn [map app option_map]. reflexivity.
      + repeat split; try assumption. exists y. reflexivity.
    - (* ring-closure label *)
      rewrite Hx in Hstep. unfold embed. cbn [p_cur p_atoms p_slots p_bonds p_rings p_stack p_pend p_open p_nring]. rewrite Hx. cbn [option_map].
      rewrite find_open_sh.
      destruct (find_open l (p_open s)) as [[[a b0] k]|] eqn:Ef.
      + destruct (Nat.eqb a x) eqn:Eax; [discriminate|].
        replace (Nat.eqb (n + a) (n + x)) with false
          by (symmetry; apply Nat.eqb_neq; apply Nat.eqb_neq in Eax; lia).
        destruct (merge_bsym b0 (p_pend s)) as [ob|]; [|discriminate].
        inversion Hstep; subst s'; clear Hstep. split.
        * cbn [p_atoms p_slots p_bonds p_rings p_cur p_stack p_pend p_open p_nring option_map].
          replace (nth (n + a) (p_atoms S ++ p_atoms s) (mkAtom [] false false 0 ChNone 0 0%Z))
            with (nth a (p_atoms s) (mkAtom [] false false 0 ChNone 0 0%Z)) by (symmetry; apply app_nth2_plus).
          replace (nth (n + x) (p_atoms S ++ p_atoms s) (mkAtom [] false false 0 ChNone 0 0%Z))
            with (nth x (p_atoms s) (mkAtom [] false false 0 ChNone 0 0%Z)) by (symmetry; apply app_nth2_plus).
          f_equal. f_equal; try reflexivity.
          -- change (SRing (r0 + k)) with (sh_slot (SRing k)). apply embed_slots_add; assumption.
          -- rewrite map_app. cbn [map sh_bond]. rewrite <- !app_assoc. reflexivity.
          -- rewrite map_app. cbn [map sh_ring]. rewrite <- app_assoc. reflexivity.
          -- apply remove_open_sh. rewrite Ef. discriminate.
        * repeat split; try assumption; cbn [p_slots p_atoms]; [exists x; first [exact Hx | reflexivity] | rewrite add_slot_length; exact Hl].
      + rewrite (Hfresh l eq_refl Ef).
        inversion Hstep; subst s'; clear Hstep. split.
        * cbn [p_atoms p_slots p_bonds p_rings p_cur p_stack p_pend p_open p_nring option_map map sh_open app].
          f_equal. f_equal; try reflexivity; [| rewrite Nat.add_succ_r; reflexivity].
          change (SRing (r0 + p_nring s)) with (sh_slot (SRing (p_nring s))). apply embed_slots_add; assumption.
        * repeat split; try assumption; cbn [p_slots p_atoms]; [exists x; first [exact Hx | reflexivity] | rewrite add_slot_length; exact Hl].
  Qed.

  (* labels of a token list *)
  Definition fresh_labels (ts : list tok) : Prop :=
    forall l, In (TRing l) ts -> find_open l (p_open S) = None.

  Lemma run_embed ts : forall s s',
    good s -> ~ In TDot ts -> fresh_labels ts ->
    run s ts = Some s' -> run (embed s) ts = Some (embed s') /\ good s'.
  Proof.
    induction ts as [|t ts IH]; intros s s' Hg Hnd Hfr Hrun; cbn [run] in *.
    - inversion Hrun; subst. split; [reflexivity | exact Hg].
    - destruct (step s t) as [s1|] eqn:E; [|discriminate].
      destruct (step_embed s t s1 Hg) as [E1 Hg1].
      + intro; subst; apply Hnd; left; reflexivity.
      + intros l -> _. apply Hfr. left; reflexivity.
      + exact E.
      + rewrite E1. apply IH; try assumption.
        * intro H; apply Hnd; right; exact H.
        * intros l Hl. apply Hfr. right; exact Hl.
  Qed.
End Emb.

(* The theorem: splicing the fragment (first atom a0, then rest) after a host prefix whose state is S. *)
Theorem fragment_embeds (S : pst) (c : nat) (a0 : atom) (rest : list tok) (sk : pst) :
  p_cur S = Some c -> p_pend S = None -> length (p_slots S) = length (p_atoms S) ->
  ~ In TDot rest -> fresh_labels S rest ->
  run pst0 (TAtom a0 :: rest) = Some sk ->
  run S (TAtom a0 :: rest) = Some (embed S c a0 sk).
Proof.
  intros Hc Hp Hl Hnd Hfr Hrun.
  cbn [run step] in Hrun. cbn [pst0 p_cur p_pend] in Hrun.
  cbn [run step]. rewrite Hc, Hp.
  set (s1 := mkPst (p_atoms pst0 ++ [a0]) (p_slots pst0 ++ [repeat SH (a_h a0)]) (p_bonds pst0) (p_rings pst0)
                   (Some (length (p_atoms pst0))) (p_stack pst0) None (p_open pst0) (p_nring pst0)) in *.
  assert (Hg : good a0 s1).
  { unfold good, s1. cbn. repeat split; try lia; eauto. }
  destruct (run_embed S c Hl a0 rest s1 sk Hg Hnd Hfr Hrun) as [E _].
  assert (Es : embed S c a0 s1 =
               mkPst (p_atoms S ++ [a0]) (add_slot c (SAtom (length (p_atoms S))) (p_slots S) ++ [SAtom c :: repeat SH (a_h a0)])
                     (p_bonds S ++ [(c, length (p_atoms S), default_bond (nth c (p_atoms S) a0) a0)]) (p_rings S)
                     (Some (length (p_atoms S))) (p_stack S) None (p_open S) (p_nring S)).
  { unfold embed, s1. cbn [pst0 p_atoms p_slots p_bonds p_rings p_cur p_stack p_pend p_open p_nring app map option_map length sh_slots].
    rewrite Nat.add_0_r, app_nil_r. f_equal.
    - rewrite (map_sh_repeat S). reflexivity.
    - apply Nat.add_0_r. }
  rewrite <- Es. exact E.
Qed.

Lemma run_app ts1 : forall ts2 s, run s (ts1 ++ ts2) = match run s ts1 with Some s1 => run s1 ts2 | None => None end.
Proof.
  induction ts1 as [|t r IH]; intros ts2 s; cbn [app run]; [reflexivity|].
  destruct (step s t); [apply IH | reflexivity].
Qed.
