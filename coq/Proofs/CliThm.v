(* Proofs/CliThm.v -- convert_generator and the command-line entry point (main, parse_list), over the program
   regenerated from converter.py and __main__.py. *)
From Coq Require Import String ZArith List Bool Lia.
From GV Require Import Model.PyLite Gen.Converter Proofs.PyLiteLemmas Proofs.ConverterThm Proofs.ConverterSinks.
Import ListNotations.
Open Scope string_scope.
Open Scope list_scope.

Section P.
  Variable conv : value -> value -> res string.
  Hypothesis conv_exc : forall g f, conv g f <> inr ExExit.
  Notation call := (call conv program).
  Notation exec := (exec conv program).
  Notation eval := (eval conv program).
  Notation pair_of := (pair_of conv).

  (* the two loops of convert_generator: one pair is yielded per item, in order; the world is untouched *)
  Lemma yield_loop k full rs : 14 <= k -> forall en w ys,
    lookup "full" en = Some full ->
    exists en',
      for_loop (block_with (exec k) [SYield (ECall "generate" [EVar "glycan"; EVar "full"] [])]) ["glycan"] rs (mkSt en w ys)
      = (ONormal, mkSt en' w (ys ++ map (pair_of full) rs)) /\
      frame ["glycan"] en en'.
  Proof.
    intro Hk. do 6 (destruct k as [|k]; [lia|]).
    induction rs as [|r rs IH]; intros en w ys Hf.
    - exists en. rewrite for_loop_nil. cbn [map]. rewrite app_nil_r. split; [reflexivity | apply frame_refl].
    - rewrite for_loop_cons. pycbn. py.
      rewrite lookup_update_eq. pycbn. py. rewrite lookup_update_neq by discriminate. rewrite Hf. pycbn. py.
      rewrite (generate_spec' conv conv_exc) by lia. pycbn. py.
      destruct (IH (update "glycan" r en) w (ys ++ [pair_of full r])) as (en' & E & F).
      { rewrite lookup_update_neq by discriminate. exact Hf. }
      exists en'. rewrite E. split.
      + cbn [map]. rewrite <- app_assoc. reflexivity.
      + intros y Hy. rewrite F by exact Hy. apply lookup_update_neq. intro; subst; apply Hy; left; reflexivity.
  Qed.

  Ltac lk :=
    repeat match goal with
           | |- context [lookup ?x (update ?x _ _)] => rewrite lookup_update_eq
           | |- context [lookup ?y (update ?x _ _)] => rewrite (lookup_update_neq x y) by discriminate
           | F : frame _ _ ?e |- context [lookup ?y ?e] => rewrite (F y) by notin
           end; pycbn.

  Ltac yloop full :=
    match goal with
    | |- context [for_loop (block_with (exec ?k) [SYield _]) _ ?rs (mkSt ?en ?w ?ys)] =>
        let en' := fresh "en'" in let E := fresh "E" in let F := fresh "F" in
        destruct (yield_loop k full rs ltac:(lia) en w ys) as (en' & E & F);
        [ lk; reflexivity | rewrite E; clear E; pycbn ]
    end.

  Ltac gog full :=
    repeat (first [ progress run | progress lk | yloop full | progress py ]).

  Definition gen_outcome (inputs : list value) (gen : value) : outcome :=
    if no_input inputs gen then OReturn VNone else ONormal.

  (* convert_generator yields exactly one pair per input, in the documented order, for inputs of any length;
     when it is exhausted (or raises) the logger flag is back *)
  Theorem convert_generator_spec fuel g l f gen verbose cpu full w ls fl items :
    list_arg l ls -> file_arg w f fl -> gen_arg gen items ->
    (verbose = VNone -> w_disabled w = false) ->
    call_gen conv program (40 + fuel) "convert_generator" [g; l; f; gen; verbose; cpu; full] [] w =
    (gen_outcome (optv g ++ ls ++ fl) gen, map (pair_of full) ((optv g ++ ls ++ fl) ++ items), w).
  Proof.
    intros Hl Hf Hg Hv. cbn [Nat.add]. unfold call_gen, gen_outcome.
    rewrite ff_convert_generator. unfold fn_convert_generator. pycbn.
    remember (optv g ++ ls ++ fl) as L eqn:HL.
    sstep.
    change (match verbose with VNone => true | _ => false end) with (is_none verbose).
    destruct (is_none verbose) eqn:Ev; pycbn.
    - assert (verbose = VNone) by (destruct verbose; try discriminate; reflexivity); subst verbose.
      specialize (Hv eq_refl). clear Ev.
      assert (Hw : w_set_disabled (w_set_disabled w true) false = w)
        by (destruct w; unfold w_set_disabled; cbn in *; subst; reflexivity).
      run. rewrite (preprocess_spec' conv) with (ls := ls) (fl := fl) by (try lia; try assumption; apply file_arg_disabled; assumption).
      rewrite <- HL. pycbn. run.
      destruct (Z.eqb (Z.of_nat (length L)) 0) eqn:El; pycbn.
      + apply len0_true in El. rewrite El. destruct Hg; pycbn; gog full; rewrite ?Hw; reflexivity.
      + rewrite len0_false by exact El. destruct Hg; pycbn; repeat (progress (gog full; rewrite ?El; pycbn)); rewrite ?Hw, ?app_nil_r, ?map_app; reflexivity.
    - assert (Hvb : forall T (a b : T), (if match verbose with VNone => true | _ => false end then a else b) = b)
        by (intros; destruct verbose; try discriminate; reflexivity).
      run. rewrite (preprocess_spec' conv) with (ls := ls) (fl := fl) by (try lia; assumption).
      rewrite <- HL. pycbn. run.
      destruct (Z.eqb (Z.of_nat (length L)) 0) eqn:El; pycbn.
      + apply len0_true in El. rewrite El. destruct Hg; pycbn; repeat (progress (gog full; rewrite ?Hvb; pycbn)); reflexivity.
      + rewrite len0_false by exact El.
        destruct Hg; pycbn; repeat (progress (gog full; rewrite ?El, ?Hvb; pycbn)); rewrite ?app_nil_r, ?map_app; reflexivity.
  Qed.

  (* ---------------------------------------------------------------- the command line *)

  Definition expand1 (w : world) (x : string) : list value :=
    match file_lines w x with Some lines => stripped lines | None => [VStr x] end.
  Definition expand (w : world) (xs : list string) : list value := flat_map (expand1 w) xs.

  Lemma map_res_pure_in (gf : value -> world -> res value * world) (h : value -> value) l w :
    (forall i w, In i l -> gf i w = (inl (h i), w)) -> map_res gf l w = (inl (map h l), w).
  Proof.
    intro H. induction l as [|i l IH]; cbn [map_res map]; [reflexivity|].
    rewrite H by (left; reflexivity). rewrite IH by (intros j w0 Hj; apply H; right; exact Hj). reflexivity.
  Qed.

  Lemma strip_comp k (enf : value -> env) lines w :
    4 <= k -> (forall i, lookup "x" (enf i) = Some i) ->
    map_res (fun i w => eval k (EPrim "strip" [EVar "x"]) (enf i) w) (map VStr lines) w = (inl (stripped lines), w).
  Proof.
    intros Hk Hx. unfold stripped.
    rewrite <- (map_map VStr (fun v => match v with VStr s => VStr (py_strip s) | _ => v end)).
    apply map_res_pure_in. intros i w0 Hin. apply in_map_iff in Hin as (s & <- & _).
    do 4 (destruct k as [|k]; [lia|]). py. rewrite Hx. pycbn. py. reflexivity.
  Qed.

  (* parse_list: files are expanded in place, everything else is taken as a glycan, order kept *)
  Lemma parse_loop k xs : 12 <= k -> forall en w ys l0,
    lookup "glycans" en = Some (VList l0) ->
    exists en',
      for_loop (block_with (exec k)
                  [SIf (EPrim "isfile" [EVar "x"])
                     [SAssign "data" (EPrim "open" [EVar "x"; EConst (VStr "r")]);
                      SExtend "glycans" (EListComp (EPrim "strip" [EVar "x"]) "x" (EPrim "readlines" [EVar "data"]))]
                     [SAppend "glycans" (EVar "x")]]) ["x"] (map VStr xs) (mkSt en w ys)
      = (ONormal, mkSt en' w ys) /\
      lookup "glycans" en' = Some (VList (l0 ++ expand w xs)) /\
      frame ["x"; "data"; "glycans"] en en'.
  Proof.
    intro Hk. do 8 (destruct k as [|k]; [lia|]).
    induction xs as [|x xs IH]; intros en w ys l0 Hg.
    - exists en. cbn [map]. rewrite for_loop_nil. unfold expand; cbn [flat_map]. rewrite app_nil_r.
      split; [reflexivity|]. split; [exact Hg | apply frame_refl].
    - cbn [map]. rewrite for_loop_cons. pycbn. py. rewrite lookup_update_eq. pycbn. py.
      unfold isfile. unfold expand; cbn [flat_map]. unfold expand1 at 1.
      destruct (file_lines w x) as [lines|] eqn:Ef; pycbn.
      + py. rewrite lookup_update_eq. pycbn. py. rewrite Ef. pycbn. py.
        rewrite lookup_update_eq. pycbn. py. rewrite Ef. pycbn.
        rewrite strip_comp by (try lia; intro; apply lookup_update_eq). pycbn.
        rewrite !lookup_update_neq by discriminate. rewrite Hg. pycbn. py.
        set (en1 := update "glycans" _ _).
        destruct (IH en1 w ys (l0 ++ stripped lines)) as (en' & E & G & F); [unfold en1; apply lookup_update_eq|].
        exists en'. rewrite E. split; [reflexivity|]. split.
        * rewrite G. rewrite <- app_assoc. reflexivity.
        * intros y Hy. rewrite F by exact Hy. unfold en1.
          rewrite !lookup_update_neq; [reflexivity| | |]; intro; subst; apply Hy; cbn; auto.
      + py. rewrite lookup_update_eq. pycbn. rewrite lookup_update_neq by discriminate. rewrite Hg. pycbn. py.
        set (en1 := update "glycans" _ _).
        destruct (IH en1 w ys (l0 ++ [VStr x])) as (en' & E & G & F); [unfold en1; apply lookup_update_eq|].
        exists en'. rewrite E. split; [reflexivity|]. split.
        * rewrite G. rewrite <- app_assoc. reflexivity.
        * intros y Hy. rewrite F by exact Hy. unfold en1.
          rewrite !lookup_update_neq; [reflexivity| |]; intro; subst; apply Hy; cbn; auto.
  Qed.

  Lemma ff_parse_list' : find_fun "parse_list" program = Some fn_parse_list. Proof. reflexivity. Qed.

  Lemma parse_list_spec k xs w : 16 <= k ->
    call k "parse_list" [VList (map VStr xs)] [] w = (inl (VList (expand w xs)), w).
  Proof.
    intro Hk. do 4 (destruct k as [|k]; [lia|]).
    rewrite call_eq, ff_parse_list'. unfold fn_parse_list. pycbn. sstep. sstep.
    match goal with |- context [for_loop (block_with (exec ?k0) _) _ _ (mkSt ?en ?w0 ?ys)] =>
      destruct (parse_loop k0 xs ltac:(lia) en w0 ys []) as (en' & E & G & F); [reflexivity|] end.
    rewrite E. pycbn. run. py. rewrite G. pycbn. reflexivity.
  Qed.

  Definition notflag (x : string) : Prop := x <> "-i" /\ x <> "--input" /\ x <> "-o" /\ x <> "--output".

  Lemma take_args_strs xs rest :
    Forall notflag xs ->
    take_args (map VStr xs ++ VStr "-o" :: rest) = (map VStr xs, VStr "-o" :: rest).
  Proof.
    induction xs as [|x xs IH]; intro H; cbn [map app].
    - reflexivity.
    - inversion H as [|? ? (N1 & N2 & N3 & N4) H']; subst. cbn [take_args].
      destruct (String.eqb_spec x "-i"); [contradiction|].
      destruct (String.eqb_spec x "--input"); [contradiction|].
      destruct (String.eqb_spec x "-o"); [contradiction|].
      destruct (String.eqb_spec x "--output"); [contradiction|].
      cbn [orb]. rewrite IH by exact H'. reflexivity.
  Qed.

  Lemma parse_args_io xs out x0 :
    Forall notflag (x0 :: xs) -> notflag out ->
    parse_args (VStr "-i" :: map VStr (x0 :: xs) ++ [VStr "-o"; VStr out]) =
    inl (VDict [("input", VList (map VStr (x0 :: xs))); ("output", VStr out)]).
  Proof.
    intros H (N1 & N2 & N3 & N4). unfold parse_args.
    rewrite (take_args_strs (x0 :: xs) [VStr out]) by exact H.
    cbn [take_args].
    destruct (String.eqb_spec out "-i"); [contradiction|].
    destruct (String.eqb_spec out "--input"); [contradiction|].
    destruct (String.eqb_spec out "-o"); [contradiction|].
    destruct (String.eqb_spec out "--output"); [contradiction|].
    cbn. reflexivity.
  Qed.

  (* keyword calls of convert() as main() makes them: the same environment as the positional call *)
  Lemma call_kw_list k data out w :
    call k "convert" [] [("glycan_list", data); ("output_file", VStr out)] w =
    call k "convert" [VNone; data; VNone; VNone; VStr out; VBool true; VInt 20; VInt 1; VBool true] [] w.
  Proof. destruct k; [reflexivity|]. rewrite !call_eq, ff_convert. reflexivity. Qed.
  Lemma call_kw_file k x out w :
    call k "convert" [] [("glycan_file", VStr x); ("output_file", VStr out)] w =
    call k "convert" [VNone; VNone; VStr x; VNone; VStr out; VBool true; VInt 20; VInt 1; VBool true] [] w.
  Proof. destruct k; [reflexivity|]. rewrite !call_eq, ff_convert. reflexivity. Qed.
  Lemma call_kw_glycan k x out w :
    call k "convert" [] [("glycan", VStr x); ("output_file", VStr out)] w =
    call k "convert" [VStr x; VNone; VNone; VNone; VStr out; VBool true; VInt 20; VInt 1; VBool true] [] w.
  Proof. destruct k; [reflexivity|]. rewrite !call_eq, ff_convert. reflexivity. Qed.

  Lemma convert_file' k g l f gen returning verbose cpu full w ls fl items p :
    40 <= k -> list_arg l ls -> file_arg w f fl -> gen_arg gen items ->
    (verbose = VNone -> w_disabled w = false) ->
    existsb (String.eqb p) (w_parent_ok w) = true ->
    call k "convert" [g; l; f; gen; VStr p; returning; verbose; cpu; full] [] w =
    (inl VNone, if no_input (optv g ++ ls ++ fl) gen then w
                else write_file p (map (fmt conv full) ((optv g ++ ls ++ fl) ++ items)) w).
  Proof.
    intros Hk. replace k with (40 + (k - 40)) by lia. apply convert_file. exact conv_exc.
  Qed.

  Lemma len1_eq1 (a : value) : Z.eqb (Z.of_nat (length [a])) 1 = true.
  Proof. reflexivity. Qed.
  Lemma len2_neq1 (a b : value) l : Z.eqb (Z.of_nat (length (a :: b :: l))) 1 = false.
  Proof. apply Z.eqb_neq. cbn [length]. lia. Qed.

  Definition listing (w : world) (out : string) (xs : list string) : world :=
    match expand w xs with
    | [] => w
    | pairs => write_file out (map (fmt conv (VBool true)) pairs) w
    end.

  (* the command-line contract, for every argument list: each -i argument that names an existing file is a list of
     glycans (one per line, stripped), every other one a glycan, in order of appearance; one line 'input,SMILES'
     each in the -o file; entries that cannot be converted get an empty SMILES and do not stop the run *)
  Theorem main_spec fuel x0 xs out w :
    Forall notflag (x0 :: xs) -> notflag out ->
    file_lines w out = None ->                                   (* no overwrite prompt *)
    existsb (String.eqb out) (w_parent_ok w) = true ->
    call (70 + fuel) "main" [VList (VStr "-i" :: map VStr (x0 :: xs) ++ [VStr "-o"; VStr out])] [] w =
    (inl VNone, listing w out (x0 :: xs)).
  Proof.
    intros Hfl Hout Hfresh Hpar. cbn [Nat.add].
    rewrite call_eq, ff_main. unfold fn_main. pycbn.
    sstep.
    change (VStr x0 :: map VStr xs ++ [VStr "-o"; VStr out]) with (map VStr (x0 :: xs) ++ [VStr "-o"; VStr out]).
    rewrite parse_args_io by assumption. pycbn.
    sstep. unfold isfile. rewrite Hfresh. pycbn. rewrite block_nil. pycbn.
    destruct xs as [|x1 xs].
    - (* a single argument *)
      cbn [map]. run. py. change (Z.of_nat 1) with (Z.of_nat (length [VStr x0])). rewrite len1_eq1. pycbn. run. py.
      change (0 <? 0)%Z with false. change (Z.to_nat 0) with 0. pycbn. run. py.
      unfold listing, expand. cbn [flat_map]. rewrite app_nil_r. unfold expand1.
      unfold isfile.
      destruct (file_lines w x0) as [lines|] eqn:Ef; pycbn.
      + run. py. rewrite call_kw_file.
        rewrite convert_file' with (ls := []) (fl := stripped lines) (items := [])
          by (try lia; try constructor; try assumption; try discriminate).
        pycbn. rewrite app_nil_r. unfold optv, not_none, no_input, is_none. cbn [app].
        destruct (stripped lines); reflexivity.
      + run. py. rewrite call_kw_glycan.
        rewrite convert_file' with (ls := []) (fl := []) (items := [])
          by (try lia; try constructor; try assumption; try discriminate).
        pycbn. reflexivity.
    - (* several arguments: parse_list *)
      cbn [map]. run. py.
      change (Z.of_nat (S (S (length (map VStr xs))))) with (Z.of_nat (length (VStr x0 :: VStr x1 :: map VStr xs))).
      rewrite len2_neq1. pycbn. run. py.
      change (VStr x0 :: VStr x1 :: map VStr xs) with (map VStr (x0 :: x1 :: xs)).
      rewrite parse_list_spec by lia. pycbn. run. py.
      rewrite call_kw_list.
      rewrite convert_file' with (ls := expand w (x0 :: x1 :: xs)) (fl := []) (items := [])
        by (try lia; try constructor; try assumption; try discriminate).
      pycbn. rewrite !app_nil_r. unfold listing, optv, not_none, no_input, is_none. cbn [app].
      destruct (expand w (x0 :: x1 :: xs)); reflexivity.
  Qed.
End P.
