(* Proofs/SmilesFacts.v -- facts about the SMILES semantics that hold for every token list. *)
From Coq Require Import Ascii String ZArith Bool Arith Lia List.
From GV Require Import Base.Util Spec.Smiles Spec.Chem.
Import ListNotations.
Open Scope list_scope.
Open Scope nat_scope.

Fixpoint tok_atoms (ts : list tok) : list atom :=
  match ts with
  | [] => []
  | TAtom a :: r => a :: tok_atoms r
  | _ :: r => tok_atoms r
  end.

Lemma tok_atoms_app a b : tok_atoms (a ++ b) = tok_atoms a ++ tok_atoms b.
Proof.
  induction a as [|t a IH]; cbn [app tok_atoms]; [reflexivity|].
  destruct t; cbn [app]; rewrite ?IH; reflexivity.
Qed.

Lemma step_atoms s t s' : step s t = Some s' -> p_atoms s' = p_atoms s ++ tok_atoms [t].
Proof.
  unfold step. destruct t; cbn [tok_atoms]; rewrite ?app_nil_r.
  - destruct (p_cur s); [intro H; inversion H; reflexivity|].
    destruct (p_pend s); [discriminate | intro H; inversion H; reflexivity].
  - destruct (p_cur s), (p_pend s); try discriminate; intro H; inversion H; reflexivity.
  - destruct (p_cur s), (p_pend s); try discriminate; intro H; inversion H; reflexivity.
  - destruct (p_stack s), (p_pend s); try discriminate; intro H; inversion H; reflexivity.
  - destruct (p_cur s); [|discriminate].
    destruct (find_open l (p_open s)) as [[[a b0] k]|].
    + destruct (Nat.eqb a n); [discriminate|].
      destruct (merge_bsym b0 (p_pend s)); [|discriminate]. intro H; inversion H; reflexivity.
    + intro H; inversion H; reflexivity.
  - destruct (p_cur s), (p_pend s); try discriminate; intro H; inversion H; reflexivity.
Qed.

Lemma run_atoms ts : forall s s', run s ts = Some s' -> p_atoms s' = p_atoms s ++ tok_atoms ts.
Proof.
  induction ts as [|t ts IH]; intros s s'; cbn [run].
  - intro H; inversion H. cbn [tok_atoms]. rewrite app_nil_r. reflexivity.
  - destruct (step s t) as [s1|] eqn:E; [|discriminate]. intro H.
    rewrite (IH _ _ H), (step_atoms _ _ _ E). rewrite <- app_assoc. f_equal.
    destruct t; reflexivity.
Qed.

(* the atoms of the molecule a string denotes are its atom tokens, in order, unchanged *)
Theorem sem_atoms ts m : sem ts = Some m -> m_atoms m = tok_atoms ts.
Proof.
  unfold sem, opt_bind. destruct (run pst0 ts) as [s|] eqn:E; [|discriminate].
  unfold finish. destruct (p_stack s), (p_open s), (p_pend s), (p_atoms s) eqn:Ea; try discriminate.
  unfold opt_bind. destruct (resolve_all (p_rings s) 0 (p_slots s)); [|discriminate].
  intro H; inversion H; subst m. cbn [m_atoms].
  apply run_atoms in E. cbn [pst0 p_atoms app] in E. congruence.
Qed.

(* splicing a fragment over one atom token: every other atom of the host and every atom of the fragment is
   there, in place, and nothing else (all hosts, all fragments, all positions) *)
Theorem splice_atoms pre mk child post mh mg :
  sem (pre ++ TAtom mk :: post) = Some mh -> sem (pre ++ child ++ post) = Some mg ->
  m_atoms mh = tok_atoms pre ++ mk :: tok_atoms post /\
  m_atoms mg = tok_atoms pre ++ tok_atoms child ++ tok_atoms post.
Proof.
  intros H1 H2. apply sem_atoms in H1. apply sem_atoms in H2.
  rewrite H1, H2, !tok_atoms_app. split; reflexivity.
Qed.

Definition count_sym (sym : str) (l : list atom) : nat :=
  length (filter (fun a => str_eqb (a_sym a) sym) l).

Lemma count_sym_app sym a b : count_sym sym (a ++ b) = count_sym sym a + count_sym sym b.
Proof. unfold count_sym. rewrite filter_app, app_length. reflexivity. Qed.

(* element balance of a splice: glycan = host - marker + fragment, for every element symbol *)
Theorem splice_element_balance sym pre mk child post mh mg mc :
  sem (pre ++ TAtom mk :: post) = Some mh -> sem (pre ++ child ++ post) = Some mg -> sem child = Some mc ->
  count_sym sym (m_atoms mg) + count_sym sym [mk] = count_sym sym (m_atoms mh) + count_sym sym (m_atoms mc).
Proof.
  intros H1 H2 H3. destruct (splice_atoms _ _ _ _ _ _ H1 H2) as [E1 E2].
  apply sem_atoms in H3. rewrite E1, E2, H3.
  change (mk :: tok_atoms post) with ([mk] ++ tok_atoms post).
  rewrite !count_sym_app. lia.
Qed.

(* a string the semantics accepts has balanced parentheses and no ring label left open *)
Theorem sem_closed ts m :
  sem ts = Some m -> exists s, run pst0 ts = Some s /\ p_stack s = [] /\ p_open s = [] /\ p_pend s = None.
Proof.
  unfold sem, opt_bind. destruct (run pst0 ts) as [s|] eqn:E; [|discriminate].
  unfold finish. destruct (p_stack s) eqn:A, (p_open s) eqn:B, (p_pend s) eqn:Cc, (p_atoms s); try discriminate.
  intros _. exists s. repeat split; assumption.
Qed.
