(* Proofs/TableKinds.v -- the two tables that decide how a group is attached agree with each other, for every entry of
   the regenerated functional_groups table: a token is in preserve_elem (the position's O / N is kept and carries the
   group) exactly when its fragment is not written from a heteroatom of its own (Spec/Modify.fragment_kind = KCarry).
   Otherwise the fragment's leading O stands for the position's oxygen (KShareO) or its leading N / halogen replaces it
   (KReplace).  "P" is excepted: positioned "P" is always read through the bridge branch of react, which passes no element. *)
From Coq Require Import Ascii String Bool Arith List.
From GV Require Import Base.Util Spec.Smiles Spec.Chem Spec.Modify Gen.Tables.
Import ListNotations.
Open Scope string_scope.

Definition in_list (t : string) (l : list string) : bool := existsb (String.eqb t) l.

Definition kind_matches (e : string * string) : bool :=
  let (tok, frag) := e in
  if String.eqb tok "" || String.eqb frag "" || String.eqb tok "P" then true
  else match sem_str (s2l frag) with
       | Some F => match fragment_kind F with
                   | KCarry => in_list tok preserve_elem
                   | _ => negb (in_list tok preserve_elem)
                   end
       | None => false
       end.

Lemma table_kinds_check : forallb kind_matches functional_groups = true.
Proof. vm_compute. reflexivity. Qed.

Lemma in_list_In t l : in_list t l = true <-> In t l.
Proof.
  unfold in_list. rewrite existsb_exists. split.
  - intros [x [Hx He]]. apply String.eqb_eq in He. subst. exact Hx.
  - intro H. exists t. split; [exact H|apply String.eqb_refl].
Qed.

Theorem preserve_elem_is_the_carried_groups tok frag :
  In (tok, frag) functional_groups -> tok <> "" -> frag <> "" -> tok <> "P" ->
  exists F, sem_str (s2l frag) = Some F /\ (fragment_kind F = KCarry <-> In tok preserve_elem).
Proof.
  intros Hin H1 H2 H3.
  pose proof (proj1 (forallb_forall _ _) table_kinds_check _ Hin) as H. unfold kind_matches in H.
  apply String.eqb_neq in H1, H2, H3. rewrite H1, H2, H3 in H. cbn [orb] in H.
  destruct (sem_str (s2l frag)) as [F|]; [|discriminate]. exists F. split; [reflexivity|].
  rewrite <- in_list_In. destruct (fragment_kind F); split; intro Hk; try discriminate; try reflexivity; try exact H.
  - rewrite Hk in H. discriminate.
  - rewrite Hk in H. discriminate.
Qed.
