(* Proofs/GrammarEq.v -- a checker for "two EBNF grammars are the same up to the order inside alternatives that
   consist of single tokens" (ANTLR merges such alternatives into sets and loses their order), and the theorem that
   grammars related by the checker derive exactly the same token lists. *)
From Coq Require Import String Bool Arith Lia List.
From GV Require Import Spec.Ebnf.
Import ListNotations.
Open Scope list_scope.

Fixpoint alts (e : expr) : list expr := match e with Alt a b => alts a ++ alts b | _ => [e] end.

Definition is_tok (e : expr) : bool := match e with Tok _ => true | _ => false end.
Definition all_toks (l : list expr) : bool := forallb is_tok l.
Definition tok_in (l : list expr) (e : expr) : bool :=
  match e with
  | Tok t => existsb (fun x => match x with Tok u => String.eqb t u | _ => false end) l
  | _ => false
  end.
Definition same_tokset (la lb : list expr) : bool := forallb (tok_in lb) la && forallb (tok_in la) lb.

Fixpoint eqv (a b : expr) : bool :=
  match a with
  | Tok t => match b with Tok u => String.eqb t u | _ => false end
  | NT n => match b with NT m => String.eqb n m | _ => false end
  | Seq a1 a2 => match b with Seq b1 b2 => eqv a1 b1 && eqv a2 b2 | _ => false end
  | Alt a1 a2 =>
      if all_toks (alts a1 ++ alts a2) && all_toks (alts b) then same_tokset (alts a1 ++ alts a2) (alts b)
      else match b with Alt b1 b2 => eqv a1 b1 && eqv a2 b2 | _ => false end
  | Star a1 => match b with Star b1 => eqv a1 b1 | _ => false end
  | Plus a1 => match b with Plus b1 => eqv a1 b1 | _ => false end
  | Opt a1 => match b with Opt b1 => eqv a1 b1 | _ => false end
  | Eps => match b with Eps => true | _ => false end
  end.

Fixpoint rules_eqv (g1 g2 : grammar) : bool :=
  match g1, g2 with
  | [], [] => true
  | (n1, e1) :: r1, (n2, e2) :: r2 => String.eqb n1 n2 && eqv e1 e2 && rules_eqv r1 r2
  | _, _ => false
  end.

Section G.
  Variable g : grammar.

  Lemma Der_alts e w : Der g e w <-> exists x, In x (alts e) /\ Der g x w.
  Proof.
    assert (Single : forall e', alts e' = [e'] -> (Der g e' w <-> exists x, In x (alts e') /\ Der g x w)).
    { intros e' E. rewrite E. split.
      - intro D. exists e'. split; [left; reflexivity | exact D].
      - intros (x & Hx & D). destruct Hx as [<-|[]]. exact D. }
    induction e as [t | n | a IHa b IHb | a IHa b IHb | a IHa | a IHa | a IHa | ]; try (apply Single; reflexivity).
    cbn [alts]. split.
    - intro D. inversion D; subst;
        match goal with H : Der g _ _ |- _ =>
          first [ apply IHa in H; destruct H as (x & Hx & Dx); exists x; split; [apply in_or_app; left; exact Hx | exact Dx]
                | apply IHb in H; destruct H as (x & Hx & Dx); exists x; split; [apply in_or_app; right; exact Hx | exact Dx] ]
        end.
    - intros (x & Hx & Dx). apply in_app_or in Hx as [Hx|Hx].
      + apply DAltL. apply IHa. eauto.
      + apply DAltR. apply IHb. eauto.
  Qed.

  Lemma tokset_transfer la lb x w :
    all_toks la = true -> forallb (tok_in lb) la = true -> In x la -> Der g x w -> exists y, In y lb /\ Der g y w.
  Proof.
    intros Ha Hf Hin D. unfold all_toks in Ha. rewrite forallb_forall in Ha, Hf.
    specialize (Ha _ Hin). specialize (Hf _ Hin). destruct x as [t| | | | | | | ]; try discriminate.
    cbn [tok_in] in Hf. apply existsb_exists in Hf as (y & Hy & E). destruct y as [u| | | | | | | ]; try discriminate.
    apply String.eqb_eq in E. subst u. exists (Tok t). split; assumption.
  Qed.

  Lemma alt_group a1 a2 b w :
    all_toks (alts a1 ++ alts a2) && all_toks (alts b) = true -> same_tokset (alts a1 ++ alts a2) (alts b) = true ->
    (Der g (Alt a1 a2) w <-> Der g b w).
  Proof.
    intros H Hs. apply andb_true_iff in H as [Ha Hb]. apply andb_true_iff in Hs as [H1 H2].
    change (alts a1 ++ alts a2) with (alts (Alt a1 a2)) in *. split; intro D.
    - apply Der_alts in D as (x & Hx & Dx). apply Der_alts. exact (tokset_transfer _ _ x w Ha H1 Hx Dx).
    - apply Der_alts in D as (x & Hx & Dx). apply Der_alts. exact (tokset_transfer _ _ x w Hb H2 Hx Dx).
  Qed.

  Lemma eqv_fwd : forall a w, Der g a w -> forall b, eqv a b = true -> Der g b w.
  Proof.
    induction 1 as [t | n e w Hl D IH | a1 a2 u v D1 IH1 D2 IH2 | a1 a2 u D IH | a1 a2 u D IH
                    | a1 | a1 u v D1 IH1 D2 IH2 | a1 u v D1 IH1 D2 IH2 | a1 | a1 u D IH | ]; intros b E; cbn [eqv] in E.
    - destruct b; try discriminate. apply String.eqb_eq in E; subst. constructor.
    - destruct b; try discriminate. apply String.eqb_eq in E; subst. econstructor; eassumption.
    - destruct b; try discriminate. apply andb_true_iff in E as [E1 E2]. constructor; [apply IH1 | apply IH2]; assumption.
    - destruct (all_toks (alts a1 ++ alts a2) && all_toks (alts b)) eqn:Eg.
      + apply (alt_group a1 a2 b u Eg E). apply DAltL. exact D.
      + destruct b; try discriminate. apply andb_true_iff in E as [E1 E2]. apply DAltL. apply IH; exact E1.
    - destruct (all_toks (alts a1 ++ alts a2) && all_toks (alts b)) eqn:Eg.
      + apply (alt_group a1 a2 b u Eg E). apply DAltR. exact D.
      + destruct b; try discriminate. apply andb_true_iff in E as [E1 E2]. apply DAltR. apply IH; exact E2.
    - destruct b; try discriminate. constructor.
    - destruct b as [| | | | b1 | | | ]; try discriminate. apply DStarS; [apply IH1; exact E | apply (IH2 (Star b1)); exact E].
    - destruct b as [| | | | | b1 | | ]; try discriminate. apply DPlus; [apply IH1; exact E | apply (IH2 (Star b1)); exact E].
    - destruct b; try discriminate. constructor.
    - destruct b; try discriminate. apply DOpt1. apply IH; exact E.
    - destruct b; try discriminate. constructor.
  Qed.

  (* shapes of a that can be related to a b which is not a group of tokens *)
  Lemma eqv_alt_left a1 a2 b :
    all_toks (alts b) = false -> eqv (Alt a1 a2) b = true -> exists b1 b2, b = Alt b1 b2 /\ eqv a1 b1 = true /\ eqv a2 b2 = true.
  Proof.
    intros Hb E. cbn [eqv] in E. rewrite Hb, andb_false_r in E. destruct b; try discriminate.
    apply andb_true_iff in E as [E1 E2]. eauto.
  Qed.

  Lemma eqv_bwd : forall b w, Der g b w -> forall a, eqv a b = true -> Der g a w.
  Proof.
    induction 1 as [t | n e w Hl D IH | b1 b2 u v D1 IH1 D2 IH2 | b1 b2 u D IH | b1 b2 u D IH
                    | b1 | b1 u v D1 IH1 D2 IH2 | b1 u v D1 IH1 D2 IH2 | b1 | b1 u D IH | ]; intros a E.
    - (* b = Tok t *)
      destruct a as [t' | | | a1 a2 | | | | ]; cbn [eqv] in E; try discriminate.
      + apply String.eqb_eq in E; subst. constructor.
      + destruct (all_toks (alts a1 ++ alts a2) && all_toks (alts (Tok t))) eqn:Eg; [|discriminate].
        apply (alt_group a1 a2 (Tok t) [t] Eg E). constructor.
    - destruct a as [ | n' | | a1 a2 | | | | ]; cbn [eqv] in E; try discriminate.
      + apply String.eqb_eq in E; subst. econstructor; eassumption.
      + cbn [alts all_toks forallb is_tok] in E. rewrite andb_false_r in E. discriminate.
    - destruct a as [ | | a1 a2 | a1 a2 | | | | ]; cbn [eqv] in E; try discriminate.
      + apply andb_true_iff in E as [E1 E2]. constructor; [apply IH1 | apply IH2]; assumption.
      + cbn [alts all_toks forallb is_tok] in E. rewrite andb_false_r in E. discriminate.
    - (* b = Alt b1 b2, left *)
      destruct a as [t' | | | a1 a2 | | | | ]; cbn [eqv] in E; try discriminate.
      destruct (all_toks (alts a1 ++ alts a2) && all_toks (alts (Alt b1 b2))) eqn:Eg.
      + apply (alt_group a1 a2 (Alt b1 b2) u Eg E). apply DAltL. exact D.
      + apply andb_true_iff in E as [E1 E2]. apply DAltL. apply IH; exact E1.
    - destruct a as [t' | | | a1 a2 | | | | ]; cbn [eqv] in E; try discriminate.
      destruct (all_toks (alts a1 ++ alts a2) && all_toks (alts (Alt b1 b2))) eqn:Eg.
      + apply (alt_group a1 a2 (Alt b1 b2) u Eg E). apply DAltR. exact D.
      + apply andb_true_iff in E as [E1 E2]. apply DAltR. apply IH; exact E2.
    - destruct a as [ | | | a1 a2 | a1 | | | ]; cbn [eqv] in E; try discriminate.
      + cbn [alts all_toks forallb is_tok] in E. rewrite andb_false_r in E. discriminate.
      + constructor.
    - destruct a as [ | | | a1 a2 | a1 | | | ]; cbn [eqv] in E; try discriminate.
      + cbn [alts all_toks forallb is_tok] in E. rewrite andb_false_r in E. discriminate.
      + apply DStarS; [apply IH1; exact E | apply (IH2 (Star a1)); exact E].
    - destruct a as [ | | | a1 a2 | | a1 | | ]; cbn [eqv] in E; try discriminate.
      + cbn [alts all_toks forallb is_tok] in E. rewrite andb_false_r in E. discriminate.
      + apply DPlus; [apply IH1; exact E | apply (IH2 (Star a1)); exact E].
    - destruct a as [ | | | a1 a2 | | | a1 | ]; cbn [eqv] in E; try discriminate.
      + cbn [alts all_toks forallb is_tok] in E. rewrite andb_false_r in E. discriminate.
      + constructor.
    - destruct a as [ | | | a1 a2 | | | a1 | ]; cbn [eqv] in E; try discriminate.
      + cbn [alts all_toks forallb is_tok] in E. rewrite andb_false_r in E. discriminate.
      + apply DOpt1. apply IH; exact E.
    - destruct a as [ | | | a1 a2 | | | | ]; cbn [eqv] in E; try discriminate.
      + cbn [alts all_toks forallb is_tok] in E. rewrite andb_false_r in E. discriminate.
      + constructor.
  Qed.
End G.

Lemma lookup_eqv_l g1 : forall g2 n e1,
  rules_eqv g1 g2 = true -> lookup_rule n g1 = Some e1 -> exists e2, lookup_rule n g2 = Some e2 /\ eqv e1 e2 = true.
Proof.
  induction g1 as [|[n1 x1] r1 IH]; intros [|[n2 x2] r2] n e1 H L; cbn [rules_eqv lookup_rule] in *; try discriminate.
  apply andb_true_iff in H as [H H3]. apply andb_true_iff in H as [H1 H2]. apply String.eqb_eq in H1. subst n2.
  destruct (String.eqb n n1); [inversion L; subst; eauto | eapply IH; eassumption].
Qed.

Lemma lookup_eqv_r g1 : forall g2 n e2,
  rules_eqv g1 g2 = true -> lookup_rule n g2 = Some e2 -> exists e1, lookup_rule n g1 = Some e1 /\ eqv e1 e2 = true.
Proof.
  induction g1 as [|[n1 x1] r1 IH]; intros [|[n2 x2] r2] n e2 H L; cbn [rules_eqv lookup_rule] in *; try discriminate.
  apply andb_true_iff in H as [H H3]. apply andb_true_iff in H as [H1 H2]. apply String.eqb_eq in H1. subst n2.
  destruct (String.eqb n n1); [inversion L; subst; eauto | eapply IH; eassumption].
Qed.

(* grammars related by the checker derive the same token lists from every expression *)
Theorem rules_eqv_fwd g1 g2 : rules_eqv g1 g2 = true -> forall e w, Der g1 e w -> Der g2 e w.
Proof.
  intros H e w D. induction D as [t | n e w Hl D IH | | | | | | | | | ]; try (constructor; assumption).
  destruct (lookup_eqv_l _ _ _ _ H Hl) as (e2 & L2 & E). econstructor; [exact L2|]. eapply eqv_fwd; eassumption.
Qed.

Theorem rules_eqv_bwd g1 g2 : rules_eqv g1 g2 = true -> forall e w, Der g2 e w -> Der g1 e w.
Proof.
  intros H e w D. induction D as [t | n e w Hl D IH | | | | | | | | | ]; try (constructor; assumption).
  destruct (lookup_eqv_r _ _ _ _ H Hl) as (e1 & L1 & E). econstructor; [exact L1|]. eapply eqv_bwd; eassumption.
Qed.
