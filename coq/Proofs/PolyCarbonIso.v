(* Proofs/PolyCarbonIso.v -- the unbounded theorem of Proofs/PolyCarbonParse.v extended to iso and anteiso chains:
   names "6iC<n>[={...}]" and "6aiC<n>[={...}]". *)
From Coq Require Import Ascii String Bool Arith List Lia.
From GV Require Import Base.Util Spec.Acyl Model.PolyCarbon Proofs.PolyCarbonGen Proofs.PolyCarbonThm Proofs.PolyCarbonParse.
Import ListNotations.
Open Scope nat_scope.

(* ------------------------------------------------------------------ the specification's text with a branch *)

Lemma chain_text_no_branch dbs marks br : forall fuel k m,
  br < k -> m + 1 - k <= fuel ->
  chain_text fuel k m br dbs marks = gen (fun j => bond_text j dbs marks) (k - 1) (m + 1 - k).
Proof.
  induction fuel as [|f IH]; intros k m Hk Hf; cbn [chain_text].
  - replace (m + 1 - k) with 0 by lia. reflexivity.
  - destruct (Nat.ltb_spec m k) as [Hlt|Hge].
    + replace (m + 1 - k) with 0 by lia. reflexivity.
    + replace (m + 1 - k) with (S (m + 1 - S k)) by lia. rewrite gen_S. unfold unit_.
      destruct (Nat.eqb_spec k br) as [->|_]; [lia|]. cbn [app].
      rewrite (IH (S k) m) by lia. replace (S k - 1) with k by lia. replace (S (k - 1)) with k by lia.
      rewrite <- !app_assoc. reflexivity.
Qed.

Lemma chain_text_branch dbs marks br : forall fuel k m,
  1 <= k -> k <= br -> br <= m -> m + 1 - k <= fuel ->
  chain_text fuel k m br dbs marks =
  gen (fun j => bond_text j dbs marks) (k - 1) (br + 1 - k) ++ s2l "(C)" ++ gen (fun j => bond_text j dbs marks) br (m - br).
Proof.
  induction fuel as [|f IH]; intros k m Hk Hkb Hbm Hf; [lia|]. cbn [chain_text].
  destruct (Nat.ltb_spec m k) as [Hlt|_]; [lia|].
  destruct (Nat.eqb_spec k br) as [E|N].
  - subst br. replace (k + 1 - k) with 1 by lia. rewrite gen_S. unfold unit_. cbn [gen seq flat_map].
    rewrite (chain_text_no_branch dbs marks k f (S k) m) by lia.
    replace (S k - 1) with k by lia. replace (m + 1 - S k) with (m - k) by lia.
    rewrite <- !app_assoc. cbn [app]. reflexivity.
  - replace (br + 1 - k) with (S (br + 1 - S k)) by lia. rewrite gen_S. unfold unit_. cbn [app].
    rewrite (IH (S k) m) by lia. replace (S k - 1) with k by lia. replace (S (k - 1)) with k by lia.
    rewrite <- !app_assoc. reflexivity.
Qed.

Lemma replace_dslash_gen_app t : (forall j, mark_like (t j)) -> forall len a rest,
  replace_dslash (gen t a len ++ rest) = gen t a len ++ replace_dslash rest.
Proof.
  intros Ht. induction len as [|len IH]; intros a rest; [reflexivity|].
  rewrite gen_S. unfold unit_. specialize (IH (S a) rest). rewrite <- !app_assoc.
  destruct (Ht a) as [E|[E|[E|E]]]; rewrite E; cbn [app s2l list_ascii_of_string bs].
  - rewrite rd_cons by reflexivity. rewrite IH. reflexivity.
  - rewrite rd_slash by reflexivity. rewrite rd_cons by reflexivity. rewrite IH. reflexivity.
  - rewrite rd_cons by reflexivity. rewrite rd_cons by reflexivity. rewrite IH. reflexivity.
  - rewrite rd_cons by reflexivity. rewrite rd_cons by reflexivity. rewrite IH. reflexivity.
Qed.

Lemma tx_beyond dbs j : (forall d, In d dbs -> snd d + 1 < j) -> tx (mods_of dbs) j = [].
Proof.
  intro H. unfold tx. destruct (find (fun y => Nat.eqb (fst y) j) (mods_of dbs)) as [y|] eqn:E; [|reflexivity].
  apply find_some in E as [Hin He]. apply Nat.eqb_eq in He.
  unfold mods_of in Hin. apply in_flat_map in Hin as [[k p] [Hd Hy]]. specialize (H _ Hd). cbn [snd] in H.
  destruct k; cbn [mods_of_db In] in Hy; repeat (destruct Hy as [<-|Hy]; [cbn [fst] in He; lia|]); destruct Hy.
Qed.

Definition end_of (ante : bool) : str := if ante then s2l "(C)CC" else s2l "(C)C".
Definition sub_of (ante : bool) : nat := if ante then 3 else 2.

(* UNBOUNDED: the assembly half on iso (ante = false) and anteiso (ante = true) chains *)
Theorem assemble_iso ante n dbs :
  dbs <> [] -> isolated_from 0 dbs -> acyl_ok (mkAcyl true ante n dbs) = true ->
  assemble n (sub_of ante) (end_of ante) true (Some (mods_of dbs)) = acyl_text (mkAcyl true ante n dbs).
Proof.
  intros Hne Hiso Hok.
  pose proof Hok as Hok'. unfold acyl_ok in Hok'. cbn [ac_iso ac_ante ac_n ac_dbs main_len branch_at] in Hok'.
  repeat (apply andb_true_iff in Hok' as [Hok' ?]).
  match goal with H : forallb _ dbs = true |- _ => rename H into Hall end.
  match goal with H : (5 <=? n) = true |- _ => apply Nat.leb_le in H; rename H into Hn end.
  rewrite forallb_forall in Hall.
  set (br := if ante then n - 3 else n - 2) in *.
  assert (Hbr : br = n - sub_of ante) by (unfold br, sub_of; destruct ante; reflexivity).
  assert (Hsub : 2 <= sub_of ante <= 3) by (unfold sub_of; destruct ante; lia).
  assert (Hfacts : forall k p, In (k, p) dbs -> 2 <= p /\ p + 1 < br /\ (k <> DbPlain -> p + 2 <= n - 1)).
  { intros k p Hd. specialize (Hall _ Hd). cbn beta iota in Hall.
    repeat (apply andb_true_iff in Hall as [Hall ?]).
    destruct k; repeat match goal with H : (_ <=? _) = true |- _ => apply Nat.leb_le in H
                                   | H : (_ <? _) = true |- _ => apply Nat.ltb_lt in H end;
      (split; [lia|split; [lia|intro; try lia; try congruence]]). }
  assert (Hpos : forall y, In y (mods_of dbs) -> 1 <= fst y /\ fst y < br).
  { intros y Hy. unfold mods_of in Hy. apply in_flat_map in Hy as [[k p] [Hd Hy]].
    destruct (Hfacts k p Hd) as [F1 [F2 _]].
    destruct k; cbn [mods_of_db In] in Hy; repeat (destruct Hy as [<-|Hy]; [cbn [fst]; lia|]); destruct Hy. }
  assert (Hdb : Forall (fun d => snd d + 1 <= n - sub_of ante - 1 + 1) dbs).
  { apply Forall_forall. intros [k p] Hd. destruct (Hfacts k p Hd) as [F1 [F2 _]]. cbn [snd]. lia. }
  unfold assemble.
  destruct (Nat.ltb_spec n (sub_of ante + 1)) as [Hlt|_]; [lia|]. cbn [negb].
  remember (mods_of dbs) as ms eqn:Ems. destruct ms as [|m0 ms'].
  { exfalso. destruct dbs as [|[k p] r]; [contradiction|]. unfold mods_of in Ems. cbn [flat_map] in Ems.
    destruct k; discriminate Ems. }
  rewrite Ems. rewrite Ems in Hpos. clear Ems m0 ms'.
  rewrite repeat_length.
  destruct (Nat.ltb_spec (n - sub_of ante - 1) (max_pos (mods_of dbs) - 1)) as [Hbad|_].
  { pose proof (max_pos_le (mods_of dbs) (br - 1) (fun y Hy => ltac:(destruct (Hpos y Hy); lia))). lia. }
  rewrite existsb_false.
  2:{ intros y Hy. destruct (Hpos y Hy) as [Hy1 _]. destruct (Nat.eqb_spec (fst y) 0); [lia|reflexivity]. }
  unfold acyl_text. rewrite Hok. cbn [ac_iso ac_ante ac_n ac_dbs main_len branch_at]. fold br.
  f_equal. fold (cs (n - sub_of ante - 1)).
  rewrite (loop_on_isolated_double_bonds dbs (n - sub_of ante - 1) Hiso Hdb).
  rewrite (render_pointwise (mods_of dbs) 0 (n - sub_of ante - 1)).
  2:{ apply mods_of_ascending. exact Hiso. }
  2:{ intros y Hy. destruct (Hpos y Hy). lia. }
  2:{ lia. }
  rewrite replace_dslash_start. f_equal.
  rewrite replace_dslash_gen_app by (intro j; apply tx_mark_like; exact Hiso).
  rewrite (chain_text_branch dbs (marks_of dbs []) br n 2 (n - 1)) by lia.
  replace (n - sub_of ante - 1 - 0) with (br - 1) by lia. replace (br + 1 - 2) with (br - 1) by lia.
  cbn [Nat.add Nat.sub].
  assert (Egen : gen (fun j => bond_text j dbs (marks_of dbs [])) 1 (br - 1) = gen (tx (mods_of dbs)) 1 (br - 1)).
  { apply gen_ext. intros j _. apply bond_text_is_tx. exact Hiso. }
  rewrite Egen. f_equal.
  (* the branched end: no double bond and no mark reaches it *)
  rewrite (gen_empty (fun j => bond_text j dbs (marks_of dbs [])) br (n - 1 - br)).
  - unfold end_of, sub_of, br. destruct ante.
    + replace (n - 1 - (n - 3)) with 2 by lia. reflexivity.
    + replace (n - 1 - (n - 2)) with 1 by lia. reflexivity.
  - intros j Hj. rewrite (bond_text_is_tx dbs j Hiso). apply tx_beyond.
    intros [k p] Hd. destruct (Hfacts k p Hd) as [_ [F2 _]]. cbn [snd]. lia.
Qed.

(* ------------------------------------------------------------------ the parsing half with letters before the C *)

Definition non_digits (l : str) : bool := forallb (fun c => negb (is_digit c)) l.

Lemma numbers_aux_skip_many pre : forall l fuel, non_digits pre = true ->
  numbers_aux (length pre + fuel) (pre ++ l) = numbers_aux fuel l.
Proof.
  induction pre as [|c r IH]; intros l fuel H; [reflexivity|].
  unfold non_digits in H. cbn [forallb] in H. apply andb_true_iff in H as [Hc Hr]. apply negb_true_iff in Hc.
  cbn [length app Nat.add]. rewrite numbers_aux_skip by exact Hc. apply IH. exact Hr.
Qed.

Section Mid.
  Variables (m0 : ascii) (mid' : str).
  Let mid := m0 :: mid'.
  Hypothesis Hnd : non_digits mid = true.
  Hypothesis Hnb : no_brace mid = true.

  Lemma numbers_name_gen n tail :
    match tail with [] => True | c :: _ => is_digit c = false end ->
    nth_error (numbers ("6"%char :: mid ++ nat2str n ++ tail)) 1 = Some (nat2str n).
  Proof.
    intro Ht. destruct (nat2str_spec n) as [Hd [Hne _]].
    assert (Hm0 : is_digit m0 = false).
    { unfold non_digits, mid in Hnd. cbn [forallb] in Hnd. apply andb_true_iff in Hnd as [H _]. apply negb_true_iff in H. exact H. }
    unfold numbers. cbn [length]. rewrite numbers_aux_digit by reflexivity.
    change ("6"%char :: mid ++ nat2str n ++ tail) with (["6"%char] ++ m0 :: mid' ++ nat2str n ++ tail).
    rewrite (span_digits_app ["6"%char] (m0 :: mid' ++ nat2str n ++ tail)) by (reflexivity || exact Hm0).
    change (m0 :: mid' ++ nat2str n ++ tail) with (mid ++ nat2str n ++ tail).
    rewrite app_length.
    replace (S (length mid + length (nat2str n ++ tail))) with (length mid + S (length (nat2str n ++ tail))) by lia.
    rewrite (numbers_aux_skip_many mid _ _ Hnd).
    destruct (nat2str n) as [|c0 r0] eqn:E; [contradiction|].
    pose proof Hd as Hd'. cbn [forallb] in Hd'. apply andb_true_iff in Hd' as [Hc0 _].
    cbn [app length]. rewrite numbers_aux_digit by exact Hc0.
    change (c0 :: r0 ++ tail) with ((c0 :: r0) ++ tail).
    rewrite (span_digits_app (c0 :: r0) tail Hd Ht). reflexivity.
  Qed.

  Lemma scanners_gen n dbs :
    dbs <> [] ->
    let name := "6"%char :: mid ++ nat2str n ++ tail_of dbs in
    groups name = [body_of dbs] /\ part_mods name (body_of dbs) = Some (mods_of dbs) /\
    nth_error (numbers name) 1 = Some (nat2str n).
  Proof.
    intros Hne name.
    destruct (nat2str_spec n) as [Hd [Hnn Hv]].
    destruct (body_props dbs Hne) as [Hsplit Hgrp].
    set (pre0 := "6"%char :: mid ++ nat2str n).
    set (body := body_of dbs) in *.
    assert (Etail : tail_of dbs = "="%char :: "{"%char :: body ++ ["}"%char]).
    { unfold tail_of. destruct dbs; [contradiction|reflexivity]. }
    assert (Ename : name = (pre0 ++ ["="%char]) ++ "{"%char :: body ++ ["}"%char]).
    { unfold name. rewrite Etail. unfold pre0. cbn [app]. rewrite <- !app_assoc. reflexivity. }
    assert (Hnb' : no_brace (pre0 ++ ["="%char]) = true).
    { unfold pre0. change ("6"%char :: mid ++ nat2str n) with (["6"%char] ++ mid ++ nat2str n).
      rewrite !no_brace_app, Hnb, (digits_no_brace _ Hd). reflexivity. }
    split; [|split].
    - rewrite Ename. unfold groups. rewrite app_length.
      replace (S (length (pre0 ++ ["="%char]) + length ("{"%char :: body ++ ["}"%char])))
        with (length (pre0 ++ ["="%char]) + S (length ("{"%char :: body ++ ["}"%char]))) by lia.
      rewrite (groups_aux_skip _ _ _ Hnb'). cbn [length groups_aux].
      replace (chr_is "{" "{") with true by reflexivity.
      rewrite (span_group_app body ["}"%char] Hgrp) by reflexivity. cbv beta iota.
      replace (chr_is "}" "}") with true by reflexivity. rewrite ?groups_aux_nil. reflexivity.
    - unfold part_mods. change (s2l "{" ++ body ++ s2l "}") with ("{"%char :: body ++ ["}"%char]).
      rewrite Ename at 1. rewrite (index_sub_skip _ _ Hnb').
      rewrite app_length. cbn [length]. rewrite Nat.add_1_r.
      assert (Enth : nth_error name (length pre0) = Some "="%char).
      { unfold name. rewrite Etail.
        replace ("6"%char :: mid ++ nat2str n ++ "="%char :: "{"%char :: body ++ ["}"%char])
          with (pre0 ++ "="%char :: "{"%char :: body ++ ["}"%char]) by (unfold pre0; cbn [app]; rewrite <- !app_assoc; reflexivity).
        apply nth_error_mid. }
      unfold nth_is, nth_chr. rewrite Enth.
      replace (chr_is "=" "c") with false by reflexivity. replace (chr_is "=" "=") with true by reflexivity.
      rewrite Hsplit. apply seq_opt_eq_mods.
    - unfold name. apply numbers_name_gen. rewrite Etail. reflexivity.
  Qed.
End Mid.

Lemma name_shape_iso ante n dbs :
  name_of (mkAcyl true ante n dbs) =
  "6"%char :: (if ante then s2l "aiC" else s2l "iC") ++ nat2str n ++ tail_of dbs.
Proof.
  unfold name_of, acyl_token. cbn [ac_ante ac_iso ac_n ac_dbs].
  destruct ante; cbn [s2l list_ascii_of_string app];
    (destruct dbs as [|d r]; [reflexivity|]); unfold tail_of, body_of; cbn [s2l list_ascii_of_string app];
    try rewrite <- !app_assoc; reflexivity.
Qed.

Theorem parse_half_iso ante n dbs :
  dbs <> [] ->
  parse_poly_carbon (name_of (mkAcyl true ante n dbs)) =
  assemble n (sub_of ante) (end_of ante) true (Some (mods_of dbs)).
Proof.
  intro Hne. rewrite name_shape_iso. destruct (nat2str_spec n) as [_ [_ Hv]].
  destruct ante.
  - destruct (scanners_gen "a"%char (s2l "iC") eq_refl eq_refl n dbs Hne) as [Hg [Hp Hn]].
    cbn [s2l list_ascii_of_string app] in *.
    unfold parse_poly_carbon.
    replace (nth_is 1 ("6"%char :: "a"%char :: "i"%char :: "C"%char :: nat2str n ++ tail_of dbs) "a") with true by reflexivity.
    cbn match. replace (nth_is 2 ("6"%char :: "a"%char :: "i"%char :: "C"%char :: nat2str n ++ tail_of dbs) "i") with true by reflexivity.
    rewrite Hn, Hv, Hg. cbn [andb negb map seq_opt]. rewrite Hp, app_nil_r. reflexivity.
  - destruct (scanners_gen "i"%char (s2l "C") eq_refl eq_refl n dbs Hne) as [Hg [Hp Hn]].
    cbn [s2l list_ascii_of_string app] in *.
    unfold parse_poly_carbon.
    replace (nth_is 1 ("6"%char :: "i"%char :: "C"%char :: nat2str n ++ tail_of dbs) "a") with false by reflexivity.
    cbn match. replace (nth_is 1 ("6"%char :: "i"%char :: "C"%char :: nat2str n ++ tail_of dbs) "i") with true by reflexivity.
    rewrite Hn, Hv, Hg. cbn [andb negb map seq_opt]. rewrite Hp, app_nil_r. reflexivity.
Qed.

(* UNBOUNDED: iso and anteiso chains of any length with any list of isolated double bonds the specification accepts *)
Theorem parse_poly_carbon_iso ante n dbs :
  dbs <> [] -> isolated_from 0 dbs -> acyl_ok (mkAcyl true ante n dbs) = true ->
  parse_poly_carbon (name_of (mkAcyl true ante n dbs)) = acyl_text (mkAcyl true ante n dbs).
Proof. intros Hne Hi Hok. rewrite (parse_half_iso ante n dbs Hne). apply assemble_iso; assumption. Qed.

Example parse_poly_carbon_iso_applies :
  and (isolated_from 0 [(DbCis, 5)]) (acyl_ok (mkAcyl true true 17 [(DbCis, 5)]) = true) /\
  option_map l2s (parse_poly_carbon (name_of (mkAcyl true true 17 [(DbCis, 5)]))) = Some "OC(=O)CCC/C=C\CCCCCCCC(C)CC"%string.
Proof. split; [split; [cbn; lia|vm_compute; reflexivity]|vm_compute; reflexivity]. Qed.
