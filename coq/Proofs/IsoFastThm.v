(* Proofs/IsoFastThm.v -- the fast isomorphism search computes exactly what Spec/Iso.v specifies. *)
From Coq Require Import Ascii String ZArith Bool Arith Lia List.
From GV Require Import Base.Util Spec.Smiles Spec.Chem Spec.Iso Spec.Graft Model.IsoFast.
Import ListNotations.
Open Scope list_scope.
Open Scope nat_scope.

Lemma flat_map_filter {A B} (f : A -> list B) (P : A -> bool) (l : list A) :
  (forall x, In x l -> P x = false -> f x = []) -> flat_map f (filter P l) = flat_map f l.
Proof.
  induction l as [|x l IH]; intro H; cbn [filter flat_map]; [reflexivity|].
  destruct (P x) eqn:E.
  - cbn [flat_map]. rewrite IH; [reflexivity|]. intros y Hy. apply H. right; exact Hy.
  - rewrite (H x (or_introl eq_refl) E). cbn [app]. apply IH. intros y Hy. apply H. right; exact Hy.
Qed.

Lemma existsb_filter {A} (f P : A -> bool) (l : list A) :
  (forall x, In x l -> P x = false -> f x = false) -> existsb f (filter P l) = existsb f l.
Proof.
  induction l as [|x l IH]; intro H; cbn [filter existsb]; [reflexivity|].
  destruct (P x) eqn:E.
  - cbn [existsb]. rewrite IH; [reflexivity|]. intros y Hy. apply H. right; exact Hy.
  - rewrite (H x (or_introl eq_refl) E). cbn [orb]. apply IH. intros y Hy. apply H. right; exact Hy.
Qed.

Lemma existsb_ext {A} (f g : A -> bool) (l : list A) : (forall x, f x = g x) -> existsb f l = existsb g l.
Proof. intro H. induction l as [|x l IH]; cbn [existsb]; [reflexivity|]. rewrite H, IH. reflexivity. Qed.

Lemma forallb_ext' {A} (f g : A -> bool) (l : list A) : (forall x, f x = g x) -> forallb f l = forallb g l.
Proof. intro H. induction l as [|x l IH]; cbn [forallb]; [reflexivity|]. rewrite H, IH. reflexivity. Qed.

(* forallb_i over phi gives the property for every position *)
Lemma forallb_i_nth {A} (f : nat -> A -> bool) (l : list A) : forall i0 k d,
  forallb_i f i0 l = true -> k < length l -> f (i0 + k) (nth k l d) = true.
Proof.
  induction l as [|x l IH]; intros i0 k d H Hk; cbn [length] in Hk; [lia|].
  cbn [forallb_i] in H. apply andb_true_iff in H as [H1 H2].
  destruct k as [|k]; cbn [nth].
  - rewrite Nat.add_0_r. exact H1.
  - replace (i0 + S k) with (S i0 + k) by lia. apply IH; [exact H2 | lia].
Qed.

(* a candidate outside [cands] is inconsistent *)
Lemma consistent_in_cands m1 m2 phi i j k :
  anchor m1 phi i = Some k -> adjacent m2 (nth k phi 0) j = false -> consistent m1 m2 phi i j = false.
Proof.
  intros Ha Hadj. unfold anchor in Ha. apply find_some in Ha as [Hin Hk]. apply in_seq in Hin.
  destruct (consistent m1 m2 phi i j) eqn:E; [|reflexivity]. exfalso.
  unfold consistent in E. apply andb_true_iff in E as [_ E].
  pose proof (forallb_i_nth _ phi 0 k 0 E) as H. cbn [Nat.add] in H. specialize (H ltac:(lia)).
  unfold adjacent in Hk, Hadj. apply Nat.eqb_eq in Hk, H. rewrite Hk in H. rewrite <- H in Hadj. discriminate.
Qed.

Lemma isos_from_f_eq m1 m2 todo : forall phi, isos_from_f m1 m2 todo phi = isos_from m1 m2 todo phi.
Proof.
  induction todo as [|i rest IH]; intro phi; cbn [isos_from_f isos_from]; [reflexivity|].
  unfold cands. destruct (anchor m1 phi i) as [k|] eqn:Ea.
  - rewrite flat_map_filter.
    + apply flat_map_ext. intro j. rewrite IH. reflexivity.
    + intros j _ Hj. rewrite (consistent_in_cands _ _ _ _ _ _ Ea Hj). reflexivity.
  - apply flat_map_ext. intro j. rewrite IH. reflexivity.
Qed.

Theorem all_isos_f_eq m1 m2 : all_isos_f m1 m2 = all_isos m1 m2.
Proof.
  unfold all_isos_f, all_isos.
  destruct ((length (m_atoms m1) =? length (m_atoms m2)) && (length (m_bonds m1) =? length (m_bonds m2)));
    [apply isos_from_f_eq | reflexivity].
Qed.

Lemma existsb_flat_map {A B} (p : B -> bool) (f : A -> list B) (l : list A) :
  existsb p (flat_map f l) = existsb (fun x => existsb p (f x)) l.
Proof. induction l as [|x l IH]; cbn [flat_map existsb]; [reflexivity|]. rewrite existsb_app, IH. reflexivity. Qed.

Lemma exists_from_eq p m1 m2 todo : forall phi,
  exists_from p m1 m2 todo phi = existsb p (isos_from m1 m2 todo phi).
Proof.
  induction todo as [|i rest IH]; intro phi; cbn [exists_from isos_from].
  - cbn [existsb]. rewrite orb_false_r. reflexivity.
  - rewrite existsb_flat_map. unfold cands. destruct (anchor m1 phi i) as [k|] eqn:Ea.
    + rewrite existsb_filter.
      * apply existsb_ext. intro j. rewrite IH. destruct (consistent m1 m2 phi i j); reflexivity.
      * intros j _ Hj. rewrite (consistent_in_cands _ _ _ _ _ _ Ea Hj). reflexivity.
    + apply existsb_ext. intro j. rewrite IH. destruct (consistent m1 m2 phi i j); reflexivity.
Qed.

Theorem exists_iso_eq p m1 m2 : exists_iso p m1 m2 = existsb p (all_isos m1 m2).
Proof.
  unfold exists_iso, all_isos.
  destruct ((length (m_atoms m1) =? length (m_atoms m2)) && (length (m_bonds m1) =? length (m_bonds m2)));
    cbn [andb existsb]; [apply exists_from_eq | reflexivity].
Qed.

Theorem void_centre_f_eq m c : void_centre_f m c = void_centre m c.
Proof. unfold void_centre_f, void_centre. apply exists_iso_eq. Qed.

Lemma diff_void_f_eq a b phi d : diff_void_f a b phi d = diff_void a b phi d.
Proof. destruct d as [i []]; cbn [diff_void_f diff_void]; try reflexivity; apply void_centre_f_eq. Qed.

Theorem same_molecule_f_eq m1 m2 : same_molecule_f m1 m2 = same_molecule m1 m2.
Proof.
  unfold same_molecule_f, same_molecule. cbv zeta. rewrite !exists_iso_eq. f_equal.
  apply existsb_ext. intro phi. f_equal. apply forallb_ext'. intro d. apply diff_void_f_eq.
Qed.

Theorem same_constitution_f_eq m1 m2 : same_constitution_f m1 m2 = same_constitution m1 m2.
Proof.
  unfold same_constitution_f, same_constitution. rewrite exists_iso_eq.
  destruct (all_isos (strip_h m1) (strip_h m2)); reflexivity.
Qed.

Theorem mirror_image_f_eq m1 m2 : mirror_image_f m1 m2 = mirror_image m1 m2.
Proof.
  unfold mirror_image_f, mirror_image. cbv zeta. rewrite exists_iso_eq.
  apply existsb_ext. intro phi. f_equal. apply forallb_ext'. intro i.
  destruct (a_chir _); rewrite ?diff_void_f_eq, ?void_centre_f_eq; reflexivity.
Qed.

Theorem iso_profiles_f_eq m1 m2 : iso_profiles_f m1 m2 = iso_profiles m1 m2.
Proof. unfold iso_profiles_f, iso_profiles. cbv zeta. rewrite all_isos_f_eq. reflexivity. Qed.

Theorem same_except_at_f_eq m1 m2 ok : same_except_at_f m1 m2 ok = same_except_at m1 m2 ok.
Proof.
  unfold same_except_at_f, same_except_at. cbv zeta. rewrite exists_iso_eq.
  apply existsb_ext. intro phi. f_equal. apply forallb_ext'. intro d. rewrite diff_void_f_eq. reflexivity.
Qed.

Theorem inverted_exactly_at_f_eq m1 m2 at_ : inverted_exactly_at_f m1 m2 at_ = inverted_exactly_at m1 m2 at_.
Proof.
  unfold inverted_exactly_at_f, inverted_exactly_at. cbv zeta. rewrite exists_iso_eq.
  apply existsb_ext. intro phi. f_equal. apply forallb_ext'. intro i. rewrite diff_void_f_eq. reflexivity.
Qed.

(* the decision "the output denotes the glycan" run with the fast search is the specified one *)
Theorem denotes_f_eq out t : denotes_with same_molecule_f out t = denotes out t.
Proof.
  unfold denotes, denotes_with. destruct (glycan_mol false t) as [g|]; [|reflexivity].
  rewrite same_molecule_f_eq. destruct (same_molecule out g); [reflexivity|].
  destruct t as [m kids]. destruct (anomeric m); [|reflexivity].
  destruct (glycan_mol true (GT m kids)) as [g'|]; [|reflexivity]. rewrite same_molecule_f_eq. reflexivity.
Qed.
