(* Proofs/Recog.v -- the recogniser of Spec/Ebnf.v is sound and, whenever it answers, complete:
   for every grammar, every expression, every token list. *)
From Coq Require Import String Bool Arith Lia List.
From GV Require Import Spec.Ebnf.
Import ListNotations.
Open Scope list_scope.

Lemma concat_opt_some {A} (l : list (option (list A))) r :
  concat_opt l = Some r ->
  (forall x, In x l -> exists lx, x = Some lx /\ incl lx r) /\
  (forall y, In y r -> exists lx, In (Some lx) l /\ In y lx).
Proof.
  revert r; induction l as [|o l IH]; intros r H; cbn [concat_opt] in H.
  - inversion H; subst. split; [intros x []|intros y []].
  - destruct o as [x|]; [|discriminate].
    destruct (concat_opt l) as [y|] eqn:E; [|discriminate]. inversion H; subst r. clear H.
    destruct (IH y eq_refl) as [H1 H2]. split.
    + intros z [<-|Hz].
      * exists x. split; [reflexivity|]. intros a Ha. apply in_or_app. left; exact Ha.
      * destruct (H1 z Hz) as (lz & -> & Hi). exists lz. split; [reflexivity|].
        intros a Ha. apply in_or_app. right. apply Hi, Ha.
    + intros a Ha. apply in_app_or in Ha as [Ha|Ha].
      * exists x. split; [left; reflexivity | exact Ha].
      * destruct (H2 a Ha) as (lx & Hin & Hy). exists lx. split; [right; exact Hin | exact Hy].
Qed.

Section G.
  Variable g : grammar.

  (* soundness: everything the recogniser returns is the rest after a derivable prefix *)
  Lemma ends_sound : forall fuel e w l, ends g fuel e w = Some l ->
    forall w', In w' l -> exists u, w = u ++ w' /\ Der g e u.
  Proof.
    induction fuel as [|f IH]; intros e w l H w' Hin; [discriminate|].
    destruct e; cbn [ends] in H.
    - (* Tok *)
      destruct w as [|x r]; [inversion H; subst; destruct Hin|].
      destruct (String.eqb x t) eqn:E; inversion H; subst; [|destruct Hin].
      destruct Hin as [<-|[]]. apply String.eqb_eq in E; subst. exists [t]. split; [reflexivity|constructor].
    - (* NT *)
      destruct (lookup_rule n g) as [b|] eqn:E; [|inversion H; subst; destruct Hin].
      destruct (IH _ _ _ H _ Hin) as (u & -> & D). exists u. split; [reflexivity|]. econstructor; eassumption.
    - (* Seq *)
      destruct (ends g f e1 w) as [l1|] eqn:E1; [|discriminate].
      destruct (concat_opt_some _ _ H) as [_ H2]. destruct (H2 _ Hin) as (lx & Hl & Hy).
      apply in_map_iff in Hl as (w1 & Hw1 & Hin1).
      destruct (IH _ _ _ E1 _ Hin1) as (u1 & -> & D1).
      destruct (IH _ _ _ Hw1 _ Hy) as (u2 & -> & D2).
      exists (u1 ++ u2). split; [rewrite app_assoc; reflexivity | constructor; assumption].
    - (* Alt *)
      destruct (ends g f e1 w) as [x|] eqn:E1; [|discriminate].
      destruct (ends g f e2 w) as [y|] eqn:E2; [|discriminate].
      inversion H; subst. apply in_app_or in Hin as [Hin|Hin].
      + destruct (IH _ _ _ E1 _ Hin) as (u & -> & D). exists u. split; [reflexivity | apply DAltL; exact D].
      + destruct (IH _ _ _ E2 _ Hin) as (u & -> & D). exists u. split; [reflexivity | apply DAltR; exact D].
    - (* Star *)
      destruct (ends g f e w) as [l1|] eqn:E1; [|discriminate].
      destruct (concat_opt _) as [r|] eqn:E2; [|discriminate].
      inversion H; subst. destruct Hin as [<-|Hin].
      + exists []. split; [reflexivity | constructor].
      + destruct (concat_opt_some _ _ E2) as [_ H2]. destruct (H2 _ Hin) as (lx & Hl & Hy).
        apply in_map_iff in Hl as (w1 & Hw1 & Hin1). apply filter_In in Hin1 as [Hin1 _].
        destruct (IH _ _ _ E1 _ Hin1) as (u1 & -> & D1).
        destruct (IH _ _ _ Hw1 _ Hy) as (u2 & -> & D2).
        exists (u1 ++ u2). split; [rewrite app_assoc; reflexivity | apply DStarS; assumption].
    - (* Plus *)
      destruct (ends g f e w) as [l1|] eqn:E1; [|discriminate].
      destruct (concat_opt_some _ _ H) as [_ H2]. destruct (H2 _ Hin) as (lx & Hl & Hy).
      apply in_map_iff in Hl as (w1 & Hw1 & Hin1).
      destruct (IH _ _ _ E1 _ Hin1) as (u1 & -> & D1).
      destruct (IH _ _ _ Hw1 _ Hy) as (u2 & -> & D2).
      exists (u1 ++ u2). split; [rewrite app_assoc; reflexivity | apply DPlus; assumption].
    - (* Opt *)
      destruct (ends g f e w) as [l1|] eqn:E1; [|discriminate].
      inversion H; subst. destruct Hin as [<-|Hin].
      + exists []. split; [reflexivity | constructor].
      + destruct (IH _ _ _ E1 _ Hin) as (u & -> & D). exists u. split; [reflexivity | apply DOpt1; exact D].
    - (* Eps *)
      inversion H; subst. destruct Hin as [<-|[]]. exists []. split; [reflexivity | constructor].
  Qed.

  (* completeness: if the recogniser answers at all, it has found the rest after every derivable prefix *)
  Lemma ends_complete : forall e u, Der g e u ->
    forall fuel w' l, ends g fuel e (u ++ w') = Some l -> In w' l.
  Proof.
    induction 1 as [t | n e w Hl D IH | a b u v Da IHa Db IHb | a b u D IH | a b u D IH
                    | a | a u v Da IHa Ds IHs | a u v Da IHa Ds IHs | a | a u D IH | ];
      intros fuel w' l H; (destruct fuel as [|f]; [discriminate|]); cbn [ends] in H.
    - cbn [app] in H. rewrite String.eqb_refl in H. inversion H; subst. left; reflexivity.
    - rewrite Hl in H. eapply IH; exact H.
    - rewrite <- app_assoc in H.
      destruct (ends g f a (u ++ v ++ w')) as [l1|] eqn:E1; [|discriminate].
      pose proof (IHa _ _ _ E1) as Hin1.
      destruct (concat_opt_some _ _ H) as [H1 _].
      destruct (H1 (ends g f b (v ++ w'))) as (lx & Hx & Hincl).
      { apply in_map_iff. exists (v ++ w'). split; [reflexivity | exact Hin1]. }
      apply Hincl. eapply IHb; exact Hx.
    - destruct (ends g f a (u ++ w')) as [x|] eqn:E1; [|discriminate].
      destruct (ends g f b (u ++ w')) as [y|] eqn:E2; [|discriminate].
      inversion H; subst. apply in_or_app. left. eapply IH; exact E1.
    - destruct (ends g f a (u ++ w')) as [x|] eqn:E1; [|discriminate].
      destruct (ends g f b (u ++ w')) as [y|] eqn:E2; [|discriminate].
      inversion H; subst. apply in_or_app. right. eapply IH; exact E2.
    - cbn [app] in H. destruct (ends g f a w') as [l1|]; [|discriminate].
      destruct (concat_opt _) as [r|]; [|discriminate]. inversion H; subst. left; reflexivity.
    - (* Star step: an empty iteration is absorbed, a non-empty one makes progress *)
      destruct u as [|x u].
      + cbn [app] in *. apply (IHs (S f) w' l). cbn [ends]. exact H.
      + rewrite <- app_assoc in H.
        destruct (ends g f a ((x :: u) ++ v ++ w')) as [l1|] eqn:E1; [|discriminate].
        destruct (concat_opt _) as [r|] eqn:E2; [|discriminate]. inversion H; subst. right.
        pose proof (IHa _ _ _ E1) as Hin1.
        destruct (concat_opt_some _ _ E2) as [H1 _].
        destruct (H1 (ends g f (Star a) (v ++ w'))) as (lx & Hx & Hincl).
        { apply in_map_iff. exists (v ++ w'). split; [reflexivity|].
          apply filter_In. split; [exact Hin1|]. apply Nat.ltb_lt. cbn [app length]. rewrite !app_length. lia. }
        apply Hincl. eapply IHs; exact Hx.
    - rewrite <- app_assoc in H.
      destruct (ends g f a (u ++ v ++ w')) as [l1|] eqn:E1; [|discriminate].
      pose proof (IHa _ _ _ E1) as Hin1.
      destruct (concat_opt_some _ _ H) as [H1 _].
      destruct (H1 (ends g f (Star a) (v ++ w'))) as (lx & Hx & Hincl).
      { apply in_map_iff. exists (v ++ w'). split; [reflexivity | exact Hin1]. }
      apply Hincl. eapply IHs; exact Hx.
    - cbn [app] in H. destruct (ends g f a w') as [l1|]; [|discriminate]. inversion H; subst. left; reflexivity.
    - destruct (ends g f a (u ++ w')) as [l1|] eqn:E1; [|discriminate]. inversion H; subst.
      right. eapply IH; exact E1.
    - cbn [app] in H. inversion H; subst. left; reflexivity.
  Qed.

  (* whenever the recogniser answers, its answer is the truth about derivability from the start rule *)
  Theorem recognise_spec fuel start w b :
    recognise g fuel start w = Some b -> (b = true <-> Der g (NT start) w).
  Proof.
    unfold recognise. destruct (ends g fuel (NT start) w) as [l|] eqn:E; [|discriminate].
    intro H; inversion H; subst b; clear H. split.
    - intro Hb. apply existsb_exists in Hb as (r & Hin & Hr). destruct r; [|discriminate].
      destruct (ends_sound _ _ _ _ E _ Hin) as (u & Hu & D). rewrite app_nil_r in Hu. subst. exact D.
    - intro D. apply existsb_exists. exists []. split; [|reflexivity].
      eapply ends_complete; [exact D|]. rewrite app_nil_r. exact E.
  Qed.
End G.
