(* Proofs/HistoryThm.v -- what a conversion leaves behind in the process: the exception path of convert(). *)
From Coq Require Import String ZArith List Bool Lia.
From GV Require Import Model.PyLite Gen.Converter Proofs.PyLiteLemmas Proofs.ConverterThm Proofs.ConverterSinks.
Import ListNotations.
Open Scope string_scope.
Open Scope list_scope.

Section P.
  Variable conv : value -> value -> res string.
  Hypothesis conv_exc : forall g f, conv g f <> inr ExExit.
  Notation call := (call conv program).
  Notation exec := (exec conv program).

  (* a glycan file that does not exist: preprocess_glycans raises ValueError, whatever else was passed *)
  Lemma preprocess_missing_file fuel g l p w ls :
    list_arg l ls -> file_lines w p = None ->
    call (12 + fuel) "preprocess_glycans" [g; l; VStr p] [] w = (inr ExValue, w).
  Proof.
    intros Hl Hp. cbn [Nat.add].
    rewrite call_eq, ff_preprocess. unfold fn_preprocess_glycans. pycbn.
    sstep. sstep.
    change (match g with VNone => false | _ => true end) with (not_none g).
    destruct (not_none g); pycbn; [sstep; rewrite block_nil|rewrite block_nil]; pycbn.
    all: sstep; destruct Hl; pycbn; [rewrite block_nil|sstep; rewrite block_nil|sstep; rewrite block_nil]; pycbn.
    all: repeat (first [progress run | progress (unfold isfile; rewrite Hp; pycbn) | progress py]); reflexivity.
  Qed.

  Lemma preprocess_missing_file' k g l p w ls :
    12 <= k -> list_arg l ls -> file_lines w p = None ->
    call k "preprocess_glycans" [g; l; VStr p] [] w = (inr ExValue, w).
  Proof. intros H Hl Hp. replace k with (12 + (k - 12)) by lia. eapply preprocess_missing_file; eassumption. Qed.

  (* ... and convert(verbose=None) hands the exception on with the process state exactly as it found it:
     the root logger is enabled again, nothing was printed, no file was touched *)
  Theorem convert_missing_file_restores fuel g l p gen ofile returning cpu full w ls :
    list_arg l ls -> file_lines w p = None -> w_disabled w = false ->
    call (40 + fuel) "convert" [g; l; VStr p; gen; ofile; returning; VNone; cpu; full] [] w = (inr ExValue, w).
  Proof.
    intros Hl Hp Hv. cbn [Nat.add].
    rewrite call_eq, ff_convert. unfold fn_convert. pycbn.
    assert (Hw : w_set_disabled (w_set_disabled w true) false = w)
      by (destruct w; unfold w_set_disabled; cbn in *; subst; reflexivity).
    assert (Hp' : file_lines (w_set_disabled w true) p = None) by (destruct w; exact Hp).
    run.
    rewrite preprocess_missing_file' with (ls := ls) by (try lia; assumption).
    pycbn. repeat (first [progress run | progress py]). rewrite ?Hw. reflexivity.
  Qed.
End P.
