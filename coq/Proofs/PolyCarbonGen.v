(* Proofs/PolyCarbonGen.v -- towards the unbounded version of Proofs/PolyCarbonThm.v: what the insertion loop of
   parse_poly_carbon computes, for every chain length and every list of modifications.
     for pos, mod in sorted(mods, reverse=True): chain = chain[:pos-1] + mod + chain[pos-1:]
   on a chain of L carbons and insertion indices in descending order is a layout: the text "in front of carbon i" is the
   concatenation of the modifications with index i, the later of equal index in front. *)
From Coq Require Import Ascii String Bool Arith List Lia.
From GV Require Import Base.Util Model.PolyCarbon.
Import ListNotations.
Open Scope nat_scope.

Definition cs (k : nat) : str := repeat "C"%char k.

Lemma firstn_cs i j suf : i <= j -> firstn i (cs j ++ suf) = cs i.
Proof.
  intro H. unfold cs. rewrite firstn_app, repeat_length.
  replace (i - j) with 0 by lia. cbn [firstn]. rewrite app_nil_r.
  replace j with (i + (j - i)) by lia. rewrite repeat_app, firstn_app, repeat_length.
  replace (i - i) with 0 by lia. cbn [firstn]. rewrite app_nil_r. apply firstn_all2. rewrite repeat_length. lia.
Qed.

Lemma skipn_cs i j suf : i <= j -> skipn i (cs j ++ suf) = cs (j - i) ++ suf.
Proof.
  intro H. unfold cs. replace j with (i + (j - i)) at 1 by lia. rewrite repeat_app, <- app_assoc.
  rewrite skipn_app, repeat_length. replace (i - i) with 0 by lia. cbn [skipn].
  rewrite skipn_all2 by (rewrite repeat_length; lia). reflexivity.
Qed.

(* the state of the loop: j leading carbons not yet touched, then a suffix that no later insertion changes *)
Fixpoint layout (mods : list (nat * str)) (j : nat) (suf : str) : str :=
  match mods with
  | [] => cs j ++ suf
  | (p, m) :: r => layout r (p - 1) (m ++ cs (j - (p - 1)) ++ suf)
  end.

(* indices in descending order, none beyond the chain *)
Fixpoint desc_from (j : nat) (mods : list (nat * str)) : Prop :=
  match mods with
  | [] => True
  | (p, _) :: r => p - 1 <= j /\ desc_from (p - 1) r
  end.

Lemma insert_loop_is_layout mods : forall j suf,
  desc_from j mods ->
  fold_left (fun ch x => insert_at (fst x - 1) (snd x) ch) mods (cs j ++ suf) = layout mods j suf.
Proof.
  induction mods as [|[p m] r IH]; intros j suf H; cbn [fold_left layout]; [reflexivity|].
  destruct H as [Hp Hr]. cbn [fst snd]. unfold insert_at.
  rewrite firstn_cs, skipn_cs by assumption. rewrite IH by assumption. reflexivity.
Qed.

(* a strictly ascending list is sorted into its reverse *)
Fixpoint asc_from (lo : nat) (l : list (nat * str)) : Prop :=
  match l with
  | [] => True
  | (p, _) :: r => lo < p /\ asc_from p r
  end.

Lemma insert_desc_front x l : (forall y, In y l -> fst y < fst x) -> insert_desc x l = x :: l.
Proof.
  destruct l as [|y r]; intro H; cbn [insert_desc]; [reflexivity|].
  destruct (Nat.leb_spec (fst y) (fst x)) as [_|Hlt]; [reflexivity|].
  specialize (H y (or_introl eq_refl)). lia.
Qed.

Lemma insert_desc_snoc x l : (forall y, In y l -> fst x < fst y) -> insert_desc x l = l ++ [x].
Proof.
  induction l as [|y r IH]; intro H; cbn [insert_desc app]; [reflexivity|].
  destruct (Nat.leb_spec (fst y) (fst x)) as [Hle|_].
  - specialize (H y (or_introl eq_refl)). lia.
  - rewrite IH; [reflexivity|]. intros z Hz. apply H. right. exact Hz.
Qed.

Lemma asc_from_bound lo l : asc_from lo l -> forall y, In y l -> lo < fst y.
Proof.
  revert lo; induction l as [|[p m] r IH]; intros lo H y Hy; [destruct Hy|].
  destruct H as [Hp Hr]. destruct Hy as [<-|Hy]; [exact Hp|].
  specialize (IH p Hr y Hy). lia.
Qed.

Lemma sort_desc_asc lo l : asc_from lo l -> sort_desc l = rev l.
Proof.
  revert lo; induction l as [|[p m] r IH]; intros lo H; [reflexivity|].
  destruct H as [Hp Hr]. unfold sort_desc in *. cbn [fold_right rev]. rewrite (IH p Hr).
  apply insert_desc_snoc. intros y Hy. apply in_rev in Hy. cbn [fst].
  exact (asc_from_bound p r Hr y Hy).
Qed.

(* ------------------------------------------------------------------ left-to-right reading of the layout *)

(* modifications in ascending order of index, read from the left: prev carbons are already written *)
Fixpoint render (l : list (nat * str)) (prev j : nat) : str :=
  match l with
  | [] => cs (j - prev)
  | (p, m) :: r => cs (p - 1 - prev) ++ m ++ render r (p - 1) j
  end.

Lemma render_snoc l p m : forall prev j,
  render (l ++ [(p, m)]) prev j = render l prev (p - 1) ++ m ++ cs (j - (p - 1)).
Proof.
  induction l as [|[q mq] r IH]; intros prev j; cbn [app render].
  - reflexivity.
  - rewrite IH, <- !app_assoc. reflexivity.
Qed.

Lemma layout_rev l : forall j suf, layout (rev l) j suf = render l 0 j ++ suf.
Proof.
  induction l as [|[p m] r IH] using rev_ind; intros j suf.
  - cbn [rev layout render]. rewrite Nat.sub_0_r. reflexivity.
  - rewrite rev_app_distr. cbn [rev app layout]. rewrite IH, render_snoc, <- !app_assoc. reflexivity.
Qed.

Lemma desc_from_rev lo l : forall j,
  asc_from lo l -> (forall y, In y l -> fst y - 1 <= j) -> desc_from j (rev l).
Proof.
  revert lo. induction l as [|[p m] r IH] using rev_ind; intros lo j Ha Hb; [exact I|].
  rewrite rev_app_distr. cbn [rev app desc_from]. split.
  - apply (Hb (p, m)). apply in_or_app. right. left. reflexivity.
  - assert (Ha' : asc_from lo r).
    { clear -Ha. revert lo Ha. induction r as [|[q mq] r IHr]; intros lo Ha; [exact I|].
      cbn [app asc_from] in *. destruct Ha as [H1 H2]. split; [exact H1|apply IHr; exact H2]. }
    apply (IH lo); [exact Ha'|].
    intros y Hy.
    assert (Hlt : fst y < p).
    { clear -Ha Hy. revert lo Ha. induction r as [|[q mq] r IHr]; intros lo Ha; [destruct Hy|].
      cbn [app asc_from] in Ha. destruct Ha as [H1 H2]. destruct Hy as [<-|Hy].
      - cbn [fst]. assert (Hin : In (p, m) (r ++ [(p, m)])) by (apply in_or_app; right; left; reflexivity).
        exact (asc_from_bound q _ H2 (p, m) Hin).
      - exact (IHr Hy q H2). }
    lia.
Qed.

(* the loop of parse_poly_carbon on modifications given in strictly ascending order of position *)
Theorem insertion_loop_ascending lo mods L :
  asc_from lo mods -> (forall y, In y mods -> fst y - 1 <= L) ->
  fold_left (fun ch x => insert_at (fst x - 1) (snd x) ch) (sort_desc mods) (cs L) = render mods 0 L.
Proof.
  intros Ha Hb. rewrite (sort_desc_asc lo mods Ha).
  pose proof (insert_loop_is_layout (rev mods) L [] (desc_from_rev lo mods L Ha Hb)) as H.
  rewrite app_nil_r in H. rewrite H, layout_rev, app_nil_r. reflexivity.
Qed.

(* ------------------------------------------------------------------ isolated double bonds *)
From GV Require Import Spec.Acyl.

Definition mods_of_db (d : dbkind * nat) : list (nat * str) :=
  match d with
  | (DbCis, p) => [(p - 1, s2l "/"); (p, s2l "="); (p + 1, bs)]
  | (DbTrans, p) => [(p - 1, s2l "/"); (p, s2l "="); (p + 1, s2l "/")]
  | (DbPlain, p) => [(p, s2l "=")]
  end.
Definition mods_of (dbs : list (dbkind * nat)) : list (nat * str) := flat_map mods_of_db dbs.

(* double bonds in ascending order whose marked single bonds do not touch: p >= lo + 2, the next one >= p + 3 *)
Fixpoint isolated_from (lo : nat) (dbs : list (dbkind * nat)) : Prop :=
  match dbs with
  | [] => True
  | (_, p) :: r => lo + 2 <= p /\ isolated_from (p + 1) r
  end.

Lemma asc_from_weaken lo lo' l : lo' <= lo -> asc_from lo l -> asc_from lo' l.
Proof. destruct l as [|[p m] r]; cbn [asc_from]; [auto|]. intros H [H1 H2]. split; [lia|exact H2]. Qed.

Lemma mods_of_ascending dbs : forall lo, isolated_from lo dbs -> asc_from lo (mods_of dbs).
Proof.
  induction dbs as [|[k p] r IH]; intros lo H; [exact I|].
  destruct H as [Hp Hr]. unfold mods_of. cbn [flat_map]. fold (mods_of r).
  specialize (IH (p + 1) Hr).
  destruct k; cbn [mods_of_db app asc_from].
  - split; [lia|]. split; [lia|]. split; [lia|]. exact IH.
  - split; [lia|]. split; [lia|]. split; [lia|]. exact IH.
  - split; [lia|]. apply (asc_from_weaken (p + 1)); [lia|exact IH].
Qed.

Lemma mods_of_bound dbs L :
  Forall (fun d => snd d + 1 <= L + 1) dbs -> forall y, In y (mods_of dbs) -> fst y - 1 <= L.
Proof.
  intros Hf y Hy. unfold mods_of in Hy. apply in_flat_map in Hy as [[k p] [Hd Hy]].
  rewrite Forall_forall in Hf. specialize (Hf _ Hd). cbn [snd] in Hf.
  destruct k; cbn [mods_of_db In] in Hy;
    repeat (destruct Hy as [<-|Hy]; [cbn [fst]; lia|]); destruct Hy.
Qed.

(* for every chain length and every list of isolated double bonds the loop writes the modifications from left to right *)
Theorem loop_on_isolated_double_bonds dbs L :
  isolated_from 0 dbs -> Forall (fun d => snd d + 1 <= L + 1) dbs ->
  fold_left (fun ch x => insert_at (fst x - 1) (snd x) ch) (sort_desc (mods_of dbs)) (cs L) = render (mods_of dbs) 0 L.
Proof.
  intros Hi Hf. apply (insertion_loop_ascending 0).
  - apply mods_of_ascending. exact Hi.
  - apply mods_of_bound. exact Hf.
Qed.

Example loop_example :
  l2s (render (mods_of [(DbCis, 9); (DbTrans, 13)]) 0 17) = "CCCCCCC/C=C\CC/C=C/CCCC"%string /\
  isolated_from 0 [(DbCis, 9); (DbTrans, 13)].
Proof. split; [vm_compute; reflexivity | cbn; lia]. Qed.
