(* Proofs/PolyCarbonGen.v -- towards the unbounded version of Proofs/PolyCarbonThm.v: what the insertion loop of
   parse_poly_carbon computes, for every chain length and every list of modifications.
     for pos, mod in sorted(mods, reverse=True): chain = chain[:pos-1] + mod + chain[pos-1:]
   on a chain of L carbons and insertion indices in descending order is a layout: the text "in front of carbon i" is the
   concatenation of the modifications with index i, the later of equal index in front. *)
From Coq Require Import Ascii String Bool Arith List Lia.
From GV Require Import Base.Util Model.PolyCarbon.
Import ListNotations.
Open Scope nat_scope.

Definition cs (k : nat) : str := repeat "C"%char k.

Lemma firstn_cs i j suf : i <= j -> firstn i (cs j ++ suf) = cs i.
Proof.
  intro H. unfold cs. rewrite firstn_app, repeat_length.
  replace (i - j) with 0 by lia. cbn [firstn]. rewrite app_nil_r.
  replace j with (i + (j - i)) by lia. rewrite repeat_app, firstn_app, repeat_length.
  replace (i - i) with 0 by lia. cbn [firstn]. rewrite app_nil_r. apply firstn_all2. rewrite repeat_length. lia.
Qed.

Lemma skipn_cs i j suf : i <= j -> skipn i (cs j ++ suf) = cs (j - i) ++ suf.
Proof.
  intro H. unfold cs. replace j with (i + (j - i)) at 1 by lia. rewrite repeat_app, <- app_assoc.
  rewrite skipn_app, repeat_length. replace (i - i) with 0 by lia. cbn [skipn].
  rewrite skipn_all2 by (rewrite repeat_length; lia). reflexivity.
Qed.

(* the state of the loop: j leading carbons not yet touched, then a suffix that no later insertion changes *)
Fixpoint layout (mods : list (nat * str)) (j : nat) (suf : str) : str :=
  match mods with
  | [] => cs j ++ suf
  | (p, m) :: r => layout r (p - 1) (m ++ cs (j - (p - 1)) ++ suf)
  end.

(* indices in descending order, none beyond the chain *)
Fixpoint desc_from (j : nat) (mods : list (nat * str)) : Prop :=
  match mods with
  | [] => True
  | (p, _) :: r => p - 1 <= j /\ desc_from (p - 1) r
  end.

Lemma insert_loop_is_layout mods : forall j suf,
  desc_from j mods ->
  fold_left (fun ch x => insert_at (fst x - 1) (snd x) ch) mods (cs j ++ suf) = layout mods j suf.
Proof.
  induction mods as [|[p m] r IH]; intros j suf H; cbn [fold_left layout]; [reflexivity|].
  destruct H as [Hp Hr]. cbn [fst snd]. unfold insert_at.
  rewrite firstn_cs, skipn_cs by assumption. rewrite IH by assumption. reflexivity.
Qed.

(* a strictly ascending list is sorted into its reverse *)
Fixpoint asc_from (lo : nat) (l : list (nat * str)) : Prop :=
  match l with
  | [] => True
  | (p, _) :: r => lo < p /\ asc_from p r
  end.

Lemma insert_desc_front x l : (forall y, In y l -> fst y < fst x) -> insert_desc x l = x :: l.
Proof.
  destruct l as [|y r]; intro H; cbn [insert_desc]; [reflexivity|].
  destruct (Nat.leb_spec (fst y) (fst x)) as [_|Hlt]; [reflexivity|].
  specialize (H y (or_introl eq_refl)). lia.
Qed.

Lemma insert_desc_snoc x l : (forall y, In y l -> fst x < fst y) -> insert_desc x l = l ++ [x].
Proof.
  induction l as [|y r IH]; intro H; cbn [insert_desc app]; [reflexivity|].
  destruct (Nat.leb_spec (fst y) (fst x)) as [Hle|_].
  - specialize (H y (or_introl eq_refl)). lia.
  - rewrite IH; [reflexivity|]. intros z Hz. apply H. right. exact Hz.
Qed.

Lemma asc_from_bound lo l : asc_from lo l -> forall y, In y l -> lo < fst y.
Proof.
  revert lo; induction l as [|[p m] r IH]; intros lo H y Hy; [destruct Hy|].
  destruct H as [Hp Hr]. destruct Hy as [<-|Hy]; [exact Hp|].
  specialize (IH p Hr y Hy). lia.
Qed.

Lemma sort_desc_asc lo l : asc_from lo l -> sort_desc l = rev l.
Proof.
  revert lo; induction l as [|[p m] r IH]; intros lo H; [reflexivity|].
  destruct H as [Hp Hr]. unfold sort_desc in *. cbn [fold_right rev]. rewrite (IH p Hr).
  apply insert_desc_snoc. intros y Hy. apply in_rev in Hy. cbn [fst].
  exact (asc_from_bound p r Hr y Hy).
Qed.

(* ------------------------------------------------------------------ left-to-right reading of the layout *)

(* modifications in ascending order of index, read from the left: prev carbons are already written *)
Fixpoint render (l : list (nat * str)) (prev j : nat) : str :=
  match l with
  | [] => cs (j - prev)
  | (p, m) :: r => cs (p - 1 - prev) ++ m ++ render r (p - 1) j
  end.

Lemma render_snoc l p m : forall prev j,
  render (l ++ [(p, m)]) prev j = render l prev (p - 1) ++ m ++ cs (j - (p - 1)).
Proof.
  induction l as [|[q mq] r IH]; intros prev j; cbn [app render].
  - reflexivity.
  - rewrite IH, <- !app_assoc. reflexivity.
Qed.

Lemma layout_rev l : forall j suf, layout (rev l) j suf = render l 0 j ++ suf.
Proof.
  induction l as [|[p m] r IH] using rev_ind; intros j suf.
  - cbn [rev layout render]. rewrite Nat.sub_0_r. reflexivity.
  - rewrite rev_app_distr. cbn [rev app layout]. rewrite IH, render_snoc, <- !app_assoc. reflexivity.
Qed.

Lemma desc_from_rev lo l : forall j,
  asc_from lo l -> (forall y, In y l -> fst y - 1 <= j) -> desc_from j (rev l).
Proof.
  revert lo. induction l as [|[p m] r IH] using rev_ind; intros lo j Ha Hb; [exact I|].
  rewrite rev_app_distr. cbn [rev app desc_from]. split.
  - apply (Hb (p, m)). apply in_or_app. right. left. reflexivity.
  - assert (Ha' : asc_from lo r).
    { clear -Ha. revert lo Ha. induction r as [|[q mq] r IHr]; intros lo Ha; [exact I|].
      cbn [app asc_from] in *. destruct Ha as [H1 H2]. split; [exact H1|apply IHr; exact H2]. }
    apply (IH lo); [exact Ha'|].
    intros y Hy.
    assert (Hlt : fst y < p).
    { clear -Ha Hy. revert lo Ha. induction r as [|[q mq] r IHr]; intros lo Ha; [destruct Hy|].
      cbn [app asc_from] in Ha. destruct Ha as [H1 H2]. destruct Hy as [<-|Hy].
      - cbn [fst]. assert (Hin : In (p, m) (r ++ [(p, m)])) by (apply in_or_app; right; left; reflexivity).
        exact (asc_from_bound q _ H2 (p, m) Hin).
      - exact (IHr Hy q H2). }
    lia.
Qed.

(* the loop of parse_poly_carbon on modifications given in strictly ascending order of position *)
Theorem insertion_loop_ascending lo mods L :
  asc_from lo mods -> (forall y, In y mods -> fst y - 1 <= L) ->
  fold_left (fun ch x => insert_at (fst x - 1) (snd x) ch) (sort_desc mods) (cs L) = render mods 0 L.
Proof.
  intros Ha Hb. rewrite (sort_desc_asc lo mods Ha).
  pose proof (insert_loop_is_layout (rev mods) L [] (desc_from_rev lo mods L Ha Hb)) as H.
  rewrite app_nil_r in H. rewrite H, layout_rev, app_nil_r. reflexivity.
Qed.

(* ------------------------------------------------------------------ isolated double bonds *)
From GV Require Import Spec.Acyl.

Definition mods_of_db (d : dbkind * nat) : list (nat * str) :=
  match d with
  | (DbCis, p) => [(p - 1, s2l "/"); (p, s2l "="); (p + 1, bs)]
  | (DbTrans, p) => [(p - 1, s2l "/"); (p, s2l "="); (p + 1, s2l "/")]
  | (DbPlain, p) => [(p, s2l "=")]
  end.
Definition mods_of (dbs : list (dbkind * nat)) : list (nat * str) := flat_map mods_of_db dbs.

(* double bonds in ascending order whose marked single bonds do not touch: p >= lo + 2, the next one >= p + 3 *)
Fixpoint isolated_from (lo : nat) (dbs : list (dbkind * nat)) : Prop :=
  match dbs with
  | [] => True
  | (_, p) :: r => lo + 2 <= p /\ isolated_from (p + 1) r
  end.

Lemma asc_from_weaken lo lo' l : lo' <= lo -> asc_from lo l -> asc_from lo' l.
Proof. destruct l as [|[p m] r]; cbn [asc_from]; [auto|]. intros H [H1 H2]. split; [lia|exact H2]. Qed.

Lemma mods_of_ascending dbs : forall lo, isolated_from lo dbs -> asc_from lo (mods_of dbs).
Proof.
  induction dbs as [|[k p] r IH]; intros lo H; [exact I|].
  destruct H as [Hp Hr]. unfold mods_of. cbn [flat_map]. fold (mods_of r).
  specialize (IH (p + 1) Hr).
  destruct k; cbn [mods_of_db app asc_from].
  - split; [lia|]. split; [lia|]. split; [lia|]. exact IH.
  - split; [lia|]. split; [lia|]. split; [lia|]. exact IH.
  - split; [lia|]. apply (asc_from_weaken (p + 1)); [lia|exact IH].
Qed.

Lemma mods_of_bound dbs L :
  Forall (fun d => snd d + 1 <= L + 1) dbs -> forall y, In y (mods_of dbs) -> fst y - 1 <= L.
Proof.
  intros Hf y Hy. unfold mods_of in Hy. apply in_flat_map in Hy as [[k p] [Hd Hy]].
  rewrite Forall_forall in Hf. specialize (Hf _ Hd). cbn [snd] in Hf.
  destruct k; cbn [mods_of_db In] in Hy;
    repeat (destruct Hy as [<-|Hy]; [cbn [fst]; lia|]); destruct Hy.
Qed.

(* for every chain length and every list of isolated double bonds the loop writes the modifications from left to right *)
Theorem loop_on_isolated_double_bonds dbs L :
  isolated_from 0 dbs -> Forall (fun d => snd d + 1 <= L + 1) dbs ->
  fold_left (fun ch x => insert_at (fst x - 1) (snd x) ch) (sort_desc (mods_of dbs)) (cs L) = render (mods_of dbs) 0 L.
Proof.
  intros Hi Hf. apply (insertion_loop_ascending 0).
  - apply mods_of_ascending. exact Hi.
  - apply mods_of_bound. exact Hf.
Qed.

Example loop_example :
  l2s (render (mods_of [(DbCis, 9); (DbTrans, 13)]) 0 17) = "CCCCCCC/C=C\CC/C=C/CCCC"%string /\
  isolated_from 0 [(DbCis, 9); (DbTrans, 13)].
Proof. split; [vm_compute; reflexivity | cbn; lia]. Qed.

(* ------------------------------------------------------------------ pointwise views of both texts *)

Definition tx (l : list (nat * str)) (j : nat) : str :=
  match find (fun y => Nat.eqb (fst y) j) l with Some y => snd y | None => [] end.

Definition unit_ (t : nat -> str) (j : nat) : str := t j ++ s2l "C".
Definition gen (t : nat -> str) (a len : nat) : str := flat_map (unit_ t) (seq a len).

Lemma gen_S t a len : gen t a (S len) = unit_ t a ++ gen t (S a) len.
Proof. reflexivity. Qed.

Lemma gen_split t a n1 n2 : gen t a (n1 + n2) = gen t a n1 ++ gen t (a + n1) n2.
Proof. unfold gen. rewrite seq_app, flat_map_app. reflexivity. Qed.

Lemma gen_ext t t' a len : (forall j, a <= j < a + len -> t j = t' j) -> gen t a len = gen t' a len.
Proof.
  revert a; induction len as [|len IH]; intros a H; [reflexivity|].
  rewrite !gen_S. unfold unit_. rewrite (H a) by lia. f_equal. apply IH. intros j Hj. apply H. lia.
Qed.

Lemma gen_empty t a len : (forall j, a <= j < a + len -> t j = []) -> gen t a len = cs len.
Proof.
  revert a; induction len as [|len IH]; intros a H; [reflexivity|].
  rewrite gen_S. unfold unit_. rewrite (H a) by lia. cbn [app]. unfold cs. cbn [repeat s2l list_ascii_of_string app].
  f_equal. apply IH. intros j Hj. apply H. lia.
Qed.

Lemma tx_cons q m l j : tx ((q, m) :: l) j = if Nat.eqb q j then m else tx l j.
Proof. unfold tx. cbn [find fst]. destruct (Nat.eqb q j); reflexivity. Qed.

Lemma tx_small lo l j : asc_from lo l -> j <= lo -> tx l j = [].
Proof.
  revert lo; induction l as [|[p m] r IH]; intros lo Ha Hj; [reflexivity|].
  destruct Ha as [Hp Hr]. rewrite tx_cons. destruct (Nat.eqb_spec p j) as [->|_]; [lia|].
  apply (IH p Hr). lia.
Qed.

Lemma render_pointwise l : forall prev L,
  asc_from prev l -> (forall y, In y l -> fst y <= L) -> prev <= L ->
  render l prev L = gen (tx l) (prev + 1) (L - prev).
Proof.
  induction l as [|[p m] r IH]; intros prev L Ha Hb Hle; cbn [render].
  - symmetry. apply gen_empty. intros j _. reflexivity.
  - destruct Ha as [Hp Hr].
    assert (HpL : p <= L) by (apply (Hb (p, m)); left; reflexivity).
    rewrite (IH (p - 1) L).
    + replace (L - prev) with ((p - 1 - prev) + (1 + (L - p))) by lia.
      rewrite gen_split. replace (prev + 1 + (p - 1 - prev)) with p by lia.
      rewrite (gen_empty (tx ((p, m) :: r)) (prev + 1) (p - 1 - prev)).
      * replace (L - (p - 1)) with (1 + (L - p)) by lia. replace (p - 1 + 1) with p by lia.
        cbn [Nat.add]. rewrite !gen_S. unfold unit_.
        rewrite tx_cons, Nat.eqb_refl. rewrite (tx_small p r p Hr) by lia.
        rewrite <- !app_assoc. cbn [app]. f_equal. f_equal. f_equal.
        apply gen_ext. intros j Hj. rewrite tx_cons. destruct (Nat.eqb_spec p j) as [->|_]; [lia|reflexivity].
      * intros j Hj. rewrite tx_cons. destruct (Nat.eqb_spec p j) as [->|_]; [lia|].
        apply (tx_small p r j Hr). lia.
    + apply (asc_from_weaken p); [lia|exact Hr].
    + intros y Hy. apply Hb. right. exact Hy.
    + lia.
Qed.

Lemma chain_text_pointwise dbs marks : forall fuel k m,
  1 <= k -> m + 1 - k <= fuel ->
  chain_text fuel k m 0 dbs marks = gen (fun j => bond_text j dbs marks) (k - 1) (m + 1 - k).
Proof.
  induction fuel as [|f IH]; intros k m Hk Hf; cbn [chain_text].
  - replace (m + 1 - k) with 0 by lia. reflexivity.
  - destruct (Nat.ltb_spec m k) as [Hlt|Hge].
    + replace (m + 1 - k) with 0 by lia. reflexivity.
    + replace (m + 1 - k) with (S (m + 1 - S k)) by lia. rewrite gen_S. unfold unit_.
      destruct (Nat.eqb_spec k 0) as [->|_]; [lia|]. cbn [app].
      rewrite (IH (S k) m) by lia. replace (S k - 1) with k by lia. replace (S (k - 1)) with k by lia.
      rewrite <- !app_assoc. reflexivity.
Qed.

(* ------------------------------------------------------------------ the marks of isolated double bonds *)

Definition closing (k : dbkind) : bool := match k with DbTrans => true | _ => false end.

Fixpoint mark_iso (dbs : list (dbkind * nat)) (j : nat) : option bool :=
  match dbs with
  | [] => None
  | (DbPlain, _) :: r => mark_iso r j
  | (k, p) :: r => if Nat.eqb j (p - 1) then Some true else if Nat.eqb j (p + 1) then Some (closing k) else mark_iso r j
  end.

Lemma mark_iso_small dbs : forall lo j, isolated_from lo dbs -> j <= lo -> mark_iso dbs j = None.
Proof.
  induction dbs as [|[k p] r IH]; intros lo j H Hj; [reflexivity|].
  destruct H as [Hp Hr].
  destruct k; cbn [mark_iso];
    try (destruct (Nat.eqb_spec j (p - 1)); [lia|]; destruct (Nat.eqb_spec j (p + 1)); [lia|]);
    apply (IH (p + 1)); [exact Hr|lia|exact Hr|lia|exact Hr|lia].
Qed.

Lemma is_db_small dbs : forall lo j, isolated_from lo dbs -> j <= lo + 1 -> is_db j dbs = false.
Proof.
  induction dbs as [|[k p] r IH]; intros lo j H Hj; [reflexivity|].
  destruct H as [Hp Hr]. unfold is_db. cbn [existsb]. fold (is_db j r).
  destruct (Nat.eqb_spec p j); [lia|]. cbn [orb]. apply (IH (p + 1)); [exact Hr|lia].
Qed.

Lemma lookup_cons j k d l : lookup_mark j ((k, d) :: l) = if Nat.eqb j k then Some d else lookup_mark j l.
Proof. reflexivity. Qed.

Lemma marks_of_isolated dbs : forall lo acc j,
  isolated_from lo dbs -> (forall i, lo < i -> lookup_mark i acc = None) ->
  lookup_mark j (marks_of dbs acc) = match mark_iso dbs j with Some d => Some d | None => lookup_mark j acc end.
Proof.
  induction dbs as [|[k p] r IH]; intros lo acc j H Hacc; [reflexivity|].
  destruct H as [Hp Hr].
  assert (Hnone : lookup_mark (p - 1) acc = None) by (apply Hacc; lia).
  destruct k; cbn [marks_of mark_iso]; rewrite ?Hnone.
  - (* cis *)
    rewrite (IH (p + 1)); [|exact Hr|].
    + destruct (Nat.eqb_spec j (p - 1)) as [->|N1].
      * rewrite (mark_iso_small r (p + 1)) by (assumption || lia).
        rewrite !lookup_cons. destruct (Nat.eqb_spec (p - 1) (p + 1)); [lia|]. rewrite Nat.eqb_refl. reflexivity.
      * destruct (Nat.eqb_spec j (p + 1)) as [->|N2].
        -- rewrite (mark_iso_small r (p + 1)) by (assumption || lia).
           rewrite !lookup_cons, Nat.eqb_refl. reflexivity.
        -- destruct (mark_iso r j); [reflexivity|]. rewrite !lookup_cons.
           destruct (Nat.eqb_spec j (p + 1)); [contradiction|]. destruct (Nat.eqb_spec j (p - 1)); [contradiction|]. reflexivity.
    + intros i Hi. rewrite !lookup_cons. destruct (Nat.eqb_spec i (p + 1)); [lia|]. destruct (Nat.eqb_spec i (p - 1)); [lia|].
      apply Hacc. lia.
  - (* trans *)
    rewrite (IH (p + 1)); [|exact Hr|].
    + destruct (Nat.eqb_spec j (p - 1)) as [->|N1].
      * rewrite (mark_iso_small r (p + 1)) by (assumption || lia).
        rewrite !lookup_cons. destruct (Nat.eqb_spec (p - 1) (p + 1)); [lia|]. rewrite Nat.eqb_refl. reflexivity.
      * destruct (Nat.eqb_spec j (p + 1)) as [->|N2].
        -- rewrite (mark_iso_small r (p + 1)) by (assumption || lia).
           rewrite !lookup_cons, Nat.eqb_refl. reflexivity.
        -- destruct (mark_iso r j); [reflexivity|]. rewrite !lookup_cons.
           destruct (Nat.eqb_spec j (p + 1)); [contradiction|]. destruct (Nat.eqb_spec j (p - 1)); [contradiction|]. reflexivity.
    + intros i Hi. rewrite !lookup_cons. destruct (Nat.eqb_spec i (p + 1)); [lia|]. destruct (Nat.eqb_spec i (p - 1)); [lia|].
      apply Hacc. lia.
  - (* without geometry *)
    apply (IH (p + 1)); [exact Hr|]. intros i Hi. apply Hacc. lia.
Qed.

Definition mark_text (o : option bool) : str :=
  match o with Some true => s2l "/" | Some false => bs | None => [] end.

Lemma tx_app l1 l2 j : tx (l1 ++ l2) j = match find (fun y => Nat.eqb (fst y) j) l1 with Some y => snd y | None => tx l2 j end.
Proof.
  induction l1 as [|[q m] r IH]; [reflexivity|]. cbn [app]. rewrite tx_cons. cbn [find fst].
  destruct (Nat.eqb q j); [reflexivity|exact IH].
Qed.

Lemma tx_mods_of dbs : forall lo j,
  isolated_from lo dbs ->
  tx (mods_of dbs) j = if is_db j dbs then s2l "=" else mark_text (mark_iso dbs j).
Proof.
  induction dbs as [|[k p] r IH]; intros lo j H; [reflexivity|].
  destruct H as [Hp Hr]. unfold mods_of. cbn [flat_map]. fold (mods_of r).
  unfold is_db. cbn [existsb]. fold (is_db j r).
  specialize (IH (p + 1) j Hr).
  destruct k; cbn [mods_of_db app mark_iso]; rewrite ?tx_cons.
  - destruct (Nat.eqb_spec (p - 1) j) as [E1|N1].
    + subst j. destruct (Nat.eqb_spec p (p - 1)); [lia|]. rewrite (is_db_small r (p + 1)) by (assumption || lia).
      cbn [orb]. rewrite Nat.eqb_refl. reflexivity.
    + destruct (Nat.eqb_spec p j) as [E2|N2]; [reflexivity|].
      destruct (Nat.eqb_spec (p + 1) j) as [E3|N3].
      * subst j. rewrite (is_db_small r (p + 1)) by (assumption || lia). cbn [orb].
        destruct (Nat.eqb_spec (p + 1) (p - 1)); [lia|]. rewrite Nat.eqb_refl. reflexivity.
      * cbn [orb]. destruct (Nat.eqb_spec j (p - 1)); [lia|]. destruct (Nat.eqb_spec j (p + 1)); [lia|]. exact IH.
  - destruct (Nat.eqb_spec (p - 1) j) as [E1|N1].
    + subst j. destruct (Nat.eqb_spec p (p - 1)); [lia|]. rewrite (is_db_small r (p + 1)) by (assumption || lia).
      cbn [orb]. rewrite Nat.eqb_refl. reflexivity.
    + destruct (Nat.eqb_spec p j) as [E2|N2]; [reflexivity|].
      destruct (Nat.eqb_spec (p + 1) j) as [E3|N3].
      * subst j. rewrite (is_db_small r (p + 1)) by (assumption || lia). cbn [orb].
        destruct (Nat.eqb_spec (p + 1) (p - 1)); [lia|]. rewrite Nat.eqb_refl. reflexivity.
      * cbn [orb]. destruct (Nat.eqb_spec j (p - 1)); [lia|]. destruct (Nat.eqb_spec j (p + 1)); [lia|]. exact IH.
  - destruct (Nat.eqb_spec p j) as [E2|N2]; [reflexivity|]. cbn [orb]. exact IH.
Qed.

(* the text in front of a carbon is the same in the specification and in the list of modifications *)
Lemma bond_text_is_tx dbs j :
  isolated_from 0 dbs -> bond_text j dbs (marks_of dbs []) = tx (mods_of dbs) j.
Proof.
  intro H. rewrite (tx_mods_of dbs 0 j H). unfold bond_text.
  destruct (is_db j dbs); [reflexivity|].
  rewrite (marks_of_isolated dbs 0 [] j H) by reflexivity.
  destruct (mark_iso dbs j) as [[|]|]; reflexivity.
Qed.

(* ------------------------------------------------------------------ .replace("//", "/") changes nothing here *)

Definition mark_like (x : str) : Prop := x = [] \/ x = s2l "/" \/ x = bs \/ x = s2l "=".

Lemma rd_cons a t : chr_is a "/" = false -> replace_dslash (a :: t) = a :: replace_dslash t.
Proof. intro H. destruct t as [|b r]; cbn [replace_dslash]; [reflexivity|]. rewrite H. reflexivity. Qed.

Lemma rd_slash b r : chr_is b "/" = false -> replace_dslash ("/"%char :: b :: r) = "/"%char :: replace_dslash (b :: r).
Proof. intro H. cbn [replace_dslash]. rewrite H, andb_false_r. reflexivity. Qed.

Lemma replace_dslash_gen t : (forall j, mark_like (t j)) -> forall len a, replace_dslash (gen t a len) = gen t a len.
Proof.
  intros Ht. induction len as [|len IH]; intro a; [reflexivity|].
  rewrite gen_S. unfold unit_. specialize (IH (S a)).
  destruct (Ht a) as [E|[E|[E|E]]]; rewrite E; cbn [app s2l list_ascii_of_string bs].
  - rewrite rd_cons by reflexivity. rewrite IH. reflexivity.
  - rewrite rd_slash by reflexivity. rewrite rd_cons by reflexivity. rewrite IH. reflexivity.
  - rewrite rd_cons by reflexivity. rewrite rd_cons by reflexivity. rewrite IH. reflexivity.
  - rewrite rd_cons by reflexivity. rewrite rd_cons by reflexivity. rewrite IH. reflexivity.
Qed.

Lemma replace_dslash_start rest : replace_dslash (s2l "OC(=O)" ++ rest) = s2l "OC(=O)" ++ replace_dslash rest.
Proof. cbn [s2l list_ascii_of_string app]. repeat (rewrite rd_cons by reflexivity). reflexivity. Qed.

Lemma tx_mark_like dbs j : isolated_from 0 dbs -> mark_like (tx (mods_of dbs) j).
Proof.
  intro H. rewrite (tx_mods_of dbs 0 j H). unfold mark_like.
  destruct (is_db j dbs); [right; right; right; reflexivity|].
  destruct (mark_iso dbs j) as [[|]|]; cbn [mark_text]; auto.
Qed.

(* ------------------------------------------------------------------ the theorem *)

Lemma max_pos_le l b : (forall y, In y l -> fst y <= b) -> max_pos l <= b.
Proof.
  induction l as [|y r IH]; intro H; cbn [max_pos fold_right]; [lia|].
  fold (max_pos r). apply Nat.max_lub; [apply H; left; reflexivity|apply IH; intros z Hz; apply H; right; exact Hz].
Qed.

Lemma existsb_false {A} (f : A -> bool) l : (forall x, In x l -> f x = false) -> existsb f l = false.
Proof.
  induction l as [|x r IH]; intro H; [reflexivity|]. cbn [existsb]. rewrite (H x (or_introl eq_refl)), IH; [reflexivity|].
  intros z Hz. apply H. right. exact Hz.
Qed.

(* UNBOUNDED: for every chain length and every non-empty list of isolated double bonds (cis, trans or without geometry)
   that the specification accepts, the assembly half of parse_poly_carbon writes the text of the designation *)
Theorem assemble_isolated n dbs :
  dbs <> [] -> isolated_from 0 dbs -> acyl_ok (mkAcyl false false n dbs) = true ->
  assemble n 0 [] true (Some (mods_of dbs)) = acyl_text (mkAcyl false false n dbs).
Proof.
  intros Hne Hiso Hok.
  pose proof Hok as Hok'. unfold acyl_ok in Hok'. cbn [ac_iso ac_ante ac_n ac_dbs main_len branch_at] in Hok'.
  repeat (apply andb_true_iff in Hok' as [Hok' ?]).
  match goal with H : forallb _ dbs = true |- _ => rename H into Hall end.
  assert (Hn : 2 <= n) by (apply Nat.leb_le; assumption).
  rewrite forallb_forall in Hall.
  assert (Hpos : forall y, In y (mods_of dbs) -> 1 <= fst y /\ fst y <= n - 1).
  { intros y Hy. unfold mods_of in Hy. apply in_flat_map in Hy as [[k p] [Hd Hy]].
    specialize (Hall _ Hd). cbn beta iota in Hall.
    repeat (apply andb_true_iff in Hall as [Hall ?]).
    destruct k; cbn [mods_of_db In] in Hy;
      repeat match goal with H : (_ <=? _) = true |- _ => apply Nat.leb_le in H end;
      repeat (destruct Hy as [<-|Hy]; [cbn [fst]; lia|]); destruct Hy. }
  assert (Hdb : Forall (fun d => snd d + 1 <= n - 1 + 1) dbs).
  { apply Forall_forall. intros [k p] Hd. specialize (Hall _ Hd). cbn beta iota in Hall.
    repeat (apply andb_true_iff in Hall as [Hall ?]).
    repeat match goal with H : (_ <=? _) = true |- _ => apply Nat.leb_le in H end. cbn [snd]. lia. }
  unfold assemble.
  destruct (Nat.ltb_spec n (0 + 1)) as [Hlt|_]; [lia|]. cbn [negb].
  remember (mods_of dbs) as ms eqn:Ems. destruct ms as [|m0 ms'].
  { exfalso. destruct dbs as [|[k p] r]; [contradiction|]. unfold mods_of in Ems. cbn [flat_map] in Ems.
    destruct k; discriminate Ems. }
  rewrite Ems. rewrite Ems in Hpos. clear Ems m0 ms'.
  rewrite repeat_length.
  destruct (Nat.ltb_spec (n - 0 - 1) (max_pos (mods_of dbs) - 1)) as [Hbad|_].
  { pose proof (max_pos_le (mods_of dbs) (n - 1) (fun y Hy => proj2 (Hpos y Hy))). lia. }
  rewrite existsb_false.
  2:{ intros y Hy. destruct (Hpos y Hy) as [Hy1 _]. destruct (Nat.eqb_spec (fst y) 0); [lia|reflexivity]. }
  unfold acyl_text. rewrite Hok. cbn [ac_iso ac_ante ac_n ac_dbs main_len branch_at].
  f_equal. rewrite app_nil_r. replace (n - 0 - 1) with (n - 1) by lia. fold (cs (n - 1)).
  rewrite (loop_on_isolated_double_bonds dbs (n - 1) Hiso Hdb).
  rewrite (render_pointwise (mods_of dbs) 0 (n - 1)).
  - rewrite replace_dslash_start. f_equal.
    rewrite replace_dslash_gen by (intro j; apply tx_mark_like; exact Hiso).
    rewrite (chain_text_pointwise dbs (marks_of dbs []) n 2 n) by lia.
    replace (n - 1 - 0) with (n - 1) by lia. replace (n + 1 - 2) with (n - 1) by lia.
    cbn [Nat.add Nat.sub]. symmetry. apply gen_ext. intros j _. apply bond_text_is_tx. exact Hiso.
  - apply mods_of_ascending. exact Hiso.
  - intros y Hy. apply (Hpos y Hy).
  - lia.
Qed.

(* saturated chains: no group at all *)
Theorem assemble_saturated n :
  2 <= n -> assemble n 0 [] false None = acyl_text (mkAcyl false false n []).
Proof.
  intro Hn. unfold assemble. destruct (Nat.ltb_spec n (0 + 1)) as [Hlt|_]; [lia|]. cbn [negb].
  unfold acyl_text, acyl_ok. cbn [ac_iso ac_ante ac_n ac_dbs main_len branch_at ascending_apart forallb andb].
  destruct (Nat.leb_spec 2 n) as [_|Hbad]; [|lia]. cbn [andb]. f_equal.
  rewrite app_nil_r. rewrite replace_dslash_start. f_equal. replace (n - 0 - 1) with (n - 1) by lia.
  cbn [marks_of]. rewrite (chain_text_pointwise [] [] n 2 n) by lia. replace (n + 1 - 2) with (n - 1) by lia. cbn [Nat.sub].
  rewrite (gen_empty (fun j => bond_text j [] [])) by (intros; reflexivity).
  fold (cs (n - 1)). rewrite <- (gen_empty (fun _ => []) 0 (n - 1)) by (intros; reflexivity).
  apply replace_dslash_gen. intro j. left. reflexivity.
Qed.

Example assemble_isolated_applies :
  isolated_from 0 [(DbCis, 9); (DbCis, 12)] /\ acyl_ok (mkAcyl false false 18 [(DbCis, 9); (DbCis, 12)]) = true /\
  option_map l2s (assemble 18 0 [] true (Some (mods_of [(DbCis, 9); (DbCis, 12)]))) = Some "OC(=O)CCCCCCC/C=C\C/C=C\CCCCC"%string.
Proof. split; [cbn; lia|]. split; vm_compute; reflexivity. Qed.
