(* Proofs/PolyCarbonParse.v -- the parsing half of parse_poly_carbon on the names the specification writes:
   for every chain length and every list of double bonds, "<d>C<n>[={...}]" is read back as that count and that list of
   modifications.  Together with Proofs/PolyCarbonGen.v: parse_poly_carbon (name) = acyl_text, unbounded, for isolated
   double bonds on unbranched chains. *)
From Coq Require Import Ascii String Bool Arith List Lia.
From GV Require Import Base.Util Spec.Acyl Model.PolyCarbon Proofs.PolyCarbonGen.
Import ListNotations.
Open Scope nat_scope.

(* ------------------------------------------------------------------ decimal numerals *)

Lemma digit_chr_digit m : m < 10 -> is_digit (digit_chr m) = true.
Proof. intro H. do 10 (destruct m as [|m]; [reflexivity|]). lia. Qed.

Lemma digit_val_chr m : m < 10 -> digit_val (digit_chr m) = m.
Proof. intro H. do 10 (destruct m as [|m]; [reflexivity|]). lia. Qed.

Lemma str2nat_aux_app l1 l2 a : str2nat_aux (l1 ++ l2) a = str2nat_aux l2 (str2nat_aux l1 a).
Proof. revert a; induction l1 as [|c r IH]; intro a; cbn [app str2nat_aux]; [reflexivity|apply IH]. Qed.

Lemma nat2str_aux_spec fuel : forall n acc, n < fuel ->
  exists ds, nat2str_aux fuel n acc = ds ++ acc /\ forallb is_digit ds = true /\ ds <> [] /\
             forall a, str2nat_aux ds a = a * 10 ^ length ds + n.
Proof.
  induction fuel as [|f IH]; intros n acc Hn; [lia|].
  cbn [nat2str_aux]. destruct (Nat.ltb_spec n 10) as [Hlt|Hge].
  - exists [digit_chr (n mod 10)]. rewrite Nat.mod_small by exact Hlt. split; [reflexivity|]. split.
    + cbn [forallb]. rewrite digit_chr_digit by exact Hlt. reflexivity.
    + split; [discriminate|]. intro a. cbn [str2nat_aux length]. rewrite digit_val_chr by exact Hlt. cbn [Nat.pow]. lia.
  - assert (Hd : n / 10 < f).
    { assert (n / 10 < n) by (apply Nat.div_lt; lia). lia. }
    destruct (IH (n / 10) (digit_chr (n mod 10) :: acc) Hd) as [ds [E [Hdig [Hne Hval]]]].
    exists (ds ++ [digit_chr (n mod 10)]). split; [rewrite E, <- app_assoc; reflexivity|]. split.
    + rewrite forallb_app, Hdig. cbn [forallb]. rewrite digit_chr_digit by (apply Nat.mod_upper_bound; lia). reflexivity.
    + split; [destruct ds; discriminate|]. intro a. rewrite str2nat_aux_app, Hval. cbn [str2nat_aux].
      rewrite digit_val_chr by (apply Nat.mod_upper_bound; lia). rewrite app_length. cbn [length].
      rewrite Nat.add_1_r. cbn [Nat.pow]. pose proof (Nat.div_mod n 10). lia.
Qed.

Lemma nat2str_spec n :
  forallb is_digit (nat2str n) = true /\ nat2str n <> [] /\ str2nat (nat2str n) = n.
Proof.
  unfold nat2str. destruct (nat2str_aux_spec (S n) n [] (Nat.lt_succ_diag_r n)) as [ds [E [Hd [Hne Hv]]]].
  rewrite E, app_nil_r. split; [exact Hd|]. split; [exact Hne|]. unfold str2nat. rewrite Hv. lia.
Qed.

Lemma py_int_nat2str n : py_int (nat2str n) = Some n.
Proof.
  destruct (nat2str_spec n) as [Hd [Hne Hv]]. unfold py_int, all_digits.
  destruct (nat2str n) as [|c r] eqn:E; [contradiction|]. rewrite Hd, Hv. reflexivity.
Qed.

Lemma span_digits_app d rest :
  forallb is_digit d = true -> match rest with [] => True | c :: _ => is_digit c = false end ->
  span_digits (d ++ rest) = (d, rest).
Proof.
  intros Hd Hr. induction d as [|c r IH]; cbn [app].
  - destruct rest as [|c r]; [reflexivity|]. cbn [span_digits]. rewrite Hr. reflexivity.
  - cbn [forallb] in Hd. apply andb_true_iff in Hd as [Hc Hd]. cbn [span_digits]. rewrite Hc, (IH Hd). reflexivity.
Qed.

(* ------------------------------------------------------------------ characters *)

Lemma chr_is_eq c s d : s2l s = [d] -> chr_is c s = Ascii.eqb c d.
Proof. intro H. unfold chr_is. rewrite H. reflexivity. Qed.

Lemma digit_is_not c s d : s2l s = [d] -> is_digit d = false -> is_digit c = true -> chr_is c s = false.
Proof.
  intros Hs Hd Hc. rewrite (chr_is_eq c s d Hs). destruct (Ascii.eqb_spec c d) as [->|_]; [congruence|reflexivity].
Qed.

Ltac digit_not := eapply digit_is_not; [reflexivity|reflexivity|assumption].

Lemma digit_group_chr c : is_digit c = true -> group_chr c = true.
Proof. intro H. unfold group_chr. rewrite H. reflexivity. Qed.

Definition no_brace (l : str) : bool := forallb (fun c => negb (chr_is c "{")) l.
Definition no_comma (l : str) : bool := forallb (fun c => negb (chr_is c ",")) l.

Lemma digits_no_brace l : forallb is_digit l = true -> no_brace l = true.
Proof.
  induction l as [|c r IH]; intro H; [reflexivity|]. cbn [forallb] in H. apply andb_true_iff in H as [Hc Hr].
  unfold no_brace. cbn [forallb]. fold (no_brace r). rewrite (IH Hr), andb_true_r.
  assert (chr_is c "{" = false) by digit_not. rewrite H. reflexivity.
Qed.

Lemma digits_no_comma l : forallb is_digit l = true -> no_comma l = true.
Proof.
  induction l as [|c r IH]; intro H; [reflexivity|]. cbn [forallb] in H. apply andb_true_iff in H as [Hc Hr].
  unfold no_comma. cbn [forallb]. fold (no_comma r). rewrite (IH Hr), andb_true_r.
  assert (chr_is c "," = false) by digit_not. rewrite H. reflexivity.
Qed.

Lemma digits_group l : forallb is_digit l = true -> forallb group_chr l = true.
Proof.
  induction l as [|c r IH]; intro H; [reflexivity|]. cbn [forallb] in *. apply andb_true_iff in H as [Hc Hr].
  rewrite (digit_group_chr c Hc), (IH Hr). reflexivity.
Qed.

(* ------------------------------------------------------------------ the text of the double bonds *)

Lemma db_text_props d : no_comma (db_text d) = true /\ forallb group_chr (db_text d) = true /\ db_text d <> [].
Proof.
  destruct d as [k p]. destruct (nat2str_spec p) as [Hd [Hne _]].
  destruct k; cbn [db_text s2l list_ascii_of_string app].
  - split; [|split; [|discriminate]].
    + unfold no_comma. cbn [forallb]. fold (no_comma (nat2str p)). rewrite (digits_no_comma _ Hd). reflexivity.
    + cbn [forallb]. rewrite (digits_group _ Hd). reflexivity.
  - split; [|split; [|discriminate]].
    + unfold no_comma. cbn [forallb]. fold (no_comma (nat2str p)). rewrite (digits_no_comma _ Hd). reflexivity.
    + cbn [forallb]. rewrite (digits_group _ Hd). reflexivity.
  - split; [exact (digits_no_comma _ Hd)|]. split; [exact (digits_group _ Hd)|exact Hne].
Qed.

Lemma eq_mods_db_text d : eq_mods (db_text d) = Some (mods_of_db d).
Proof.
  destruct d as [k p]. destruct k; cbn [db_text s2l list_ascii_of_string app].
  - unfold eq_mods. replace (chr_is "c" "c") with true by reflexivity. rewrite py_int_nat2str. reflexivity.
  - unfold eq_mods. replace (chr_is "t" "c") with false by reflexivity. replace (chr_is "t" "t") with true by reflexivity.
    rewrite py_int_nat2str. reflexivity.
  - destruct (nat2str_spec p) as [Hd [Hne _]]. pose proof (py_int_nat2str p) as Hp.
    destruct (nat2str p) as [|c r] eqn:E; [contradiction|]. cbn [forallb] in Hd. apply andb_true_iff in Hd as [Hc _].
    unfold eq_mods. assert (H1 : chr_is c "c" = false) by digit_not. assert (H2 : chr_is c "t" = false) by digit_not.
    rewrite H1, H2, Hp. reflexivity.
Qed.

Lemma seq_opt_eq_mods dbs : seq_opt (map eq_mods (map db_text dbs)) = Some (mods_of dbs).
Proof.
  induction dbs as [|d r IH]; [reflexivity|]. cbn [map seq_opt]. rewrite eq_mods_db_text, IH. reflexivity.
Qed.

(* ------------------------------------------------------------------ split(",") of the joined text *)

Lemma split_nocomma x : forall r cur, no_comma x = true -> split_comma (x ++ r) cur = split_comma r (rev x ++ cur).
Proof.
  induction x as [|c x IH]; intros r cur H; [reflexivity|].
  unfold no_comma in H. cbn [forallb] in H. apply andb_true_iff in H as [Hc Hx]. apply negb_true_iff in Hc.
  cbn [app split_comma]. rewrite Hc. rewrite (IH r (c :: cur) Hx). cbn [rev]. rewrite <- app_assoc. reflexivity.
Qed.

Lemma split_join l : l <> [] -> Forall (fun x => no_comma x = true) l -> split_comma (join_comma l) [] = l.
Proof.
  induction l as [|x r IH]; intros Hne Hf; [contradiction|].
  inversion Hf as [|? ? Hx Hr]; subst. destruct r as [|y r'].
  - cbn [join_comma]. rewrite <- (app_nil_r x) at 1. rewrite (split_nocomma x [] [] Hx). cbn [split_comma].
    rewrite app_nil_r, rev_involutive. reflexivity.
  - cbn [join_comma]. rewrite (split_nocomma x _ [] Hx). cbn [s2l list_ascii_of_string app split_comma].
    replace (chr_is "," ",") with true by reflexivity. rewrite app_nil_r, rev_involutive. f_equal.
    apply IH; [discriminate|exact Hr].
Qed.

Definition body_of (dbs : list (dbkind * nat)) : str := join_comma (map db_text dbs).

Lemma join_group l : Forall (fun x => forallb group_chr x = true) l -> forallb group_chr (join_comma l) = true.
Proof.
  induction l as [|x r IH]; intro H; [reflexivity|]. inversion H as [|? ? Hx Hr]; subst.
  destruct r as [|y r']; [exact Hx|].
  change (join_comma (x :: y :: r')) with (x ++ s2l "," ++ join_comma (y :: r')).
  rewrite !forallb_app, Hx, (IH Hr). reflexivity.
Qed.

Lemma body_props dbs : dbs <> [] ->
  split_comma (body_of dbs) [] = map db_text dbs /\ forallb group_chr (body_of dbs) = true.
Proof.
  intro Hne. unfold body_of. split.
  - apply split_join; [destruct dbs; [contradiction|discriminate]|].
    apply Forall_forall. intros x Hx. apply in_map_iff in Hx as [d [<- _]]. apply db_text_props.
  - apply join_group. apply Forall_forall. intros x Hx. apply in_map_iff in Hx as [d [<- _]]. apply db_text_props.
Qed.
