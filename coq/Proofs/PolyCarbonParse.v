(* Proofs/PolyCarbonParse.v -- the parsing half of parse_poly_carbon on the names the specification writes:
   for every chain length and every list of double bonds, "<d>C<n>[={...}]" is read back as that count and that list of
   modifications.  Together with Proofs/PolyCarbonGen.v: parse_poly_carbon (name) = acyl_text, unbounded, for isolated
   double bonds on unbranched chains. *)
From Coq Require Import Ascii String Bool Arith List Lia.
From GV Require Import Base.Util Spec.Acyl Model.PolyCarbon Proofs.PolyCarbonGen Proofs.PolyCarbonThm.
Import ListNotations.
Open Scope nat_scope.

(* ------------------------------------------------------------------ decimal numerals *)

Lemma digit_chr_digit m : m < 10 -> is_digit (digit_chr m) = true.
Proof. intro H. do 10 (destruct m as [|m]; [reflexivity|]). lia. Qed.

Lemma digit_val_chr m : m < 10 -> digit_val (digit_chr m) = m.
Proof. intro H. do 10 (destruct m as [|m]; [reflexivity|]). lia. Qed.

Lemma str2nat_aux_app l1 l2 a : str2nat_aux (l1 ++ l2) a = str2nat_aux l2 (str2nat_aux l1 a).
Proof. revert a; induction l1 as [|c r IH]; intro a; cbn [app str2nat_aux]; [reflexivity|apply IH]. Qed.

Lemma nat2str_aux_spec fuel : forall n acc, n < fuel ->
  exists ds, nat2str_aux fuel n acc = ds ++ acc /\ forallb is_digit ds = true /\ ds <> [] /\
             forall a, str2nat_aux ds a = a * 10 ^ length ds + n.
Proof.
  induction fuel as [|f IH]; intros n acc Hn; [lia|].
  cbn [nat2str_aux]. destruct (Nat.ltb_spec n 10) as [Hlt|Hge].
  - exists [digit_chr (n mod 10)]. rewrite Nat.mod_small by exact Hlt. split; [reflexivity|]. split.
    + cbn [forallb]. rewrite digit_chr_digit by exact Hlt. reflexivity.
    + split; [discriminate|]. intro a. cbn [str2nat_aux length]. rewrite digit_val_chr by exact Hlt. cbn [Nat.pow]. lia.
  - assert (Hd : n / 10 < f).
    { assert (n / 10 < n) by (apply Nat.div_lt; lia). lia. }
    destruct (IH (n / 10) (digit_chr (n mod 10) :: acc) Hd) as [ds [E [Hdig [Hne Hval]]]].
    exists (ds ++ [digit_chr (n mod 10)]). split; [rewrite E, <- app_assoc; reflexivity|]. split.
    + rewrite forallb_app, Hdig. cbn [forallb]. rewrite digit_chr_digit by (apply Nat.mod_upper_bound; lia). reflexivity.
    + split; [destruct ds; discriminate|]. intro a. rewrite str2nat_aux_app, Hval. cbn [str2nat_aux].
      rewrite digit_val_chr by (apply Nat.mod_upper_bound; lia). rewrite app_length. cbn [length].
      rewrite Nat.add_1_r. cbn [Nat.pow]. pose proof (Nat.div_mod n 10). lia.
Qed.

Lemma nat2str_spec n :
  forallb is_digit (nat2str n) = true /\ nat2str n <> [] /\ str2nat (nat2str n) = n.
Proof.
  unfold nat2str. destruct (nat2str_aux_spec (S n) n [] (Nat.lt_succ_diag_r n)) as [ds [E [Hd [Hne Hv]]]].
  rewrite E, app_nil_r. split; [exact Hd|]. split; [exact Hne|]. unfold str2nat. rewrite Hv. lia.
Qed.

Lemma py_int_nat2str n : py_int (nat2str n) = Some n.
Proof.
  destruct (nat2str_spec n) as [Hd [Hne Hv]]. unfold py_int, all_digits.
  destruct (nat2str n) as [|c r] eqn:E; [contradiction|]. rewrite Hd, Hv. reflexivity.
Qed.

Lemma span_digits_app d rest :
  forallb is_digit d = true -> match rest with [] => True | c :: _ => is_digit c = false end ->
  span_digits (d ++ rest) = (d, rest).
Proof.
  intros Hd Hr. induction d as [|c r IH]; cbn [app].
  - destruct rest as [|c r]; [reflexivity|]. cbn [span_digits]. rewrite Hr. reflexivity.
  - cbn [forallb] in Hd. apply andb_true_iff in Hd as [Hc Hd]. cbn [span_digits]. rewrite Hc, (IH Hd). reflexivity.
Qed.

(* ------------------------------------------------------------------ characters *)

Lemma chr_is_eq c s d : s2l s = [d] -> chr_is c s = Ascii.eqb c d.
Proof. intro H. unfold chr_is. rewrite H. reflexivity. Qed.

Lemma digit_is_not c s d : s2l s = [d] -> is_digit d = false -> is_digit c = true -> chr_is c s = false.
Proof.
  intros Hs Hd Hc. rewrite (chr_is_eq c s d Hs). destruct (Ascii.eqb_spec c d) as [->|_]; [congruence|reflexivity].
Qed.

Ltac digit_not := eapply digit_is_not; [reflexivity|reflexivity|assumption].

Lemma digit_group_chr c : is_digit c = true -> group_chr c = true.
Proof. intro H. unfold group_chr. rewrite H. reflexivity. Qed.

Definition no_brace (l : str) : bool := forallb (fun c => negb (chr_is c "{")) l.
Definition no_comma (l : str) : bool := forallb (fun c => negb (chr_is c ",")) l.

Lemma digits_no_brace l : forallb is_digit l = true -> no_brace l = true.
Proof.
  induction l as [|c r IH]; intro H; [reflexivity|]. cbn [forallb] in H. apply andb_true_iff in H as [Hc Hr].
  unfold no_brace. cbn [forallb]. fold (no_brace r). rewrite (IH Hr), andb_true_r.
  assert (chr_is c "{" = false) by digit_not. rewrite H. reflexivity.
Qed.

Lemma digits_no_comma l : forallb is_digit l = true -> no_comma l = true.
Proof.
  induction l as [|c r IH]; intro H; [reflexivity|]. cbn [forallb] in H. apply andb_true_iff in H as [Hc Hr].
  unfold no_comma. cbn [forallb]. fold (no_comma r). rewrite (IH Hr), andb_true_r.
  assert (chr_is c "," = false) by digit_not. rewrite H. reflexivity.
Qed.

Lemma digits_group l : forallb is_digit l = true -> forallb group_chr l = true.
Proof.
  induction l as [|c r IH]; intro H; [reflexivity|]. cbn [forallb] in *. apply andb_true_iff in H as [Hc Hr].
  rewrite (digit_group_chr c Hc), (IH Hr). reflexivity.
Qed.

(* ------------------------------------------------------------------ the text of the double bonds *)

Lemma db_text_props d : no_comma (db_text d) = true /\ forallb group_chr (db_text d) = true /\ db_text d <> [].
Proof.
  destruct d as [k p]. destruct (nat2str_spec p) as [Hd [Hne _]].
  destruct k; cbn [db_text s2l list_ascii_of_string app].
  - split; [|split; [|discriminate]].
    + unfold no_comma. cbn [forallb]. fold (no_comma (nat2str p)). rewrite (digits_no_comma _ Hd). reflexivity.
    + cbn [forallb]. rewrite (digits_group _ Hd). reflexivity.
  - split; [|split; [|discriminate]].
    + unfold no_comma. cbn [forallb]. fold (no_comma (nat2str p)). rewrite (digits_no_comma _ Hd). reflexivity.
    + cbn [forallb]. rewrite (digits_group _ Hd). reflexivity.
  - split; [exact (digits_no_comma _ Hd)|]. split; [exact (digits_group _ Hd)|exact Hne].
Qed.

Lemma eq_mods_db_text d : eq_mods (db_text d) = Some (mods_of_db d).
Proof.
  destruct d as [k p]. destruct k; cbn [db_text s2l list_ascii_of_string app].
  - unfold eq_mods. replace (chr_is "c" "c") with true by reflexivity. rewrite py_int_nat2str. reflexivity.
  - unfold eq_mods. replace (chr_is "t" "c") with false by reflexivity. replace (chr_is "t" "t") with true by reflexivity.
    rewrite py_int_nat2str. reflexivity.
  - destruct (nat2str_spec p) as [Hd [Hne _]]. pose proof (py_int_nat2str p) as Hp.
    destruct (nat2str p) as [|c r] eqn:E; [contradiction|]. cbn [forallb] in Hd. apply andb_true_iff in Hd as [Hc _].
    unfold eq_mods. assert (H1 : chr_is c "c" = false) by digit_not. assert (H2 : chr_is c "t" = false) by digit_not.
    rewrite H1, H2, Hp. reflexivity.
Qed.

Lemma seq_opt_eq_mods dbs : seq_opt (map eq_mods (map db_text dbs)) = Some (mods_of dbs).
Proof.
  induction dbs as [|d r IH]; [reflexivity|]. cbn [map seq_opt]. rewrite eq_mods_db_text, IH. reflexivity.
Qed.

(* ------------------------------------------------------------------ split(",") of the joined text *)

Lemma split_nocomma x : forall r cur, no_comma x = true -> split_comma (x ++ r) cur = split_comma r (rev x ++ cur).
Proof.
  induction x as [|c x IH]; intros r cur H; [reflexivity|].
  unfold no_comma in H. cbn [forallb] in H. apply andb_true_iff in H as [Hc Hx]. apply negb_true_iff in Hc.
  cbn [app split_comma]. rewrite Hc. rewrite (IH r (c :: cur) Hx). cbn [rev]. rewrite <- app_assoc. reflexivity.
Qed.

Lemma split_join l : l <> [] -> Forall (fun x => no_comma x = true) l -> split_comma (join_comma l) [] = l.
Proof.
  induction l as [|x r IH]; intros Hne Hf; [contradiction|].
  inversion Hf as [|? ? Hx Hr]; subst. destruct r as [|y r'].
  - cbn [join_comma]. rewrite <- (app_nil_r x) at 1. rewrite (split_nocomma x [] [] Hx). cbn [split_comma].
    rewrite app_nil_r, rev_involutive. reflexivity.
  - cbn [join_comma]. rewrite (split_nocomma x _ [] Hx). cbn [s2l list_ascii_of_string app split_comma].
    replace (chr_is "," ",") with true by reflexivity. rewrite app_nil_r, rev_involutive. f_equal.
    apply IH; [discriminate|exact Hr].
Qed.

Definition body_of (dbs : list (dbkind * nat)) : str := join_comma (map db_text dbs).

Lemma join_group l : Forall (fun x => forallb group_chr x = true) l -> forallb group_chr (join_comma l) = true.
Proof.
  induction l as [|x r IH]; intro H; [reflexivity|]. inversion H as [|? ? Hx Hr]; subst.
  destruct r as [|y r']; [exact Hx|].
  change (join_comma (x :: y :: r')) with (x ++ s2l "," ++ join_comma (y :: r')).
  rewrite !forallb_app, Hx, (IH Hr). reflexivity.
Qed.

Lemma body_props dbs : dbs <> [] ->
  split_comma (body_of dbs) [] = map db_text dbs /\ forallb group_chr (body_of dbs) = true.
Proof.
  intro Hne. unfold body_of. split.
  - apply split_join; [destruct dbs; [contradiction|discriminate]|].
    apply Forall_forall. intros x Hx. apply in_map_iff in Hx as [d [<- _]]. apply db_text_props.
  - apply join_group. apply Forall_forall. intros x Hx. apply in_map_iff in Hx as [d [<- _]]. apply db_text_props.
Qed.

(* ------------------------------------------------------------------ the scanners on the name *)

Lemma span_group_app body rest :
  forallb group_chr body = true -> match rest with [] => True | c :: _ => group_chr c = false end ->
  span_group (body ++ rest) = (body, rest).
Proof.
  intros Hb Hr. induction body as [|c r IH]; cbn [app].
  - destruct rest as [|c r]; [reflexivity|]. cbn [span_group]. rewrite Hr. reflexivity.
  - cbn [forallb] in Hb. apply andb_true_iff in Hb as [Hc Hb]. cbn [span_group]. rewrite Hc, (IH Hb). reflexivity.
Qed.

Lemma groups_aux_nil fuel : groups_aux fuel [] = [].
Proof. destruct fuel; reflexivity. Qed.

Lemma groups_aux_skip pre : forall l fuel, no_brace pre = true ->
  groups_aux (length pre + fuel) (pre ++ l) = groups_aux fuel l.
Proof.
  induction pre as [|c r IH]; intros l fuel H; [reflexivity|].
  unfold no_brace in H. cbn [forallb] in H. apply andb_true_iff in H as [Hc Hr]. apply negb_true_iff in Hc.
  cbn [length app Nat.add groups_aux]. rewrite Hc. apply IH. exact Hr.
Qed.

Lemma prefixb_refl p : prefixb p p = true.
Proof. apply prefixb_spec. exists []. rewrite app_nil_r. reflexivity. Qed.

Lemma index_sub_skip pre x : no_brace pre = true ->
  index_sub ("{"%char :: x) (pre ++ "{"%char :: x) = Some (length pre).
Proof.
  induction pre as [|c r IH]; intro H.
  - cbn [app length]. destruct x; cbn [index_sub]; rewrite prefixb_refl; reflexivity.
  - unfold no_brace in H. cbn [forallb] in H. apply andb_true_iff in H as [Hc Hr]. apply negb_true_iff in Hc.
    cbn [app length index_sub prefixb].
    assert (E : Ascii.eqb "{" c = false).
    { rewrite Ascii.eqb_sym. rewrite <- (chr_is_eq c "{" "{"%char eq_refl). exact Hc. }
    rewrite E. cbn [andb]. rewrite (IH Hr). reflexivity.
Qed.

(* the name of an unbranched chain: "6C<n>" or "6C<n>={<body>}" *)
Definition tail_of (dbs : list (dbkind * nat)) : str :=
  match dbs with
  | [] => []
  | _ => "="%char :: "{"%char :: body_of dbs ++ ["}"%char]
  end.

Lemma name_shape n dbs : name_of (mkAcyl false false n dbs) = "6"%char :: "C"%char :: nat2str n ++ tail_of dbs.
Proof.
  unfold name_of, acyl_token. cbn [ac_ante ac_iso ac_n ac_dbs s2l list_ascii_of_string app].
  destruct dbs as [|d r]; [reflexivity|]. unfold tail_of, body_of. cbn [s2l list_ascii_of_string app].
  try rewrite <- !app_assoc. reflexivity.
Qed.

Lemma numbers_aux_digit f c r : is_digit c = true ->
  numbers_aux (S f) (c :: r) = (let (d, t) := span_digits (c :: r) in d :: numbers_aux f t).
Proof. intro H. cbn [numbers_aux]. rewrite H. reflexivity. Qed.

Lemma numbers_aux_skip f c r : is_digit c = false -> numbers_aux (S f) (c :: r) = numbers_aux f r.
Proof. intro H. cbn [numbers_aux]. rewrite H. reflexivity. Qed.

Lemma numbers_name n tail :
  match tail with [] => True | c :: _ => is_digit c = false end ->
  nth_error (numbers ("6"%char :: "C"%char :: nat2str n ++ tail)) 1 = Some (nat2str n).
Proof.
  intro Ht. destruct (nat2str_spec n) as [Hd [Hne _]].
  unfold numbers. cbn [length].
  rewrite numbers_aux_digit by reflexivity.
  change ("6"%char :: "C"%char :: nat2str n ++ tail) with (["6"%char] ++ "C"%char :: nat2str n ++ tail).
  rewrite (span_digits_app ["6"%char] ("C"%char :: nat2str n ++ tail)) by reflexivity.
  rewrite numbers_aux_skip by reflexivity.
  destruct (nat2str n) as [|c0 r0] eqn:E; [contradiction|].
  pose proof Hd as Hd'. cbn [forallb] in Hd'. apply andb_true_iff in Hd' as [Hc0 _].
  cbn [app length]. rewrite numbers_aux_digit by exact Hc0.
  change (c0 :: r0 ++ tail) with ((c0 :: r0) ++ tail).
  rewrite (span_digits_app (c0 :: r0) tail Hd Ht). reflexivity.
Qed.

Lemma no_brace_app a b : no_brace (a ++ b) = no_brace a && no_brace b.
Proof. apply forallb_app. Qed.

Lemma nth_error_mid {A} (pre : list A) c rest : nth_error (pre ++ c :: rest) (length pre) = Some c.
Proof. rewrite nth_error_app2 by lia. rewrite Nat.sub_diag. reflexivity. Qed.

(* the parsing half on the names of unbranched chains with at least one double bond *)
Theorem parse_half n dbs :
  dbs <> [] ->
  parse_poly_carbon (name_of (mkAcyl false false n dbs)) = assemble n 0 [] true (Some (mods_of dbs)).
Proof.
  intro Hne. rewrite name_shape.
  destruct (nat2str_spec n) as [Hd [Hnn Hv]].
  destruct (body_props dbs Hne) as [Hsplit Hgrp].
  set (pre0 := "6"%char :: "C"%char :: nat2str n).
  set (body := body_of dbs) in *.
  assert (Etail : tail_of dbs = "="%char :: "{"%char :: body ++ ["}"%char]).
  { unfold tail_of. destruct dbs; [contradiction|reflexivity]. }
  assert (Ename : "6"%char :: "C"%char :: nat2str n ++ tail_of dbs = (pre0 ++ ["="%char]) ++ "{"%char :: body ++ ["}"%char]).
  { rewrite Etail. unfold pre0. cbn [app]. rewrite <- app_assoc. reflexivity. }
  assert (Hnb : no_brace (pre0 ++ ["="%char]) = true).
  { rewrite no_brace_app. unfold pre0. unfold no_brace at 1. cbn [forallb]. fold (no_brace (nat2str n)).
    rewrite (digits_no_brace _ Hd). reflexivity. }
  unfold parse_poly_carbon.
  replace (nth_is 1 ("6"%char :: "C"%char :: nat2str n ++ tail_of dbs) "a") with false by reflexivity.
  cbn match. replace (nth_is 1 ("6"%char :: "C"%char :: nat2str n ++ tail_of dbs) "i") with false by reflexivity.
  rewrite numbers_name by (rewrite Etail; reflexivity).
  rewrite Hv. cbn [andb negb].
  (* the groups *)
  assert (Hgroups : groups ("6"%char :: "C"%char :: nat2str n ++ tail_of dbs) = [body]).
  { rewrite Ename. unfold groups. rewrite app_length.
    replace (S (length (pre0 ++ ["="%char]) + length ("{"%char :: body ++ ["}"%char])))
      with (length (pre0 ++ ["="%char]) + S (length ("{"%char :: body ++ ["}"%char]))) by lia.
    rewrite (groups_aux_skip _ _ _ Hnb). cbn [length groups_aux].
    replace (chr_is "{" "{") with true by reflexivity.
    rewrite (span_group_app body ["}"%char] Hgrp) by reflexivity. cbv beta iota.
    replace (chr_is "}" "}") with true by reflexivity. rewrite ?groups_aux_nil. reflexivity. }
  rewrite Hgroups. cbn [map seq_opt].
  (* the one group *)
  assert (Hpart : part_mods ("6"%char :: "C"%char :: nat2str n ++ tail_of dbs) body = Some (mods_of dbs)).
  { unfold part_mods. change (s2l "{" ++ body ++ s2l "}") with ("{"%char :: body ++ ["}"%char]).
    rewrite Ename at 1. rewrite (index_sub_skip _ _ Hnb).
    rewrite app_length. cbn [length]. rewrite Nat.add_1_r.
    assert (Enth : nth_error ("6"%char :: "C"%char :: nat2str n ++ tail_of dbs) (length pre0) = Some "="%char).
    { rewrite Etail. change ("6"%char :: "C"%char :: nat2str n ++ "="%char :: "{"%char :: body ++ ["}"%char])
        with (pre0 ++ "="%char :: "{"%char :: body ++ ["}"%char]). apply nth_error_mid. }
    unfold nth_is, nth_chr. rewrite Enth.
    replace (chr_is "=" "c") with false by reflexivity. replace (chr_is "=" "=") with true by reflexivity.
    rewrite Hsplit. apply seq_opt_eq_mods. }
  rewrite Hpart. rewrite app_nil_r. reflexivity.
Qed.

(* UNBOUNDED: the model of SMILESReaktor.parse_poly_carbon, run on the name of an unbranched chain of any length with any
   list of isolated double bonds that the specification accepts, writes the text of the designation *)
Theorem parse_poly_carbon_isolated n dbs :
  dbs <> [] -> isolated_from 0 dbs -> acyl_ok (mkAcyl false false n dbs) = true ->
  parse_poly_carbon (name_of (mkAcyl false false n dbs)) = acyl_text (mkAcyl false false n dbs).
Proof. intros Hne Hi Hok. rewrite (parse_half n dbs Hne). apply assemble_isolated; assumption. Qed.

Theorem parse_poly_carbon_saturated n :
  2 <= n -> parse_poly_carbon (name_of (mkAcyl false false n [])) = acyl_text (mkAcyl false false n []).
Proof.
  intro Hn. rewrite <- (assemble_saturated n Hn). rewrite name_shape. cbn [tail_of]. rewrite app_nil_r.
  destruct (nat2str_spec n) as [Hd [Hnn Hv]].
  unfold parse_poly_carbon.
  replace (nth_is 1 ("6"%char :: "C"%char :: nat2str n) "a") with false by reflexivity.
  cbn match. replace (nth_is 1 ("6"%char :: "C"%char :: nat2str n) "i") with false by reflexivity.
  rewrite <- (app_nil_r (nat2str n)) at 1. rewrite numbers_name by exact I. rewrite Hv. cbn [andb negb].
  assert (Hg : groups ("6"%char :: "C"%char :: nat2str n) = []).
  { unfold groups. rewrite <- (app_nil_r ("6"%char :: "C"%char :: nat2str n)) at 2.
    replace (S (length ("6"%char :: "C"%char :: nat2str n))) with (length ("6"%char :: "C"%char :: nat2str n) + 1) by lia.
    rewrite groups_aux_skip; [reflexivity|].
    unfold no_brace. cbn [forallb]. fold (no_brace (nat2str n)). rewrite (digits_no_brace _ Hd). reflexivity. }
  rewrite Hg. cbn [map seq_opt]. unfold assemble. destruct (n <? 0 + 1); reflexivity.
Qed.
