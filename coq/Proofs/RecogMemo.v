(* Proofs/RecogMemo.v -- the memoising recogniser (Model/Memo.v) is sound and, whenever it answers, complete, for
   every grammar, expression, token list and every table it may have built: each table entry is the exact set of
   remainders of its rule on its input. *)
From Coq Require Import String Bool Arith Lia List.
From GV Require Import Spec.Ebnf Model.Memo.
Import ListNotations.
Open Scope list_scope.

Lemma list_eqb_eq a : forall b, list_eqb a b = true -> a = b.
Proof.
  induction a as [|x a IH]; intros [|y b] H; cbn [list_eqb] in H; try discriminate; [reflexivity|].
  apply andb_true_iff in H as [H1 H2]. apply String.eqb_eq in H1. subst. f_equal. apply IH; exact H2.
Qed.

Lemma list_eqb_refl a : list_eqb a a = true.
Proof. induction a as [|x a IH]; cbn [list_eqb]; [reflexivity|]. rewrite String.eqb_refl, IH. reflexivity. Qed.

Lemma memb_In x l : memb x l = true <-> In x l.
Proof.
  unfold memb. rewrite existsb_exists. split.
  - intros (y & Hy & E). apply list_eqb_eq in E. subst. exact Hy.
  - intro H. exists x. split; [exact H | apply list_eqb_refl].
Qed.

Lemma dedup_In x l : In x (dedup l) <-> In x l.
Proof.
  induction l as [|y l IH]; [reflexivity|].
  change (dedup (y :: l)) with (if memb y (dedup l) then dedup l else y :: dedup l).
  destruct (memb y (dedup l)) eqn:E.
  - rewrite IH. split; [intro H; right; exact H|]. intros [<-|H]; [|exact H].
    apply IH. apply memb_In. exact E.
  - cbn [In]. rewrite IH. reflexivity.
Qed.

Section G.
  Variable g : grammar.

  (* l is exactly what e can leave of w *)
  Definition ends_sem (e : expr) (w : list string) (l : list (list string)) : Prop :=
    (forall w', In w' l -> exists u, w = u ++ w' /\ Der g e u) /\
    (forall u w', Der g e u -> w = u ++ w' -> In w' l).

  Lemma ends_sem_dedup e w l : ends_sem e w l -> ends_sem e w (dedup l).
  Proof.
    intros [Hs Hc]. split.
    - intros w' Hin. apply Hs. apply dedup_In. exact Hin.
    - intros u w' D Hu. apply dedup_In. eapply Hc; eassumption.
  Qed.

  Definition tb_ok (tb : table) : Prop :=
    forall n len w l, lookup_tb tb n len w = Some l -> ends_sem (NT n) w l.

  Lemma tb_ok_nil : tb_ok [].
  Proof. intros n len w l H; discriminate. Qed.

  Lemma tb_ok_cons n len w l tb : ends_sem (NT n) w l -> tb_ok tb -> tb_ok ((n, len, w, l) :: tb).
  Proof.
    intros He Hok m k v l' H. cbn [lookup_tb] in H.
    destruct (String.eqb m n && Nat.eqb k len && list_eqb v w) eqn:E.
    - inversion H; subst l'. apply andb_true_iff in E as [E E3]. apply andb_true_iff in E as [E1 _].
      apply String.eqb_eq in E1. apply list_eqb_eq in E3. subst. exact He.
    - eapply Hok; exact H.
  Qed.

  (* a threaded map over remainders *)
  Lemma mapm_spec (F : list string -> table -> option (list (list string) * table)) (e' : expr) :
    forall l,
    (forall x tb y tb1, In x l -> tb_ok tb -> F x tb = Some (y, tb1) -> ends_sem e' x y /\ tb_ok tb1) ->
    forall tb r tb2, tb_ok tb -> mapm F l tb = Some (r, tb2) ->
      (forall w', In w' r -> exists x, In x l /\ exists u, x = u ++ w' /\ Der g e' u) /\
      (forall x u w', In x l -> Der g e' u -> x = u ++ w' -> In w' r) /\
      tb_ok tb2.
  Proof.
    induction l as [|x l IH]; intros HF tb r tb2 Hok H; cbn [mapm] in H.
    - inversion H; subst. split; [intros w' [] | split; [intros x u w' [] | exact Hok]].
    - destruct (F x tb) as [[y tb1]|] eqn:E; [|discriminate].
      destruct (mapm F l tb1) as [[z tb3]|] eqn:Em; [|discriminate]. inversion H; subst r tb2; clear H.
      destruct (HF x tb y tb1 (or_introl eq_refl) Hok E) as [[Hs Hc] Hok1].
      destruct (IH (fun x0 tb0 y0 tb10 Hin => HF x0 tb0 y0 tb10 (or_intror Hin)) tb1 z tb3 Hok1 Em) as (Hs' & Hc' & Hok3).
      split; [|split].
      + intros w' Hin. apply in_app_or in Hin as [Hin|Hin].
        * destruct (Hs _ Hin) as (u & Hu & D). exists x. split; [left; reflexivity | exists u; split; assumption].
        * destruct (Hs' _ Hin) as (x0 & Hx0 & Hrest). exists x0. split; [right; exact Hx0 | exact Hrest].
      + intros x0 u w' [<-|Hin] D Hu; apply in_or_app.
        * left. eapply Hc; eassumption.
        * right. eapply Hc'; eassumption.
      + exact Hok3.
  Qed.

  Lemma Der_NT_inv n u : Der g (NT n) u -> exists e, lookup_rule n g = Some e /\ Der g e u.
  Proof. intro D. inversion D; subst. eauto. Qed.

  Theorem endsm_spec : forall fuel e w tb l tb',
    tb_ok tb -> endsm g fuel e w tb = Some (l, tb') -> ends_sem e w l /\ tb_ok tb'.
  Proof.
    induction fuel as [|f IH]; intros e w tb l tb' Hok H; [discriminate|].
    destruct e as [t | n | a b | a b | a | a | a | ]; cbn [endsm] in H.
    - (* Tok *)
      destruct w as [|x r].
      + inversion H; subst. split; [|exact Hok]. split; [intros w' [] |].
        intros u w' D Hu. inversion D; subst. discriminate.
      + destruct (String.eqb x t) eqn:E; inversion H; subst; (split; [|exact Hok]); split.
        * intros w' [<-|[]]. apply String.eqb_eq in E; subst. exists [t]. split; [reflexivity | constructor].
        * intros u w' D Hu. inversion D; subst. cbn [app] in Hu. inversion Hu; subst. left; reflexivity.
        * intros w' [].
        * intros u w' D Hu. inversion D; subst. cbn [app] in Hu. inversion Hu; subst.
          rewrite String.eqb_refl in E. discriminate.
    - (* NT *)
      destruct (lookup_tb tb n (length w) w) as [l0|] eqn:El.
      + inversion H; subst. split; [eapply Hok; exact El | exact Hok].
      + destruct (lookup_rule n g) as [b|] eqn:Er.
        * destruct (endsm g f b w tb) as [[l1 tb1]|] eqn:E1; [|discriminate]. inversion H; subst; clear H.
          destruct (IH _ _ _ _ _ Hok E1) as [[Hs Hc] Hok1].
          assert (He : ends_sem (NT n) w (dedup l1)).
          { apply ends_sem_dedup. split.
            - intros w' Hin. destruct (Hs _ Hin) as (u & Hu & D). exists u. split; [exact Hu | econstructor; eassumption].
            - intros u w' D Hu. destruct (Der_NT_inv _ _ D) as (e & He & De). rewrite Er in He. inversion He; subst e.
              eapply Hc; eassumption. }
          split; [exact He | apply tb_ok_cons; assumption].
        * inversion H; subst. split; [|exact Hok]. split; [intros w' [] |].
          intros u w' D _. destruct (Der_NT_inv _ _ D) as (e & He & _). rewrite Er in He. discriminate.
    - (* Seq *)
      destruct (endsm g f a w tb) as [[l1 tb1]|] eqn:E1; [|discriminate].
      destruct (IH _ _ _ _ _ Hok E1) as [[Hs Hc] Hok1].
      destruct (mapm (endsm g f b) l1 tb1) as [[r tb2]|] eqn:Em; [|discriminate]. inversion H; subst; clear H.
      destruct (mapm_spec (endsm g f b) b l1 (fun x tb0 y tb10 _ Hk Hx => IH _ _ _ _ _ Hk Hx) tb1 r tb' Hok1 Em) as (Ms & Mc & Hok2).
      split; [|exact Hok2]. apply ends_sem_dedup. split.
      + intros w' Hin. destruct (Ms _ Hin) as (x & Hx & u2 & -> & D2). destruct (Hs _ Hx) as (u1 & -> & D1).
        exists (u1 ++ u2). split; [rewrite app_assoc; reflexivity | constructor; assumption].
      + intros u w' D Hu. inversion D; subst. rewrite <- app_assoc in *.
        eapply Mc; [eapply Hc; [eassumption | reflexivity] | eassumption | reflexivity].
    - (* Alt *)
      destruct (endsm g f a w tb) as [[x tb1]|] eqn:E1; [|discriminate].
      destruct (endsm g f b w tb1) as [[y tb2]|] eqn:E2; [|discriminate]. inversion H; subst; clear H.
      destruct (IH _ _ _ _ _ Hok E1) as [[Hs1 Hc1] Hok1]. destruct (IH _ _ _ _ _ Hok1 E2) as [[Hs2 Hc2] Hok2].
      split; [|exact Hok2]. apply ends_sem_dedup. split.
      + intros w' Hin. apply in_app_or in Hin as [Hin|Hin].
        * destruct (Hs1 _ Hin) as (u & Hu & D). exists u. split; [exact Hu | apply DAltL; exact D].
        * destruct (Hs2 _ Hin) as (u & Hu & D). exists u. split; [exact Hu | apply DAltR; exact D].
      + intros u w' D Hu. apply in_or_app. inversion D; subst; [left; eapply Hc1 | right; eapply Hc2]; first [eassumption | reflexivity].
    - (* Star *)
      destruct (endsm g f a w tb) as [[l1 tb1]|] eqn:E1; [|discriminate].
      destruct (mapm (endsm g f (Star a)) (filter (fun w1 => length w1 <? length w) l1) tb1) as [[r tb2]|] eqn:Em; [|discriminate].
      inversion H; subst; clear H.
      destruct (IH _ _ _ _ _ Hok E1) as [[Hs Hc] Hok1].
      destruct (mapm_spec (endsm g f (Star a)) (Star a) _ (fun x tb0 y tb10 _ Hk Hx => IH _ _ _ _ _ Hk Hx) tb1 r tb' Hok1 Em) as (Ms & Mc & Hok2).
      split; [|exact Hok2]. apply ends_sem_dedup. split.
      + intros w' [<-|Hin]; [exists []; split; [reflexivity | constructor]|].
        destruct (Ms _ Hin) as (x & Hx & u2 & -> & D2). apply filter_In in Hx as [Hx _].
        destruct (Hs _ Hx) as (u1 & -> & D1). exists (u1 ++ u2). split; [rewrite app_assoc; reflexivity | apply DStarS; assumption].
      + intros u w' D. remember (Star a) as e eqn:Ee. revert w'.
        induction D as [ | | | | | a' | a' u1 u2 D1 _ D2 IH2 | | | | ]; try discriminate; inversion Ee; subst a'; intros w' Hu.
        * cbn [app] in Hu. subst. left; reflexivity.
        * destruct u1 as [|x1 u1].
          -- cbn [app] in Hu. apply (IH2 eq_refl Em Ms Mc). exact Hu.
          -- right. rewrite <- app_assoc in Hu.
             eapply Mc; [| exact D2 | reflexivity].
             apply filter_In. split; [eapply Hc; eassumption|]. apply Nat.ltb_lt. subst w. cbn [app length]. rewrite !app_length. lia.
    - (* Plus *)
      destruct (endsm g f a w tb) as [[l1 tb1]|] eqn:E1; [|discriminate].
      destruct (IH _ _ _ _ _ Hok E1) as [[Hs Hc] Hok1].
      destruct (mapm (endsm g f (Star a)) l1 tb1) as [[r tb2]|] eqn:Em; [|discriminate]. inversion H; subst; clear H.
      destruct (mapm_spec (endsm g f (Star a)) (Star a) l1 (fun x tb0 y tb10 _ Hk Hx => IH _ _ _ _ _ Hk Hx) tb1 r tb' Hok1 Em) as (Ms & Mc & Hok2).
      split; [|exact Hok2]. apply ends_sem_dedup. split.
      + intros w' Hin. destruct (Ms _ Hin) as (x & Hx & u2 & -> & D2). destruct (Hs _ Hx) as (u1 & -> & D1).
        exists (u1 ++ u2). split; [rewrite app_assoc; reflexivity | apply DPlus; assumption].
      + intros u w' D Hu. inversion D; subst. rewrite <- app_assoc in *.
        eapply Mc; [eapply Hc; [eassumption | reflexivity] | eassumption | reflexivity].
    - (* Opt *)
      destruct (endsm g f a w tb) as [[l1 tb1]|] eqn:E1; [|discriminate]. inversion H; subst; clear H.
      destruct (IH _ _ _ _ _ Hok E1) as [[Hs Hc] Hok1]. split; [|exact Hok1]. split.
      + intros w' [<-|Hin]; [exists []; split; [reflexivity | constructor]|].
        destruct (Hs _ Hin) as (u & Hu & D). exists u. split; [exact Hu | apply DOpt1; exact D].
      + intros u w' D Hu. inversion D; subst; [left; reflexivity | right; eapply Hc; first [eassumption | reflexivity]].
    - (* Eps *)
      inversion H; subst. split; [|exact Hok]. split.
      + intros w' [<-|[]]. exists []. split; [reflexivity | constructor].
      + intros u w' D Hu. inversion D; subst. left; reflexivity.
  Qed.

  (* whenever the memoising recogniser answers, its answer is the truth about derivability from the start rule *)
  Theorem recognise_m_spec fuel start w b :
    recognise_m g fuel start w = Some b -> (b = true <-> Der g (NT start) w).
  Proof.
    unfold recognise_m. destruct (endsm g fuel (NT start) w []) as [[l tb]|] eqn:E; [|discriminate].
    intro H; inversion H; subst b; clear H.
    destruct (endsm_spec _ _ _ _ _ _ tb_ok_nil E) as [[Hs Hc] _]. split.
    - intro Hb. apply existsb_exists in Hb as (r & Hin & Hr). destruct r; [|discriminate].
      destruct (Hs _ Hin) as (u & Hu & D). rewrite app_nil_r in Hu. subst. exact D.
    - intro D. apply existsb_exists. exists []. split; [|reflexivity].
      eapply Hc; [exact D | rewrite app_nil_r; reflexivity].
  Qed.
End G.
