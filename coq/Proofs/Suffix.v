(* Proofs/Suffix.v -- the second half of the substitution theorem for spliced SMILES.

   Host string  pre ++ [marker atom] ++ post ,  new string  pre ++ child ++ post .
   Embed.fragment_embeds describes the state after the child.  This file shows that the host's remaining tokens
   [post] then act on that state exactly as they acted on the host after its marker atom, up to the renumbering
   "atoms after the marker move up by (atoms of the child - 1), ring bonds made after the marker move up by the
   child's ring bonds": the state of the host run and the state of the new run are two views (hst / est) of the same
   [parts] at every step.  Needed: the token after the marker closes a branch (or the string ends there), so that
   nothing else is ever attached to the marker atom; the child is complete (no open branch, ring label or bond). *)
From Coq Require Import Ascii String ZArith Bool Arith Lia List.
From GV Require Import Base.Util Spec.Smiles Proofs.Embed.
Import ListNotations.
Open Scope list_scope.
Open Scope nat_scope.

(* ------------------------------------------------------------------ lists *)
Lemma upd_nth_app1 {A} (f : A -> A) l1 l2 u : u < length l1 -> upd_nth u f (l1 ++ l2) = upd_nth u f l1 ++ l2.
Proof.
  revert u; induction l1 as [|x l1 IH]; intros u H; cbn [length] in H; [lia|].
  destruct u as [|u]; cbn [app upd_nth]; [reflexivity|]. rewrite IH by lia. reflexivity.
Qed.

Lemma upd_nth_app_ge {A} (f : A -> A) l1 l2 u :
  length l1 <= u -> upd_nth u f (l1 ++ l2) = l1 ++ upd_nth (u - length l1) f l2.
Proof.
  revert u; induction l1 as [|x l1 IH]; intros u H; cbn [length app] in *.
  - rewrite Nat.sub_0_r. reflexivity.
  - destruct u as [|u]; [lia|]. cbn [upd_nth Nat.sub]. rewrite IH by lia. reflexivity.
Qed.

Lemma map_upd_nth {A B} (h : A -> B) (f : A -> A) (g : B -> B) l u :
  (forall y, h (f y) = g (h y)) -> map h (upd_nth u f l) = upd_nth u g (map h l).
Proof.
  intro E. revert u; induction l as [|x l IH]; intros [|u]; cbn [upd_nth map]; try reflexivity.
  - rewrite E. reflexivity.
  - rewrite IH. reflexivity.
Qed.

Lemma Forall_upd_nth {A} (P : A -> Prop) (f : A -> A) l u :
  Forall P l -> (forall x, P x -> P (f x)) -> Forall P (upd_nth u f l).
Proof.
  intros H Hf. revert u; induction H as [|x l Hx Hl IH]; intros [|u]; cbn [upd_nth]; constructor; auto.
Qed.

(* ------------------------------------------------------------------ well-formed machine states *)
Definition slot_ok (na nr : nat) (s : slot) : Prop :=
  match s with SAtom j => j < na | SH => True | SRing q => q < nr end.

Definition open_ok (na nr : nat) (o : nat * (nat * option bsym * nat)) : Prop :=
  fst (fst (snd o)) < na /\ snd (snd o) < nr.

Definition ring_ok (na nr : nat) (r : nat * (nat * nat)) : Prop :=
  fst r < nr /\ fst (snd r) < na /\ snd (snd r) < na.

Definition wf (s : pst) : Prop :=
  length (p_slots s) = length (p_atoms s) /\
  Forall (Forall (slot_ok (length (p_atoms s)) (p_nring s))) (p_slots s) /\
  Forall (fun u => u < length (p_atoms s)) (p_stack s) /\
  (forall u, p_cur s = Some u -> u < length (p_atoms s)) /\
  Forall (open_ok (length (p_atoms s)) (p_nring s)) (p_open s) /\
  Forall (ring_ok (length (p_atoms s)) (p_nring s)) (p_rings s).

Lemma wf0 : wf pst0.
Proof. unfold wf, pst0; cbn. repeat split; try constructor. intros u H; discriminate. Qed.

Lemma slot_ok_mono na nr na' nr' s : na <= na' -> nr <= nr' -> slot_ok na nr s -> slot_ok na' nr' s.
Proof. destruct s; cbn; lia. Qed.

Lemma slots_ok_mono na nr na' nr' sl :
  na <= na' -> nr <= nr' -> Forall (Forall (slot_ok na nr)) sl -> Forall (Forall (slot_ok na' nr')) sl.
Proof.
  intros H1 H2 H. eapply Forall_impl; [|exact H]. intros l Hl. eapply Forall_impl; [|exact Hl].
  intros s. apply slot_ok_mono; assumption.
Qed.

Lemma open_ok_mono na nr na' nr' ol :
  na <= na' -> nr <= nr' -> Forall (open_ok na nr) ol -> Forall (open_ok na' nr') ol.
Proof.
  intros H1 H2 H. eapply Forall_impl; [|exact H]. intros o [Ha Hb]. split; lia.
Qed.

Lemma ring_ok_mono na nr na' nr' rl :
  na <= na' -> nr <= nr' -> Forall (ring_ok na nr) rl -> Forall (ring_ok na' nr') rl.
Proof.
  intros H1 H2 H. eapply Forall_impl; [|exact H]. intros o (Ha & Hb & Hc). repeat split; lia.
Qed.

Lemma Forall_repeat_SH na nr h : Forall (slot_ok na nr) (repeat SH h).
Proof. induction h as [|h IH]; cbn [repeat]; constructor; [exact I | exact IH]. Qed.

Lemma add_slot_ok na nr i s sl :
  Forall (Forall (slot_ok na nr)) sl -> slot_ok na nr s -> Forall (Forall (slot_ok na nr)) (add_slot i s sl).
Proof.
  intros H Hs. unfold add_slot. apply Forall_upd_nth; [exact H|].
  intros l Hl. apply Forall_app. split; [exact Hl | constructor; [exact Hs | constructor]].
Qed.

Lemma find_open_ok na nr l ol a b q :
  Forall (open_ok na nr) ol -> find_open l ol = Some (a, b, q) -> a < na /\ q < nr.
Proof.
  induction ol as [|[l' [[a' b'] q']] ol IH]; intros H E; cbn [find_open] in E; [discriminate|].
  inversion H as [|? ? Ho Hr]; subst. destruct (Nat.eqb l l').
  - inversion E; subst. exact Ho.
  - apply IH; assumption.
Qed.

Lemma remove_open_Forall (P : nat * (nat * option bsym * nat) -> Prop) l ol :
  Forall P ol -> Forall P (remove_open l ol).
Proof.
  induction ol as [|[l' v] ol IH]; intro H; cbn [remove_open]; [constructor|].
  inversion H as [|? ? Ho Hr]; subst. destruct (Nat.eqb l l'); [exact Hr | constructor; [exact Ho | apply IH; exact Hr]].
Qed.

Lemma step_wf s t s' : wf s -> step s t = Some s' -> wf s'.
Proof.
  intros (Hl & Hs & Hst & Hc & Ho & Hr) H. destruct t as [a| b | | | l |]; cbn [step] in H.
  - (* atom *)
    destruct (p_cur s) as [c|] eqn:Ec.
    + inversion H; subst s'; clear H. unfold wf. cbn [p_atoms p_slots p_stack p_cur p_open p_nring p_rings].
      rewrite !app_length, add_slot_length. cbn [length]. specialize (Hc c eq_refl).
      repeat split.
      * lia.
      * apply Forall_app. split.
        -- apply add_slot_ok; [eapply slots_ok_mono; [| |exact Hs]; lia | cbn; lia].
        -- constructor; [|constructor]. constructor; [cbn; lia | apply Forall_repeat_SH].
      * eapply Forall_impl; [|exact Hst]. cbn. intros; lia.
      * intros u E; inversion E; subst. lia.
      * eapply open_ok_mono; [| |exact Ho]; lia.
      * eapply ring_ok_mono; [| |exact Hr]; lia.
    + destruct (p_pend s); [discriminate|]. inversion H; subst s'; clear H. unfold wf.
      cbn [p_atoms p_slots p_stack p_cur p_open p_nring p_rings]. rewrite !app_length. cbn [length].
      repeat split.
      * lia.
      * apply Forall_app. split; [eapply slots_ok_mono; [| |exact Hs]; lia|].
        constructor; [apply Forall_repeat_SH | constructor].
      * eapply Forall_impl; [|exact Hst]. cbn. intros; lia.
      * intros u E; inversion E; subst. lia.
      * eapply open_ok_mono; [| |exact Ho]; lia.
      * eapply ring_ok_mono; [| |exact Hr]; lia.
  - destruct (p_cur s) eqn:Ec; [|discriminate]. destruct (p_pend s); [discriminate|].
    inversion H; subst s'. unfold wf; cbn. repeat split; try assumption.
    all: try (intros u E; apply Hc; try rewrite Ec; exact E).
  - destruct (p_cur s) as [c|] eqn:Ec; [|discriminate]. destruct (p_pend s); [discriminate|].
    inversion H; subst s'. unfold wf; cbn. repeat split; try assumption.
    all: try (intros u E; apply Hc; try rewrite Ec; exact E).
    all: try (constructor; [apply Hc; try rewrite Ec; reflexivity | exact Hst]).
  - destruct (p_stack s) as [|c st] eqn:Est; [discriminate|]. destruct (p_pend s); [discriminate|].
    inversion H; subst s'. inversion Hst; subst. unfold wf; cbn. repeat split; try assumption.
    intros u E; inversion E; subst; assumption.
  - destruct (p_cur s) as [c|] eqn:Ec; [|discriminate]. specialize (Hc c eq_refl).
    destruct (find_open l (p_open s)) as [[[a b0] q]|] eqn:Ef.
    + destruct (Nat.eqb a c); [discriminate|]. destruct (merge_bsym b0 (p_pend s)); [|discriminate].
      inversion H; subst s'; clear H. destruct (find_open_ok _ _ _ _ _ _ _ Ho Ef) as [Ha Hq].
      unfold wf; cbn [p_atoms p_slots p_stack p_cur p_open p_nring p_rings]. rewrite add_slot_length.
      repeat split; try assumption.
      * apply add_slot_ok; [exact Hs | cbn; exact Hq].
      * intros u E. try rewrite Ec in E. inversion E; subst; exact Hc.
      * apply remove_open_Forall. exact Ho.
      * apply Forall_app. split; [exact Hr | constructor; [repeat split; cbn [fst snd]; assumption | constructor]].
    + inversion H; subst s'; clear H.
      unfold wf; cbn [p_atoms p_slots p_stack p_cur p_open p_nring p_rings]. rewrite add_slot_length.
      repeat split; try assumption.
      * apply add_slot_ok; [eapply slots_ok_mono; [| |exact Hs]; lia | cbn; lia].
      * intros u E. try rewrite Ec in E. inversion E; subst; exact Hc.
      * constructor; [split; cbn; lia | eapply open_ok_mono; [| |exact Ho]; lia].
      * eapply ring_ok_mono; [| |exact Hr]; lia.
  - destruct (p_cur s) eqn:Ec; [|discriminate]. destruct (p_pend s); [discriminate|].
    inversion H; subst s'. unfold wf; cbn. repeat split; try assumption. intros u E; discriminate.
Qed.

Lemma run_wf ts : forall s s', wf s -> run s ts = Some s' -> wf s'.
Proof.
  induction ts as [|t ts IH]; intros s s' Hw H; cbn [run] in H; [inversion H; subst; exact Hw|].
  destruct (step s t) as [s1|] eqn:E; [|discriminate]. eapply IH; [eapply step_wf; eassumption | exact H].
Qed.

Lemma all_some_repeat_SH rs i h : all_some (map (resolve_slot rs i) (repeat SH h)) = Some (repeat None h).
Proof. induction h as [|h IH]; cbn [repeat map resolve_slot all_some]; [reflexivity|]. rewrite IH. reflexivity. Qed.

(* ------------------------------------------------------------------ finish, unfolded once *)
Lemma finish_some s M :
  finish s = Some M ->
  p_stack s = [] /\ p_open s = [] /\ p_pend s = None /\ p_atoms s <> [] /\
  exists nb, resolve_all (p_rings s) 0 (p_slots s) = Some nb /\ M = mkMol (p_atoms s) nb (p_bonds s).
Proof.
  unfold finish. destruct (p_stack s); [|discriminate]. destruct (p_open s); [|discriminate].
  destruct (p_pend s); [discriminate|]. destruct (p_atoms s) eqn:E; [discriminate|].
  unfold opt_bind. destruct (resolve_all (p_rings s) 0 (p_slots s)) as [nb|]; [|discriminate].
  intro H; inversion H; subst. repeat split; try discriminate. exists nb. split; reflexivity.
Qed.

Lemma finish_eq s nb :
  p_stack s = [] -> p_open s = [] -> p_pend s = None -> p_atoms s <> [] ->
  resolve_all (p_rings s) 0 (p_slots s) = Some nb -> finish s = Some (mkMol (p_atoms s) nb (p_bonds s)).
Proof.
  intros H1 H2 H3 H4 H5. unfold finish. rewrite H1, H2, H3. destruct (p_atoms s) eqn:E; [contradiction|].
  rewrite H5. reflexivity.
Qed.

(* ------------------------------------------------------------------ the two views *)
Section Suf.
  Variable S : pst.                  (* host state before the marker *)
  Variable c : nat.
  Variables am a0 : atom.            (* marker atom of the host; first atom of the child *)
  Variable sk : pst.                 (* the child's own final state *)
  Variable xk : nat.
  Hypothesis Hcur : p_cur S = Some c.
  Hypothesis HwfS : wf S.
  Hypothesis Hk_stack : p_stack sk = [].
  Hypothesis Hk_open : p_open sk = [].
  Hypothesis Hk_cur : p_cur sk = Some xk.
  Hypothesis Hk_pend : p_pend sk = None.
  Hypothesis Hk_len : length (p_slots sk) = length (p_atoms sk).
  Hypothesis Hk_pos : 0 < length (p_atoms sk).

  Let n := length (p_atoms S).
  Let k := length (p_atoms sk).
  Let rS := p_nring S.
  Let rk := p_nring sk.

  Definition ren (j : nat) : nat := if j <=? n then j else j + (k - 1).
  Definition renr (q : nat) : nat := if q <? rS then q else q + rk.
  Definition ren_slot (s : slot) : slot :=
    match s with SAtom j => SAtom (ren j) | SH => SH | SRing q => SRing (renr q) end.
  Definition ren_bond (b : nat * nat * bsym) : nat * nat * bsym := let '(x, y, s) := b in (ren x, ren y, s).
  Definition ren_ring (r : nat * (nat * nat)) : nat * (nat * nat) := let '(q, (x, y)) := r in (renr q, (ren x, ren y)).
  Definition ren_open (o : nat * (nat * option bsym * nat)) : nat * (nat * option bsym * nat) :=
    let '(l, (a, b, q)) := o in (l, (ren a, b, renr q)).
  Definition ren_cur (u : nat) : nat := if Nat.eqb u n then n + xk else ren u.

  Record parts := mkParts {
    A2 : list atom;                 (* atoms written after the marker *)
    S1 : list (list slot);          (* slot lists of the atoms before the marker *)
    S2 : list (list slot);          (* slot lists of the atoms after the marker *)
    B2 : list (nat * nat * bsym);   (* bonds made after the marker's *)
    R2 : list (nat * (nat * nat));  (* ring bonds closed after the marker *)
    pcur : option nat; pstack : list nat; ppend : option bsym;
    popen : list (nat * (nat * option bsym * nat)); pnring : nat }.

  Let ms : list slot := SAtom c :: repeat SH (a_h am).
  Let bm : bsym := default_bond (nth c (p_atoms S) am) am.

  (* the host run's state *)
  Definition hst (p : parts) : pst :=
    mkPst (p_atoms S ++ am :: A2 p) (S1 p ++ ms :: S2 p) (p_bonds S ++ (c, n, bm) :: B2 p) (p_rings S ++ R2 p)
          (pcur p) (pstack p) (ppend p) (popen p) (pnring p).

  (* the new run's state: the child's atoms, slots, bonds and ring bonds stand where the marker's stood *)
  Definition est (p : parts) : pst :=
    mkPst (p_atoms S ++ p_atoms sk ++ A2 p)
          (map (map ren_slot) (S1 p) ++ sh_slots S c (p_slots sk) ++ map (map ren_slot) (S2 p))
          (p_bonds S ++ (c, n, link_bond S c a0) :: map (sh_bond S) (p_bonds sk) ++ map ren_bond (B2 p))
          (p_rings S ++ map (sh_ring S) (p_rings sk) ++ map ren_ring (R2 p))
          (option_map ren_cur (pcur p)) (map ren (pstack p)) (ppend p) (map ren_open (popen p)) (pnring p + rk).

  Definition J (p : parts) : Prop :=
    length (S1 p) = n /\ length (S2 p) = length (A2 p) /\
    (forall u, pcur p = Some u -> u < n + 1 + length (A2 p)) /\
    Forall (fun u => u <> n /\ u < n + 1 + length (A2 p)) (pstack p) /\
    Forall (fun o => fst (fst (snd o)) <> n /\ fst (fst (snd o)) < n + 1 + length (A2 p)) (popen p) /\
    rS <= pnring p.

  Lemma ren_inj x y : Nat.eqb (ren x) (ren y) = Nat.eqb x y.
  Proof.
    unfold ren. destruct (Nat.leb_spec x n), (Nat.leb_spec y n); destruct (Nat.eqb_spec x y); subst;
      first [reflexivity | apply Nat.eqb_eq; lia | apply Nat.eqb_neq; lia].
  Qed.

  Lemma ren_lt u : u < n -> ren u = u.
  Proof. intro H. unfold ren. destruct (Nat.leb_spec u n); [reflexivity | lia]. Qed.
  Lemma ren_gt u : n < u -> ren u = u + (k - 1).
  Proof. intro H. unfold ren. destruct (Nat.leb_spec u n); [lia | reflexivity]. Qed.

  Lemma len_CS : length (sh_slots S c (p_slots sk)) = k.
  Proof.
    unfold sh_slots. destruct (p_slots sk) as [|s0 r] eqn:E.
    - exfalso. try rewrite E in Hk_len. cbn in Hk_len. lia.
    - cbn [length]. rewrite map_length. try rewrite E in Hk_len. cbn [length] in Hk_len. unfold k. lia.
  Qed.

  (* atoms: same atom at the renumbered place *)
  Lemma nth_ren A2' u d : u <> n -> 
    nth (ren u) (p_atoms S ++ p_atoms sk ++ A2') d = nth u (p_atoms S ++ am :: A2') d.
  Proof.
    intro Hu. destruct (Nat.lt_ge_cases u n) as [Hlt|Hge].
    - rewrite ren_lt by exact Hlt. rewrite !app_nth1 by exact Hlt. reflexivity.
    - assert (n < u) by lia. rewrite ren_gt by assumption.
      rewrite (app_nth2 (p_atoms S)) by (fold n; lia). rewrite (app_nth2 (p_atoms sk)) by (fold n k; lia).
      rewrite (app_nth2 (p_atoms S)) by (fold n; lia). fold n k.
      remember (u - n - 1) as j eqn:Ej.
      replace (u - n) with (Datatypes.S j) by lia. cbn [nth]. f_equal. lia.
  Qed.

  (* slots: adding a slot to an atom other than the marker, in both views *)
  Lemma add_slot_views (s1 s2 : list (list slot)) u x :
    u <> n -> length s1 = n ->
    exists s1' s2',
      add_slot u x (s1 ++ ms :: s2) = s1' ++ ms :: s2' /\ length s1' = n /\ length s2' = length s2 /\
      add_slot (ren u) (ren_slot x) (map (map ren_slot) s1 ++ sh_slots S c (p_slots sk) ++ map (map ren_slot) s2) =
      map (map ren_slot) s1' ++ sh_slots S c (p_slots sk) ++ map (map ren_slot) s2'.
  Proof.
    intros Hu Hl. unfold add_slot.
    assert (Hm : forall l : list slot, map ren_slot (l ++ [x]) = map ren_slot l ++ [ren_slot x])
      by (intro l; rewrite map_app; reflexivity).
    destruct (Nat.lt_ge_cases u n) as [Hlt|Hge].
    - exists (upd_nth u (fun l => l ++ [x]) s1), s2.
      rewrite upd_nth_app1 by lia. rewrite upd_nth_length. repeat split; try assumption; try reflexivity.
      rewrite ren_lt by exact Hlt. rewrite upd_nth_app1 by (rewrite map_length; lia).
      rewrite (map_upd_nth (map ren_slot) (fun l => l ++ [x]) (fun l => l ++ [ren_slot x])) by exact Hm. reflexivity.
    - assert (Hgt : n < u) by lia.
      remember (u - n - 1) as j eqn:Ej.
      exists s1, (upd_nth j (fun l => l ++ [x]) s2).
      rewrite upd_nth_app_ge by lia. rewrite Hl.
      replace (u - n) with (Datatypes.S j) by lia. cbn [upd_nth].
      rewrite upd_nth_length. repeat split; try assumption; try reflexivity.
      rewrite ren_gt by exact Hgt.
      rewrite upd_nth_app_ge by (rewrite map_length; lia). rewrite map_length, Hl.
      rewrite upd_nth_app_ge by (rewrite len_CS; lia). rewrite len_CS.
      replace (u + (k - 1) - n - k) with j by lia.
      rewrite (map_upd_nth (map ren_slot) (fun l => l ++ [x]) (fun l => l ++ [ren_slot x])) by exact Hm. reflexivity.
  Qed.

  Lemma find_open_ren l o :
    find_open l (map ren_open o) =
    match find_open l o with Some (a, b, q) => Some (ren a, b, renr q) | None => None end.
  Proof.
    induction o as [|[l' [[a b] q]] o IH]; cbn [map find_open ren_open]; [reflexivity|].
    destruct (Nat.eqb l l'); [reflexivity | exact IH].
  Qed.

  Lemma remove_open_ren l o : remove_open l (map ren_open o) = map ren_open (remove_open l o).
  Proof.
    induction o as [|[l' [[a b] q]] o IH]; cbn [map remove_open ren_open]; [reflexivity|].
    destruct (Nat.eqb l l'); [reflexivity|]. cbn [map ren_open]. rewrite IH. reflexivity.
  Qed.

  Lemma find_open_J (P : nat * (nat * option bsym * nat) -> Prop) l o a b q :
    Forall P o -> find_open l o = Some (a, b, q) -> exists l', P (l', (a, b, q)).
  Proof.
    induction o as [|[l' v] o IH]; intros H E; cbn [find_open] in E; [discriminate|].
    inversion H as [|? ? Ho Hr]; subst. destruct (Nat.eqb l l').
    - inversion E; subst. exists l'. exact Ho.
    - apply IH; assumption.
  Qed.

  Lemma map_ren_repeat h : map ren_slot (repeat SH h) = repeat SH h.
  Proof. induction h as [|h IH]; cbn [repeat map ren_slot]; [reflexivity | rewrite IH; reflexivity]. Qed.

  Lemma J_weaken_stack (st : list nat) m m' :
    m <= m' -> Forall (fun u => u <> n /\ u < m) st -> Forall (fun u => u <> n /\ u < m') st.
  Proof. intros H F. eapply Forall_impl; [|exact F]. cbn. intros u [? ?]. split; [assumption | lia]. Qed.

  Lemma J_weaken_open (ol : list (nat * (nat * option bsym * nat))) m m' :
    m <= m' -> Forall (fun o => fst (fst (snd o)) <> n /\ fst (fst (snd o)) < m) ol ->
    Forall (fun o => fst (fst (snd o)) <> n /\ fst (fst (snd o)) < m') ol.
  Proof. intros H F. eapply Forall_impl; [|exact F]. cbn. intros u [? ?]. split; [assumption | lia]. Qed.

  Lemma len_hst p : length (p_atoms (hst p)) = n + 1 + length (A2 p).
  Proof. unfold hst; cbn [p_atoms]. rewrite app_length. cbn [length]. fold n. lia. Qed.

  Lemma len_est p : length (p_atoms (est p)) = n + k + length (A2 p).
  Proof. unfold est; cbn [p_atoms]. rewrite !app_length. fold n k. lia. Qed.

  Lemma ren_cur_ne u : u <> n -> ren_cur u = ren u.
  Proof. intro H. unfold ren_cur. destruct (Nat.eqb_spec u n); [contradiction | reflexivity]. Qed.

  (* one token of the host's remainder, in both views *)
  Lemma step_suffix p t h' :
    J p -> (pcur p = Some n -> t = TClose) -> step (hst p) t = Some h' ->
    exists p', h' = hst p' /\ step (est p) t = Some (est p') /\ J p' /\ pcur p' <> Some n.
  Proof.
    intros (HS1 & HS2 & HJc & HJs & HJo & HJr) Hn H.
    destruct t as [a | b | | | l |].
    - (* atom *)
      cbn [step] in H. rewrite len_hst in H.
      assert (Ecur_h : p_cur (hst p) = pcur p) by reflexivity.
      assert (Epend_h : p_pend (hst p) = ppend p) by reflexivity.
      rewrite Ecur_h, Epend_h in H.
      destruct (pcur p) as [u|] eqn:Ec.
      + assert (Hu : u <> n) by (intro; subst u; specialize (Hn eq_refl); discriminate).
        specialize (HJc u eq_refl).
        set (N := n + 1 + length (A2 p)) in *.
        destruct (add_slot_views (S1 p) (S2 p) u (SAtom N) Hu HS1) as (s1' & s2' & Eh & Hl1 & Hl2 & Ee).
        set (bb := match ppend p with Some b => b | None => default_bond (nth u (p_atoms (hst p)) a) a end) in *.
        exists (mkParts (A2 p ++ [a]) s1' (s2' ++ [SAtom u :: repeat SH (a_h a)]) (B2 p ++ [(u, N, bb)]) (R2 p)
                        (Some N) (pstack p) None (popen p) (pnring p)).
        split; [|split; [|split]].
        * inversion H; subst h'; clear H. unfold hst.
          cbn [A2 S1 S2 B2 R2 pcur pstack ppend popen pnring p_atoms p_slots p_bonds p_rings p_cur p_stack p_pend p_open p_nring hst].
          f_equal.
          -- rewrite <- app_assoc. reflexivity.
          -- rewrite Eh. rewrite <- app_assoc. reflexivity.
          -- rewrite <- app_assoc. reflexivity.
        * cbn [step]. rewrite len_est.
          assert (Ecur_e : p_cur (est p) = Some (ren u)) by (unfold est; cbn [p_cur]; rewrite Ec; cbn [option_map]; rewrite ren_cur_ne by exact Hu; reflexivity).
          assert (Epend_e : p_pend (est p) = ppend p) by reflexivity.
          rewrite Ecur_e, Epend_e.
          assert (EN : n + k + length (A2 p) = ren N) by (rewrite ren_gt by (unfold N; lia); unfold N; unfold k in *; lia).
          assert (Eb : match ppend p with Some b => b | None => default_bond (nth (ren u) (p_atoms (est p)) a) a end = bb).
          { unfold bb. destruct (ppend p); [reflexivity|]. unfold est, hst; cbn [p_atoms]. rewrite nth_ren by exact Hu. reflexivity. }
          rewrite Eb. f_equal. unfold est.
          cbn [A2 S1 S2 B2 R2 pcur pstack ppend popen pnring p_atoms p_slots p_bonds p_rings p_cur p_stack p_pend p_open p_nring option_map].
          f_equal.
          -- rewrite <- !app_assoc. reflexivity.
          -- rewrite EN. change (SAtom (ren N)) with (ren_slot (SAtom N)). rewrite Ee.
             rewrite map_app. cbn [map ren_slot]. rewrite map_ren_repeat. rewrite <- !app_assoc. reflexivity.
          -- rewrite map_app. cbn [map ren_bond]. rewrite EN. rewrite <- app_assoc. cbn [app]. rewrite <- app_assoc. reflexivity.
          -- f_equal. unfold ren_cur. destruct (Nat.eqb_spec N n); [unfold N in *; lia | exact EN].
        * unfold J. cbn [A2 S1 S2 B2 R2 pcur pstack ppend popen pnring]. rewrite !app_length. cbn [length].
          repeat split; try assumption; try lia.
          -- intros v E; inversion E; subst. unfold N. lia.
          -- eapply J_weaken_stack; [|exact HJs]. lia.
          -- eapply J_weaken_open; [|exact HJo]. lia.
        * cbn [pcur]. intro E; inversion E. unfold N in *. lia.
      + destruct (ppend p) eqn:Ep; [discriminate|].
        set (N := n + 1 + length (A2 p)) in *.
        exists (mkParts (A2 p ++ [a]) (S1 p) (S2 p ++ [repeat SH (a_h a)]) (B2 p) (R2 p)
                        (Some N) (pstack p) None (popen p) (pnring p)).
        split; [|split; [|split]].
        * inversion H; subst h'; clear H. unfold hst.
          cbn [A2 S1 S2 B2 R2 pcur pstack ppend popen pnring p_atoms p_slots p_bonds p_rings p_cur p_stack p_pend p_open p_nring hst].
          f_equal; rewrite <- app_assoc; reflexivity.
        * cbn [step]. rewrite len_est.
          assert (Ecur_e : p_cur (est p) = None) by (unfold est; cbn [p_cur]; rewrite Ec; reflexivity).
          assert (Epend_e : p_pend (est p) = None) by (unfold est; cbn [p_pend]; exact Ep).
          rewrite Ecur_e, Epend_e.
          assert (EN : n + k + length (A2 p) = ren N) by (rewrite ren_gt by (unfold N; lia); unfold N; unfold k in *; lia).
          f_equal. unfold est.
          cbn [A2 S1 S2 B2 R2 pcur pstack ppend popen pnring p_atoms p_slots p_bonds p_rings p_cur p_stack p_pend p_open p_nring option_map].
          f_equal.
          -- rewrite <- !app_assoc. reflexivity.
          -- rewrite map_app. cbn [map]. rewrite map_ren_repeat. rewrite <- !app_assoc. reflexivity.
          -- f_equal. unfold ren_cur. destruct (Nat.eqb_spec N n); [unfold N in *; lia | exact EN].
        * unfold J. cbn [A2 S1 S2 B2 R2 pcur pstack ppend popen pnring]. rewrite !app_length. cbn [length].
          repeat split; try assumption; try lia.
          -- intros v E; inversion E; subst. unfold N. lia.
          -- eapply J_weaken_stack; [|exact HJs]. lia.
          -- eapply J_weaken_open; [|exact HJo]. lia.
        * cbn [pcur]. intro E; inversion E. unfold N in *. lia.
    - (* bond symbol *)
      cbn [step] in H. change (p_cur (hst p)) with (pcur p) in H. change (p_pend (hst p)) with (ppend p) in H.
      destruct (pcur p) as [u|] eqn:Ec; [|discriminate]. destruct (ppend p) eqn:Ep; [discriminate|].
      assert (Hu : u <> n) by (intro; subst u; specialize (Hn eq_refl); discriminate).
      exists (mkParts (A2 p) (S1 p) (S2 p) (B2 p) (R2 p) (Some u) (pstack p) (Some b) (popen p) (pnring p)).
      split; [|split; [|split]].
      + inversion H; subst h'. reflexivity.
      + cbn [step]. unfold est at 1 2. cbn [p_cur p_pend]. rewrite Ec, Ep. cbn [option_map].
        unfold est. cbn [A2 S1 S2 B2 R2 pcur pstack ppend popen pnring p_atoms p_slots p_bonds p_rings p_cur p_stack p_pend p_open p_nring option_map].
        rewrite Ec. reflexivity.
      + unfold J. cbn [A2 S1 S2 B2 R2 pcur pstack ppend popen pnring]. repeat split; try assumption.
        all: try (intros v E; inversion E; subst; apply HJc; reflexivity).
      + cbn [pcur]. intro E; inversion E; contradiction.
    - (* open a branch *)
      cbn [step] in H. change (p_cur (hst p)) with (pcur p) in H. change (p_pend (hst p)) with (ppend p) in H.
      destruct (pcur p) as [u|] eqn:Ec; [|discriminate]. destruct (ppend p) eqn:Ep; [discriminate|].
      assert (Hu : u <> n) by (intro; subst u; specialize (Hn eq_refl); discriminate).
      exists (mkParts (A2 p) (S1 p) (S2 p) (B2 p) (R2 p) (Some u) (u :: pstack p) None (popen p) (pnring p)).
      split; [|split; [|split]].
      + inversion H; subst h'. reflexivity.
      + cbn [step]. unfold est at 1 2. cbn [p_cur p_pend]. rewrite Ec, Ep. cbn [option_map].
        unfold est. cbn [A2 S1 S2 B2 R2 pcur pstack ppend popen pnring p_atoms p_slots p_bonds p_rings p_cur p_stack p_pend p_open p_nring option_map map].
        rewrite Ec. cbn [option_map]. rewrite ren_cur_ne by exact Hu. reflexivity.
      + unfold J. cbn [A2 S1 S2 B2 R2 pcur pstack ppend popen pnring]. repeat split; try assumption.
        all: try (intros v E; inversion E; subst; apply HJc; reflexivity).
        all: try (constructor; [split; [exact Hu | apply HJc; reflexivity] | exact HJs]).
      + cbn [pcur]. intro E; inversion E; contradiction.
    - (* close a branch *)
      cbn [step] in H. change (p_stack (hst p)) with (pstack p) in H. change (p_pend (hst p)) with (ppend p) in H.
      destruct (pstack p) as [|u st] eqn:Es; [discriminate|]. destruct (ppend p) eqn:Ep; [discriminate|].
      inversion HJs as [|? ? [Hu Hub] HJs']; subst.
      exists (mkParts (A2 p) (S1 p) (S2 p) (B2 p) (R2 p) (Some u) st None (popen p) (pnring p)).
      split; [|split; [|split]].
      + inversion H; subst h'. reflexivity.
      + cbn [step]. unfold est at 1 2. cbn [p_stack p_pend]. rewrite Es, Ep. cbn [map].
        unfold est. cbn [A2 S1 S2 B2 R2 pcur pstack ppend popen pnring p_atoms p_slots p_bonds p_rings p_cur p_stack p_pend p_open p_nring option_map map].
        rewrite ren_cur_ne by exact Hu. reflexivity.
      + unfold J. cbn [A2 S1 S2 B2 R2 pcur pstack ppend popen pnring]. repeat split; try assumption.
        all: try (intros v E; inversion E; subst; exact Hub).
      + cbn [pcur]. intro E; inversion E; contradiction.
    - (* ring-closure label *)
      cbn [step] in H. change (p_cur (hst p)) with (pcur p) in H. change (p_pend (hst p)) with (ppend p) in H.
      change (p_open (hst p)) with (popen p) in H. change (p_nring (hst p)) with (pnring p) in H.
      destruct (pcur p) as [u|] eqn:Ec; [|discriminate].
      assert (Hu : u <> n) by (intro; subst u; specialize (Hn eq_refl); discriminate).
      pose proof (HJc u eq_refl) as Hub.
      destruct (find_open l (popen p)) as [[[a b0] q]|] eqn:Ef.
      + destruct (Nat.eqb a u) eqn:Eau; [discriminate|].
        destruct (merge_bsym b0 (ppend p)) as [ob|] eqn:Em; [|discriminate].
        destruct (find_open_J _ _ _ _ _ _ HJo Ef) as (l' & Ha & Hab). cbn [fst snd] in Ha, Hab.
        destruct (add_slot_views (S1 p) (S2 p) u (SRing q) Hu HS1) as (s1' & s2' & Eh & Hl1 & Hl2 & Ee).
        set (d0 := mkAtom [] false false 0 ChNone 0 0%Z) in *.
        set (bb := match ob with Some b => b | None => default_bond (nth a (p_atoms (hst p)) d0) (nth u (p_atoms (hst p)) d0) end) in *.
        exists (mkParts (A2 p) s1' s2' (B2 p ++ [(a, u, bb)]) (R2 p ++ [(q, (a, u))]) (Some u) (pstack p) None
                        (remove_open l (popen p)) (pnring p)).
        split; [|split; [|split]].
        * inversion H; subst h'; clear H. unfold hst.
          cbn [A2 S1 S2 B2 R2 pcur pstack ppend popen pnring p_atoms p_slots p_bonds p_rings p_cur p_stack p_pend p_open p_nring hst].
          f_equal.
          -- exact Eh.
          -- rewrite <- app_assoc. reflexivity.
          -- rewrite <- app_assoc. reflexivity.
        * cbn [step]. unfold est at 1 2 3. cbn [p_cur p_open p_pend]. rewrite Ec. cbn [option_map].
          rewrite ren_cur_ne by exact Hu. rewrite find_open_ren, Ef. rewrite ren_inj, Eau, Em.
          assert (Eb : match ob with Some b => b | None => default_bond (nth (ren a) (p_atoms (est p)) d0) (nth (ren u) (p_atoms (est p)) d0) end = bb).
          { unfold bb. destruct ob; [reflexivity|]. unfold est, hst; cbn [p_atoms]. rewrite !nth_ren by assumption. reflexivity. }
          fold d0. rewrite Eb. f_equal. unfold est.
          cbn [A2 S1 S2 B2 R2 pcur pstack ppend popen pnring p_atoms p_slots p_bonds p_rings p_cur p_stack p_pend p_open p_nring option_map].
          rewrite Ec. cbn [option_map]. rewrite ren_cur_ne by exact Hu.
          f_equal.
          -- change (SRing (renr q)) with (ren_slot (SRing q)). exact Ee.
          -- rewrite map_app. cbn [map ren_bond]. rewrite <- app_assoc. cbn [app]. rewrite <- app_assoc. reflexivity.
          -- rewrite map_app. cbn [map ren_ring]. rewrite <- !app_assoc. reflexivity.
          -- apply remove_open_ren.
        * unfold J. cbn [A2 S1 S2 B2 R2 pcur pstack ppend popen pnring]. repeat split; try assumption; try lia.
          all: try (intros v E; inversion E; subst; exact Hub).
          all: try (apply remove_open_Forall; exact HJo).
        * cbn [pcur]. intro E; inversion E; contradiction.
      + destruct (add_slot_views (S1 p) (S2 p) u (SRing (pnring p)) Hu HS1) as (s1' & s2' & Eh & Hl1 & Hl2 & Ee).
        exists (mkParts (A2 p) s1' s2' (B2 p) (R2 p) (Some u) (pstack p) None
                        ((l, (u, ppend p, pnring p)) :: popen p) (Datatypes.S (pnring p))).
        split; [|split; [|split]].
        * inversion H; subst h'; clear H. unfold hst.
          cbn [A2 S1 S2 B2 R2 pcur pstack ppend popen pnring p_atoms p_slots p_bonds p_rings p_cur p_stack p_pend p_open p_nring hst].
          f_equal. exact Eh.
        * cbn [step]. unfold est at 1 2. cbn [p_cur p_open]. rewrite Ec. cbn [option_map].
          rewrite ren_cur_ne by exact Hu. rewrite find_open_ren, Ef.
          assert (Er : renr (pnring p) = pnring p + rk) by (unfold renr; destruct (Nat.ltb_spec (pnring p) rS); [lia | reflexivity]).
          f_equal. unfold est.
          cbn [A2 S1 S2 B2 R2 pcur pstack ppend popen pnring p_atoms p_slots p_bonds p_rings p_cur p_stack p_pend p_open p_nring option_map map ren_open].
          rewrite Ec. cbn [option_map]. rewrite ren_cur_ne by exact Hu. rewrite Er.
          f_equal. rewrite <- Er. change (SRing (renr (pnring p))) with (ren_slot (SRing (pnring p))). exact Ee.
        * unfold J. cbn [A2 S1 S2 B2 R2 pcur pstack ppend popen pnring]. repeat split; try assumption; try lia.
          all: try (intros v E; inversion E; subst; exact Hub).
          all: try (constructor; [cbn [fst snd]; split; assumption | exact HJo]).
        * cbn [pcur]. intro E; inversion E; contradiction.
    - (* dot *)
      cbn [step] in H. change (p_cur (hst p)) with (pcur p) in H. change (p_pend (hst p)) with (ppend p) in H.
      destruct (pcur p) as [u|] eqn:Ec; [|discriminate]. destruct (ppend p) eqn:Ep; [discriminate|].
      exists (mkParts (A2 p) (S1 p) (S2 p) (B2 p) (R2 p) None (pstack p) None (popen p) (pnring p)).
      split; [|split; [|split]].
      + inversion H; subst h'. reflexivity.
      + cbn [step]. unfold est at 1 2. cbn [p_cur p_pend]. rewrite Ec, Ep. cbn [option_map]. reflexivity.
      + unfold J. cbn [A2 S1 S2 B2 R2 pcur pstack ppend popen pnring]. repeat split; try assumption.
        all: try (intros v E; discriminate).
      + cbn [pcur]. discriminate.
  Qed.

  Lemma run_suffix ts : forall p hf,
    J p -> (pcur p = Some n -> match ts with [] => True | t :: _ => t = TClose end) ->
    run (hst p) ts = Some hf -> exists pf, hf = hst pf /\ run (est p) ts = Some (est pf) /\ J pf.
  Proof.
    induction ts as [|t ts IH]; intros p hf HJ Hn H; cbn [run] in *.
    - inversion H; subst. exists p. split; [reflexivity | split; [reflexivity | exact HJ]].
    - destruct (step (hst p) t) as [h1|] eqn:E; [|discriminate].
      destruct (step_suffix p t h1 HJ Hn E) as (p1 & -> & E1 & HJ1 & Hne).
      rewrite E1. apply IH; [exact HJ1 | intro; contradiction | exact H].
  Qed.

  (* the parts right after the marker atom / after the child *)
  Definition p0 : parts :=
    mkParts [] (add_slot c (SAtom n) (p_slots S)) [] [] [] (Some n) (p_stack S) None (p_open S) rS.

  Lemma ren_slot_id s : slot_ok (Datatypes.S n) rS s -> ren_slot s = s.
  Proof.
    destruct s as [j| |q]; cbn [slot_ok ren_slot]; intro H; [|reflexivity|].
    - unfold ren. destruct (Nat.leb_spec j n); [reflexivity | lia].
    - unfold renr. destruct (Nat.ltb_spec q rS); [reflexivity | lia].
  Qed.

  Lemma map_ren_slot_id sl : Forall (Forall (slot_ok (Datatypes.S n) rS)) sl -> map (map ren_slot) sl = sl.
  Proof.
    induction 1 as [|l sl Hl Hsl IH]; cbn [map]; [reflexivity|]. rewrite IH. f_equal.
    induction Hl as [|s l Hs Hl' IHl]; cbn [map]; [reflexivity|]. rewrite IHl, ren_slot_id by exact Hs. reflexivity.
  Qed.

  Lemma hst_p0 : p_pend S = None -> step S (TAtom am) = Some (hst p0).
  Proof.
    intro Hp. cbn [step]. rewrite Hcur, Hp. unfold hst, p0.
    cbn [A2 S1 S2 B2 R2 pcur pstack ppend popen pnring]. rewrite app_nil_r. reflexivity.
  Qed.

  Lemma est_p0 : est p0 = embed S c a0 sk.
  Proof.
    destruct HwfS as (Hl & Hs & Hst & Hc & Ho & Hr).
    unfold est, p0, embed. cbn [A2 S1 S2 B2 R2 pcur pstack ppend popen pnring map option_map].
    rewrite !app_nil_r, Hk_stack, Hk_open, Hk_cur, Hk_pend. cbn [map app option_map]. f_equal.
    - f_equal. apply map_ren_slot_id. apply add_slot_ok; [|cbn; fold n; lia].
      eapply slots_ok_mono; [| |exact Hs]; fold n; fold rS; lia.
    - f_equal. unfold ren_cur. rewrite Nat.eqb_refl. reflexivity.
    - clear -Hst. fold n in Hst. induction Hst as [|u st Hu Hst' IH]; cbn [map]; [reflexivity|].
      rewrite IH. f_equal. unfold ren. destruct (Nat.leb_spec u n); [reflexivity | lia].
    - clear -Ho. fold n rS in Ho. induction Ho as [|[l [[a b] q]] ol [Ha Hq] Ho' IH]; cbn [map ren_open]; [reflexivity|].
      rewrite IH. cbn [fst snd] in Ha, Hq. f_equal. f_equal. f_equal.
      + f_equal. unfold ren. destruct (Nat.leb_spec a n); [reflexivity | lia].
      + unfold renr. destruct (Nat.ltb_spec q rS); [reflexivity | lia].
  Qed.

  Lemma J_p0 : J p0.
  Proof.
    destruct HwfS as (Hl & Hs & Hst & Hc & Ho & Hr).
    unfold J, p0. cbn [A2 S1 S2 B2 R2 pcur pstack ppend popen pnring length].
    rewrite add_slot_length. repeat split; try lia.
    all: try exact Hl.
    all: try (intros u E; inversion E; subst; lia).
    all: try (eapply Forall_impl; [|exact Hst]; cbn; fold n; intros; lia).
    all: try (eapply Forall_impl; [|exact Ho]; intros o [Ha _]; fold n in Ha; lia).
  Qed.

  (* the host's remaining tokens act on the spliced state as on the host's, in the other view *)
  Theorem suffix_simulates post hf :
    p_pend S = None ->
    match post with [] => True | t :: _ => t = TClose end ->
    run S (TAtom am :: post) = Some hf ->
    exists pf, hf = hst pf /\ run (embed S c a0 sk) post = Some (est pf) /\ J pf.
  Proof.
    intros Hp Hpost H. cbn [run] in H. rewrite (hst_p0 Hp) in H. rewrite <- est_p0.
    apply run_suffix; [exact J_p0 | intros _; exact Hpost | exact H].
  Qed.

  (* ---------------------------------------------------------------- the finished molecules *)
  Hypothesis HwfK : wf sk.

  Lemma renr_inj x y : Nat.eqb (renr x) (renr y) = Nat.eqb x y.
  Proof.
    unfold renr. destruct (Nat.ltb_spec x rS), (Nat.ltb_spec y rS); destruct (Nat.eqb_spec x y); subst;
      first [reflexivity | apply Nat.eqb_eq; lia | apply Nat.eqb_neq; lia].
  Qed.

  Lemma ring_partner_app q i l1 l2 :
    ring_partner q i (l1 ++ l2) =
    match ring_partner q i l1 with Some x => Some x | None => ring_partner q i l2 end.
  Proof.
    induction l1 as [|[q' [a b]] l1 IH]; cbn [app ring_partner]; [reflexivity|].
    destruct (Nat.eqb q q'); [destruct (Nat.eqb a i); reflexivity | exact IH].
  Qed.

  Lemma ring_partner_ren q i l :
    ring_partner (renr q) (ren i) (map ren_ring l) = option_map ren (ring_partner q i l).
  Proof.
    induction l as [|[q' [a b]] l IH]; cbn [map ren_ring ring_partner]; [reflexivity|].
    rewrite renr_inj. destruct (Nat.eqb q q'); [|exact IH].
    rewrite ren_inj. destruct (Nat.eqb a i); reflexivity.
  Qed.

  Lemma ring_partner_sh q i l :
    ring_partner (rS + q) (n + i) (map (sh_ring S) l) = option_map (fun x => n + x) (ring_partner q i l).
  Proof.
    induction l as [|[q' [a b]] l IH]; cbn [map sh_ring ring_partner]; [reflexivity|].
    fold n rS.
    replace (Nat.eqb (rS + q) (rS + q')) with (Nat.eqb q q')
      by (destruct (Nat.eqb_spec q q'); [subst; symmetry; apply Nat.eqb_refl | symmetry; apply Nat.eqb_neq; lia]).
    destruct (Nat.eqb q q'); [|exact IH].
    replace (Nat.eqb (n + a) (n + i)) with (Nat.eqb a i)
      by (destruct (Nat.eqb_spec a i); [subst; symmetry; apply Nat.eqb_refl | symmetry; apply Nat.eqb_neq; lia]).
    destruct (Nat.eqb a i); reflexivity.
  Qed.

  Lemma ring_partner_none q i (l : list (nat * (nat * nat))) :
    (forall r, In r l -> fst r <> q) -> ring_partner q i l = None.
  Proof.
    induction l as [|[q' [a b]] l IH]; intro H; cbn [ring_partner]; [reflexivity|].
    destruct (Nat.eqb_spec q q') as [->|Hne].
    - exfalso. apply (H (q', (a, b))); [left; reflexivity | reflexivity].
    - apply IH. intros r Hr. apply H. right; exact Hr.
  Qed.

  Lemma RS_ren : map ren_ring (p_rings S) = p_rings S.
  Proof.
    destruct HwfS as (_ & _ & _ & _ & _ & Hr). fold n rS in Hr.
    induction Hr as [|[q [a b]] l (Hq & Ha & Hb) Hl IH]; cbn [map ren_ring]; [reflexivity|].
    cbn [fst snd] in *. rewrite IH. f_equal. unfold renr, ren.
    destruct (Nat.ltb_spec q rS); [|lia]. destruct (Nat.leb_spec a n); [|lia]. destruct (Nat.leb_spec b n); [|lia].
    reflexivity.
  Qed.

  Definition rings_e (r2 : list (nat * (nat * nat))) :=
    p_rings S ++ map (sh_ring S) (p_rings sk) ++ map ren_ring r2.

  Lemma partner_host q i r2 :
    ring_partner (renr q) (ren i) (rings_e r2) = option_map ren (ring_partner q i (p_rings S ++ r2)).
  Proof.
    unfold rings_e. rewrite <- RS_ren at 1. rewrite !ring_partner_app, !ring_partner_ren.
    destruct (ring_partner q i (p_rings S)); [reflexivity|]. cbn [option_map].
    rewrite ring_partner_none; [reflexivity|].
    intros r Hr. apply in_map_iff in Hr as ([q' [a b]] & <- & Hin).
    destruct HwfK as (_ & _ & _ & _ & _ & HrK). rewrite Forall_forall in HrK.
    destruct (HrK _ Hin) as (Hq' & _ & _). cbn [fst snd sh_ring] in Hq' |- *.
    unfold renr. destruct (Nat.ltb_spec q rS); subst rS rk; lia.
  Qed.

  Lemma partner_child q i r2 v :
    ring_partner q i (p_rings sk) = Some v -> ring_partner (rS + q) (n + i) (rings_e r2) = Some (n + v).
  Proof.
    intro H. unfold rings_e. rewrite ring_partner_app.
    rewrite ring_partner_none.
    - rewrite ring_partner_app, ring_partner_sh, H. reflexivity.
    - intros r Hr. destruct HwfS as (_ & _ & _ & _ & _ & HrS). rewrite Forall_forall in HrS.
      destruct (HrS _ Hr) as (Hq' & _ & _). fold rS in Hq'. lia.
  Qed.

  Lemma rslot_host i s r2 :
    resolve_slot (rings_e r2) (ren i) (ren_slot s) =
    option_map (option_map ren) (resolve_slot (p_rings S ++ r2) i s).
  Proof.
    destruct s as [j| |q]; cbn [resolve_slot ren_slot option_map]; try reflexivity.
    rewrite partner_host. destruct (ring_partner q i (p_rings S ++ r2)); reflexivity.
  Qed.

  Lemma rslot_child i s r2 v :
    resolve_slot (p_rings sk) i s = Some v ->
    resolve_slot (rings_e r2) (n + i) (sh_slot S s) = Some (option_map (fun x => n + x) v).
  Proof.
    destruct s as [j| |q]; cbn [resolve_slot sh_slot option_map]; intro H.
    - inversion H; subst. reflexivity.
    - inversion H; subst. reflexivity.
    - destruct (ring_partner q i (p_rings sk)) as [w|] eqn:E; [|discriminate]. cbn [option_map] in H.
      inversion H; subst. fold n rS. rewrite (partner_child _ _ _ _ E). reflexivity.
  Qed.

  Lemma all_some_host i l r2 :
    all_some (map (resolve_slot (rings_e r2) (ren i)) (map ren_slot l)) =
    option_map (map (option_map ren)) (all_some (map (resolve_slot (p_rings S ++ r2) i) l)).
  Proof.
    induction l as [|s l IH]; cbn [map all_some]; [reflexivity|].
    rewrite rslot_host. destruct (resolve_slot (p_rings S ++ r2) i s) as [v|]; cbn [option_map]; [|reflexivity].
    rewrite IH. destruct (all_some (map (resolve_slot (p_rings S ++ r2) i) l)); reflexivity.
  Qed.

  Lemma all_some_child i l r2 : forall v,
    all_some (map (resolve_slot (p_rings sk) i) l) = Some v ->
    all_some (map (resolve_slot (rings_e r2) (n + i)) (map (sh_slot S) l)) = Some (map (option_map (fun x => n + x)) v).
  Proof.
    induction l as [|s l IH]; intros v H; cbn [map all_some] in *.
    - inversion H; subst. reflexivity.
    - destruct (resolve_slot (p_rings sk) i s) as [w|] eqn:E; [|discriminate].
      destruct (all_some (map (resolve_slot (p_rings sk) i) l)) as [r|] eqn:Er; [|discriminate].
      cbn [option_map] in H. inversion H; subst.
      rewrite (rslot_child _ _ _ _ E). rewrite (IH r eq_refl). reflexivity.
  Qed.

  Lemma resolve_all_app rs l1 : forall i l2,
    resolve_all rs i (l1 ++ l2) =
    match resolve_all rs i l1 with
    | Some x => match resolve_all rs (i + length l1) l2 with Some y => Some (x ++ y) | None => None end
    | None => None
    end.
  Proof.
    induction l1 as [|l l1 IH]; intros i l2; cbn [app resolve_all length].
    - rewrite Nat.add_0_r. destruct (resolve_all rs i l2); reflexivity.
    - unfold opt_bind. destruct (all_some (map (resolve_slot rs i) l)); [|reflexivity].
      rewrite IH. replace (Datatypes.S i + length l1) with (i + Datatypes.S (length l1)) by lia.
      destruct (resolve_all rs (Datatypes.S i) l1); [|reflexivity].
      destruct (resolve_all rs (i + Datatypes.S (length l1)) l2); reflexivity.
  Qed.

  Lemma resolve_all_host r2 l : forall i i',
    (forall j, j < length l -> ren (i + j) = i' + j) ->
    resolve_all (rings_e r2) i' (map (map ren_slot) l) =
    option_map (map (map (option_map ren))) (resolve_all (p_rings S ++ r2) i l).
  Proof.
    induction l as [|x l IH]; intros i i' H; cbn [map resolve_all]; [reflexivity|].
    unfold opt_bind.
    assert (E0 : i' = ren i) by (specialize (H 0); cbn [length] in H; rewrite !Nat.add_0_r in H; symmetry; apply H; lia).
    rewrite E0 at 1. rewrite all_some_host.
    destruct (all_some (map (resolve_slot (p_rings S ++ r2) i) x)); cbn [option_map]; [|reflexivity].
    rewrite (IH (Datatypes.S i) (Datatypes.S i')).
    - destruct (resolve_all (p_rings S ++ r2) (Datatypes.S i) l); reflexivity.
    - intros j Hj. specialize (H (Datatypes.S j)). cbn [length] in H.
      replace (Datatypes.S i + j) with (i + Datatypes.S j) by lia. rewrite H by lia. lia.
  Qed.

  Lemma resolve_all_child r2 l : forall i v,
    resolve_all (p_rings sk) i l = Some v ->
    resolve_all (rings_e r2) (n + i) (map (map (sh_slot S)) l) = Some (map (map (option_map (fun x => n + x))) v).
  Proof.
    induction l as [|x l IH]; intros i v H; cbn [map resolve_all] in *.
    - inversion H; subst. reflexivity.
    - unfold opt_bind in *.
      destruct (all_some (map (resolve_slot (p_rings sk) i) x)) as [w|] eqn:E; [|discriminate].
      destruct (resolve_all (p_rings sk) (Datatypes.S i) l) as [r|] eqn:Er; [|discriminate].
      inversion H; subst. rewrite (all_some_child _ _ _ _ E).
      replace (Datatypes.S (n + i)) with (n + Datatypes.S i) by lia. rewrite (IH _ _ Er). reflexivity.
  Qed.

  (* neighbour lists of the child, seen from the host *)
  Definition graft_nbrs (nk : list (list (option nat))) : list (list (option nat)) :=
    match nk with
    | [] => []
    | k0 :: kr => (Some c :: map (option_map (fun x => n + x)) k0) :: map (map (option_map (fun x => n + x))) kr
    end.

  (* the molecule of the new string: the host's molecule with the marker atom replaced by the child's molecule *)
  Theorem finish_views pf Mh Mk :
    J pf -> finish (hst pf) = Some Mh -> finish sk = Some Mk ->
    exists N1 nm N2,
      m_nbrs Mh = N1 ++ nm :: N2 /\ length N1 = n /\ nm = Some c :: repeat None (a_h am) /\
      m_atoms Mh = p_atoms S ++ am :: A2 pf /\
      finish (est pf) =
      Some (mkMol (p_atoms S ++ m_atoms Mk ++ A2 pf)
                  (map (map (option_map ren)) N1 ++ graft_nbrs (m_nbrs Mk) ++ map (map (option_map ren)) N2)
                  (p_bonds (est pf))).
  Proof.
    intros (HS1 & HS2 & _) Hh Hk.
    destruct (finish_some _ _ Hh) as (Est & Eop & Epe & _ & nbh & Hnb & ->).
    change (p_stack (hst pf)) with (pstack pf) in Est. change (p_open (hst pf)) with (popen pf) in Eop.
    change (p_pend (hst pf)) with (ppend pf) in Epe.
    change (p_rings (hst pf)) with (p_rings S ++ R2 pf) in Hnb.
    change (p_slots (hst pf)) with (S1 pf ++ ms :: S2 pf) in Hnb.
    rewrite resolve_all_app in Hnb.
    destruct (resolve_all (p_rings S ++ R2 pf) 0 (S1 pf)) as [N1|] eqn:E1; [|discriminate].
    cbn [resolve_all] in Hnb. unfold opt_bind in Hnb. rewrite HS1, Nat.add_0_l in Hnb.
    destruct (all_some (map (resolve_slot (p_rings S ++ R2 pf) n) ms)) as [nm|] eqn:Em; [|discriminate].
    destruct (resolve_all (p_rings S ++ R2 pf) (Datatypes.S n) (S2 pf)) as [N2|] eqn:E2; [|discriminate].
    inversion Hnb; subst nbh; clear Hnb.
    (* the child *)
    destruct (finish_some _ _ Hk) as (_ & _ & _ & Hkne & NK & EK & ->). cbn [m_atoms m_nbrs].
    change (m_atoms (mkMol (p_atoms (hst pf)) (N1 ++ nm :: N2) (p_bonds (hst pf)))) with (p_atoms (hst pf)).
    assert (Elen1 : length N1 = n).
    { clear -E1 HS1. revert E1. generalize 0. generalize dependent N1. rewrite <- HS1. clear HS1.
      induction (S1 pf) as [|x l IH]; intros N1 i E; cbn [resolve_all] in E.
      - inversion E; reflexivity.
      - unfold opt_bind in E. destruct (all_some _); [|discriminate]. destruct (resolve_all _ _ l) eqn:El; [|discriminate].
        inversion E; subst. cbn [length]. f_equal. eapply IH. exact El. }
    assert (Enm : nm = Some c :: repeat None (a_h am)).
    { clear -Em. unfold ms in Em. cbn [map resolve_slot all_some] in Em.
      pose proof (all_some_repeat_SH (p_rings S ++ R2 pf) n (a_h am)) as Hrep.
      rewrite Hrep in Em. cbn [option_map] in Em. inversion Em; reflexivity. }
    exists N1, nm, N2. split; [reflexivity|]. split; [exact Elen1|]. split; [exact Enm|]. split; [reflexivity|].
    (* the new run's molecule *)
    assert (Hgoal : resolve_all (p_rings (est pf)) 0 (p_slots (est pf)) =
                    Some (map (map (option_map ren)) N1 ++ graft_nbrs NK ++ map (map (option_map ren)) N2)).
    2: { assert (H1 : p_stack (est pf) = []) by (unfold est; cbn [p_stack]; rewrite Est; reflexivity).
         assert (H2 : p_open (est pf) = []) by (unfold est; cbn [p_open]; rewrite Eop; reflexivity).
         assert (H3 : p_pend (est pf) = None) by exact Epe.
         assert (H4 : p_atoms (est pf) <> []).
         { unfold est; cbn [p_atoms]. intro E. apply app_eq_nil in E as [_ E]. apply app_eq_nil in E as [E _]. contradiction. }
         rewrite (finish_eq (est pf) _ H1 H2 H3 H4 Hgoal). reflexivity. }
    change (p_rings (est pf)) with (rings_e (R2 pf)).
    change (p_slots (est pf)) with (map (map ren_slot) (S1 pf) ++ sh_slots S c (p_slots sk) ++ map (map ren_slot) (S2 pf)).
    rewrite resolve_all_app.
    rewrite (resolve_all_host (R2 pf) (S1 pf) 0 0) by (intros j Hj; cbn [Nat.add]; apply ren_lt; lia).
    rewrite E1. cbn [option_map]. rewrite map_length, HS1, Nat.add_0_l.
    rewrite resolve_all_app. rewrite len_CS.
    (* the child's slot lists *)
    assert (Hex : exists s0 srest, p_slots sk = s0 :: srest).
    { pose proof Hk_len as Hlen. pose proof Hk_pos as Hpos. clear -Hlen Hpos.
      destruct (p_slots sk) as [|s0 srest]; [cbn [length] in Hlen; lia | eauto]. }
    destruct Hex as (s0 & srest & Esk). rewrite Esk in EK |- *.
    cbn [resolve_all] in EK. unfold opt_bind in EK.
    destruct (all_some (map (resolve_slot (p_rings sk) 0) s0)) as [K0|] eqn:EK0; [|discriminate].
    destruct (resolve_all (p_rings sk) 1 srest) as [Kr|] eqn:EKr; [|discriminate].
    inversion EK; subst NK; clear EK.
    unfold sh_slots. cbn [resolve_all map all_some resolve_slot]. unfold opt_bind.
    pose proof (all_some_child 0 s0 (R2 pf) K0 EK0) as EC0. rewrite Nat.add_0_r in EC0. fold n in EC0 |- *. rewrite EC0. cbn [option_map].
    pose proof (resolve_all_child (R2 pf) srest 1 Kr EKr) as ECr.
    replace (n + 1) with (Datatypes.S n) in ECr by lia. rewrite ECr.
    rewrite (resolve_all_host (R2 pf) (S2 pf) (Datatypes.S n) (n + k)).
    - rewrite E2. cbn [option_map graft_nbrs]. reflexivity.
    - intros j Hj. rewrite ren_gt by lia. lia.
  Qed.
End Suf.

(* ------------------------------------------------------------------ both halves together, on token lists *)
Theorem splice_state pre am post a0 rest S c sk hf :
  run pst0 pre = Some S -> p_cur S = Some c -> p_pend S = None ->
  run pst0 (TAtom a0 :: rest) = Some sk -> p_stack sk = [] -> p_open sk = [] -> p_pend sk = None ->
  ~ In TDot rest -> fresh_labels S rest ->
  match post with [] => True | t :: _ => t = TClose end ->
  run pst0 (pre ++ TAtom am :: post) = Some hf ->
  exists xk pf, p_cur sk = Some xk /\ hf = hst S c am pf /\ J S pf /\
                run pst0 (pre ++ (TAtom a0 :: rest) ++ post) = Some (est S c a0 sk xk pf).
Proof.
  intros Hpre Hc Hp Hk Hks Hko Hkp Hnd Hfr Hpost Hh.
  pose proof (run_wf _ _ _ wf0 Hpre) as HwS.
  assert (Hl : length (p_slots S) = length (p_atoms S)) by (destruct HwS as [Hl _]; exact Hl).
  (* the child alone: state after its first atom is good, so is the last *)
  pose proof Hk as Hk'. cbn [run step] in Hk'. cbn [pst0 p_cur p_pend] in Hk'.
  set (s1 := mkPst (p_atoms pst0 ++ [a0]) (p_slots pst0 ++ [repeat SH (a_h a0)]) (p_bonds pst0) (p_rings pst0)
                   (Some (length (p_atoms pst0))) (p_stack pst0) None (p_open pst0) (p_nring pst0)) in *.
  assert (Hg : good a0 s1) by (unfold good, s1; cbn; repeat split; try lia; eauto).
  destruct (run_embed S c Hl a0 rest s1 sk Hg Hnd Hfr Hk') as [_ ((xk & Hxk) & Hkl & Hkpos & _)].
  rewrite run_app, Hpre in Hh.
  destruct (suffix_simulates S c am a0 sk xk Hc HwS Hks Hko Hxk Hkp Hkl Hkpos post hf Hp Hpost Hh) as (pf & Ehf & Erun & HJ).
  exists xk, pf. split; [exact Hxk|]. split; [exact Ehf|]. split; [exact HJ|].
  rewrite run_app, Hpre. rewrite run_app.
  rewrite (fragment_embeds S c a0 rest sk Hc Hp Hl Hnd Hfr Hk). exact Erun.
Qed.

(* ------------------------------------------------------------------ the substitution theorem on molecules *)
(* Replacing the marker atom of a host string by a complete child string replaces, in the molecule, the marker atom
   by the child's molecule: atoms, ordered neighbour lists (stereo!) and bonds of host and child are kept, renumbered;
   the child's first atom takes the marker's place in the neighbour list of the marker's neighbour c and gets c as
   its first neighbour. *)
Theorem splice_sem pre am post a0 rest S c Mh Mk :
  run pst0 pre = Some S -> p_cur S = Some c -> p_pend S = None ->
  sem (TAtom a0 :: rest) = Some Mk -> ~ In TDot rest -> fresh_labels S rest ->
  match post with [] => True | t :: _ => t = TClose end ->
  sem (pre ++ TAtom am :: post) = Some Mh ->
  exists sk Me N1 N2 A2 B2,
    run pst0 (TAtom a0 :: rest) = Some sk /\
    sem (pre ++ (TAtom a0 :: rest) ++ post) = Some Me /\
    m_atoms Mh = p_atoms S ++ am :: A2 /\
    m_atoms Me = p_atoms S ++ m_atoms Mk ++ A2 /\
    m_nbrs Mh = N1 ++ (Some c :: repeat None (a_h am)) :: N2 /\ length N1 = length (p_atoms S) /\
    m_nbrs Me = map (map (option_map (ren S sk))) N1 ++ graft_nbrs S c (m_nbrs Mk) ++ map (map (option_map (ren S sk))) N2 /\
    m_bonds Mh = p_bonds S ++ (c, length (p_atoms S), default_bond (nth c (p_atoms S) am) am) :: B2 /\
    m_bonds Me = p_bonds S ++ (c, length (p_atoms S), link_bond S c a0) :: map (sh_bond S) (m_bonds Mk) ++ map (ren_bond S sk) B2.
Proof.
  intros Hpre Hc Hp Hk Hnd Hfr Hpost Hh.
  unfold sem, opt_bind in Hk. destruct (run pst0 (TAtom a0 :: rest)) as [sk|] eqn:Erk; [|discriminate].
  destruct (finish_some _ _ Hk) as (Hks & Hko & Hkp & Hkne & _).
  unfold sem, opt_bind in Hh. destruct (run pst0 (pre ++ TAtom am :: post)) as [hf|] eqn:Erh; [|discriminate].
  destruct (splice_state pre am post a0 rest S c sk hf Hpre Hc Hp Erk Hks Hko Hkp Hnd Hfr Hpost Erh) as (xk & pf & Hxk & -> & HJ & Erun).
  pose proof (run_wf _ _ _ wf0 Hpre) as HwS. pose proof (run_wf _ _ _ wf0 Erk) as HwK.
  assert (Hkl : length (p_slots sk) = length (p_atoms sk)) by (destruct HwK as [Hl _]; exact Hl).
  assert (Hkpos : 0 < length (p_atoms sk)) by (destruct (p_atoms sk); [contradiction | cbn; lia]).
  destruct (finish_views S c am a0 sk xk HwS Hkl Hkpos HwK pf Mh Mk HJ Hh Hk)
    as (N1 & nm & N2 & En & Hl1 & -> & Ea & Ef).
  exists sk, (mkMol (p_atoms S ++ m_atoms Mk ++ A2 pf)
                    (map (map (option_map (ren S sk))) N1 ++ graft_nbrs S c (m_nbrs Mk) ++ map (map (option_map (ren S sk))) N2)
                    (p_bonds (est S c a0 sk xk pf))), N1, N2, (A2 pf), (B2 pf).
  split; [reflexivity|]. split.
  { unfold sem, opt_bind. rewrite Erun. exact Ef. }
  split; [exact Ea|]. split; [reflexivity|]. split; [exact En|]. split; [exact Hl1|]. split; [reflexivity|].
  destruct (finish_some _ _ Hh) as (_ & _ & _ & _ & nb & _ & ->).
  destruct (finish_some _ _ Hk) as (_ & _ & _ & _ & nbk & _ & ->).
  split; reflexivity.
Qed.
