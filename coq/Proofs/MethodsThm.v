(* Proofs/MethodsThm.v -- the decision methods regenerated from the source (Gen/Methods.v) against the hand models
   the other theorems are about, and what the regenerated table lookup of MonomerFactory.create guarantees. *)
From Coq Require Import Ascii String Bool List.
From GV Require Import Base.Util Spec.Smiles Spec.Chem Model.Gate Model.Edge Gen.Methods.
Import ListNotations.
Open Scope string_scope.

(* Glycan.get_smiles as written = the gate model of Model/Gate.v *)
Theorem gen_get_smiles_eq tree_only tree_full full merged :
  gen_get_smiles tree_only tree_full full merged = get_smiles_model tree_only tree_full full merged.
Proof. reflexivity. Qed.

(* TreeWalker.__add_edge as written = Model/Edge.add_edge (a linkage is never the empty string) *)
Theorem gen_add_edge_eq ketose con : con <> "" -> gen_add_edge ketose con = add_edge ketose con.
Proof.
  intro Hne. unfold gen_add_edge, add_edge.
  destruct (negb (has_char "(" con) && negb (has_char ")" con)); [|reflexivity].
  destruct (negb (has_char "-" con)); [|reflexivity].
  destruct con as [|t rest]; [contradiction|]. destruct ketose; reflexivity.
Qed.

Theorem gen_edge_ok_eq label : gen_edge_ok label = edge_determined label.
Proof. reflexivity. Qed.

(* MonomerFactory.create: a written ring letter is never answered with the other ring form, and a residue that is
   in no table is unknown *)
Theorem create_respects_ring in_p in_f in_o is_suc ring :
  (gen_create_choice in_p in_f in_o is_suc ring = CPyranose -> in_p = true /\ ring <> Some "f"%char) /\
  (gen_create_choice in_p in_f in_o is_suc ring = CFuranose -> in_f = true /\ ring <> Some "p"%char).
Proof.
  unfold gen_create_choice, ring_not.
  destruct ring as [d|].
  - destruct (Ascii.eqb d "f"%char) eqn:Ef; destruct (Ascii.eqb d "p"%char) eqn:Ep;
      destruct in_p, in_f, in_o, is_suc; cbn; split; intro H; try discriminate;
      (split; [reflexivity | intro E; inversion E; subst d; cbn in Ef, Ep; discriminate]).
  - destruct in_p, in_f, in_o, is_suc; cbn; split; intro H; try discriminate; (split; [reflexivity | discriminate]).
Qed.

Theorem create_unknown in_p in_f ring :
  (ring = Some "f"%char -> in_f = false -> gen_create_choice in_p in_f false false ring = CUnknown) /\
  (ring = Some "p"%char -> in_p = false -> gen_create_choice in_p in_f false false ring = CUnknown) /\
  (in_p = false -> in_f = false -> gen_create_choice in_p in_f false false ring = CUnknown).
Proof.
  unfold gen_create_choice, ring_not. repeat split.
  - intros -> ->. destruct in_p; reflexivity.
  - intros -> ->. destruct in_f; reflexivity.
  - intros -> ->. reflexivity.
Qed.
