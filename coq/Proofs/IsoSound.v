(* Proofs/IsoSound.v -- the isomorphism search of Spec/Iso.v lists exactly the constitution isomorphisms:
   [all_isos m1 m2] contains phi iff phi is a bijection on the atom indices that respects atom labels (element,
   charge, hydrogens, isotope, degree) and adjacency, and the two molecules have the same number of bonds.
   Hence "no isomorphism found" means "not isomorphic" (the clause 'different codes are different molecules'). *)
From Coq Require Import Ascii String ZArith Bool Arith Lia List.
From GV Require Import Base.Util Spec.Smiles Spec.Chem Spec.Iso.
Import ListNotations.
Open Scope list_scope.
Open Scope nat_scope.

Lemma memb_nat_In x l : memb Nat.eqb x l = true <-> In x l.
Proof.
  induction l as [|y l IH]; cbn [memb In]; [split; [discriminate | intros []]|].
  rewrite orb_true_iff, IH, Nat.eqb_eq. split; intros [H|H]; auto.
Qed.

Lemma NoDup_snoc {A} (l : list A) x : NoDup l -> ~ In x l -> NoDup (l ++ [x]).
Proof.
  induction l as [|y l IH]; intros Hnd Hin; cbn [app]; [constructor; [intros [] | constructor]|].
  inversion Hnd; subst. constructor.
  - intro H. apply in_app_or in H as [H|[H|[]]]; [contradiction | subst; apply Hin; left; reflexivity].
  - apply IH; [assumption | intro H; apply Hin; right; exact H].
Qed.

Lemma NoDup_prefix {A} (l1 l2 : list A) : NoDup (l1 ++ l2) -> NoDup l1.
Proof.
  induction l1 as [|x l1 IH]; intro H; [constructor|]. cbn [app] in H. inversion H; subst. constructor.
  - intro Hin. apply H2. apply in_or_app. left; exact Hin.
  - apply IH; assumption.
Qed.

Lemma forallb_i_spec {A} (f : nat -> A -> bool) (l : list A) d : forall i0,
  forallb_i f i0 l = true <-> (forall k, k < length l -> f (i0 + k) (nth k l d) = true).
Proof.
  induction l as [|x l IH]; intro i0; cbn [forallb_i length].
  - split; [intros _ k Hk; lia | reflexivity].
  - rewrite andb_true_iff, IH. split.
    + intros [H1 H2] [|k] Hk; cbn [nth]; [rewrite Nat.add_0_r; exact H1|].
      replace (i0 + S k) with (S i0 + k) by lia. apply H2. lia.
    + intro H. split.
      * specialize (H 0 ltac:(lia)). cbn [nth] in H. rewrite Nat.add_0_r in H. exact H.
      * intros k Hk. specialize (H (S k) ltac:(lia)). cbn [nth] in H. replace (i0 + S k) with (S i0 + k) in H by lia. exact H.
Qed.

Lemma nth_firstn_lt {A} (l : list A) d : forall s i, i < s -> nth i (firstn s l) d = nth i l d.
Proof.
  induction l as [|x l IH]; intros [|s] i H; try lia; [destruct i; reflexivity|].
  cbn [firstn]. destruct i as [|i]; [reflexivity|]. cbn [nth]. apply IH. lia.
Qed.

Section S.
  Variables m1 m2 : mol.
  Let n1 := length (m_atoms m1).
  Let n2 := length (m_atoms m2).

  (* a partial map: images of atoms 0 .. length phi - 1 *)
  Definition partial (phi : list nat) : Prop :=
    NoDup phi /\ Forall (fun j => j < n2) phi /\
    (forall i, i < length phi -> label_eqb m1 m2 i (nth i phi 0) = true) /\
    (forall i k, i < length phi -> k < i ->
       bond_class (bond_between m1 k i) = bond_class (bond_between m2 (nth k phi 0) (nth i phi 0))).

  Lemma consistent_spec phi j :
    partial phi -> j < n2 ->
    (consistent m1 m2 phi (length phi) j = true <-> partial (phi ++ [j])).
  Proof.
    intros (Hnd & Hlt & Hlab & Hb) Hj. unfold consistent.
    rewrite !andb_true_iff, negb_true_iff, (forallb_i_spec _ phi 0 0).
    split.
    - intros [[Hm Hl] Hf]. repeat split.
      + apply NoDup_snoc; [exact Hnd|]. intro Hin. apply memb_nat_In in Hin. congruence.
      + apply Forall_app. split; [exact Hlt | constructor; [exact Hj | constructor]].
      + intros i Hi. rewrite app_length in Hi. cbn [length] in Hi.
        destruct (Nat.eq_dec i (length phi)) as [->|Hne].
        * rewrite app_nth2, Nat.sub_diag by lia. exact Hl.
        * rewrite app_nth1 by lia. apply Hlab. lia.
      + intros i k Hi Hk. rewrite app_length in Hi. cbn [length] in Hi.
        rewrite (app_nth1 phi [j] 0 (n := k)) by lia.
        destruct (Nat.eq_dec i (length phi)) as [->|Hne].
        * rewrite app_nth2, Nat.sub_diag by lia. cbn [nth].
          specialize (Hf k Hk). cbn [Nat.add] in Hf. apply Nat.eqb_eq in Hf. exact Hf.
        * rewrite app_nth1 by lia. apply Hb; lia.
    - intros (Hnd' & Hlt' & Hlab' & Hb'). repeat split.
      + destruct (memb Nat.eqb j phi) eqn:E; [|reflexivity]. exfalso. apply memb_nat_In in E.
        apply NoDup_remove_2 with (l' := []) in Hnd'. rewrite app_nil_r in Hnd'. contradiction.
      + specialize (Hlab' (length phi)). rewrite app_length in Hlab'. cbn [length] in Hlab'.
        specialize (Hlab' ltac:(lia)). rewrite app_nth2, Nat.sub_diag in Hlab' by lia. exact Hlab'.
      + intros k Hk. cbn [Nat.add]. apply Nat.eqb_eq.
        specialize (Hb' (length phi) k). rewrite app_length in Hb'. cbn [length] in Hb'.
        specialize (Hb' ltac:(lia) Hk). rewrite (app_nth2 phi [j] 0 (n := length phi)) in Hb' by lia.
        rewrite Nat.sub_diag in Hb'. rewrite (app_nth1 phi [j] 0 (n := k)) in Hb' by lia. exact Hb'.
  Qed.

  Lemma partial_prefix phi j : partial (phi ++ [j]) -> partial phi /\ j < n2.
  Proof.
    intros (Hnd & Hlt & Hlab & Hb). apply Forall_app in Hlt as [Hlt Hj]. inversion Hj; subst.
    split; [|assumption]. repeat split.
    - apply NoDup_prefix in Hnd. exact Hnd.
    - exact Hlt.
    - intros i Hi. specialize (Hlab i). rewrite app_length in Hlab. cbn [length] in Hlab.
      specialize (Hlab ltac:(lia)). rewrite app_nth1 in Hlab by lia. exact Hlab.
    - intros i k Hi Hk. specialize (Hb i k). rewrite app_length in Hb. cbn [length] in Hb.
      specialize (Hb ltac:(lia) Hk). rewrite !app_nth1 in Hb by lia. exact Hb.
  Qed.

  Lemma partial_firstn psi s : partial psi -> s <= length psi -> partial (firstn s psi).
  Proof.
    intros (Hnd & Hlt & Hlab & Hb) Hs. repeat split.
    - rewrite <- (firstn_skipn s psi) in Hnd. apply NoDup_prefix in Hnd. exact Hnd.
    - rewrite <- (firstn_skipn s psi) in Hlt. apply Forall_app in Hlt as [H _]. exact H.
    - intros i Hi. rewrite firstn_length_le in Hi by exact Hs. rewrite nth_firstn_lt by exact Hi. apply Hlab. lia.
    - intros i k Hi Hk. rewrite firstn_length_le in Hi by exact Hs. rewrite !nth_firstn_lt by lia. apply Hb; lia.
  Qed.

  (* everything the search returns from a partial map is a partial map that extends it by [k] atoms ... *)
  Lemma isos_from_sound k : forall phi psi,
    partial phi -> In psi (isos_from m1 m2 (seq (length phi) k) phi) ->
    partial psi /\ length psi = length phi + k /\ firstn (length phi) psi = phi.
  Proof.
    induction k as [|k IH]; intros phi psi Hp Hin; cbn [seq isos_from] in Hin.
    - destruct Hin as [<-|[]]. split; [exact Hp | split; [lia | apply firstn_all]].
    - apply in_flat_map in Hin as (j & Hj & Hin). apply in_seq in Hj.
      destruct (consistent m1 m2 phi (length phi) j) eqn:E; [|destruct Hin].
      assert (Hp' : partial (phi ++ [j])) by (apply consistent_spec; [exact Hp | fold n2 in Hj; lia | exact E]).
      replace (S (length phi)) with (length (phi ++ [j])) in Hin by (rewrite app_length; cbn; lia).
      destruct (IH _ _ Hp' Hin) as (H1 & H2 & H3). rewrite app_length in H2, H3. cbn [length] in H2, H3.
      split; [exact H1 | split; [lia |]].
      replace (firstn (length phi) psi) with (firstn (length phi) (firstn (length phi + 1) psi))
        by (rewrite firstn_firstn; f_equal; lia).
      rewrite H3. rewrite firstn_app, firstn_all, Nat.sub_diag. cbn. apply app_nil_r.
  Qed.

  (* ... and every such extension is returned *)
  Lemma isos_from_complete k : forall phi psi,
    partial psi -> length psi = length phi + k -> firstn (length phi) psi = phi ->
    In psi (isos_from m1 m2 (seq (length phi) k) phi).
  Proof.
    induction k as [|k IH]; intros phi psi Hp Hl Hf; cbn [seq isos_from].
    - left. rewrite <- Hf. rewrite Nat.add_0_r in Hl. rewrite <- Hl. apply firstn_all.
    - set (j := nth (length phi) psi 0).
      assert (Hpre : firstn (length phi + 1) psi = phi ++ [j]).
      { rewrite <- Hf at 2. unfold j. clear -Hl. revert psi Hl. generalize (length phi) as s.
        induction s as [|s IHs]; intros [|x psi] Hl; cbn [length] in Hl; try lia; cbn [firstn nth Nat.add app].
        - reflexivity.
        - rewrite IHs by lia. reflexivity. }
      assert (Hpj : partial (phi ++ [j])) by (rewrite <- Hpre; apply partial_firstn; [exact Hp | lia]).
      destruct (partial_prefix _ _ Hpj) as [Hphi Hj].
      apply in_flat_map. exists j. split; [apply in_seq; fold n2; lia|].
      rewrite (proj2 (consistent_spec phi j Hphi Hj) Hpj).
      replace (S (length phi)) with (length (phi ++ [j])) by (rewrite app_length; cbn; lia).
      apply IH; [exact Hp | rewrite app_length; cbn [length]; lia |].
      rewrite app_length. cbn [length]. exact Hpre.
  Qed.

  Lemma partial_nil : partial [].
  Proof. repeat split; try constructor; intros; cbn in *; lia. Qed.

  Theorem all_isos_spec phi :
    In phi (all_isos m1 m2) <->
    (constitution_iso m1 m2 phi /\ length (m_bonds m1) = length (m_bonds m2)).
  Proof.
    unfold all_isos, constitution_iso, is_bijection. fold n1 n2.
    destruct (Nat.eqb_spec n1 n2) as [En|En]; cbn [andb].
    - destruct (Nat.eqb_spec (length (m_bonds m1)) (length (m_bonds m2))) as [Eb|Eb].
      + split.
        * intro Hin. destruct (isos_from_sound n1 [] phi partial_nil Hin) as ((Hnd & Hlt & Hlab & Hb) & Hl & _).
          cbn [length Nat.add] in Hl. repeat split; try assumption; try lia.
          -- rewrite En. exact Hlt.
          -- intros i Hi. apply Hlab. lia.
          -- intros i k Hi Hk. apply Hb; lia.
        * intros [(_ & (Hl & Hnd & Hlt) & Hlab & Hb) _].
          apply (isos_from_complete n1 [] phi); [|cbn; lia | reflexivity].
          repeat split; try assumption.
          -- rewrite <- En. exact Hlt.
          -- intros i Hi. apply Hlab. lia.
          -- intros i k Hi Hk. apply Hb; lia.
      + split; [intros [] | intros [_ H]; contradiction].
    - split; [intros [] | intros [(H & _) _]; contradiction].
  Qed.

  (* the negative answer is a proof: no constitution isomorphism exists *)
  Corollary no_iso_means_different :
    all_isos m1 m2 = [] -> forall phi, ~ (constitution_iso m1 m2 phi /\ length (m_bonds m1) = length (m_bonds m2)).
  Proof. intros H phi Hc. apply all_isos_spec in Hc. rewrite H in Hc. destruct Hc. Qed.
End S.
