(* Proofs/ConverterSinks.v -- convert() writing to a file or to standard output: exactly one line
   'input,SMILES' per input, in input order, and nothing else. *)
From Coq Require Import String ZArith List Bool Lia.
From GV Require Import Model.PyLite Gen.Converter Proofs.PyLiteLemmas Proofs.ConverterThm.
Import ListNotations.
Open Scope string_scope.
Open Scope list_scope.

Lemma file_lines_set_file_eq p ls fs : (fix go (l : list (string * list string)) := match l with
     | [] => None | (q, x) :: r => if String.eqb p q then Some x else go r end) (set_file p ls fs) = Some ls.
Proof.
  induction fs as [|[q x] fs IH]; cbn [set_file].
  - rewrite String.eqb_refl. reflexivity.
  - destruct (String.eqb p q) eqn:E; [rewrite E; reflexivity | rewrite E; exact IH].
Qed.

Lemma set_file_twice p a b fs : set_file p b (set_file p a fs) = set_file p b fs.
Proof.
  induction fs as [|[q x] fs IH]; cbn [set_file].
  - rewrite String.eqb_refl. reflexivity.
  - destruct (String.eqb p q) eqn:E; cbn [set_file]; rewrite E; [reflexivity | rewrite IH; reflexivity].
Qed.

Lemma set_file_same p ls fs : (fix go (l : list (string * list string)) := match l with
     | [] => None | (q, x) :: r => if String.eqb p q then Some x else go r end) fs = Some ls -> set_file p ls fs = fs.
Proof.
  induction fs as [|[q x] fs IH]; cbn [set_file]; [discriminate|].
  destruct (String.eqb p q) eqn:E.
  - intro H; inversion H; subst. reflexivity.
  - intro H. rewrite IH by exact H. reflexivity.
Qed.

Section P.
  Variable conv : value -> value -> res string.
  Hypothesis conv_exc : forall g f, conv g f <> inr ExExit.
  Notation call := (call conv program).
  Notation exec := (exec conv program).
  Notation eval := (eval conv program).
  Notation pair_of := (pair_of conv).
  Notation smiles_of := (smiles_of conv).

  Definition fmt (full g : value) : string := (py_str g ++ "," ++ smiles_of full g)%string.

  Definition write_file (p : string) (ls : list string) (w : world) : world :=
    w_set_files w (set_file p ls (w_files w)).

  Lemma file_lines_write p ls w : file_lines (write_file p ls w) p = Some ls.
  Proof. unfold file_lines, write_file, w_set_files; cbn [w_files]. apply file_lines_set_file_eq. Qed.

  Lemma write_file_twice p a b w : write_file p b (write_file p a w) = write_file p b w.
  Proof. unfold write_file, w_set_files; cbn [w_files w_disabled w_stdout w_stdout_closed w_stderr w_parent_ok w_stdin].
    rewrite set_file_twice. reflexivity. Qed.

  Lemma print_loop_file k full rs : 6 <= k -> forall en w ys p ls0,
    lookup "output" en = Some (VFile p true) -> file_lines w p = Some ls0 ->
    exists en',
      for_loop (block_with (exec k) [SPrint [EVar "iupac"; EVar "smiles"] (EVar "output") ","]) ["iupac"; "smiles"]
               (map (pair_of full) rs) (mkSt en w ys)
      = (ONormal, mkSt en' (write_file p (ls0 ++ map (fmt full) rs) w) ys) /\
      frame ["iupac"; "smiles"] en en'.
  Proof.
    intro Hk. do 6 (destruct k as [|k]; [lia|]). clear Hk.
    induction rs as [|r rs IH]; intros en w ys p ls0 Ho Hf.
    - exists en. cbn [map]. rewrite for_loop_nil, app_nil_r. split; [|apply frame_refl].
      f_equal. f_equal. unfold write_file. rewrite set_file_same by exact Hf.
      destruct w; reflexivity.
    - cbn [map]. rewrite for_loop_cons. unfold pair_of at 1. pycbn. py.
      rewrite lookup_update_neq by discriminate. rewrite lookup_update_eq. pycbn. py.
      rewrite lookup_update_eq. pycbn. py.
      rewrite !lookup_update_neq by discriminate. rewrite Ho. pycbn. rewrite Hf. pycbn. py.
      set (en1 := update "smiles" _ _).
      set (w1 := w_set_files _ _).
      destruct (IH en1 w1 ys p (ls0 ++ [fmt full r])) as (en' & E & F).
      { unfold en1. rewrite !lookup_update_neq by discriminate. exact Ho. }
      { unfold w1. apply (file_lines_write p _ w). }
      exists en'. rewrite E. split.
      + f_equal. f_equal. unfold w1.
        change (w_set_files w (set_file p (ls0 ++ [(py_str r ++ "," ++ smiles_of full r)%string]) (w_files w)))
          with (write_file p (ls0 ++ [fmt full r]) w).
        rewrite write_file_twice. rewrite <- app_assoc. reflexivity.
      + intros y Hy. rewrite F by exact Hy. unfold en1.
        rewrite !lookup_update_neq; [reflexivity | | ]; intro; subst; apply Hy; cbn; auto.
  Qed.

  Definition out_lines (ls : list string) (w : world) : world :=
    mkWorld (w_disabled w) (w_stdout w ++ ls) (w_stdout_closed w) (w_stderr w) (w_files w) (w_parent_ok w) (w_stdin w).

  Lemma out_lines_nil w : out_lines [] w = w.
  Proof. destruct w; unfold out_lines; cbn. rewrite app_nil_r. reflexivity. Qed.

  Lemma print_loop_stdout k full rs : 6 <= k -> forall en w ys,
    lookup "output" en = Some VStdout -> w_stdout_closed w = false ->
    exists en',
      for_loop (block_with (exec k) [SPrint [EVar "iupac"; EVar "smiles"] (EVar "output") ","]) ["iupac"; "smiles"]
               (map (pair_of full) rs) (mkSt en w ys)
      = (ONormal, mkSt en' (out_lines (map (fmt full) rs) w) ys) /\
      frame ["iupac"; "smiles"] en en'.
  Proof.
    intro Hk. do 6 (destruct k as [|k]; [lia|]). clear Hk.
    induction rs as [|r rs IH]; intros en w ys Ho Hc.
    - exists en. cbn [map]. rewrite for_loop_nil, out_lines_nil. split; [reflexivity|apply frame_refl].
    - cbn [map]. rewrite for_loop_cons. unfold pair_of at 1. pycbn. py.
      rewrite lookup_update_neq by discriminate. rewrite lookup_update_eq. pycbn. py.
      rewrite lookup_update_eq. pycbn. py.
      rewrite !lookup_update_neq by discriminate. rewrite Ho. pycbn. rewrite Hc. py.
      set (en1 := update "smiles" _ _).
      set (w1 := w_out_add _ _).
      destruct (IH en1 w1 ys) as (en' & E & F).
      { unfold en1. rewrite !lookup_update_neq by discriminate. exact Ho. }
      { unfold w1. destruct w; exact Hc. }
      exists en'. rewrite E. split.
      + f_equal. f_equal. unfold w1, out_lines, w_out_add, fmt. destruct w; cbn.
        rewrite <- app_assoc. reflexivity.
      + intros y Hy. rewrite F by exact Hy. unfold en1.
        rewrite !lookup_update_neq; [reflexivity | | ]; intro; subst; apply Hy; cbn; auto.
  Qed.

  Lemma wsd_write b p l w : w_set_disabled (write_file p l w) b = write_file p l (w_set_disabled w b).
  Proof. destruct w; reflexivity. Qed.
  Lemma wsd_twice a b w : w_set_disabled (w_set_disabled w a) b = w_set_disabled w b.
  Proof. destruct w; reflexivity. Qed.
  Lemma wsd_same w : w_set_disabled w (w_disabled w) = w.
  Proof. destruct w; reflexivity. Qed.
  Lemma wsd_out b ls w : w_set_disabled (out_lines ls w) b = out_lines ls (w_set_disabled w b).
  Proof. destruct w; reflexivity. Qed.
  Lemma parent_ok_wsd w b : w_parent_ok (w_set_disabled w b) = w_parent_ok w.
  Proof. destruct w; reflexivity. Qed.
  Lemma closed_wsd w b : w_stdout_closed (w_set_disabled w b) = w_stdout_closed w.
  Proof. destruct w; reflexivity. Qed.
  Lemma closed_out w ls : w_stdout_closed (out_lines ls w) = w_stdout_closed w.
  Proof. destruct w; reflexivity. Qed.
  Lemma write_file_fold w p l : w_set_files w (set_file p l (w_files w)) = write_file p l w.
  Proof. reflexivity. Qed.

  (* lookups through update chains over an abstract environment with a frame fact *)
  Ltac lk :=
    repeat match goal with
           | |- context [lookup ?x (update ?x _ _)] => rewrite lookup_update_eq
           | |- context [lookup ?y (update ?x _ _)] => rewrite (lookup_update_neq x y) by discriminate
           | F : frame _ _ ?e |- context [lookup ?y ?e] => rewrite (F y) by notin
           end; pycbn.

  Ltac ploop_file :=
    match goal with
    | |- context [for_loop (block_with (exec ?k) [SPrint _ _ _]) _ (map (pair_of ?full) ?rs) (mkSt ?en ?w ?ys)] =>
        let en' := fresh "en'" in let E := fresh "E" in let F := fresh "F" in
        edestruct (print_loop_file k full rs ltac:(lia) en w ys) as (en' & E & F);
        [ lk; reflexivity | apply file_lines_write | rewrite E; clear E; pycbn; rewrite ?write_file_twice ]
    end.

  Lemma veq_file_stdout p b : value_eqb (VFile p b) VStdout = false.
  Proof. reflexivity. Qed.
  Lemma veq_stdout_stdout : value_eqb VStdout VStdout = true.
  Proof. reflexivity. Qed.

  Ltac go2 full El Hp :=
    repeat (first [ progress run
                  | progress lk
                  | rewrite for_loop_cons; pycbn
                  | rewrite for_loop_nil; pycbn
                  | rewrite parmap_generate with (full := full) by (try lia; try exact conv_exc; intro; lk; reflexivity); pycbn
                  | rewrite write_file_fold
                  | rewrite El; pycbn
                  | rewrite parent_ok_wsd
                  | rewrite veq_file_stdout; pycbn
                  | rewrite veq_stdout_stdout; pycbn
                  | rewrite Hp; pycbn
                  | ploop_file
                  | progress py ]).

  Theorem convert_file fuel g l f gen returning verbose cpu full w ls fl items p :
    list_arg l ls -> file_arg w f fl -> gen_arg gen items ->
    (verbose = VNone -> w_disabled w = false) ->
    existsb (String.eqb p) (w_parent_ok w) = true ->
    call (40 + fuel) "convert" [g; l; f; gen; VStr p; returning; verbose; cpu; full] [] w =
    (inl VNone, if no_input (optv g ++ ls ++ fl) gen then w
                else write_file p (map (fmt full) ((optv g ++ ls ++ fl) ++ items)) w).
  Proof.
    intros Hl Hf Hg Hv Hp. cbn [Nat.add].
    rewrite call_eq, ff_convert. unfold fn_convert. pycbn.
    remember (optv g ++ ls ++ fl) as L eqn:HL.
    sstep.
    change (match verbose with VNone => true | _ => false end) with (is_none verbose).
    destruct (is_none verbose) eqn:Ev; pycbn.
    - assert (verbose = VNone) by (destruct verbose; try discriminate; reflexivity); subst verbose.
      specialize (Hv eq_refl). clear Ev.
      assert (Hw : w_set_disabled w false = w) by (rewrite <- Hv; apply wsd_same).
      run. rewrite preprocess_spec' with (ls := ls) (fl := fl) by (try lia; try assumption; apply file_arg_disabled; assumption).
      rewrite <- HL. pycbn. run.
      destruct (Z.eqb (Z.of_nat (length L)) 0) eqn:El; pycbn.
      + apply len0_true in El. rewrite El.
        destruct Hg; pycbn; go2 full El Hp; rewrite ?wsd_write, ?wsd_twice, ?Hw, ?app_nil_r; try reflexivity.
      + rewrite len0_false by exact El.
        destruct Hg; pycbn; go2 full El Hp; rewrite ?wsd_write, ?wsd_twice, ?Hw, ?app_nil_r, ?map_app; try reflexivity.
    - assert (Hvb : forall T (a b : T), (if match verbose with VNone => true | _ => false end then a else b) = b)
        by (intros; destruct verbose; try discriminate; reflexivity).
      run. rewrite preprocess_spec' with (ls := ls) (fl := fl) by (try lia; assumption).
      rewrite <- HL. pycbn. run.
      destruct (Z.eqb (Z.of_nat (length L)) 0) eqn:El; pycbn.
      + apply len0_true in El. rewrite El.
        destruct Hg; pycbn; repeat (progress (go2 full El Hp; rewrite ?Hvb; pycbn)); rewrite ?app_nil_r; try reflexivity.
      + rewrite len0_false by exact El.
        destruct Hg; pycbn; repeat (progress (go2 full El Hp; rewrite ?Hvb; pycbn)); rewrite ?app_nil_r, ?map_app; try reflexivity.
  Qed.

  Ltac ploop_stdout :=
    match goal with
    | |- context [for_loop (block_with (exec ?k) [SPrint _ _ _]) _ (map (pair_of ?full) ?rs) (mkSt ?en ?w ?ys)] =>
        let en' := fresh "en'" in let E := fresh "E" in let F := fresh "F" in
        edestruct (print_loop_stdout k full rs ltac:(lia) en w ys) as (en' & E & F);
        [ lk; reflexivity | rewrite ?closed_out, ?closed_wsd; assumption | rewrite E; clear E; pycbn ]
    end.

  Lemma out_lines_app a b w : out_lines b (out_lines a w) = out_lines (a ++ b) w.
  Proof. destruct w; unfold out_lines; cbn. rewrite app_assoc. reflexivity. Qed.

  Ltac go3 full El Hp :=
    repeat (first [ progress run
                  | progress lk
                  | rewrite for_loop_cons; pycbn
                  | rewrite for_loop_nil; pycbn
                  | rewrite parmap_generate with (full := full) by (try lia; try exact conv_exc; intro; lk; reflexivity); pycbn
                  | rewrite El; pycbn
                  | rewrite parent_ok_wsd
                  | rewrite veq_file_stdout; pycbn
                  | rewrite veq_stdout_stdout; pycbn
                  | rewrite Hp; pycbn
                  | ploop_stdout
                  | progress py ]).

  (* listing on standard output: no output file and returning=False, or an output file whose directory is missing *)
  Theorem convert_stdout fuel g l f gen ofile returning verbose cpu full w ls fl items :
    list_arg l ls -> file_arg w f fl -> gen_arg gen items ->
    (verbose = VNone -> w_disabled w = false) ->
    w_stdout_closed w = false ->
    (ofile = VNone /\ returning = VBool false) \/
    (exists p, ofile = VStr p /\ existsb (String.eqb p) (w_parent_ok w) = false) ->
    call (40 + fuel) "convert" [g; l; f; gen; ofile; returning; verbose; cpu; full] [] w =
    (inl VNone, if no_input (optv g ++ ls ++ fl) gen then w
                else out_lines (map (fmt full) ((optv g ++ ls ++ fl) ++ items)) w).
  Proof.
    intros Hl Hf Hg Hv Hc Hmode. cbn [Nat.add].
    rewrite call_eq, ff_convert. unfold fn_convert. pycbn.
    remember (optv g ++ ls ++ fl) as L eqn:HL.
    sstep.
    change (match verbose with VNone => true | _ => false end) with (is_none verbose).
    destruct (is_none verbose) eqn:Ev; pycbn.
    - assert (verbose = VNone) by (destruct verbose; try discriminate; reflexivity); subst verbose.
      specialize (Hv eq_refl). clear Ev.
      assert (Hw : w_set_disabled w false = w) by (rewrite <- Hv; apply wsd_same).
      run. rewrite preprocess_spec' with (ls := ls) (fl := fl) by (try lia; try assumption; apply file_arg_disabled; assumption).
      rewrite <- HL. pycbn. run.
      destruct (Z.eqb (Z.of_nat (length L)) 0) eqn:El; pycbn.
      + apply len0_true in El. rewrite El.
        destruct Hmode as [[-> ->] | (p & -> & Hp)]; destruct Hg; pycbn; go3 full El Hp;
          rewrite ?out_lines_app, ?wsd_out, ?wsd_twice, ?Hw, ?app_nil_r; try reflexivity.
      + rewrite len0_false by exact El.
        destruct Hmode as [[-> ->] | (p & -> & Hp)]; destruct Hg; pycbn; go3 full El Hp;
          rewrite ?out_lines_app, ?wsd_out, ?wsd_twice, ?Hw, ?app_nil_r, ?map_app; try reflexivity.
    - assert (Hvb : forall T (a b : T), (if match verbose with VNone => true | _ => false end then a else b) = b)
        by (intros; destruct verbose; try discriminate; reflexivity).
      run. rewrite preprocess_spec' with (ls := ls) (fl := fl) by (try lia; assumption).
      rewrite <- HL. pycbn. run.
      destruct (Z.eqb (Z.of_nat (length L)) 0) eqn:El; pycbn.
      + apply len0_true in El. rewrite El.
        destruct Hmode as [[-> ->] | (p & -> & Hp)]; destruct Hg; pycbn;
          repeat (progress (go3 full El Hp; rewrite ?Hvb; pycbn)); rewrite ?out_lines_app, ?app_nil_r; try reflexivity.
      + rewrite len0_false by exact El.
        destruct Hmode as [[-> ->] | (p & -> & Hp)]; destruct Hg; pycbn;
          repeat (progress (go3 full El Hp; rewrite ?Hvb; pycbn)); rewrite ?out_lines_app, ?app_nil_r, ?map_app; try reflexivity.
  Qed.
End P.
