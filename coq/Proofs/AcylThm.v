(* Proofs/AcylThm.v -- the specification of carbon notation (Spec/Acyl.v) against the named fatty acids of the regenerated
   functional group table: for every name below, the acid its systematic designation stands for is the molecule of the
   table entry, double-bond geometry included (Iso.same_molecule compares it). *)
From Coq Require Import Ascii String Bool Arith List.
From GV Require Import Base.Util Spec.Smiles Spec.Chem Spec.Iso Spec.Acyl Gen.Tables Model.IsoFast Proofs.IsoFastThm.
Import ListNotations.
Open Scope string_scope.

Definition plain (n : nat) := mkAcyl false false n [].
Definition named_acyls : list (string * acyl) :=
  [ ("Ole", mkAcyl false false 18 [(DbCis, 9)]);
    ("Lin", mkAcyl false false 18 [(DbCis, 9); (DbCis, 12)]);
    ("cVac", mkAcyl false false 18 [(DbCis, 11)]);
    ("cdPam", mkAcyl false false 16 [(DbCis, 9)]);
    ("tdPam", mkAcyl false false 16 [(DbTrans, 9)]);
    ("Ner", mkAcyl false false 24 [(DbCis, 15)]);
    ("Vac", mkAcyl false false 18 [(DbPlain, 11)]);
    ("dPam", mkAcyl false false 16 [(DbPlain, 9)]);
    ("aLnn", mkAcyl false false 18 [(DbPlain, 9); (DbPlain, 12); (DbPlain, 15)]);
    ("gLnn", mkAcyl false false 18 [(DbPlain, 6); (DbPlain, 9); (DbPlain, 12)]);
    ("Vl", plain 5); ("Hxo", plain 6); ("Hpo", plain 7); ("Oco", plain 8); ("Dco", plain 10);
    ("Lau", plain 12); ("Myr", plain 14); ("Pam", plain 16); ("Ste", plain 18); ("Ach", plain 20); ("Beh", plain 22); ("Lig", plain 24) ].

Fixpoint lookup_fg (k : string) (l : list (string * string)) : option string :=
  match l with
  | [] => None
  | (k', v) :: r => if String.eqb k k' then Some v else lookup_fg k r
  end.

Definition agrees_with_table (e : string * acyl) : bool :=
  match lookup_fg (fst e) functional_groups, acyl_text (snd e) with
  | Some frag, Some txt =>
      match sem_str (s2l frag), sem_str txt with
      | Some a, Some b => same_molecule_f a b
      | _, _ => false
      end
  | _, _ => false
  end.

Lemma named_acyls_check : forallb agrees_with_table named_acyls = true.
Proof. vm_compute. reflexivity. Qed.

(* every named fatty acid of the list: the table's fragment and the specification's reading of its systematic
   designation denote the same molecule (specified search, geometry included) *)
Theorem named_acyls_agree name a :
  In (name, a) named_acyls ->
  exists frag txt ma mb,
    lookup_fg name functional_groups = Some frag /\ acyl_text a = Some txt /\
    sem_str (s2l frag) = Some ma /\ sem_str txt = Some mb /\ same_molecule ma mb = true.
Proof.
  intro Hin. pose proof (proj1 (forallb_forall _ _) named_acyls_check _ Hin) as H.
  unfold agrees_with_table in H. cbn [fst snd] in H.
  destruct (lookup_fg name functional_groups) as [frag|] eqn:E1; [|discriminate].
  destruct (acyl_text a) as [txt|] eqn:E2; [|discriminate].
  destruct (sem_str (s2l frag)) as [ma|] eqn:E3; [|discriminate].
  destruct (sem_str txt) as [mb|] eqn:E4; [|discriminate].
  exists frag, txt, ma, mb. rewrite <- same_molecule_f_eq.
  split; [reflexivity|]. split; [reflexivity|]. split; [exact E3|]. split; [exact E4|exact H].
Qed.

(* the geometry is really compared: oleic (cis-9) and elaidic (trans-9) acid differ, and so do the two 9,11-dienes *)
Definition text_same (a b : acyl) : option bool :=
  match acyl_text a, acyl_text b with
  | Some x, Some y => match sem_str x, sem_str y with Some ma, Some mb => Some (same_molecule_f ma mb) | _, _ => None end
  | _, _ => None
  end.

Example cis_is_not_trans :
  text_same (mkAcyl false false 18 [(DbCis, 9)]) (mkAcyl false false 18 [(DbTrans, 9)]) = Some false /\
  text_same (mkAcyl false false 18 [(DbCis, 9); (DbTrans, 11)]) (mkAcyl false false 18 [(DbTrans, 9); (DbCis, 11)]) = Some false /\
  text_same (mkAcyl false false 18 [(DbTrans, 10); (DbCis, 12)]) (mkAcyl false false 18 [(DbTrans, 10); (DbTrans, 12)]) = Some false /\
  text_same (mkAcyl false false 18 [(DbCis, 9)]) (mkAcyl false false 18 [(DbPlain, 9)]) = Some false /\
  text_same (mkAcyl false false 18 [(DbCis, 9); (DbCis, 12)]) (mkAcyl false false 18 [(DbCis, 9); (DbCis, 12)]) = Some true.
Proof. vm_compute. repeat split. Qed.

Example acyl_text_examples :
  option_map l2s (acyl_text (mkAcyl false false 18 [(DbTrans, 10); (DbCis, 12)])) = Some "OC(=O)CCCCCCCC/C=C/C=C\CCCCC" /\
  option_map l2s (acyl_text (mkAcyl false false 18 [(DbCis, 9); (DbTrans, 11)])) = Some "OC(=O)CCCCCCC/C=C\C=C\CCCCCC" /\
  option_map l2s (acyl_text (mkAcyl true false 15 [])) = Some "OC(=O)CCCCCCCCCCCC(C)C" /\
  option_map l2s (acyl_text (mkAcyl true true 15 [])) = Some "OC(=O)CCCCCCCCCCC(C)CC" /\
  l2s (acyl_token (mkAcyl true true 15 [])) = "aiC15" /\
  l2s (acyl_token (mkAcyl false false 18 [(DbCis, 9); (DbTrans, 11); (DbPlain, 14)])) = "C18={c9,t11,14}".
Proof. vm_compute. repeat split. Qed.
