(* Proofs/SpliceThm.v -- what a positive answer of Model/Splice.splice_check means: the child, written where the
   marker stood, builds inside the host exactly what it builds alone (Embed.fragment_embeds applied to the strings
   the merger handles). *)
From Coq Require Import Ascii String ZArith Bool Arith Lia List.
From GV Require Import Base.Util Spec.Smiles Model.Splice Proofs.Embed.
Import ListNotations.
Open Scope list_scope.
Open Scope nat_scope.

Lemma first_reused_none st rest : first_reused st rest = None -> (forall t, In t rest -> tok_fresh st t = true).
Proof.
  induction rest as [|t r IH]; intros H x Hin; [destruct Hin|].
  cbn [first_reused] in H. destruct (tok_fresh st t) eqn:E.
  - destruct Hin as [<-|Hin]; [exact E | apply IH; assumption].
  - destruct t; discriminate.
Qed.

Lemma fresh_of_check st rest : first_reused st rest = None -> fresh_labels st rest.
Proof.
  intros H l Hin. pose proof (first_reused_none st rest H _ Hin) as E. cbn [tok_fresh] in E.
  destruct (find_open l (p_open st)); [discriminate | reflexivity].
Qed.

Lemma run_app ts1 : forall ts2 s, run s (ts1 ++ ts2) = match run s ts1 with Some s1 => run s1 ts2 | None => None end.
Proof.
  induction ts1 as [|t r IH]; intros ts2 s; cbn [app run]; [reflexivity|].
  destruct (step s t); [apply IH | reflexivity].
Qed.

Lemma split_marker_spec sym ts pre post :
  split_marker sym ts = Some (pre, post) -> exists m, is_marker sym m = true /\ ts = pre ++ m :: post.
Proof.
  revert pre post. induction ts as [|t r IH]; intros pre post H; [discriminate|].
  cbn [split_marker] in H. destruct (is_marker sym t) eqn:E.
  - inversion H; subst. exists t. split; [exact E | reflexivity].
  - destruct (split_marker sym r) as [[a b]|]; [|discriminate]. inversion H; subst.
    destruct (IH a post eq_refl) as [m [Hm ->]]. exists m. split; [exact Hm | reflexivity].
Qed.

(* The merger's substitution, read by the machine: host prefix, then the child in place of the marker. *)
Theorem splice_check_sound sym me child :
  splice_check sym me child = SpFresh ->
  exists pre post m st c a0 rest,
    lexS me = Some (pre ++ m :: post) /\ is_marker sym m = true /\
    lexS child = Some (TAtom a0 :: rest) /\
    run pst0 pre = Some st /\ p_cur st = Some c /\
    forall sk, run pst0 (TAtom a0 :: rest) = Some sk ->
               run pst0 (pre ++ TAtom a0 :: rest) = Some (embed st c a0 sk).
Proof.
  unfold splice_check, host_state. intro H.
  destruct (lexS me) as [tm|] eqn:Em; [|discriminate].
  destruct (split_marker sym tm) as [[pre post]|] eqn:Es; [|discriminate].
  destruct (run pst0 pre) as [st|] eqn:Er; [|discriminate].
  destruct (lexS child) as [[|[a0| | | | |] rest]|] eqn:Ec; try discriminate.
  destruct (first_reused st rest) eqn:Ef; [discriminate|].
  destruct (p_cur st) as [c|] eqn:Ecur; [|discriminate].
  destruct (p_pend st) eqn:Ep; [discriminate|].
  destruct (forallb not_dot rest) eqn:Ed; [|discriminate]. cbn [andb] in H.
  destruct (Nat.eqb (length (p_slots st)) (length (p_atoms st))) eqn:El; [|discriminate].
  apply Nat.eqb_eq in El.
  destruct (split_marker_spec _ _ _ _ Es) as [m [Hm ->]].
  exists pre, post, m, st, c, a0, rest. repeat split; try assumption; try reflexivity.
  intros sk Hsk. rewrite run_app, Er.
  apply fragment_embeds; try assumption.
  - intro Hin. rewrite forallb_forall in Ed. specialize (Ed _ Hin). discriminate.
  - apply fresh_of_check. exact Ef.
Qed.

(* and a negative answer names a label that really is open in the host at the marker *)
Theorem splice_check_reused sym me child l :
  splice_check sym me child = SpReused l ->
  exists st post rest a0, host_state sym me = Some (st, post) /\ lexS child = Some (TAtom a0 :: rest) /\
                         In (TRing l) rest /\ find_open l (p_open st) <> None.
Proof.
  unfold splice_check. intro H.
  destruct (host_state sym me) as [[st post]|] eqn:Eh; [|discriminate].
  destruct (lexS child) as [[|[a0| | | | |] rest]|] eqn:Ec; try discriminate.
  destruct (first_reused st rest) as [l'|] eqn:Ef.
  - inversion H; subst l'. exists st, post, rest, a0. repeat split; try reflexivity.
    + clear -Ef. induction rest as [|t r IH]; [discriminate|]. cbn [first_reused] in Ef.
      destruct (tok_fresh st t) eqn:E; [right; apply IH; exact Ef|].
      destruct t; try discriminate. inversion Ef; subst. left; reflexivity.
    + clear -Ef. induction rest as [|t r IH]; [discriminate|]. cbn [first_reused] in Ef.
      destruct (tok_fresh st t) eqn:E; [apply IH; exact Ef|].
      destruct t; try discriminate. inversion Ef; subst. cbn in E.
      destruct (find_open l (p_open st)); [discriminate | discriminate].
  - destruct (p_cur st); [destruct (p_pend st)|]; try discriminate.
    destruct (_ && _); discriminate.
Qed.
