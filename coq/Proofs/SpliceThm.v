(* Proofs/SpliceThm.v -- what a positive answer of Model/Splice.splice_check means: the child, written where the
   marker stood, builds inside the host exactly what it builds alone (Embed.fragment_embeds applied to the strings
   the merger handles). *)
From Coq Require Import Ascii String ZArith Bool Arith Lia List.
From GV Require Import Base.Util Spec.Smiles Model.Splice Proofs.Embed Proofs.Suffix.
Import ListNotations.
Open Scope list_scope.
Open Scope nat_scope.

Lemma first_reused_none st rest : first_reused st rest = None -> (forall t, In t rest -> tok_fresh st t = true).
Proof.
  induction rest as [|t r IH]; intros H x Hin; [destruct Hin|].
  cbn [first_reused] in H. destruct (tok_fresh st t) eqn:E.
  - destruct Hin as [<-|Hin]; [exact E | apply IH; assumption].
  - destruct t; discriminate.
Qed.

Lemma fresh_of_check st rest : first_reused st rest = None -> fresh_labels st rest.
Proof.
  intros H l Hin. pose proof (first_reused_none st rest H _ Hin) as E. cbn [tok_fresh] in E.
  destruct (find_open l (p_open st)); [discriminate | reflexivity].
Qed.

Lemma split_marker_spec sym ts pre post :
  split_marker sym ts = Some (pre, post) -> exists m, is_marker sym m = true /\ ts = pre ++ m :: post.
Proof.
  revert pre post. induction ts as [|t r IH]; intros pre post H; [discriminate|].
  cbn [split_marker] in H. destruct (is_marker sym t) eqn:E.
  - inversion H; subst. exists t. split; [exact E | reflexivity].
  - destruct (split_marker sym r) as [[a b]|]; [|discriminate]. inversion H; subst.
    destruct (IH a post eq_refl) as [m [Hm ->]]. exists m. split; [exact Hm | reflexivity].
Qed.

(* The merger's substitution, read by the machine: host prefix, then the child in place of the marker. *)
Theorem splice_check_sound sym me child :
  splice_check sym me child = SpFresh ->
  exists pre post m st c a0 rest,
    lexS me = Some (pre ++ m :: post) /\ is_marker sym m = true /\
    lexS child = Some (TAtom a0 :: rest) /\
    run pst0 pre = Some st /\ p_cur st = Some c /\
    forall sk, run pst0 (TAtom a0 :: rest) = Some sk ->
               run pst0 (pre ++ TAtom a0 :: rest) = Some (embed st c a0 sk).
Proof.
  unfold splice_check, host_state. intro H.
  destruct (lexS me) as [tm|] eqn:Em; [|discriminate].
  destruct (split_marker sym tm) as [[pre post]|] eqn:Es; [|discriminate].
  destruct (run pst0 pre) as [st|] eqn:Er; [|discriminate].
  destruct (lexS child) as [[|[a0| | | | |] rest]|] eqn:Ec; try discriminate.
  destruct (first_reused st rest) eqn:Ef; [discriminate|].
  destruct (p_cur st) as [c|] eqn:Ecur; [|discriminate].
  destruct (p_pend st) eqn:Ep; [discriminate|].
  destruct (forallb not_dot rest) eqn:Ed; [|discriminate]. cbn [andb] in H.
  destruct (Nat.eqb (length (p_slots st)) (length (p_atoms st))) eqn:El; [|discriminate]. cbn [andb] in H.
  apply Nat.eqb_eq in El.
  destruct (split_marker_spec _ _ _ _ Es) as [m [Hm ->]].
  exists pre, post, m, st, c, a0, rest. repeat split; try assumption; try reflexivity.
  intros sk Hsk. rewrite run_app, Er.
  apply fragment_embeds; try assumption.
  - intro Hin. rewrite forallb_forall in Ed. specialize (Ed _ Hin). discriminate.
  - apply fresh_of_check. exact Ef.
Qed.

(* and a negative answer names a label that really is open in the host at the marker *)
Theorem splice_check_reused sym me child l :
  splice_check sym me child = SpReused l ->
  exists st post rest a0, host_state sym me = Some (st, post) /\ lexS child = Some (TAtom a0 :: rest) /\
                         In (TRing l) rest /\ find_open l (p_open st) <> None.
Proof.
  unfold splice_check. intro H.
  destruct (host_state sym me) as [[st post]|] eqn:Eh; [|discriminate].
  destruct (lexS child) as [[|[a0| | | | |] rest]|] eqn:Ec; try discriminate.
  destruct (first_reused st rest) as [l'|] eqn:Ef.
  - inversion H; subst l'. exists st, post, rest, a0. repeat split; try reflexivity.
    + clear -Ef. induction rest as [|t r IH]; [discriminate|]. cbn [first_reused] in Ef.
      destruct (tok_fresh st t) eqn:E; [right; apply IH; exact Ef|].
      destruct t; try discriminate. inversion Ef; subst. left; reflexivity.
    + clear -Ef. induction rest as [|t r IH]; [discriminate|]. cbn [first_reused] in Ef.
      destruct (tok_fresh st t) eqn:E; [apply IH; exact Ef|].
      destruct t; try discriminate. inversion Ef; subst. cbn in E.
      destruct (find_open l (p_open st)); [discriminate | discriminate].
  - destruct (p_cur st); [destruct (p_pend st)|]; try discriminate.
    destruct (_ && _ && _); discriminate.
Qed.

(* the whole substitution theorem, for the strings the merger handles: where the check says SpFresh and host and
   child are readable molecules, the string with the child in the marker's place reads as the host's molecule with
   the marker atom replaced by the child's molecule (Suffix.splice_sem) *)
Theorem splice_check_sem sym me child Mh Mk :
  splice_check sym me child = SpFresh -> sem_str me = Some Mh -> sem_str child = Some Mk ->
  exists pre am post a0 rest st c sk Me N1 N2 A2 B2,
    lexS me = Some (pre ++ TAtom am :: post) /\ str_eqb (a_sym am) sym = true /\
    lexS child = Some (TAtom a0 :: rest) /\
    run pst0 pre = Some st /\ p_cur st = Some c /\
    run pst0 (TAtom a0 :: rest) = Some sk /\
    sem (pre ++ (TAtom a0 :: rest) ++ post) = Some Me /\
    m_atoms Mh = p_atoms st ++ am :: A2 /\
    m_atoms Me = p_atoms st ++ m_atoms Mk ++ A2 /\
    m_nbrs Mh = N1 ++ (Some c :: repeat None (a_h am)) :: N2 /\ length N1 = length (p_atoms st) /\
    m_nbrs Me = map (map (option_map (ren st sk))) N1 ++ graft_nbrs st c (m_nbrs Mk) ++ map (map (option_map (ren st sk))) N2 /\
    m_bonds Mh = p_bonds st ++ (c, length (p_atoms st), default_bond (nth c (p_atoms st) am) am) :: B2 /\
    m_bonds Me = p_bonds st ++ (c, length (p_atoms st), link_bond st c a0) :: map (sh_bond st) (m_bonds Mk) ++ map (ren_bond st sk) B2.
Proof.
  unfold splice_check, host_state, sem_str, opt_bind. intros H Hh Hk.
  destruct (lexS me) as [tm|] eqn:Em; [|discriminate].
  destruct (split_marker sym tm) as [[pre post]|] eqn:Es; [|discriminate].
  destruct (run pst0 pre) as [st|] eqn:Er; [|discriminate].
  destruct (lexS child) as [[|[a0| | | | |] rest]|] eqn:Ec; try discriminate.
  destruct (first_reused st rest) eqn:Ef; [discriminate|].
  destruct (p_cur st) as [c|] eqn:Ecur; [|discriminate].
  destruct (p_pend st) eqn:Ep; [discriminate|].
  destruct (forallb not_dot rest) eqn:Ed; [|discriminate]. cbn [andb] in H.
  destruct (Nat.eqb (length (p_slots st)) (length (p_atoms st))) eqn:El; [|discriminate]. cbn [andb] in H.
  destruct (post_ok post) eqn:Epost; [|discriminate].
  destruct (split_marker_spec _ _ _ _ Es) as [m [Hm ->]].
  destruct m as [am| | | | |]; try discriminate. cbn [is_marker] in Hm.
  assert (Hpost : match post with [] => True | t :: _ => t = TClose end).
  { destruct post as [|[| | | |?|] ?]; try discriminate; try exact I; reflexivity. }
  assert (Hnd : ~ In TDot rest).
  { intro Hin. rewrite forallb_forall in Ed. specialize (Ed _ Hin). discriminate. }
  destruct (splice_sem pre am post a0 rest st c Mh Mk Er Ecur Ep Hk Hnd (fresh_of_check _ _ Ef) Hpost Hh)
    as (sk & Me & N1 & N2 & A2 & B2 & H1 & H2 & H3 & H4 & H5 & H6 & H7 & H8 & H9).
  exists pre, am, post, a0, rest, st, c, sk, Me, N1, N2, A2, B2.
  repeat split; try assumption; reflexivity.
Qed.
