(* Proofs/ConverterThm.v -- theorems about the translated converter.py / __main__.py (Gen/Converter.v).
   All statements are for every input value, every list length, every world. *)
From Coq Require Import String ZArith List Bool Lia.
From GV Require Import Model.PyLite Gen.Converter Proofs.PyLiteLemmas.
Import ListNotations.
Open Scope string_scope.
Open Scope list_scope.

(* ------------------------------------------------------------------ environments *)

Lemma lookup_update_eq x v e : lookup x (update x v e) = Some v.
Proof.
  induction e as [|[y u] e IH]; cbn [update lookup].
  - rewrite String.eqb_refl. reflexivity.
  - destruct (String.eqb x y) eqn:E; cbn [lookup]; rewrite E; [reflexivity | exact IH].
Qed.

Lemma lookup_update_neq x y v e : x <> y -> lookup y (update x v e) = lookup y e.
Proof.
  intro N. induction e as [|[z u] e IH]; cbn [update lookup].
  - destruct (String.eqb y x) eqn:E; [apply String.eqb_eq in E; congruence | reflexivity].
  - destruct (String.eqb x z) eqn:E; cbn [lookup].
    + apply String.eqb_eq in E; subst z.
      destruct (String.eqb y x) eqn:E2; [apply String.eqb_eq in E2; congruence | reflexivity].
    + destruct (String.eqb y z); [reflexivity | exact IH].
Qed.

Definition frame (xs : list string) (e e' : env) : Prop :=
  forall y, ~ In y xs -> lookup y e' = lookup y e.

Lemma frame_refl xs e : frame xs e e.
Proof. intros y _; reflexivity. Qed.

Lemma frame_update xs x v e e' : In x xs -> frame xs e e' -> frame xs e (update x v e').
Proof.
  intros Hin H y Hy. rewrite lookup_update_neq; [apply H; exact Hy | intro; subst; contradiction].
Qed.

Ltac notin := cbn; intuition discriminate.

(* ------------------------------------------------------------------ generic loop facts *)

Lemma map_res_pure (g : value -> world -> res value * world) (h : value -> value) l w :
  (forall i w, g i w = (inl (h i), w)) -> map_res g l w = (inl (map h l), w).
Proof.
  intro H. induction l as [|i l IH]; cbn [map_res map]; [reflexivity|].
  rewrite H, IH. reflexivity.
Qed.

Section P.
  Variable conv : value -> value -> res string.
  (* Glycan(...).get_smiles() may raise any Exception, but not SystemExit / KeyboardInterrupt *)
  Hypothesis conv_exc : forall g f, conv g f <> inr ExExit.

  Notation call := (call conv program).
  Notation eval := (eval conv program).
  Notation exec := (exec conv program).

  Definition smiles_of (full g : value) : string :=
    match conv g full with inl s => s | inr _ => "" end.
  Definition pair_of (full g : value) : value := VTuple [g; VStr (smiles_of full g)].

  Lemma ff_generate : find_fun "generate" program = Some fn_generate. Proof. reflexivity. Qed.
  Lemma ff_preprocess : find_fun "preprocess_glycans" program = Some fn_preprocess_glycans. Proof. reflexivity. Qed.
  Lemma ff_convert : find_fun "convert" program = Some fn_convert. Proof. reflexivity. Qed.
  Lemma ff_convert_generator : find_fun "convert_generator" program = Some fn_convert_generator. Proof. reflexivity. Qed.
  Lemma ff_parse_list : find_fun "parse_list" program = Some fn_parse_list. Proof. reflexivity. Qed.
  Lemma ff_main : find_fun "main" program = Some fn_main. Proof. reflexivity. Qed.

  (* generate never raises, echoes its input, and leaves the world alone *)
  Lemma generate_spec fuel g full w :
    call (8 + fuel) "generate" [g; full] [] w = (inl (pair_of full g), w).
  Proof.
    cbn [Nat.add]. unfold pair_of, smiles_of.
    rewrite call_eq, ff_generate. unfold fn_generate. pycbn. py.
    unfold prim. specialize (conv_exc g full).
    destruct (conv g full) as [s|e]; pycbn.
    - py. reflexivity.
    - destruct e; pycbn; py; try reflexivity. congruence.
  Qed.
  Definition not_none (g : value) : bool := match g with VNone => false | _ => true end.
  Definition optv (g : value) : list value := if not_none g then [g] else [].

  Inductive list_arg : value -> list value -> Prop :=
  | la_none : list_arg VNone []
  | la_list ls : list_arg (VList ls) ls
  | la_tuple ls : list_arg (VTuple ls) ls.

  Definition stripped (lines : list string) : list value := map (fun x => VStr (py_strip x)) lines.

  Inductive file_arg (w : world) : value -> list value -> Prop :=
  | fa_none : file_arg w VNone []
  | fa_file p lines : file_lines w p = Some lines -> file_arg w (VStr p) (stripped lines).

  (* the loop of preprocess_glycans: append the stripped lines *)
  Lemma strip_loop k lines : 4 <= k -> forall en w ys l0,
    lookup "glycans" en = Some (VList l0) ->
    exists en',
      for_loop (block_with (exec k) [SAppend "glycans" (EPrim "strip" [EVar "line"])]) ["line"]
               (map VStr lines) (mkSt en w ys) = (ONormal, mkSt en' w ys) /\
      lookup "glycans" en' = Some (VList (l0 ++ stripped lines)) /\
      frame ["line"; "glycans"] en en'.
  Proof.
    intro Hk. do 4 (destruct k as [|k]; [lia|]). clear Hk.
    induction lines as [|x lines IH]; intros en w ys l0 H.
    - exists en. cbn [map]. rewrite for_loop_nil. unfold stripped; cbn [map]. rewrite app_nil_r.
      split; [reflexivity|]. split; [exact H | apply frame_refl].
    - cbn [map]. rewrite for_loop_cons. pycbn. py.
      rewrite lookup_update_eq. pycbn.
      rewrite lookup_update_neq by discriminate. rewrite H. py.
      set (en1 := update "glycans" _ _).
      destruct (IH en1 w ys (l0 ++ [VStr (py_strip x)])) as (en' & E & G & F).
      { unfold en1. apply lookup_update_eq. }
      exists en'. rewrite E. split; [reflexivity|]. split.
      + rewrite G. unfold stripped. cbn [map]. rewrite <- app_assoc. reflexivity.
      + intros y Hy. rewrite F by exact Hy. unfold en1.
        rewrite !lookup_update_neq; [reflexivity | | ]; intro; subst; apply Hy; cbn; auto.
  Qed.

  Lemma preprocess_spec fuel g l f w ls fl :
    list_arg l ls -> file_arg w f fl ->
    call (12 + fuel) "preprocess_glycans" [g; l; f] [] w = (inl (VList (optv g ++ ls ++ fl)), w).
  Proof.
    intros Hl Hf. cbn [Nat.add].
    rewrite call_eq, ff_preprocess. unfold fn_preprocess_glycans. pycbn.
    sstep. sstep.
    change (match g with VNone => false | _ => true end) with (not_none g).
    unfold optv.
    destruct (not_none g); pycbn; [sstep; rewrite block_nil|rewrite block_nil]; pycbn.
    all: sstep; destruct Hl; pycbn; [rewrite block_nil|sstep; rewrite block_nil|sstep; rewrite block_nil]; pycbn; rewrite ?app_nil_r.
    all: sstep; destruct Hf as [|p lines Hp]; pycbn.
    all: try (rewrite block_nil; pycbn; sstep; rewrite ?app_nil_r; reflexivity).
    all: sstep; unfold isfile; rewrite Hp; pycbn; rewrite block_nil; pycbn.
    all: sstep; rewrite ?Hp; pycbn; py; rewrite ?Hp; pycbn.
    all: match goal with |- context [for_loop (block_with (exec ?k) _) _ _ (mkSt ?en ?w ?ys)] =>
           destruct (strip_loop k lines ltac:(lia) en w ys) with (l0 := match lookup "glycans" en with Some (VList l) => l | _ => [] end)
             as (en' & E & G & F); [reflexivity|]; rewrite E end.
    all: pycbn; rewrite block_nil; pycbn; py; rewrite G; pycbn; try reflexivity.
  Qed.
  Lemma generate_spec' k g full w : 8 <= k -> call k "generate" [g; full] [] w = (inl (pair_of full g), w).
  Proof. intro H. replace k with (8 + (k - 8)) by lia. apply generate_spec. Qed.

  Lemma preprocess_spec' k g l f w ls fl :
    12 <= k -> list_arg l ls -> file_arg w f fl ->
    call k "preprocess_glycans" [g; l; f] [] w = (inl (VList (optv g ++ ls ++ fl)), w).
  Proof. intros H Hl Hf. replace k with (12 + (k - 12)) by lia. apply preprocess_spec; assumption. Qed.

  Lemma parmap_generate k (enf : value -> env) w items full :
    10 <= k -> (forall i, lookup "iupac" (enf i) = Some i) -> (forall i, lookup "full" (enf i) = Some full) ->
    map_res (fun i w => match evals_with (fun a w => eval k a (enf i) w) [EVar "iupac"; EVar "full"] w with
                        | (inl vs, w1) => call k "generate" vs [] w1
                        | (inr ex, w1) => (inr ex, w1)
                        end) items w
    = (inl (map (pair_of full) items), w).
  Proof.
    intros Hk Hi Hf. apply map_res_pure. intros i w0.
    do 2 (destruct k as [|k]; [lia|]). py.
    rewrite Hi. pycbn. py. rewrite Hf. pycbn.
    apply generate_spec'. lia.
  Qed.

  Lemma file_arg_disabled w b f fl : file_arg w f fl -> file_arg (w_set_disabled w b) f fl.
  Proof. intros [|p lines H]; constructor. exact H. Qed.

  Definition is_none (v : value) : bool := match v with VNone => true | _ => false end.

  Inductive gen_arg : value -> list value -> Prop :=
  | ga_none : gen_arg VNone []
  | ga_gen items : gen_arg (VGen items) items
  | ga_list items : gen_arg (VList items) items.

  Definition no_input (inputs : list value) (gen : value) : bool :=
    match inputs with [] => is_none gen | _ => false end.

  Lemma len0_true (L : list value) : Z.eqb (Z.of_nat (length L)) 0 = true -> L = [].
  Proof. destruct L; [reflexivity | discriminate]. Qed.
  Lemma len0_false (L : list value) gen : Z.eqb (Z.of_nat (length L)) 0 = false -> no_input L gen = false.
  Proof. destruct L; [discriminate | reflexivity]. Qed.

  Ltac go full :=
    repeat (first [ progress run
                  | rewrite for_loop_cons; pycbn
                  | rewrite for_loop_nil; pycbn
                  | rewrite parmap_generate with (full := full) by (try lia; intro; reflexivity); pycbn ]).

  Theorem convert_returning fuel g l f gen verbose cpu full w ls fl items :
    list_arg l ls -> file_arg w f fl -> gen_arg gen items ->
    (verbose = VNone -> w_disabled w = false) ->
    call (40 + fuel) "convert" [g; l; f; gen; VNone; VBool true; verbose; cpu; full] [] w =
    (inl (if no_input (optv g ++ ls ++ fl) gen then VNone
          else VList (map (pair_of full) ((optv g ++ ls ++ fl) ++ items))), w).
  Proof.
    intros Hl Hf Hg Hv. cbn [Nat.add].
    rewrite call_eq, ff_convert. unfold fn_convert. pycbn.
    remember (optv g ++ ls ++ fl) as L eqn:HL.
    sstep.
    change (match verbose with VNone => true | _ => false end) with (is_none verbose).
    destruct (is_none verbose) eqn:Ev; pycbn.
    - assert (verbose = VNone) by (destruct verbose; try discriminate; reflexivity); subst verbose.
      specialize (Hv eq_refl). clear Ev.
      assert (Hw : w_set_disabled (w_set_disabled w true) false = w)
        by (destruct w; unfold w_set_disabled; cbn in *; subst; reflexivity).
      run. rewrite preprocess_spec' with (ls := ls) (fl := fl) by (try lia; try assumption; apply file_arg_disabled; assumption).
      rewrite <- HL. pycbn. run.
      destruct (Z.eqb (Z.of_nat (length L)) 0) eqn:El; pycbn.
      + apply len0_true in El. rewrite El. destruct Hg; pycbn; go full; rewrite ?Hw; reflexivity.
      + rewrite len0_false by exact El. destruct Hg; pycbn; repeat (progress (go full; rewrite ?El; pycbn)); rewrite ?Hw, ?app_nil_r, ?map_app; try reflexivity.
    - assert (Hvb : forall T (a b : T), (if match verbose with VNone => true | _ => false end then a else b) = b)
        by (intros; destruct verbose; try discriminate; reflexivity).
      run. rewrite preprocess_spec' with (ls := ls) (fl := fl) by (try lia; assumption).
      rewrite <- HL. pycbn. run.
      destruct (Z.eqb (Z.of_nat (length L)) 0) eqn:El; pycbn.
      + apply len0_true in El. rewrite El. destruct Hg; pycbn; repeat (progress (go full; rewrite ?Hvb; pycbn)); reflexivity.
      + rewrite len0_false by exact El.
        destruct Hg; pycbn; repeat (progress (go full; rewrite ?El, ?Hvb; pycbn)); rewrite ?app_nil_r, ?map_app; reflexivity.
  Qed.
End P.
