(* Props/C03.v -- The parsed tree is the glycan that was written, all of it.
   PARTIAL: proved here is that the specification reader (right-to-left reading of residues, linkages and
   brackets, Spec/Reader.v) inverts the notation for every tree, so "the glycan as written" is well defined and the
   notation is unambiguous. The check compares the tree the library exposes with the reader's tree and with the
   tree the input was generated from; the theorem walker = reader for all parse trees (walk_eq_read) is pending. *)
From Coq Require Import String List Lia Arith.
From GV Require Import Spec.Reader Proofs.ReaderThm.
Import ListNotations.

Theorem C03_read_render : forall t : rose, read (render t) = Some t.
Proof. exact read_render. Qed.
Print Assumptions C03_read_render.

(* one residue per node, nothing added, nothing dropped: the rendering has exactly one residue item per node *)
Theorem C03_render_residue_count :
  forall t, length (filter (fun i => match i with IRes _ => true | _ => false end) (render t)) = size t.
Proof.
  assert (H : forall N t, size t <= N ->
              length (filter (fun i => match i with IRes _ => true | _ => false end) (render t)) = size t).
  { induction N as [|N IH]; intros [n kids] Hs; [cbn [size] in Hs; inversion Hs|].
    destruct kids as [|[l k] bs]; [reflexivity|].
    rewrite render_cons. rewrite !filter_app, !app_length. cbn [filter length].
    cbn [size fold_right snd] in *.
    rewrite (IH k) by lia.
    assert (Hb : length (filter (fun i => match i with IRes _ => true | _ => false end) (rb bs)) =
                 fold_right (fun lk acc => size (snd lk) + acc) 0 bs).
    { assert (Hall : forall l' k', In (l', k') bs -> size k' <= N).
      { intros l' k' Hin. pose proof (size_kid_lt n l' k' ((l, k) :: bs) (or_intror Hin)) as Hlt.
        cbn [size fold_right snd] in Hlt. lia. }
      clear Hs. induction bs as [|[l' k'] r IHr]; [reflexivity|].
      cbn [rb fold_right snd]. rewrite !filter_app, !app_length. cbn [filter length].
      rewrite (IH k') by (apply (Hall l'); left; reflexivity).
      rewrite IHr by (intros l0 k0 Hin; apply (Hall l0); right; exact Hin).
      cbn [length]. lia. }
    rewrite Hb. cbn [length]. lia. }
  intro t. apply (H (size t)). apply le_n.
Qed.
Print Assumptions C03_render_residue_count.

From GV Require Import Model.Edge Model.Walker Proofs.WalkerThm.

(* The tree walker (Model/Walker.v, tied to walker.py by exact comparison of node ids, names and edge order on every
   sampled input) on EVERY parse tree of rule 'branch', whatever its depth and whichever of the six productions it
   uses: exactly one node is created per written residue, nodes that exist are left alone, and exactly one edge is
   created per new node. *)
Theorem C03_walk_one_node_per_residue :
  forall t, shaped t -> forall f p g id g',
    walk f t p g = Some (id, g') -> p < length (g_nodes g) ->
    extends g g' (length (residues t)) /\ id < length (g_nodes g') /\
    length (g_edges g') = length (g_edges g) + length (residues t).
Proof. exact walk_inv. Qed.
Print Assumptions C03_walk_one_node_per_residue.

(* for the whole brace-free glycan: node 0 is the last-written residue, there is one node per written residue and
   one edge fewer *)
Theorem C03_root_and_counts :
  forall f b d g, shaped b -> parse_begin f [b; PRes d] = Some g ->
    length (g_nodes g) = S (length (residues b)) /\ nth_error (g_nodes g) 0 = Some d /\
    length (g_edges g) = length (residues b).
Proof. exact parse_begin_counts. Qed.
Print Assumptions C03_root_and_counts.

(* the walker as the code has it: Gen/WalkerGen.v is regenerated from TreeWalker.__walk on every run (the dispatch on
   the number of children and the order of recursive walks, __add_node and __add_edge calls per case); on every parse
   tree of rule 'branch' it is the hand model, so the counting theorem is about the code as it stands *)
From GV Require Import Gen.WalkerGen Proofs.WalkerGenThm.
Theorem C03_regenerated_walker_is_the_model :
  forall t, shaped t -> forall f p g, walk_gen f t p g = walk f t p g.
Proof. exact walk_gen_eq. Qed.
Print Assumptions C03_regenerated_walker_is_the_model.

Theorem C03_regenerated_walker_counts :
  forall f b d g, shaped b -> parse_begin_with walk_gen f [b; PRes d] = Some g ->
  length (g_nodes g) = S (length (residues b)) /\ nth_error (g_nodes g) 0 = Some d /\
  length (g_edges g) = length (residues b).
Proof. exact parse_begin_gen_counts. Qed.
Print Assumptions C03_regenerated_walker_counts.
