(* Props/C17.v -- Command-line contract. Statements over the program regenerated from glyles/__main__.py and
   glyles/converter.py. *)
From Coq Require Import String ZArith List Bool.
From GV Require Import Model.PyLite Gen.Converter Proofs.ConverterThm Proofs.ConverterSinks.
Import ListNotations.
Open Scope string_scope.
Open Scope list_scope.

(* what main() forwards to: convert(..., output_file=out) writes one line 'input,SMILES' per glycan, in order,
   entries whose conversion fails get an empty SMILES and do not stop the run *)
Theorem C17_convert_writes_listing :
  forall (conv : value -> value -> res string), (forall g f, conv g f <> inr ExExit) ->
  forall fuel g l f gen returning verbose cpu full w ls fl items p,
    list_arg l ls -> file_arg w f fl -> gen_arg gen items ->
    (verbose = VNone -> w_disabled w = false) ->
    existsb (String.eqb p) (w_parent_ok w) = true ->
    call conv program (40 + fuel) "convert" [g; l; f; gen; VStr p; returning; verbose; cpu; full] [] w =
    (inl VNone, if no_input (optv g ++ ls ++ fl) gen then w
                else write_file p (map (fmt conv full) ((optv g ++ ls ++ fl) ++ items)) w).
Proof. exact convert_file. Qed.
Print Assumptions C17_convert_writes_listing.
