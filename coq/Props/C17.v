(* Props/C17.v -- Command-line contract. Statements over the program regenerated from glyles/__main__.py and
   glyles/converter.py. *)
From Coq Require Import String ZArith List Bool.
From GV Require Import Model.PyLite Gen.Converter Proofs.ConverterThm Proofs.ConverterSinks.
Import ListNotations.
Open Scope string_scope.
Open Scope list_scope.

(* what main() forwards to: convert(..., output_file=out) writes one line 'input,SMILES' per glycan, in order,
   entries whose conversion fails get an empty SMILES and do not stop the run *)
Theorem C17_convert_writes_listing :
  forall (conv : value -> value -> res string), (forall g f, conv g f <> inr ExExit) ->
  forall fuel g l f gen returning verbose cpu full w ls fl items p,
    list_arg l ls -> file_arg w f fl -> gen_arg gen items ->
    (verbose = VNone -> w_disabled w = false) ->
    existsb (String.eqb p) (w_parent_ok w) = true ->
    call conv program (40 + fuel) "convert" [g; l; f; gen; VStr p; returning; verbose; cpu; full] [] w =
    (inl VNone, if no_input (optv g ++ ls ++ fl) gen then w
                else write_file p (map (fmt conv full) ((optv g ++ ls ++ fl) ++ items)) w).
Proof. exact convert_file. Qed.
Print Assumptions C17_convert_writes_listing.

From GV Require Import Proofs.CliThm.

(* The command-line contract itself, for every argument list  -i x0 x1 .. xn -o out  (n >= 0), every file system:
   each argument that names an existing file is expanded in place to its stripped lines, every other argument is a
   glycan; the -o file gets exactly one line 'input,SMILES' per glycan in order of appearance; an entry whose
   conversion fails gets an empty SMILES (fmt uses smiles_of, which is "" when conv raises) and the run goes on.
   The three branches of main() (single file, single literal, list) are all covered by the one statement. *)
Theorem C17_main_spec :
  forall (conv : value -> value -> res string), (forall g f, conv g f <> inr ExExit) ->
  forall fuel x0 xs out w,
    Forall notflag (x0 :: xs) -> notflag out ->
    file_lines w out = None ->
    existsb (String.eqb out) (w_parent_ok w) = true ->
    call conv program (70 + fuel) "main" [VList (VStr "-i" :: map VStr (x0 :: xs) ++ [VStr "-o"; VStr out])] [] w =
    (inl VNone, listing conv w out (x0 :: xs)).
Proof. exact main_spec. Qed.
Print Assumptions C17_main_spec.

(* non-vacuity: a concrete run of the regenerated program on a mixed argument list, inside Coq *)
Example C17_example :
  let conv := fun g _ => match g with VStr "Glc" => inl "OC1" | VStr "Man" => inl "OC2" | _ => inr ExParse end in
  let w := mkWorld false [] false [] [("a.txt", [" Glc "; ""; "Glc,Man"])] ["out.txt"] [] in
  w_files (snd (call conv program 80 "main" [VList [VStr "-i"; VStr "Man"; VStr "a.txt"; VStr "zzz"; VStr "-o"; VStr "out.txt"]] [] w))
  = [("a.txt", [" Glc "; ""; "Glc,Man"]); ("out.txt", ["Man,OC2"; "Glc,OC1"; ","; "Glc,Man,"; "zzz,"])].
Proof. vm_compute. reflexivity. Qed.
