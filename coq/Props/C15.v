(* Props/C15.v -- What is accepted is exactly the published grammar.
   The model of acceptance is Ebnf.accepts over the grammar and token table regenerated from Glycan.g4 on every
   run: longest-match tokenisation with declaration-order priority (a definition, Spec/Ebnf.v) followed by the
   verified recogniser. *)
From Coq Require Import String List Bool.
From GV Require Import Spec.Ebnf Proofs.Recog Gen.Grammar.
Import ListNotations.
Open Scope string_scope.

(* for every grammar and every token list: an answer of the recogniser is the truth about derivability *)
Theorem C15_recogniser_correct :
  forall (g : grammar) fuel start w b,
    recognise g fuel start w = Some b -> (b = true <-> Der g (NT start) w).
Proof. exact recognise_spec. Qed.
Print Assumptions C15_recogniser_correct.

(* instantiated for the published grammar: the model accepts s iff '#s#' tokenises and its token names derive
   from the start rule of Glycan.g4 *)
Theorem C15_accepts_iff_derivable :
  forall s b, accepts token_table rules start_rule s = Some b ->
    (b = true <->
     exists toks, lex token_table (S (String.length ("#" ++ s ++ "#"))) ("#" ++ s ++ "#") = Some toks /\
                  Der rules (NT start_rule) (map fst toks)).
Proof.
  intros s b. unfold accepts.
  destruct (lex token_table _ _) as [toks|] eqn:E.
  - intro H. apply recognise_spec in H. split.
    + intro Hb. exists toks. split; [reflexivity | apply H; exact Hb].
    + intros (t & Ht & D). inversion Ht; subst t. apply H; exact D.
  - intro H; inversion H; subst. split; [discriminate | intros (t & Ht & _); discriminate].
Qed.
Print Assumptions C15_accepts_iff_derivable.

(* non-vacuity: concrete accepted and rejected strings, decided inside Coq *)
Example C15_examples :
  accepts token_table rules start_rule "Man(a1-4)[Gal(b1-3)]Glc" = Some true /\
  accepts token_table rules start_rule "Neu5Ac(a2-3)Gal(b1-4)GlcNAc b" = Some true /\
  accepts token_table rules start_rule "Glc#Man" = Some false /\
  accepts token_table rules start_rule "Man(a1-4)" = Some false /\
  accepts token_table rules start_rule "NHex" = Some true.
Proof. vm_compute. repeat split. Qed.

(* the recogniser the check runs: with a memo table at the non-terminals (Model/Memo.v), same statement *)
From GV Require Import Model.Memo Proofs.RecogMemo.
Theorem C15_memo_recogniser_correct :
  forall (g : grammar) fuel start w b,
    recognise_m g fuel start w = Some b -> (b = true <-> Der g (NT start) w).
Proof. exact recognise_m_spec. Qed.
Print Assumptions C15_memo_recogniser_correct.

Theorem C15_accepts_m_iff_derivable :
  forall s b, accepts_m token_table rules start_rule s = Some b ->
    (b = true <->
     exists toks, lex token_table (S (String.length ("#" ++ s ++ "#"))) ("#" ++ s ++ "#") = Some toks /\
                  Der rules (NT start_rule) (map fst toks)).
Proof.
  intros s b. unfold accepts_m.
  destruct (lex token_table _ _) as [toks|] eqn:E.
  - intro H. apply recognise_m_spec in H. split.
    + intro Hb. exists toks. split; [reflexivity | apply H; exact Hb].
    + intros (t & Ht & D). inversion Ht; subst t. apply H; exact D.
  - intro H; inversion H; subst. split; [discriminate | intros (t & Ht & _); discriminate].
Qed.
Print Assumptions C15_accepts_m_iff_derivable.

Example C15_examples_memo :
  accepts_m token_table rules start_rule "Man(a1-2)[Man(a1-2)[Man(a1-2)[Man(a1-2)[Glc(a1-3)]Gal(a1-3)]Gal(a1-3)]Gal(a1-3)]Gal" = Some true /\
  accepts_m token_table rules start_rule "Man(a1-4)[Gal(b1-3)]Glc" = Some true /\
  accepts_m token_table rules start_rule "Glc#Man" = Some false /\
  accepts_m token_table rules start_rule "Man(a1-4)" = Some false.
Proof. vm_compute. repeat split. Qed.

(* the generated files the library really runs: the token definitions and rules decompiled from the serialized ATNs
   of GlycanLexer.py / GlycanParser.py (Gen/Atn.v, regenerated on every run) against those of Glycan.g4 (Gen/Grammar.v) *)
From GV Require Import Gen.Atn Proofs.GrammarEq.

Theorem C15_generated_lexer_is_the_grammars :
  atn_token_table = token_table.
Proof. vm_compute. reflexivity. Qed.
Print Assumptions C15_generated_lexer_is_the_grammars.

Theorem C15_generated_parser_is_the_grammars :
  rules_eqv atn_rules rules = true /\ atn_start_rule = start_rule.
Proof. vm_compute. split; reflexivity. Qed.
Print Assumptions C15_generated_parser_is_the_grammars.

(* hence the ATN of the generated parser, read as a grammar, neither lags behind nor runs ahead of Glycan.g4 *)
Theorem C15_generated_parser_language :
  forall e w, Der atn_rules e w <-> Der rules e w.
Proof.
  intros e w. destruct C15_generated_parser_is_the_grammars as [H _]. split.
  - apply rules_eqv_fwd. exact H.
  - apply rules_eqv_bwd. exact H.
Qed.
Print Assumptions C15_generated_parser_language.
