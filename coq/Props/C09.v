(* Props/C09.v -- Batch conversion is total, aligned, ordered and verbatim.
   Statements over the program regenerated from glyles/converter.py (Gen/Converter.v); each is closed by [exact]. *)
From Coq Require Import String ZArith List Bool.
From GV Require Import Model.PyLite Gen.Converter Proofs.ConverterThm.
Import ListNotations.
Open Scope string_scope.
Open Scope list_scope.

(* generate() never raises an Exception, echoes its input verbatim, gives "" when the conversion raises,
   and leaves the process state alone -- for every input value whatsoever. *)
Theorem C09_generate_total :
  forall (conv : value -> value -> res string), (forall g f, conv g f <> inr ExExit) ->
  forall fuel g full w,
    call conv program (8 + fuel) "generate" [g; full] [] w = (inl (pair_of conv full g), w).
Proof. exact generate_spec. Qed.
Print Assumptions C09_generate_total.

(* the inputs are taken in the documented order: single, list, file lines (stripped) *)
Theorem C09_preprocess_order :
  forall (conv : value -> value -> res string) fuel g l f w ls fl,
    list_arg l ls -> file_arg w f fl ->
    call conv program (12 + fuel) "preprocess_glycans" [g; l; f] [] w = (inl (VList (optv g ++ ls ++ fl)), w).
Proof. exact preprocess_spec. Qed.
Print Assumptions C09_preprocess_order.

(* convert(..., returning=True): exactly one pair per input, in the order single, list, file, generator,
   the input echoed unchanged, "" for every input whose conversion raises; lists of any length. *)
Theorem C09_convert_returning :
  forall (conv : value -> value -> res string), (forall g f, conv g f <> inr ExExit) ->
  forall fuel g l f gen verbose cpu full w ls fl items,
    list_arg l ls -> file_arg w f fl -> gen_arg gen items ->
    (verbose = VNone -> w_disabled w = false) ->
    call conv program (40 + fuel) "convert" [g; l; f; gen; VNone; VBool true; verbose; cpu; full] [] w =
    (inl (if no_input (optv g ++ ls ++ fl) gen then VNone
          else VList (map (pair_of conv full) ((optv g ++ ls ++ fl) ++ items))), w).
Proof. exact convert_returning. Qed.
Print Assumptions C09_convert_returning.

(* non-vacuity: the hypotheses are satisfiable and the statement computes on a concrete mixed batch *)
Example C09_example :
  let conv := fun g _ => match g with VStr "Glc" => inl "OC1..." | VStr _ => inr ExParse | _ => inr (ExOther "TypeError") end in
  let w := mkWorld false [] false [] [("in.txt", ["Glc "; "x"])] [] [] in
  fst (call conv program 60 "convert" [VStr "Glc"; VList [VNone; VInt 3]; VStr "in.txt"; VGen [VStr "zzz"]; VNone; VBool true; VInt 20; VInt 1; VBool true] [] w)
  = inl (VList [VTuple [VStr "Glc"; VStr "OC1..."]; VTuple [VNone; VStr ""]; VTuple [VInt 3; VStr ""];
                VTuple [VStr "Glc"; VStr "OC1..."]; VTuple [VStr "x"; VStr ""]; VTuple [VStr "zzz"; VStr ""]]).
Proof. vm_compute. reflexivity. Qed.

From GV Require Import Proofs.CliThm.

(* convert_generator: the same pairs, in the same order, one per input; exhausted => logger flag restored *)
Theorem C09_convert_generator :
  forall (conv : value -> value -> res string), (forall g f, conv g f <> inr ExExit) ->
  forall fuel g l f gen verbose cpu full w ls fl items,
    list_arg l ls -> file_arg w f fl -> gen_arg gen items ->
    (verbose = VNone -> w_disabled w = false) ->
    call_gen conv program (40 + fuel) "convert_generator" [g; l; f; gen; verbose; cpu; full] [] w =
    (gen_outcome (optv g ++ ls ++ fl) gen, map (pair_of conv full) ((optv g ++ ls ++ fl) ++ items), w).
Proof. exact convert_generator_spec. Qed.
Print Assumptions C09_convert_generator.
