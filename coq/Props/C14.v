(* Props/C14.v -- Skeleton-changing prefixes and suffixes perform their defining transformation.
   PARTIAL: proved here are the defining facts of the graph-level specifications (Spec/Skeleton.v): what each edit
   adds or removes and that everything else is copied. The character-level rewriting of the open-form table rows
   (check_for_open_form / check_for_resizing) and the RDKit graph edits are compared with these specifications per
   input (extracted Coq isomorphism); the finite exhaustive theorem over the table rows is pending. *)
From Coq Require Import List Bool Arith Lia.
From GV Require Import Base.Util Spec.Smiles Spec.Chem Spec.Iso Spec.Graft Spec.Skeleton.
Import ListNotations.
Open Scope list_scope.

(* oxidation to the acid adds exactly one atom (an oxygen) and one double bond at the named carbon *)
Theorem C14_oxidise_adds_one_oxygen :
  forall M c,
    length (m_atoms (oxidise M c)) = S (length (m_atoms M)) /\
    m_bonds (oxidise M c) = m_bonds M ++ [(c, length (m_atoms M), BDouble)] /\
    (forall i, i < length (m_atoms M) -> nth_error (m_atoms (oxidise M c)) i = nth_error (m_atoms M) i).
Proof.
  intros M c. repeat split.
  - cbn [oxidise m_atoms]. rewrite app_length. cbn [length]. lia.
  - intros i Hi. cbn [oxidise m_atoms]. apply nth_error_app1. exact Hi.
Qed.
Print Assumptions C14_oxidise_adds_one_oxygen.

(* deleting an atom removes exactly that atom and exactly its bonds *)
Theorem C14_delete_atom_counts :
  forall M k, k < length (m_atoms M) ->
    length (m_atoms (delete_atom M k)) = length (m_atoms M) - 1 /\
    length (m_bonds (delete_atom M k)) =
    length (filter (fun '(a, b, _) => negb (Nat.eqb a k || Nat.eqb b k)) (m_bonds M)).
Proof.
  intros M k Hk. split.
  - cbn [delete_atom m_atoms].
    assert (G : forall (A : Type) (l : list A) n, n < length l -> length (remove_nth n l) = length l - 1).
    { intros A l. induction l as [|x l IH]; intros n Hn; [cbn in Hn; lia|].
      destruct n; cbn [remove_nth length]; [lia|]. cbn [length] in Hn. rewrite IH by lia. destruct l; cbn in *; lia. }
    rewrite G; rewrite map_length, combine_length, seq_length; lia.
  - cbn [delete_atom m_bonds]. rewrite map_length. reflexivity.
Qed.
Print Assumptions C14_delete_atom_counts.
