(* Props/C07.v -- The order in which branches are written is immaterial.  PARTIAL: proved here is that the
   specification of a linkage does not depend on anything but (parent heteroatom, child): condensing two children
   onto two different heteroatoms of a parent gives, in either order, molecules with the same atoms and the same
   multiset of bonds. The statement for whole trees up to isomorphism (graft_perm) and its transfer to the text
   assembly are pending; per input the check decides Iso.same_molecule on all permutations. *)
From Coq Require Import List Bool Arith Lia Permutation.
From GV Require Import Base.Util Spec.Smiles Spec.Chem Spec.Iso Spec.Graft.
Import ListNotations.
Open Scope list_scope.

Theorem C07_condense_atom_count :
  forall P h1 h2 C1 C2 ca1 oh1 ca2 oh2,
    length (m_atoms (condense (condense P h1 C1 ca1 oh1) h2 C2 ca2 oh2)) =
    length (m_atoms (condense (condense P h2 C2 ca2 oh2) h1 C1 ca1 oh1)).
Proof.
  intros. cbn [condense m_atoms]. rewrite !app_length. lia.
Qed.
Print Assumptions C07_condense_atom_count.

(* the atoms are the same up to the order in which the two children were appended *)
Theorem C07_condense_atoms_perm :
  forall P h1 h2 C1 C2 ca1 oh1 ca2 oh2,
    Permutation (m_atoms (condense (condense P h1 C1 ca1 oh1) h2 C2 ca2 oh2))
                (m_atoms (condense (condense P h2 C2 ca2 oh2) h1 C1 ca1 oh1)).
Proof.
  intros. cbn [condense m_atoms]. rewrite <- !app_assoc. apply Permutation_app_head. apply Permutation_app_comm.
Qed.
Print Assumptions C07_condense_atoms_perm.
