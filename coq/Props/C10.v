(* Props/C10.v -- Nothing is dropped silently: the meaning of 'full'. Statements over the model of the gate in
   Glycan.get_smiles and of the accumulation of TreeWalker.full (Model/Gate.v), tied to the code by the
   differential sweep of the check (tree_full flag and results for every generated input, both values of full). *)
From Coq Require Import List Bool.
From GV Require Import Base.Util Spec.Smiles Spec.Chem Model.Gate.
Import ListNotations.

(* full=True: a non-empty result means the whole tree was realisable *)
Theorem C10_full_true_nothing_dropped :
  forall tree_full merged, get_smiles_model false tree_full true merged <> [] -> tree_full = true.
Proof.
  intros tf mg. unfold get_smiles_model. destruct tf; [reflexivity|]. cbn. intro H; exfalso; apply H; reflexivity.
Qed.
Print Assumptions C10_full_true_nothing_dropped.

(* full=False: the flag is not consulted, the result is the (gated) merged string; in particular every input
   that converts under full=True gives the same string *)
Theorem C10_full_false_same_as_true :
  forall tree_full merged,
    get_smiles_model false tree_full false merged = gate merged /\
    (get_smiles_model false tree_full true merged <> [] ->
     get_smiles_model false tree_full false merged = get_smiles_model false tree_full true merged).
Proof.
  intros tf mg. split; [reflexivity|]. unfold get_smiles_model. destruct tf; cbn; [reflexivity|].
  intro H; exfalso; apply H; reflexivity.
Qed.
Print Assumptions C10_full_false_same_as_true.

(* the flag is a conjunction: one unknown residue, one unsupported modification, one undetermined linkage or a
   detached fragment clears it, whatever else the glycan contains *)
Lemma fold_andb_false l : fold_left andb l false = false.
Proof. induction l as [|x l IH]; [reflexivity | exact IH]. Qed.

Lemma fold_andb_all l : fold_left andb l true = forallb (fun b => b) l.
Proof.
  induction l as [|x l IH]; [reflexivity|]. cbn [fold_left forallb]. destruct x; cbn [andb]; [exact IH | apply fold_andb_false].
Qed.

Theorem C10_flag_is_conjunction :
  forall rs gs es connected,
    tree_full_model rs gs es connected = true <->
    (forall b, In b rs -> b = true) /\ (forall b, In b gs -> b = true) /\ (forall b, In b es -> b = true) /\ connected = true.
Proof.
  intros rs gs es c. unfold tree_full_model. rewrite fold_andb_all, andb_true_iff, forallb_forall. split.
  - intros [H Hc]. repeat split; try assumption; intros b Hb; apply H; apply in_or_app; [left | right; apply in_or_app; left | right; apply in_or_app; right]; exact Hb.
  - intros (H1 & H2 & H3 & Hc). split; [|exact Hc]. intros b Hb.
    apply in_app_or in Hb as [Hb|Hb]; [apply H1, Hb|]. apply in_app_or in Hb as [Hb|Hb]; [apply H2, Hb | apply H3, Hb].
Qed.
Print Assumptions C10_flag_is_conjunction.

(* the methods as the code has them (Gen/Methods.v, regenerated on every run from glycan.py and factory.py) *)
From Coq Require Import Ascii.
From GV Require Import Gen.Methods Proofs.MethodsThm.

(* Glycan.get_smiles as written is the gate model the theorems above are about *)
Theorem C10_get_smiles_as_written :
  forall tree_only tree_full full merged,
    gen_get_smiles tree_only tree_full full merged = get_smiles_model tree_only tree_full full merged.
Proof. exact gen_get_smiles_eq. Qed.
Print Assumptions C10_get_smiles_as_written.

(* MonomerFactory.create as written: a written ring letter is never answered with the other ring form; a residue
   found in no table (or only in the table of the other ring form) is the unknown monomer, which clears the flag *)
Theorem C10_create_respects_the_ring_letter :
  forall in_p in_f in_o is_suc ring,
  (gen_create_choice in_p in_f in_o is_suc ring = CPyranose -> in_p = true /\ ring <> Some "f"%char) /\
  (gen_create_choice in_p in_f in_o is_suc ring = CFuranose -> in_f = true /\ ring <> Some "p"%char).
Proof. exact create_respects_ring. Qed.
Print Assumptions C10_create_respects_the_ring_letter.

Theorem C10_create_unknown :
  forall in_p in_f ring,
  (ring = Some "f"%char -> in_f = false -> gen_create_choice in_p in_f false false ring = CUnknown) /\
  (ring = Some "p"%char -> in_p = false -> gen_create_choice in_p in_f false false ring = CUnknown) /\
  (in_p = false -> in_f = false -> gen_create_choice in_p in_f false false ring = CUnknown).
Proof. exact create_unknown. Qed.
Print Assumptions C10_create_unknown.
