(* Props/C13.v -- Reducing-end anomer and SMILES start atom change only what they should.  PARTIAL: the
   statements are about the model of the selection logic (Model/Root.v); that rooting a SMILES at another atom
   denotes the same molecule is the oracle assumption A-rdkit-write, decided per input by Iso.same_molecule. *)
From Coq Require Import List Arith Bool Lia.
From GV Require Import Model.Root.
Import ListNotations.

(* the suffix wins when both are given; without a suffix the option decides; a and b are different requests *)
Theorem C13_suffix_wins : forall s o, s <> 0 -> root_config s o = s.
Proof. intros s o H. unfold root_config. destruct (Nat.eqb_spec s 0); [contradiction | reflexivity]. Qed.
Print Assumptions C13_suffix_wins.

Theorem C13_option_applies : forall o, root_config 0 o = o.
Proof. reflexivity. Qed.
Print Assumptions C13_option_applies.

(* an id that names no atom, or more than one, falls back to C1; an id naming exactly one atom selects it *)
Theorem C13_start_fallback :
  forall ids start, length (positions_of ids start) <> 1 -> start_position ids start = start_position ids 1.
Proof.
  intros ids start H. unfold start_position.
  destruct (positions_of ids start) as [|p [|q r]]; cbn in H; try lia;
    destruct (positions_of ids 1) as [|a [|b c]]; reflexivity.
Qed.
Print Assumptions C13_start_fallback.

Theorem C13_start_in_range :
  forall ids start p, start_position ids start = Some p -> p < length ids.
Proof.
  intros ids start p. unfold start_position.
  assert (G : forall x q, In q (positions_of ids x) -> q < length ids).
  { intros x q Hq. unfold positions_of in Hq. apply in_map_iff in Hq as [[a b] [E Hin]]. cbn in E; subst a.
    apply filter_In in Hin as [Hin _]. apply in_combine_l in Hin. apply in_seq in Hin. lia. }
  destruct (positions_of ids start) as [|a [|b r]] eqn:E1.
  - destruct (positions_of ids 1) as [|a [|b r]] eqn:E2; try discriminate.
    intro H; inversion H; subst. apply (G 1). rewrite E2. left; reflexivity.
  - intro H; inversion H; subst. apply (G start). rewrite E1. left; reflexivity.
  - destruct (positions_of ids 1) as [|a' [|b' r']] eqn:E2; try discriminate.
    intro H; inversion H; subst. apply (G 1). rewrite E2. left; reflexivity.
Qed.
Print Assumptions C13_start_in_range.
