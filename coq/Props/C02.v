(* Props/C02.v -- Every non-empty result is a valid, whole, placeholder-free molecule. *)
From Coq Require Import List Bool Arith.
From GV Require Import Base.Util Spec.Smiles Spec.Chem Model.Gate Proofs.SmilesFacts.
Import ListNotations.

(* what the validity verdict means *)
Theorem C02_valid_sound :
  forall s, smiles_valid s = true ->
    no_empty_branch s = true /\
    exists m, sem_str s = Some m /\ no_markers m = true /\ elements_ok m = true /\
              all_valences_ok m = true /\ n_components m = 1 /\ no_dup_bonds m = true.
Proof.
  intros s H. unfold smiles_valid in H. apply andb_true_iff in H as [H1 H2]. split; [exact H1|].
  destruct (sem_str s) as [m|]; [|discriminate]. exists m. split; [reflexivity|].
  unfold mol_valid in H2. repeat (apply andb_true_iff in H2 as [H2 ?]).
  repeat split; try assumption. apply Nat.eqb_eq. assumption.
Qed.
Print Assumptions C02_valid_sound.

(* a string that parses has balanced parentheses and every ring-closure label paired *)
Theorem C02_parsed_is_closed :
  forall ts m, sem ts = Some m ->
    exists st, run pst0 ts = Some st /\ p_stack st = [] /\ p_open st = [] /\ p_pend st = None.
Proof. exact sem_closed. Qed.
Print Assumptions C02_parsed_is_closed.

(* the exit gate: whatever the assembly produced, for all options, a non-empty result is valid *)
Theorem C02_exit_gate :
  forall tree_only tree_full full merged,
    get_smiles_model tree_only tree_full full merged <> [] ->
    smiles_valid (get_smiles_model tree_only tree_full full merged) = true.
Proof.
  intros to tf f mg. unfold get_smiles_model, gate.
  destruct (negb to && f && negb tf); [intro H; exfalso; apply H; reflexivity|].
  destruct (smiles_valid mg) eqn:E; [intros _; exact E | intro H; exfalso; apply H; reflexivity].
Qed.
Print Assumptions C02_exit_gate.

(* ring-closure labels of spliced children: a positive verdict of the splice check on one substitution of the merger
   means the child builds, inside the host, exactly the structure it builds alone; a negative verdict names a label
   of the child that is open in the host at the marker (the child would close a ring of the host) *)
From GV Require Import Model.Splice Proofs.Embed Proofs.SpliceThm.
Theorem C02_fresh_labels_embed :
  forall sym me child, splice_check sym me child = SpFresh ->
  exists pre post m st c a0 rest,
    lexS me = Some (pre ++ m :: post) /\ is_marker sym m = true /\
    lexS child = Some (TAtom a0 :: rest) /\
    run pst0 pre = Some st /\ p_cur st = Some c /\
    forall sk, run pst0 (TAtom a0 :: rest) = Some sk ->
               run pst0 (pre ++ TAtom a0 :: rest) = Some (embed st c a0 sk).
Proof. exact splice_check_sound. Qed.
Print Assumptions C02_fresh_labels_embed.

Theorem C02_reused_label_is_open :
  forall sym me child l, splice_check sym me child = SpReused l ->
  exists st post rest a0, host_state sym me = Some (st, post) /\ lexS child = Some (TAtom a0 :: rest) /\
                          In (TRing l) rest /\ find_open l (p_open st) <> None.
Proof. exact splice_check_reused. Qed.
Print Assumptions C02_reused_label_is_open.

(* ... and, with Proofs/Suffix.v, the whole substitution: where the check says SpFresh and host and child are
   readable molecules, the string with the child in the marker's place reads as the host's molecule with the marker
   atom replaced by the child's molecule -- no ring of the host is closed by the child, none of the child by the host *)
From GV Require Import Proofs.Suffix.
Theorem C02_fresh_splice_is_substitution :
  forall sym me child Mh Mk,
  splice_check sym me child = SpFresh -> sem_str me = Some Mh -> sem_str child = Some Mk ->
  exists pre am post a0 rest st c sk Me N1 N2 A2 B2,
    lexS me = Some (pre ++ TAtom am :: post) /\ str_eqb (a_sym am) sym = true /\
    lexS child = Some (TAtom a0 :: rest) /\
    run pst0 pre = Some st /\ p_cur st = Some c /\
    run pst0 (TAtom a0 :: rest) = Some sk /\
    sem (pre ++ (TAtom a0 :: rest) ++ post) = Some Me /\
    m_atoms Mh = p_atoms st ++ am :: A2 /\
    m_atoms Me = p_atoms st ++ m_atoms Mk ++ A2 /\
    m_nbrs Mh = N1 ++ (Some c :: repeat None (a_h am)) :: N2 /\ length N1 = length (p_atoms st) /\
    m_nbrs Me = map (map (option_map (ren st sk))) N1 ++ graft_nbrs st c (m_nbrs Mk) ++ map (map (option_map (ren st sk))) N2 /\
    m_bonds Mh = p_bonds st ++ (c, length (p_atoms st), default_bond (nth c (p_atoms st) am) am) :: B2 /\
    m_bonds Me = p_bonds st ++ (c, length (p_atoms st), link_bond st c a0) :: map (sh_bond st) (m_bonds Mk) ++ map (ren_bond st sk) B2.
Proof. exact splice_check_sem. Qed.
Print Assumptions C02_fresh_splice_is_substitution.
