(* Props/C02.v -- Every non-empty result is a valid, whole, placeholder-free molecule. *)
From Coq Require Import List Bool Arith.
From GV Require Import Base.Util Spec.Smiles Spec.Chem Model.Gate Proofs.SmilesFacts.
Import ListNotations.

(* what the validity verdict means *)
Theorem C02_valid_sound :
  forall s, smiles_valid s = true ->
    no_empty_branch s = true /\
    exists m, sem_str s = Some m /\ no_markers m = true /\ elements_ok m = true /\
              all_valences_ok m = true /\ n_components m = 1 /\ no_dup_bonds m = true.
Proof.
  intros s H. unfold smiles_valid in H. apply andb_true_iff in H as [H1 H2]. split; [exact H1|].
  destruct (sem_str s) as [m|]; [|discriminate]. exists m. split; [reflexivity|].
  unfold mol_valid in H2. repeat (apply andb_true_iff in H2 as [H2 ?]).
  repeat split; try assumption. apply Nat.eqb_eq. assumption.
Qed.
Print Assumptions C02_valid_sound.

(* a string that parses has balanced parentheses and every ring-closure label paired *)
Theorem C02_parsed_is_closed :
  forall ts m, sem ts = Some m ->
    exists st, run pst0 ts = Some st /\ p_stack st = [] /\ p_open st = [] /\ p_pend st = None.
Proof. exact sem_closed. Qed.
Print Assumptions C02_parsed_is_closed.

(* the exit gate: whatever the assembly produced, for all options, a non-empty result is valid *)
Theorem C02_exit_gate :
  forall tree_only tree_full full merged,
    get_smiles_model tree_only tree_full full merged <> [] ->
    smiles_valid (get_smiles_model tree_only tree_full full merged) = true.
Proof.
  intros to tf f mg. unfold get_smiles_model, gate.
  destruct (negb to && f && negb tf); [intro H; exfalso; apply H; reflexivity|].
  destruct (smiles_valid mg) eqn:E; [intros _; exact E | intro H; exfalso; apply H; reflexivity].
Qed.
Print Assumptions C02_exit_gate.
