(* Props/C11.v -- Conversions do not influence each other or the host process.
   PARTIAL: proved over the program regenerated from converter.py: a call of convert() leaves the modelled process
   state (root-logger flag, standard output, files, stdin) exactly as it found it on the returning path and on the
   exception path, and the regenerated inventory of process-state effect sites of the whole package contains
   nothing but the logger toggles of converter.py and the listing print. Independence of results from the history
   of earlier calls concerns Python objects shared between calls (class-level tables, RDKit objects): that part is
   decided by the differential histories of the check (snapshots of the shared tables after every call). *)
From Coq Require Import String ZArith List Bool.
From GV Require Import Model.PyLite Gen.Converter Gen.Sites Proofs.ConverterThm Proofs.HistoryThm.
Import ListNotations.
Open Scope string_scope.
Open Scope list_scope.

(* returning path, any mix of inputs of any length, verbose=None or not: world out = world in *)
Theorem C11_convert_leaves_process_state :
  forall (conv : value -> value -> res string), (forall g f, conv g f <> inr ExExit) ->
  forall fuel g l f gen verbose cpu full w ls fl items,
    list_arg l ls -> file_arg w f fl -> gen_arg gen items ->
    (verbose = VNone -> w_disabled w = false) ->
    snd (call conv program (40 + fuel) "convert" [g; l; f; gen; VNone; VBool true; verbose; cpu; full] [] w) = w.
Proof.
  intros conv Hc fuel g l f gen verbose cpu full w ls fl items Hl Hf Hg Hv.
  rewrite (convert_returning conv Hc fuel g l f gen verbose cpu full w ls fl items Hl Hf Hg Hv). reflexivity.
Qed.
Print Assumptions C11_convert_leaves_process_state.

(* exception path (glycan file missing): the ValueError leaves with logging enabled again and nothing written *)
Theorem C11_convert_exception_restores :
  forall (conv : value -> value -> res string) fuel g l p gen ofile returning cpu full w ls,
    list_arg l ls -> file_lines w p = None -> w_disabled w = false ->
    call conv program (40 + fuel) "convert" [g; l; VStr p; gen; ofile; returning; VNone; cpu; full] [] w = (inr ExValue, w).
Proof. exact convert_missing_file_restores. Qed.
Print Assumptions C11_convert_exception_restores.

(* every site of the package that writes the logger flag or standard output, regenerated from the sources:
   the flag is written only in convert / convert_generator (one True and one False each), standard output only
   by convert's listing; stderr writes are not process state the property speaks about *)
Theorem C11_effect_sites :
  filter (fun s => match s with (k, _, _) => negb (String.eqb k "print:sys.stderr") end) effect_sites =
  [("logger.disabled=False", "glyles/converter.py", "convert");
   ("logger.disabled=False", "glyles/converter.py", "convert_generator");
   ("logger.disabled=True", "glyles/converter.py", "convert");
   ("logger.disabled=True", "glyles/converter.py", "convert_generator");
   ("print:output", "glyles/converter.py", "convert");
   ("sys.stdout", "glyles/converter.py", "convert");
   ("sys.stdout", "glyles/converter.py", "convert");
   ("sys.stdout", "glyles/converter.py", "convert")].
Proof. vm_compute. reflexivity. Qed.
Print Assumptions C11_effect_sites.
