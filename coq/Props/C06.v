(* Props/C06.v -- The three notations are one language. Statements over the model of __add_edge (Model/Edge.v)
   and the regenerated ketoses2 table. *)
From Coq Require Import Ascii String Bool List.
From GV Require Import Model.Edge Gen.Tables.
Import ListNotations.
Open Scope string_scope.

Definition single (t : string) : Prop := exists c, t = String c EmptyString /\ c <> "("%char /\ c <> ")"%char /\ c <> "-"%char.
Definition plain (s : string) : Prop :=
  has_char "("%char s = false /\ has_char ")"%char s = false /\ has_char "-"%char s = false.

Lemma has_char_app c a b : has_char c (a ++ b) = has_char c a || has_char c b.
Proof. induction a as [|d a IH]; cbn [append has_char]; [reflexivity|]. rewrite IH, orb_assoc. reflexivity. Qed.

Lemma sapp_assoc (a b c : string) : (a ++ b) ++ c = a ++ (b ++ c).
Proof. induction a as [|d a IH]; cbn [append]; [reflexivity | rewrite IH; reflexivity]. Qed.

Lemma has_char_single x ch : has_char x (String ch "") = Ascii.eqb x ch.
Proof. cbn [has_char]. apply orb_false_r. Qed.

Lemma neq_eqb x y : y <> x -> Ascii.eqb x y = false.
Proof. intro H. destruct (Ascii.eqb_spec x y); [congruence | reflexivity]. Qed.

Lemma add_edge_plain k s :
  has_char "("%char s = false -> has_char ")"%char s = false -> has_char "-"%char s = true ->
  add_edge k s = "(" ++ s ++ ")".
Proof. intros H1 H2 H3. unfold add_edge. rewrite H1, H2, H3. reflexivity. Qed.

Lemma add_edge_paren k s : has_char "("%char s = true -> add_edge k s = s.
Proof. intro H. unfold add_edge. rewrite H. reflexivity. Qed.

(* with or without parentheses: always the same edge label, for every anomer symbol and all positions *)
Theorem C06_parentheses_immaterial :
  forall k t c p, single t -> plain c -> plain p ->
    add_edge k (form_nopar t c p) = add_edge k (form_full t c p).
Proof.
  intros k t c p (ch & -> & N1 & N2 & N3) (C1 & C2 & C3) (P1 & P2 & P3).
  unfold form_nopar, form_full.
  rewrite add_edge_plain.
  - rewrite add_edge_paren; [|reflexivity]. rewrite !sapp_assoc. reflexivity.
  - rewrite !has_char_app, has_char_single, C1, P1, (neq_eqb _ _ N1). reflexivity.
  - rewrite !has_char_app, has_char_single, C2, P2, (neq_eqb _ _ N2). reflexivity.
  - rewrite !has_char_app. cbn [has_char]. rewrite Ascii.eqb_refl, !orb_true_r. reflexivity.
Qed.
Print Assumptions C06_parentheses_immaterial.

(* leaving out the child position gives the label with the default the test supplies *)
Theorem C06_short_form_default :
  forall k t p, single t -> plain p ->
    add_edge k (form_short t p) = form_full t (if k then "2" else "1") p.
Proof.
  intros k t p (ch & -> & N1 & N2 & N3) (P1 & P2 & P3).
  unfold add_edge, form_short, form_full.
  rewrite !has_char_app, !has_char_single, P1, P2, P3, (neq_eqb _ _ N1), (neq_eqb _ _ N2), (neq_eqb _ _ N3).
  cbn [orb negb andb append]. destruct k; reflexivity.
Qed.
Print Assumptions C06_short_form_default.

(* with the specified test (ketoses2 of the code base) the default is the sugar's anomeric carbon ... *)
Theorem C06_spec_default_is_anomeric_carbon :
  forall t p, single t -> plain p ->
    add_edge (spec_ketose_test "Neu" 6) (form_short t p) = form_full t "2" p /\
    add_edge (spec_ketose_test "Glc" 6) (form_short t p) = form_full t "1" p.
Proof.
  intros t p Ht Hp. split; rewrite C06_short_form_default by assumption; reflexivity.
Qed.
Print Assumptions C06_spec_default_is_anomeric_carbon.

(* ... but the test as coded never succeeds: for a 2-ketose child written without its position the code's label
   differs from the specified one (witness: Neu5Ac a3) *)
Theorem C06_ketose_default_refuted :
  add_edge (code_ketose_test "Neu" 6) (form_short "a" "3") <> add_edge (spec_ketose_test "Neu" 6) (form_short "a" "3").
Proof. vm_compute. discriminate. Qed.
Print Assumptions C06_ketose_default_refuted.

(* TreeWalker.__add_edge as the code has it (Gen/Methods.v, regenerated on every run from walker.py) is the model
   the statements above are about *)
From GV Require Import Gen.Methods Proofs.MethodsThm.
Theorem C06_add_edge_as_written :
  forall ketose con, con <> ""%string -> gen_add_edge ketose con = add_edge ketose con.
Proof. exact gen_add_edge_eq. Qed.
Print Assumptions C06_add_edge_as_written.
