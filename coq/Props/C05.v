(* Props/C05.v -- Condensation mass balance. *)
From Coq Require Import List.
From GV Require Import Base.Util Spec.Smiles Spec.Chem Proofs.SmilesFacts.
Import ListNotations.
Open Scope list_scope.

(* Heavy-atom part of the balance, for every splice of a fragment over a marker atom, in any host string, at any
   depth: the result has exactly the atoms of the marked host minus the marker plus the atoms of the fragment.
   (The hydrogen part follows from the bond structure, i.e. from the substitution theorem; it is evaluated per
   instance by Chem.formula on the implementation's strings in the check.) *)
Theorem C05_splice_atoms :
  forall pre mk child post mh mg,
    sem (pre ++ TAtom mk :: post) = Some mh -> sem (pre ++ child ++ post) = Some mg ->
    m_atoms mh = tok_atoms pre ++ mk :: tok_atoms post /\
    m_atoms mg = tok_atoms pre ++ tok_atoms child ++ tok_atoms post.
Proof. exact splice_atoms. Qed.
Print Assumptions C05_splice_atoms.

Theorem C05_splice_element_balance_partial :
  forall sym pre mk child post mh mg mc,
    sem (pre ++ TAtom mk :: post) = Some mh -> sem (pre ++ child ++ post) = Some mg -> sem child = Some mc ->
    count_sym sym (m_atoms mg) + count_sym sym [mk] = count_sym sym (m_atoms mh) + count_sym sym (m_atoms mc).
Proof. exact splice_element_balance. Qed.
Print Assumptions C05_splice_element_balance_partial.
