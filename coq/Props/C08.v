(* Props/C08.v -- The monosaccharide library is stereochemically coherent.
   A theorem over the FINITE tables regenerated from factory_p.py / factory_f.py / factory_o.py on every run
   (287 rows at the pinned commit): proved by computation, the bound being the tables themselves. *)
From Coq Require Import String List Bool.
From GV Require Import Spec.Smiles Spec.Iso Model.Library Gen.Tables.
Import ListNotations.
Open Scope string_scope.

Definition api_key (k : string) : bool :=
  existsb (String.eqb k) ["API"; "A_API"; "B_API"; "p:API"; "p:A_API"; "p:B_API"].

(* for every key of the three tables except apiose: a and b differ at exactly the anomeric carbon and erasing it
   gives the undefined row; the hemiacetal ring has the size of the lactole flag; the composition is that of the
   class and the same for a / b / undefined; the ring form reduces to the alditol row; inverting every tag gives
   the mirror image; different keys are different molecules *)
Theorem C08_library_coherent :
  filter (fun i => negb (api_key (issue_key i))) library_issues = [].
Proof. vm_compute. reflexivity. Qed.
Print Assumptions C08_library_coherent.

(* the pinned library violates the property for apiose: its "pyranose" rows are the furanose *)
Theorem C08_apiose_refuted :
  In (IRing "API") library_issues /\ In (IDup "p:API" "f:API") library_issues.
Proof. vm_compute. tauto. Qed.
Print Assumptions C08_apiose_refuted.

(* "different codes are different molecules" rests on the isomorphism search being exhaustive: it lists exactly the
   constitution isomorphisms, so an empty answer means that none exists *)
From Coq Require Import Arith.
From GV Require Import Proofs.IsoSound.
Theorem C08_isomorphism_search_is_exact :
  forall m1 m2 phi,
    In phi (all_isos m1 m2) <->
    (constitution_iso m1 m2 phi /\ length (m_bonds m1) = length (m_bonds m2)).
Proof. exact all_isos_spec. Qed.
Print Assumptions C08_isomorphism_search_is_exact.
