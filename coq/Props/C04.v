(* Props/C04.v -- A modification adds its named group at its named carbon, and only that.
   PARTIAL: proved here are the defining facts of the specification (Spec/Modify.v): attaching or fusing a
   fragment leaves every atom and bond of the sugar in place. The theorem about the code's text assembly
   (assemble_chains = Modify.modify for all hosts and fragments) is the substitution theorem, pending; the check
   decides Modify.modify_all against the library's output per input in extracted Coq. *)
From Coq Require Import Ascii String List Bool Arith Lia.
From GV Require Import Base.Util Spec.Smiles Spec.Chem Spec.Iso Spec.Graft Spec.Modify Spec.Acyl Gen.Tables Proofs.AcylThm Model.PolyCarbon Proofs.PolyCarbonThm Proofs.PolyCarbonGen Proofs.PolyCarbonParse Proofs.PolyCarbonIso Proofs.TableKinds.
Import ListNotations.
Open Scope list_scope.

Theorem C04_carry_keeps_sugar :
  forall M hp F,
    m_atoms (carry M hp F) = m_atoms M ++ m_atoms F /\
    (forall b, In b (m_bonds M) -> In b (m_bonds (carry M hp F))).
Proof.
  intros M hp F. split; [reflexivity|]. intros b Hb. cbn [carry m_bonds]. apply in_or_app. left. exact Hb.
Qed.
Print Assumptions C04_carry_keeps_sugar.

Theorem C04_fuse_keeps_sugar :
  forall M hp F keep,
    length (m_atoms (fuse M hp F keep)) = length (m_atoms M) + length (tl (m_atoms F)) /\
    (forall b, In b (m_bonds M) -> In b (m_bonds (fuse M hp F keep))) /\
    (keep = true -> forall i, i < length (m_atoms M) -> nth_error (m_atoms (fuse M hp F keep)) i = nth_error (m_atoms M) i).
Proof.
  intros M hp F keep. repeat split.
  - cbn [fuse m_atoms]. rewrite app_length. destruct keep; [reflexivity|]. rewrite upd_nth_length. reflexivity.
  - intros b Hb. cbn [fuse m_bonds]. apply in_or_app. left. exact Hb.
  - intros -> i Hi. cbn [fuse m_atoms]. rewrite nth_error_app1 by exact Hi. reflexivity.
Qed.
Print Assumptions C04_fuse_keeps_sugar.

(* carbon notation: the named fatty acids of the regenerated table are the molecules their systematic designation
   stands for under Spec/Acyl.v, double-bond geometry included *)
Theorem C04_named_fatty_acids_are_their_designation name a :
  In (name, a) named_acyls ->
  exists frag txt ma mb,
    lookup_fg name functional_groups = Some frag /\ acyl_text a = Some txt /\
    sem_str (s2l frag) = Some ma /\ sem_str txt = Some mb /\ same_molecule ma mb = true.
Proof. exact (named_acyls_agree name a). Qed.
Print Assumptions C04_named_fatty_acids_are_their_designation.

(* the model of SMILESReaktor.parse_poly_carbon (tied to the code by string comparison on every run) writes the text of
   the designation's specification.  BOUNDED: chain length below 27, at most two double bonds; code_writes excludes a
   geometry directly conjugated to a preceding cis double bond, which the code cannot write. *)
Theorem C04_poly_carbon_is_the_designation_bounded a :
  ac_n a < 27 -> length (ac_dbs a) <= 2 -> Forall (fun d => snd d < 27) (ac_dbs a) ->
  acyl_ok a = true -> code_writes (ac_dbs a) = true ->
  parse_poly_carbon (name_of a) = acyl_text a.
Proof. exact (poly_carbon_is_the_designation_bounded a). Qed.
Print Assumptions C04_poly_carbon_is_the_designation_bounded.

(* UNBOUNDED, for the insertion loop of parse_poly_carbon alone (the loop as it stands in Model/PolyCarbon.v): for every
   chain length and every list of isolated double bonds -- ascending, the marked single bonds of two of them not
   touching -- inserting the sorted modifications writes them from left to right (PolyCarbonGen.render) *)
Theorem C04_insertion_loop_on_isolated_double_bonds dbs L :
  isolated_from 0 dbs -> Forall (fun d => snd d + 1 <= L + 1) dbs ->
  fold_left (fun ch x => insert_at (fst x - 1) (snd x) ch) (sort_desc (mods_of dbs)) (cs L) = render (mods_of dbs) 0 L.
Proof. exact (loop_on_isolated_double_bonds dbs L). Qed.
Print Assumptions C04_insertion_loop_on_isolated_double_bonds.

(* UNBOUNDED, for the assembly half of parse_poly_carbon (chain, range test, insertion loop, gluing, "//" replacement):
   for every chain length and every non-empty list of isolated double bonds that the specification accepts it writes
   the text of the designation; likewise for every saturated chain.  The parsing half (name -> count, list of
   modifications) is covered by the bounded theorem above and the string correspondence of every run. *)
Theorem C04_assemble_isolated n dbs :
  dbs <> [] -> isolated_from 0 dbs -> acyl_ok (mkAcyl false false n dbs) = true ->
  assemble n 0 [] true (Some (mods_of dbs)) = acyl_text (mkAcyl false false n dbs).
Proof. exact (assemble_isolated n dbs). Qed.
Print Assumptions C04_assemble_isolated.

Theorem C04_assemble_saturated n :
  2 <= n -> assemble n 0 [] false None = acyl_text (mkAcyl false false n []).
Proof. exact (assemble_saturated n). Qed.
Print Assumptions C04_assemble_saturated.

(* UNBOUNDED, the whole function: the model of SMILESReaktor.parse_poly_carbon, run on the name "6C<n>={...}" of an
   unbranched chain of any length with any list of isolated double bonds (cis, trans, without geometry) that the
   specification accepts, writes the text of the designation -- and so for every saturated chain "6C<n>".
   (isolated_from 0: ascending, the first at C2 or later, two consecutive ones at least three apart.  Conjugated
   double bonds and iso / anteiso chains are covered by the bounded theorem above.) *)
Theorem C04_parse_poly_carbon_isolated n dbs :
  dbs <> [] -> isolated_from 0 dbs -> acyl_ok (mkAcyl false false n dbs) = true ->
  parse_poly_carbon (name_of (mkAcyl false false n dbs)) = acyl_text (mkAcyl false false n dbs).
Proof. exact (parse_poly_carbon_isolated n dbs). Qed.
Print Assumptions C04_parse_poly_carbon_isolated.

Theorem C04_parse_poly_carbon_saturated n :
  2 <= n -> parse_poly_carbon (name_of (mkAcyl false false n [])) = acyl_text (mkAcyl false false n []).
Proof. exact (parse_poly_carbon_saturated n). Qed.
Print Assumptions C04_parse_poly_carbon_saturated.

Example C04_parse_poly_carbon_isolated_applies :
  and (isolated_from 0 [(DbCis, 9); (DbCis, 12); (DbTrans, 15)])
      (acyl_ok (mkAcyl false false 20 [(DbCis, 9); (DbCis, 12); (DbTrans, 15)]) = true).
Proof. split; [cbn; lia | vm_compute; reflexivity]. Qed.

(* UNBOUNDED, iso ("6iC<n>...") and anteiso ("6aiC<n>...") chains of any length with any list of isolated double bonds the
   specification accepts *)
Theorem C04_parse_poly_carbon_iso ante n dbs :
  dbs <> [] -> isolated_from 0 dbs -> acyl_ok (mkAcyl true ante n dbs) = true ->
  parse_poly_carbon (name_of (mkAcyl true ante n dbs)) = acyl_text (mkAcyl true ante n dbs).
Proof. exact (parse_poly_carbon_iso ante n dbs). Qed.
Print Assumptions C04_parse_poly_carbon_iso.

(* the two tables that decide how a group is attached agree, for every entry of the regenerated functional_groups table:
   a token is in preserve_elem (the position's O / N is kept and carries the group) exactly when its fragment is not
   written from a heteroatom of its own ("P" excepted: positioned "P" is read through the bridge branch of react) *)
Theorem C04_preserve_elem_is_the_carried_groups tok frag :
  In (tok, frag) functional_groups -> tok <> String.EmptyString -> frag <> String.EmptyString -> tok <> String.String "P"%char String.EmptyString ->
  exists F, sem_str (s2l frag) = Some F /\ (fragment_kind F = KCarry <-> In tok preserve_elem).
Proof. exact (preserve_elem_is_the_carried_groups tok frag). Qed.
Print Assumptions C04_preserve_elem_is_the_carried_groups.

(* BOUNDED, three double bonds on unbranched chains of fewer than 20 carbons (the conjugated trienoic acids among them) *)
Theorem C04_poly_carbon_three_double_bonds_bounded n d1 d2 d3 :
  n < 20 -> snd d1 < 20 -> snd d2 < 20 -> snd d3 < 20 ->
  acyl_ok (mkAcyl false false n [d1; d2; d3]) = true -> code_writes [d1; d2; d3] = true ->
  parse_poly_carbon (name_of (mkAcyl false false n [d1; d2; d3])) = acyl_text (mkAcyl false false n [d1; d2; d3]).
Proof. exact (poly_carbon_three_double_bonds_bounded n d1 d2 d3). Qed.
Print Assumptions C04_poly_carbon_three_double_bonds_bounded.
