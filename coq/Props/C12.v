(* Props/C12.v -- Every delivery path gives the same answer; listings are exactly one line per input.
   Statements over the program regenerated from glyles/converter.py. *)
From Coq Require Import String ZArith List Bool.
From GV Require Import Model.PyLite Gen.Converter Gen.Sites Proofs.ConverterThm Proofs.ConverterSinks.
Import ListNotations.
Open Scope string_scope.
Open Scope list_scope.

(* file delivery: the file consists of exactly the lines "input,SMILES", one per input, in input order;
   nothing is printed, nothing is returned, the logger flag is back, stdout is not closed *)
Theorem C12_file_listing :
  forall (conv : value -> value -> res string), (forall g f, conv g f <> inr ExExit) ->
  forall fuel g l f gen returning verbose cpu full w ls fl items p,
    list_arg l ls -> file_arg w f fl -> gen_arg gen items ->
    (verbose = VNone -> w_disabled w = false) ->
    existsb (String.eqb p) (w_parent_ok w) = true ->
    call conv program (40 + fuel) "convert" [g; l; f; gen; VStr p; returning; verbose; cpu; full] [] w =
    (inl VNone, if no_input (optv g ++ ls ++ fl) gen then w
                else write_file p (map (fmt conv full) ((optv g ++ ls ++ fl) ++ items)) w).
Proof. exact convert_file. Qed.
Print Assumptions C12_file_listing.

(* stdout delivery (no file and returning=False, or the directory of the output file is missing) *)
Theorem C12_stdout_listing :
  forall (conv : value -> value -> res string), (forall g f, conv g f <> inr ExExit) ->
  forall fuel g l f gen ofile returning verbose cpu full w ls fl items,
    list_arg l ls -> file_arg w f fl -> gen_arg gen items ->
    (verbose = VNone -> w_disabled w = false) ->
    w_stdout_closed w = false ->
    (ofile = VNone /\ returning = VBool false) \/
    (exists p, ofile = VStr p /\ existsb (String.eqb p) (w_parent_ok w) = false) ->
    call conv program (40 + fuel) "convert" [g; l; f; gen; ofile; returning; verbose; cpu; full] [] w =
    (inl VNone, if no_input (optv g ++ ls ++ fl) gen then w
                else out_lines (map (fmt conv full) ((optv g ++ ls ++ fl) ++ items)) w).
Proof. exact convert_stdout. Qed.
Print Assumptions C12_stdout_listing.

(* the three paths agree pair by pair: the lines of both listings are the formatted pairs of the returned list,
   and cpu_count occurs in none of the results (it only reaches joblib; assumption A-joblib) *)
Theorem C12_paths_agree :
  forall (conv : value -> value -> res string) full (inputs : list value),
    map (fmt conv full) inputs =
    map (fun pr => match pr with
                   | VTuple [g; VStr s] => (py_str g ++ "," ++ s)%string
                   | _ => ""%string end) (map (pair_of conv full) inputs).
Proof. intros. rewrite map_map. apply map_ext. intro a. reflexivity. Qed.
Print Assumptions C12_paths_agree.

(* the package writes to standard output only through the listing of convert(): regenerated inventory of every
   print / sys.stdout use in glyles/ (grammar excluded) *)
Theorem C12_stdout_sites :
  filter (fun s => match s with (k, _, _) => String.eqb k "print:stdout" || String.eqb k "write:stdout" end)
         effect_sites = [].
Proof. vm_compute. reflexivity. Qed.
Print Assumptions C12_stdout_sites.
