(* Props/C16.v -- Structural queries agree with the structure. Statements over the model of count() for
   single-residue queries (Model/Count.v) and the tree statistics over Spec/Reader trees. *)
From Coq Require Import String Bool Arith List Lia.
From GV Require Import Spec.Reader Proofs.ReaderThm Model.Count.
Import ListNotations.
Open Scope list_scope.

(* a count is the number of residues in scope that match: never more than there are residues *)
Theorem C16_count_bounded : forall m scope q, count_in m scope q <= length scope.
Proof.
  intros m scope q. unfold count_in. induction scope as [|x l IH]; [apply le_n|].
  cbn [filter]. destruct (node_match m x q); cbn [length]; lia.
Qed.
Print Assumptions C16_count_bounded.

(* stricter matching never finds more -- provided each mode's test implies the weaker one on the residues at
   hand; the hypothesis is what the implementation has to deliver *)
Theorem C16_count_monotone_if :
  forall scope q,
    (forall g, In g scope -> node_match MEvery g q = true -> node_match MSome g q = true) ->
    (forall g, In g scope -> node_match MSome g q = true -> node_match MNone g q = true) ->
    count_in MEvery scope q <= count_in MSome scope q /\ count_in MSome scope q <= count_in MNone scope q.
Proof.
  intros scope q H1 H2. unfold count_in.
  assert (G : forall (f h : resid -> bool) l, (forall g, In g l -> f g = true -> h g = true) ->
              length (filter f l) <= length (filter h l)).
  { intros f h l. induction l as [|x l IH]; intro Hx; [apply le_n|]. cbn [filter].
    assert (IH' : length (filter f l) <= length (filter h l)) by (apply IH; intros g Hg; apply Hx; right; exact Hg).
    destruct (f x) eqn:Ef.
    - rewrite (Hx x (or_introl eq_refl) Ef). cbn [length]. lia.
    - destruct (h x); cbn [length]; lia. }
  split; apply G; assumption.
Qed.
Print Assumptions C16_count_monotone_if.

(* the hypothesis fails in the code base: a query spelled with its ring letter ('Glcp') has the same structure as
   'Glc' (every: match) but a recipe entry the glycan's residue lacks (some: no match) *)
Theorem C16_count_monotone_refuted :
  exists scope q, count_in MSome scope q < count_in MEvery scope q.
Proof.
  exists [mkResid "Glc" ["Glc:SAC"] 7; mkResid "Glc" ["Glc:SAC"] 7]%string,
         (mkResid "Glc" ["Glc:SAC"; "p:RING"] 7)%string.
  vm_compute. lia.
Qed.
Print Assumptions C16_count_monotone_refuted.

(* every residue matches itself in every mode: a glycan contains each of its residues at least once *)
Theorem C16_self_match : forall m g scope, In g scope -> 1 <= count_in m scope g.
Proof.
  intros m g scope Hin. unfold count_in.
  assert (Hm : node_match m g g = true).
  { destruct m; cbn [node_match].
    - apply String.eqb_refl.
    - apply forallb_forall. intros t Ht. apply existsb_exists. exists t. split; [exact Ht | apply String.eqb_refl].
    - apply Nat.eqb_refl. }
  induction scope as [|x l IH]; [destruct Hin|]. cbn [filter]. destruct Hin as [->|Hin].
  - rewrite Hm. cbn [length]. lia.
  - specialize (IH Hin). destruct (node_match m x g); cbn [length]; lia.
Qed.
Print Assumptions C16_self_match.

(* the residue count of summary() is the number of residues written: one item per node in the notation *)
Theorem C16_monomers_is_written_residues :
  forall t, summary_monomers t = length (filter (fun i => match i with IRes _ => true | _ => false end) (render t)).
Proof.
  intro t. unfold summary_monomers. symmetry.
  assert (H : forall N t, size t <= N ->
              length (filter (fun i => match i with IRes _ => true | _ => false end) (render t)) = size t).
  { induction N as [|N IH]; intros [n kids] Hs; [cbn [size] in Hs; lia|].
    destruct kids as [|[l k] bs]; [reflexivity|].
    rewrite render_cons. rewrite !filter_app, !app_length. cbn [filter length].
    cbn [size fold_right snd] in *. rewrite (IH k) by lia.
    assert (Hb : length (filter (fun i => match i with IRes _ => true | _ => false end) (rb bs)) =
                 fold_right (fun lk acc => size (snd lk) + acc) 0 bs).
    { assert (Hall : forall l' k', In (l', k') bs -> size k' <= N).
      { intros l' k' Hin. pose proof (size_kid_lt n l' k' ((l, k) :: bs) (or_intror Hin)) as Hlt.
        cbn [size fold_right snd] in Hlt. lia. }
      clear Hs. induction bs as [|[l' k'] r IHr]; [reflexivity|].
      cbn [rb fold_right snd]. rewrite !filter_app, !app_length. cbn [filter length].
      rewrite (IH k') by (apply (Hall l'); left; reflexivity).
      rewrite IHr by (intros l0 k0 Hin; apply (Hall l0); right; exact Hin). cbn [length]. lia. }
    rewrite Hb. cbn [length]. lia. }
  apply (H (size t)). lia.
Qed.
Print Assumptions C16_monomers_is_written_residues.
