(* Props/C01.v -- Glycosidic assembly yields exactly the molecule the linkages describe.
   PARTIAL in this round: the statements below are about the specification of a linkage (Spec/Graft.v) and about
   the character-level model of merge_int (Model/Merger.v, tied to the code string-exactly at every node of every
   sampled glycan). The theorem that connects them for all trees (text splice = condensation,
   "subst_sem"/"merge_correct" of DESIGN.md) is not proved yet; until then the check decides
   [Graft.denotes output tree] per input inside the extracted Coq code. *)
From Coq Require Import List Bool Arith Lia.
From GV Require Import Base.Util Spec.Smiles Spec.Chem Spec.Iso Spec.Graft Model.Merger Proofs.SmilesFacts.
Import ListNotations.
Open Scope list_scope.

(* a condensation changes nothing but what the linkage says: all atoms of the parent, all atoms of the child
   except its anomeric hydroxyl, in place *)
Theorem C01_condense_atoms :
  forall P hp C ca oh,
    m_atoms (condense P hp C ca oh) = m_atoms P ++ remove_nth oh (m_atoms C).
Proof. reflexivity. Qed.
Print Assumptions C01_condense_atoms.

(* every bond of the parent survives, every bond of the child that does not involve the lost hydroxyl survives
   (renumbered), and exactly one bond is new: anomeric carbon -- linking heteroatom *)
Theorem C01_condense_bonds :
  forall P hp C ca oh,
    m_bonds (condense P hp C ca oh) =
    m_bonds P ++
    map (fun '(a, b, s) => (shift_idx (length (m_atoms P)) oh a, shift_idx (length (m_atoms P)) oh b, s))
        (filter (fun '(a, b, _) => negb (Nat.eqb a oh || Nat.eqb b oh)) (m_bonds C)) ++
    [(hp, shift_idx (length (m_atoms P)) oh ca, BSingle)].
Proof. reflexivity. Qed.
Print Assumptions C01_condense_bonds.

(* the stereo slots of every parent atom other than the linking heteroatom are untouched *)
Theorem C01_condense_parent_slots :
  forall P hp C ca oh i, i <> hp -> i < length (m_nbrs P) ->
    nth i (m_nbrs (condense P hp C ca oh)) [] = nth i (m_nbrs P) [].
Proof.
  intros P hp C ca oh i Hne Hlt. unfold condense. cbn [m_nbrs].
  rewrite app_nth1 by (rewrite upd_nth_length; exact Hlt).
  revert i hp Hne Hlt. induction (m_nbrs P) as [|x l IH]; intros i hp Hne Hlt; [cbn in Hlt; lia|].
  destruct i, hp; cbn [upd_nth nth]; try reflexivity; try congruence.
  apply IH; [congruence | cbn in Hlt; lia].
Qed.
Print Assumptions C01_condense_parent_slots.

(* model of merge_int: a leaf is returned as it is; with no marker of either kind in the parent string the child
   is dropped without notice (the hypothesis "marker present" of the assembly theorem is necessary) *)
Theorem C01_merge_leaf : forall me pairs, merge_children me pairs [] = MOk me.
Proof. intros me pairs. destruct pairs; reflexivity. Qed.
Print Assumptions C01_merge_leaf.

Theorem C01_merge_marker_needed :
  forall me osym nsym child, containsb osym me = false -> containsb nsym me = false ->
    merge_child me osym nsym child = sanitize me.
Proof. intros me o n c H1 H2. unfold merge_child. rewrite H1, H2. reflexivity. Qed.
Print Assumptions C01_merge_marker_needed.

From GV Require Import Proofs.Embed.

(* The embedding theorem (first half of "text splice = condensation"): a child written from its linking atom that
   is spliced after any host prefix builds inside the host exactly what it builds alone -- same atoms in the same
   order, same bonds, ring bonds and neighbour slots, renumbered by the host's atom and ring-bond counts -- plus one
   bond from the host's current atom to the child's first atom. The only content hypothesis is freshness: no
   ring-closure label of the child is open in the host at the splice point (exactly what the per-level relabelling
   of to_smiles is meant to guarantee and what fails for 'Man(a1-3)1,6-Anhydro-Glc'-like bicyclic hosts). All
   hosts, all children, all depths. *)
Theorem C01_fragment_embeds :
  forall (S : pst) (c : nat) (a0 : atom) (rest : list tok) (sk : pst),
    p_cur S = Some c -> p_pend S = None -> length (p_slots S) = length (p_atoms S) ->
    ~ In TDot rest -> fresh_labels S rest ->
    run pst0 (TAtom a0 :: rest) = Some sk ->
    run S (TAtom a0 :: rest) = Some (embed S c a0 sk).
Proof. exact fragment_embeds. Qed.
Print Assumptions C01_fragment_embeds.
