(* Props/C01.v -- Glycosidic assembly yields exactly the molecule the linkages describe.
   PARTIAL in this round: the statements below are about the specification of a linkage (Spec/Graft.v) and about
   the character-level model of merge_int (Model/Merger.v, tied to the code string-exactly at every node of every
   sampled glycan). The theorem that connects them for all trees (text splice = condensation,
   "subst_sem"/"merge_correct" of DESIGN.md) is not proved yet; until then the check decides
   [Graft.denotes output tree] per input inside the extracted Coq code. *)
From Coq Require Import String List Bool Arith Lia.
From GV Require Import Base.Util Spec.Smiles Spec.Chem Spec.Iso Spec.Graft Model.Merger Proofs.SmilesFacts.
Import ListNotations.
Open Scope list_scope.
Open Scope list_scope.

(* a condensation changes nothing but what the linkage says: all atoms of the parent, all atoms of the child
   except its anomeric hydroxyl, in place *)
Theorem C01_condense_atoms :
  forall P hp C ca oh,
    m_atoms (condense P hp C ca oh) = m_atoms P ++ remove_nth oh (m_atoms C).
Proof. reflexivity. Qed.
Print Assumptions C01_condense_atoms.

(* every bond of the parent survives, every bond of the child that does not involve the lost hydroxyl survives
   (renumbered), and exactly one bond is new: anomeric carbon -- linking heteroatom *)
Theorem C01_condense_bonds :
  forall P hp C ca oh,
    m_bonds (condense P hp C ca oh) =
    m_bonds P ++
    map (fun '(a, b, s) => (shift_idx (length (m_atoms P)) oh a, shift_idx (length (m_atoms P)) oh b, s))
        (filter (fun '(a, b, _) => negb (Nat.eqb a oh || Nat.eqb b oh)) (m_bonds C)) ++
    [(hp, shift_idx (length (m_atoms P)) oh ca, BSingle)].
Proof. reflexivity. Qed.
Print Assumptions C01_condense_bonds.

(* the stereo slots of every parent atom other than the linking heteroatom are untouched *)
Theorem C01_condense_parent_slots :
  forall P hp C ca oh i, i <> hp -> i < length (m_nbrs P) ->
    nth i (m_nbrs (condense P hp C ca oh)) [] = nth i (m_nbrs P) [].
Proof.
  intros P hp C ca oh i Hne Hlt. unfold condense. cbn [m_nbrs].
  rewrite app_nth1 by (rewrite upd_nth_length; exact Hlt).
  revert i hp Hne Hlt. induction (m_nbrs P) as [|x l IH]; intros i hp Hne Hlt; [cbn in Hlt; lia|].
  destruct i, hp; cbn [upd_nth nth]; try reflexivity; try congruence.
  apply IH; [congruence | cbn in Hlt; lia].
Qed.
Print Assumptions C01_condense_parent_slots.

(* model of merge_int: a leaf is returned as it is; with no marker of either kind in the parent string the child
   is dropped without notice (the hypothesis "marker present" of the assembly theorem is necessary) *)
Theorem C01_merge_leaf : forall me pairs, merge_children me pairs [] = MOk me.
Proof. intros me pairs. destruct pairs; reflexivity. Qed.
Print Assumptions C01_merge_leaf.

Theorem C01_merge_marker_needed :
  forall me osym nsym child, containsb osym me = false -> containsb nsym me = false ->
    merge_child me osym nsym child = sanitize me.
Proof. intros me o n c H1 H2. unfold merge_child. rewrite H1, H2. reflexivity. Qed.
Print Assumptions C01_merge_marker_needed.

From GV Require Import Proofs.Embed.

(* The embedding theorem (first half of "text splice = condensation"): a child written from its linking atom that
   is spliced after any host prefix builds inside the host exactly what it builds alone -- same atoms in the same
   order, same bonds, ring bonds and neighbour slots, renumbered by the host's atom and ring-bond counts -- plus one
   bond from the host's current atom to the child's first atom. The only content hypothesis is freshness: no
   ring-closure label of the child is open in the host at the splice point (exactly what the per-level relabelling
   of to_smiles is meant to guarantee and what fails for 'Man(a1-3)1,6-Anhydro-Glc'-like bicyclic hosts). All
   hosts, all children, all depths. *)
Theorem C01_fragment_embeds :
  forall (S : pst) (c : nat) (a0 : atom) (rest : list tok) (sk : pst),
    p_cur S = Some c -> p_pend S = None -> length (p_slots S) = length (p_atoms S) ->
    ~ In TDot rest -> fresh_labels S rest ->
    run pst0 (TAtom a0 :: rest) = Some sk ->
    run S (TAtom a0 :: rest) = Some (embed S c a0 sk).
Proof. exact fragment_embeds. Qed.
Print Assumptions C01_fragment_embeds.


From GV Require Import Proofs.Suffix.

(* The substitution theorem on molecules ("text splice = graph substitution"): for every host string
   pre ++ [marker atom] ++ post whose marker ends its branch (or the string) and every complete child string whose
   ring-closure labels are fresh at the marker, the string with the child written in the marker's place reads as
   the host's molecule with the marker atom replaced by the child's molecule: the atoms of host and child in order,
   every ordered neighbour list (hence every stereo-descriptor's meaning) kept and renumbered, the child's first atom
   taking the marker's place at the host atom c and getting c as its first neighbour, the bonds of both kept.
   Any host, any child, any depth or size. *)
Theorem C01_splice_sem :
  forall pre am post a0 rest S c Mh Mk,
  run pst0 pre = Some S -> p_cur S = Some c -> p_pend S = None ->
  sem (TAtom a0 :: rest) = Some Mk -> ~ In TDot rest -> fresh_labels S rest ->
  match post with [] => True | t :: _ => t = TClose end ->
  sem (pre ++ TAtom am :: post) = Some Mh ->
  exists sk Me N1 N2 A2 B2,
    run pst0 (TAtom a0 :: rest) = Some sk /\
    sem (pre ++ (TAtom a0 :: rest) ++ post) = Some Me /\
    m_atoms Mh = p_atoms S ++ am :: A2 /\
    m_atoms Me = p_atoms S ++ m_atoms Mk ++ A2 /\
    m_nbrs Mh = N1 ++ (Some c :: repeat None (a_h am)) :: N2 /\ length N1 = length (p_atoms S) /\
    m_nbrs Me = map (map (option_map (ren S sk))) N1 ++ graft_nbrs S c (m_nbrs Mk) ++ map (map (option_map (ren S sk))) N2 /\
    m_bonds Mh = p_bonds S ++ (c, length (p_atoms S), default_bond (nth c (p_atoms S) am) am) :: B2 /\
    m_bonds Me = p_bonds S ++ (c, length (p_atoms S), link_bond S c a0) :: map (sh_bond S) (m_bonds Mk) ++ map (ren_bond S sk) B2.
Proof. exact splice_sem. Qed.
Print Assumptions C01_splice_sem.

(* the hypotheses are satisfiable: a two-ring child spliced into a ring of the host *)
Example C01_splice_sem_applies :
  exists pre am post a0 rest S c Mh Mk,
    lexS (s2l "OC1C([GaH2])C(O)OC1"%string) = Some (pre ++ TAtom am :: post) /\
    lexS (s2l "O[C@@H]2OC(CO)C3CC3C2O"%string) = Some (TAtom a0 :: rest) /\
    run pst0 pre = Some S /\ p_cur S = Some c /\ p_pend S = None /\
    sem (TAtom a0 :: rest) = Some Mk /\ ~ In TDot rest /\ fresh_labels S rest /\
    match post with [] => True | t :: _ => t = TClose end /\
    sem (pre ++ TAtom am :: post) = Some Mh.
Proof.
  destruct (lexS (s2l "OC1C([GaH2])C(O)OC1"%string)) as [tm|] eqn:Em; [|vm_compute in Em; discriminate].
  vm_compute in Em. inversion Em as [Etm]. clear Em.
  destruct (lexS (s2l "O[C@@H]2OC(CO)C3CC3C2O"%string)) as [tc|] eqn:Ec; [|vm_compute in Ec; discriminate].
  vm_compute in Ec. inversion Ec as [Etc]. clear Ec.
  match type of Etm with ?a :: ?b :: ?c1 :: ?d :: ?e :: TAtom ?m :: ?post = _ =>
    exists [a; b; c1; d; e], m, post end.
  match type of Etc with TAtom ?a :: ?r = _ => exists a, r end.
  eexists. eexists. eexists. eexists.
  subst tm tc.
  split; [reflexivity|]. split; [reflexivity|].
  split; [vm_compute; reflexivity|]. split; [vm_compute; reflexivity|]. split; [reflexivity|].
  split; [vm_compute; reflexivity|].
  split; [intro H; cbn in H; repeat (destruct H as [H|H]; [discriminate|]); exact H|].
  split; [intros l H; cbn in H; repeat (destruct H as [H|H]; [try discriminate; inversion H; subst; reflexivity|]); destruct H|].
  split; [reflexivity|]. vm_compute. reflexivity.
Qed.

(* the decision procedures as the check runs them: the isomorphism search with neighbour-guided candidates and
   first-success exit (Model/IsoFast.v) is the specified one (Spec/Iso.v), function by function *)
From GV Require Import Model.IsoFast Proofs.IsoFastThm.
Theorem C01_fast_search_is_the_specified_one :
  (forall m1 m2, all_isos_f m1 m2 = all_isos m1 m2) /\
  (forall m1 m2, same_molecule_f m1 m2 = same_molecule m1 m2) /\
  (forall m1 m2, mirror_image_f m1 m2 = mirror_image m1 m2) /\
  (forall m1 m2 ok, same_except_at_f m1 m2 ok = same_except_at m1 m2 ok) /\
  (forall m1 m2 at_, inverted_exactly_at_f m1 m2 at_ = inverted_exactly_at m1 m2 at_) /\
  (forall out t, denotes_with same_molecule_f out t = denotes out t).
Proof.
  repeat split; intros.
  - apply all_isos_f_eq.
  - apply same_molecule_f_eq.
  - apply mirror_image_f_eq.
  - apply same_except_at_f_eq.
  - apply inverted_exactly_at_f_eq.
  - apply denotes_f_eq.
Qed.
Print Assumptions C01_fast_search_is_the_specified_one.

(* ... and on the strings themselves: what the model of one merger step (regex substitution of the marker by the
   child's text + sanitize_smiles; tied to merge_int string-exactly on every node of every run) returns, read as a
   SMILES, is the host's molecule with the marker atom replaced by the child's molecule -- whenever the decidable side
   conditions of splice_str_check hold; the check evaluates them on every substitution of every run and reports how
   many are covered *)
From GV Require Import Proofs.SpliceStr.
Theorem C01_merge_child_is_substitution :
  forall sym me child Mh Mk,
  splice_str_check sym me child = true -> sem_str me = Some Mh -> sem_str child = Some Mk ->
  exists p m q tp am tq a0 rest st c sk Me N1 N2 A2 B2,
    find_marker sym me = Some (p, m, q) /\
    sanitize (sub_marker (S (length me)) sym child me) = MOk (p ++ child ++ q) /\
    lexS p = Some tp /\ lexS m = Some [TAtom am] /\ lexS q = Some tq /\ lexS child = Some (TAtom a0 :: rest) /\
    run pst0 tp = Some st /\ p_cur st = Some c /\ run pst0 (TAtom a0 :: rest) = Some sk /\
    sem_str (p ++ child ++ q) = Some Me /\
    m_atoms Mh = p_atoms st ++ am :: A2 /\
    m_atoms Me = p_atoms st ++ m_atoms Mk ++ A2 /\
    m_nbrs Mh = N1 ++ (Some c :: repeat None (a_h am)) :: N2 /\ length N1 = length (p_atoms st) /\
    m_nbrs Me = map (map (option_map (ren st sk))) N1 ++ graft_nbrs st c (m_nbrs Mk) ++ map (map (option_map (ren st sk))) N2 /\
    m_bonds Mh = p_bonds st ++ (c, length (p_atoms st), default_bond (nth c (p_atoms st) am) am) :: B2 /\
    m_bonds Me = p_bonds st ++ (c, length (p_atoms st), link_bond st c a0) :: map (sh_bond st) (m_bonds Mk) ++ map (ren_bond st sk) B2.
Proof. exact sub_marker_sem. Qed.

(* and that substitution is what merge_child does: for an O-marker with the child's text, for an N-marker (no O-marker of
   the pair in the parent) with "N(" + child[1:] + ")" *)
Theorem C01_merge_child_O :
  forall sym nsym me child, splice_str_check sym me child = true ->
  merge_child me sym nsym child = sanitize (sub_marker (S (length me)) sym child me).
Proof. exact merge_child_sem. Qed.
Theorem C01_merge_child_N :
  forall osym nsym me child, containsb osym me = false -> splice_str_check nsym me (n_text child) = true ->
  merge_child me osym nsym child = sanitize (sub_marker (S (length me)) nsym (n_text child) me).
Proof. exact merge_child_sem_N. Qed.
Print Assumptions C01_merge_child_O. Print Assumptions C01_merge_child_N.
Print Assumptions C01_merge_child_is_substitution.
