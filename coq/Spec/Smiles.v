(* Spec/Smiles.v -- what a SMILES string means: tokens, and the molecule graph they denote.
   This file is specification (trusted definitions); it is validated against RDKit's reading of
   every string the harness meets (oracle check O1). *)
From Coq Require Import Ascii String ZArith NArith Bool Arith Lia List.
From GV Require Import Base.Util.
Import ListNotations.
Open Scope nat_scope.

Inductive chir := ChNone | ChCCW | ChCW.          (* none, '@', '@@' *)
Inductive bsym := BSingle | BDouble | BTriple | BArom | BUp | BDown.   (* - = # : / \ *)

Record atom := mkAtom {
  a_sym  : str;     (* element symbol with a capital first letter, e.g. "C", "Cl", "Ga" *)
  a_arom : bool;    (* written in lower case *)
  a_brk  : bool;    (* written as a bracket atom *)
  a_iso  : nat;     (* isotope, 0 = none *)
  a_chir : chir;
  a_h    : nat;     (* bracket hydrogen count *)
  a_chg  : Z }.

Inductive tok :=
| TAtom (a : atom) | TBond (b : bsym) | TOpen | TClose | TRing (l : nat) | TDot.

Definition chir_eqb (a b : chir) : bool :=
  match a, b with ChNone, ChNone | ChCCW, ChCCW | ChCW, ChCW => true | _, _ => false end.
Definition bsym_eqb (a b : bsym) : bool :=
  match a, b with
  | BSingle, BSingle | BDouble, BDouble | BTriple, BTriple | BArom, BArom | BUp, BUp | BDown, BDown => true
  | _, _ => false end.
Definition atom_eqb (a b : atom) : bool :=
  str_eqb (a_sym a) (a_sym b) && Bool.eqb (a_arom a) (a_arom b) && Bool.eqb (a_brk a) (a_brk b)
  && Nat.eqb (a_iso a) (a_iso b) && chir_eqb (a_chir a) (a_chir b) && Nat.eqb (a_h a) (a_h b)
  && Z.eqb (a_chg a) (a_chg b).

(* ------------------------------------------------------------------ lexer *)

Definition org_atom (sym : string) (arom : bool) : atom :=
  mkAtom (s2l sym) arom false 0 ChNone 0 0%Z.

Definition up (c : ascii) : ascii :=
  if is_lower c then ascii_of_nat (nat_of_ascii c - 32) else c.

Definition isc (c : ascii) (s : string) : bool :=
  match s with String d EmptyString => Ascii.eqb c d | _ => false end.

(* strip a literal prefix *)
Fixpoint strip_prefix (p s : str) : option str :=
  match p, s with
  | [], _ => Some s
  | x :: p', y :: s' => if Ascii.eqb x y then strip_prefix p' s' else None
  | _ :: _, [] => None
  end.
Definition sp (p : string) (s : str) : option str := strip_prefix (s2l p) s.

(* the text of a bracket atom: everything up to the first ']' *)
Fixpoint split_at_rb (l : str) : option (str * str) :=
  match l with
  | [] => None
  | c :: r => if Ascii.eqb c "]"%char then Some ([], r)
              else match split_at_rb r with Some (a, b) => Some (c :: a, b) | None => None end
  end.

(* inside a bracket: isotope? symbol chiral? hcount? charge?  -- and nothing else *)
Definition parse_bracket (l : str) : option atom :=
  let (iso, l1) := span_digits l in
  match l1 with
  | c :: l2 =>
      if is_upper c || is_lower c then
        let arom := is_lower c in
        (* a second lower-case letter belongs to the symbol when the first is upper case *)
        let '(sym, l3) :=
          match l2 with
          | d :: l2' => if is_upper c && is_lower d then ([c; d], l2') else ([up c], l2)
          | [] => ([up c], l2)
          end in
        let '(ch, l4) :=
          match sp "@@" l3 with
          | Some r => (ChCW, r)
          | None => match sp "@" l3 with Some r => (ChCCW, r) | None => (ChNone, l3) end
          end in
        let '(h, l5) :=
          match sp "H" l4 with
          | Some r => let (d, r') := span_digits r in
                      (match d with [] => 1 | _ => str2nat d end, r')
          | None => (0, l4)
          end in
        let '(q, l6) :=
          match sp "++" l5 with Some r => (2%Z, r) | None =>
          match sp "--" l5 with Some r => ((-2)%Z, r) | None =>
          match sp "+" l5 with
          | Some r => let (d, r') := span_digits r in
                      (match d with [] => 1%Z | _ => Z.of_nat (str2nat d) end, r')
          | None =>
          match sp "-" l5 with
          | Some r => let (d, r') := span_digits r in
                      (match d with [] => (-1)%Z | _ => (- Z.of_nat (str2nat d))%Z end, r')
          | None => (0%Z, l5)
          end end end end in
        match l6 with
        | [] => Some (mkAtom sym arom true (match iso with [] => 0 | _ => str2nat iso end) ch h q)
        | _ :: _ => None
        end
      else None
  | [] => None
  end.

Definition lex_bracket (l : str) : option (atom * str) :=
  match split_at_rb l with
  | Some (inside, rest) => match parse_bracket inside with Some a => Some (a, rest) | None => None end
  | None => None
  end.

Definition bond_of_char (c : ascii) : option bsym :=
  if isc c "-" then Some BSingle else if isc c "=" then Some BDouble else
  if isc c "#" then Some BTriple else if isc c ":" then Some BArom else
  if isc c "/" then Some BUp else if isc c "\" then Some BDown else None.

(* organic-subset atoms: (symbol as written, element, aromatic); two-letter symbols first *)
Definition organic : list (string * (string * bool)) :=
  [("Cl", ("Cl", false)); ("Br", ("Br", false));
   ("B", ("B", false)); ("C", ("C", false)); ("N", ("N", false)); ("O", ("O", false));
   ("P", ("P", false)); ("S", ("S", false)); ("F", ("F", false)); ("I", ("I", false));
   ("b", ("B", true)); ("c", ("C", true)); ("n", ("N", true)); ("o", ("O", true));
   ("p", ("P", true)); ("s", ("S", true))]%string.

Fixpoint lex_organic (tbl : list (string * (string * bool))) (l : str) : option (atom * str) :=
  match tbl with
  | [] => None
  | (w, (e, ar)) :: r => match sp w l with
                         | Some rest => Some (org_atom e ar, rest)
                         | None => lex_organic r l
                         end
  end.

Fixpoint lexS_aux (fuel : nat) (l : str) : option (list tok) :=
  match fuel with
  | 0 => None
  | S f =>
    match l with
    | [] => Some []
    | c :: r =>
      let cont (t : tok) (rest : str) := option_map (cons t) (lexS_aux f rest) in
      if isc c "(" then cont TOpen r else
      if isc c ")" then cont TClose r else
      if isc c "." then cont TDot r else
      match bond_of_char c with
      | Some b => cont (TBond b) r
      | None =>
      if isc c "%" then
          match r with
          | d1 :: d2 :: r' => if is_digit d1 && is_digit d2
                              then cont (TRing (digit_val d1 * 10 + digit_val d2)) r' else None
          | _ => None
          end
      else if isc c "[" then
          match lex_bracket r with
          | Some (a, r') => cont (TAtom a) r'
          | None => None
          end
      else if is_digit c then cont (TRing (digit_val c)) r
      else match lex_organic organic l with
           | Some (a, r') => cont (TAtom a) r'
           | None => None
           end
      end
    end
  end.

Definition lexS (l : str) : option (list tok) := lexS_aux (S (length l)) l.

(* ------------------------------------------------------------------ molecule graph *)

(* ordered neighbour slots of an atom, in SMILES order: preceding atom, bracket hydrogens,
   ring-closure digits in order of appearance, then branches / next atom *)
Inductive slot := SAtom (j : nat) | SH | SRing (k : nat).

Record pst := mkPst {
  p_atoms : list atom;
  p_slots : list (list slot);
  p_bonds : list (nat * nat * bsym);          (* in order of creation; (earlier-written end, later end) *)
  p_rings : list (nat * (nat * nat));          (* ring bond id -> its two atoms *)
  p_cur   : option nat;
  p_stack : list nat;
  p_pend  : option bsym;
  p_open  : list (nat * (nat * option bsym * nat)); (* label -> (atom, bond symbol, ring bond id) *)
  p_nring : nat }.

Definition pst0 : pst := mkPst [] [] [] [] None [] None [] 0.

Definition default_bond (a b : atom) : bsym :=
  if a_arom a && a_arom b then BArom else BSingle.

Definition add_slot (i : nat) (s : slot) (sl : list (list slot)) : list (list slot) :=
  upd_nth i (fun l => l ++ [s]) sl.

Fixpoint find_open (l : nat) (o : list (nat * (nat * option bsym * nat))) :=
  match o with
  | [] => None
  | (l', v) :: r => if Nat.eqb l l' then Some v else find_open l r
  end.
Fixpoint remove_open (l : nat) (o : list (nat * (nat * option bsym * nat))) :=
  match o with
  | [] => []
  | (l', v) :: r => if Nat.eqb l l' then r else (l', v) :: remove_open l r
  end.

Definition merge_bsym (a b : option bsym) : option (option bsym) :=
  match a, b with
  | None, x | x, None => Some x
  | Some x, Some y => if bsym_eqb x y then Some (Some x) else
                        match x, y with
                        | BUp, BDown | BDown, BUp => Some (Some x)   (* "/" at one end is "\" at the other *)
                        | _, _ => None
                        end
  end.

Definition step (s : pst) (t : tok) : option pst :=
  match t with
  | TAtom a =>
      let n := length (p_atoms s) in
      let hs := repeat SH (a_h a) in
      match p_cur s with
      | Some c =>
          let b := match p_pend s with
                   | Some b => b
                   | None => default_bond (nth c (p_atoms s) a) a
                   end in
          Some (mkPst (p_atoms s ++ [a]) (add_slot c (SAtom n) (p_slots s) ++ [SAtom c :: hs])
                      (p_bonds s ++ [(c, n, b)]) (p_rings s) (Some n) (p_stack s) None
                      (p_open s) (p_nring s))
      | None =>
          match p_pend s with
          | Some _ => None
          | None => Some (mkPst (p_atoms s ++ [a]) (p_slots s ++ [hs]) (p_bonds s) (p_rings s)
                                (Some n) (p_stack s) None (p_open s) (p_nring s))
          end
      end
  | TBond b =>
      match p_cur s, p_pend s with
      | Some _, None => Some (mkPst (p_atoms s) (p_slots s) (p_bonds s) (p_rings s) (p_cur s)
                                    (p_stack s) (Some b) (p_open s) (p_nring s))
      | _, _ => None
      end
  | TOpen =>
      match p_cur s, p_pend s with
      | Some c, None => Some (mkPst (p_atoms s) (p_slots s) (p_bonds s) (p_rings s) (p_cur s)
                                    (c :: p_stack s) None (p_open s) (p_nring s))
      | _, _ => None
      end
  | TClose =>
      match p_stack s, p_pend s with
      | c :: st, None => Some (mkPst (p_atoms s) (p_slots s) (p_bonds s) (p_rings s) (Some c)
                                     st None (p_open s) (p_nring s))
      | _, _ => None
      end
  | TRing l =>
      match p_cur s with
      | None => None
      | Some c =>
          match find_open l (p_open s) with
          | Some (a, b0, k) =>
              if Nat.eqb a c then None else
              match merge_bsym b0 (p_pend s) with
              | None => None
              | Some ob =>
                  let a0 := mkAtom [] false false 0 ChNone 0 0%Z in
                  let b := match ob with
                           | Some b => b
                           | None => default_bond (nth a (p_atoms s) a0) (nth c (p_atoms s) a0)
                           end in
                  Some (mkPst (p_atoms s) (add_slot c (SRing k) (p_slots s))
                              (p_bonds s ++ [(a, c, b)]) (p_rings s ++ [(k, (a, c))]) (p_cur s)
                              (p_stack s) None (remove_open l (p_open s)) (p_nring s))
              end
          | None =>
              let k := p_nring s in
              Some (mkPst (p_atoms s) (add_slot c (SRing k) (p_slots s)) (p_bonds s) (p_rings s)
                          (p_cur s) (p_stack s) None ((l, (c, p_pend s, k)) :: p_open s) (S k))
          end
      end
  | TDot =>
      match p_cur s, p_pend s with
      | Some _, None => Some (mkPst (p_atoms s) (p_slots s) (p_bonds s) (p_rings s) None
                                    (p_stack s) None (p_open s) (p_nring s))
      | _, _ => None
      end
  end.

Fixpoint run (s : pst) (ts : list tok) : option pst :=
  match ts with
  | [] => Some s
  | t :: r => match step s t with Some s' => run s' r | None => None end
  end.

Record mol := mkMol {
  m_atoms : list atom;
  m_nbrs  : list (list (option nat));   (* ordered neighbours, None = a bracket hydrogen *)
  m_bonds : list (nat * nat * bsym) }.

Fixpoint ring_partner (k i : nat) (rs : list (nat * (nat * nat))) : option nat :=
  match rs with
  | [] => None
  | (k', (a, b)) :: r => if Nat.eqb k k' then (if Nat.eqb a i then Some b else Some a)
                         else ring_partner k i r
  end.

Definition resolve_slot (rs : list (nat * (nat * nat))) (i : nat) (s : slot) : option (option nat) :=
  match s with
  | SAtom j => Some (Some j)
  | SH => Some None
  | SRing k => option_map Some (ring_partner k i rs)
  end.

Fixpoint all_some {A} (l : list (option A)) : option (list A) :=
  match l with
  | [] => Some []
  | Some x :: r => option_map (cons x) (all_some r)
  | None :: _ => None
  end.

Fixpoint resolve_all (rs : list (nat * (nat * nat))) (i : nat) (sl : list (list slot))
  : option (list (list (option nat))) :=
  match sl with
  | [] => Some []
  | l :: r => x <- all_some (map (resolve_slot rs i) l) ;;
              y <- resolve_all rs (S i) r ;;
              Some (x :: y)
  end.

Definition finish (s : pst) : option mol :=
  match p_stack s, p_open s, p_pend s, p_atoms s with
  | [], [], None, _ :: _ =>
      nb <- resolve_all (p_rings s) 0 (p_slots s) ;;
      Some (mkMol (p_atoms s) nb (p_bonds s))
  | _, _, _, _ => None
  end.

Definition sem (ts : list tok) : option mol :=
  s <- run pst0 ts ;; finish s.

Definition sem_str (l : str) : option mol :=
  ts <- lexS l ;; sem ts.
