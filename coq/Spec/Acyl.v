(* Spec/Acyl.v -- what a fatty acyl group written in carbon notation stands for (specification, trusted):
     [a][i]C<n>[={[c|t]<p>,...}]
   is the acyl group of the n-carbon acid (C1 the carboxyl carbon) with a double bond Cp=Cp+1 for every listed p --
   cis (Z) after c, trans (E) after t, without geometry when no letter is given --, iso: the chain is one carbon
   shorter and C(n-2) bears a methyl group; anteiso (ai): one shorter, methyl at C(n-3).
   The group is given as the text of the acid fragment "OC(=O)...", leading O = the oxygen of the position that carries
   it, like the entries of the functional group table.  Proofs/AcylThm.v checks the definition against the named
   fatty acids of that table (oleic, linoleic, vaccenic, palmitoleic, palmitelaidic, nervonic acid). *)
From Coq Require Import Ascii String Bool Arith List.
From GV Require Import Base.Util.
Import ListNotations.
Open Scope nat_scope.

Inductive dbkind := DbCis | DbTrans | DbPlain.

Record acyl := mkAcyl {
  ac_iso : bool;                      (* i *)
  ac_ante : bool;                     (* a (only together with i) *)
  ac_n : nat;                         (* number of carbon atoms, carboxyl carbon included *)
  ac_dbs : list (dbkind * nat) }.     (* double bonds Cp=Cp+1, ascending p *)

Fixpoint lookup_mark (j : nat) (l : list (nat * bool)) : option bool :=
  match l with
  | [] => None
  | (k, d) :: r => if Nat.eqb j k then Some d else lookup_mark j r
  end.

(* direction marks of the single bonds next to the double bonds that have a geometry; bond j is Cj-Cj+1, true = "/".
   Along the chain C(p-1) o Cp = Cp+1 c Cp+2: C(p-1) lies on the side opposite to o, C(p+2) on the side c; trans
   therefore is c = o, cis is c <> o.  A bond shared by two conjugated double bonds keeps the mark it has. *)
Fixpoint marks_of (dbs : list (dbkind * nat)) (acc : list (nat * bool)) : list (nat * bool) :=
  match dbs with
  | [] => acc
  | (DbPlain, _) :: r => marks_of r acc
  | (k, p) :: r =>
      let o := match lookup_mark (p - 1) acc with Some d => d | None => true end in
      let c := match k with DbTrans => o | _ => negb o end in
      marks_of r ((p + 1, c) :: (p - 1, o) :: acc)
  end.

Definition is_db (j : nat) (dbs : list (dbkind * nat)) : bool := existsb (fun '(_, p) => Nat.eqb p j) dbs.

Definition bond_text (j : nat) (dbs : list (dbkind * nat)) (marks : list (nat * bool)) : str :=
  if is_db j dbs then s2l "="
  else match lookup_mark j marks with
       | Some true => s2l "/"
       | Some false => ["\"%char]
       | None => []
       end.

(* carbons k .. m of the main chain, each preceded by its bond to the previous carbon; a methyl branch after carbon br *)
Fixpoint chain_text (fuel k m br : nat) (dbs : list (dbkind * nat)) (marks : list (nat * bool)) : str :=
  match fuel with
  | 0 => []
  | S f =>
      if m <? k then []
      else bond_text (k - 1) dbs marks ++ s2l "C" ++ (if Nat.eqb k br then s2l "(C)" else [])
           ++ chain_text f (S k) m br dbs marks
  end.

(* well-formed: at least two carbons in the main chain; every double bond inside it, ascending, not cumulated; a double
   bond with a geometry has a carbon on either side (p >= 2 and p + 2 <= length of the main chain), and none on the
   branching carbon *)
Definition main_len (a : acyl) : nat := if ac_iso a then ac_n a - 1 else ac_n a.
Definition branch_at (a : acyl) : nat :=
  if ac_iso a then (if ac_ante a then ac_n a - 3 else ac_n a - 2) else 0.

Fixpoint ascending_apart (l : list (dbkind * nat)) : bool :=
  match l with
  | (_, p) :: (((_, q) :: _) as r) => (p + 2 <=? q) && ascending_apart r
  | _ => true
  end.

Definition acyl_ok (a : acyl) : bool :=
  (2 <=? main_len a) && (if ac_ante a then ac_iso a else true) && (if ac_iso a then 5 <=? ac_n a else true) &&
  ascending_apart (ac_dbs a) &&
  forallb (fun '(k, p) => (2 <=? p) && (p + 1 <=? main_len a) &&
                          match k with DbPlain => true | _ => p + 2 <=? main_len a end &&
                          (if ac_iso a then p + 1 <? branch_at a else true)) (ac_dbs a).

Definition acyl_text (a : acyl) : option str :=
  if acyl_ok a then
    Some (s2l "OC(=O)" ++ chain_text (ac_n a) 2 (main_len a) (branch_at a) (ac_dbs a) (marks_of (ac_dbs a) []))
  else None.

(* how the group is written as a modification token *)
Definition db_text (d : dbkind * nat) : str :=
  match d with
  | (DbCis, p) => s2l "c" ++ nat2str p
  | (DbTrans, p) => s2l "t" ++ nat2str p
  | (DbPlain, p) => nat2str p
  end.

Fixpoint join_comma (l : list str) : str :=
  match l with
  | [] => []
  | [x] => x
  | x :: r => x ++ s2l "," ++ join_comma r
  end.

Definition acyl_token (a : acyl) : str :=
  (if ac_ante a then s2l "a" else []) ++ (if ac_iso a then s2l "i" else []) ++ s2l "C" ++ nat2str (ac_n a) ++
  match ac_dbs a with
  | [] => []
  | l => s2l "={" ++ join_comma (map db_text l) ++ s2l "}"
  end.
