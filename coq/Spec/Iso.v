(* Spec/Iso.v -- molecules up to renumbering: constitution isomorphism and tetrahedral parity.
   Specification + executable search. *)
From Coq Require Import Ascii String ZArith NArith Bool Arith Lia List.
From GV Require Import Base.Util Spec.Smiles Spec.Chem.
Import ListNotations.
Open Scope nat_scope.

(* ------------------------------------------------------------------ hydrogen normal form *)

(* explicit [H] atoms with exactly one bond are folded into their neighbour's hydrogen count;
   in the neighbour's ordered slot list the atom reference becomes a hydrogen slot *)
Definition is_expl_h (m : mol) (i : nat) (a : atom) : bool :=
  sym_is a "H" && (degree m i =? 1) && (a_chg a =? 0)%Z.

Fixpoint flags_aux (m : mol) (i : nat) (l : list atom) : list bool :=
  match l with [] => [] | a :: r => is_expl_h m i a :: flags_aux m (S i) r end.
Definition h_flags (m : mol) : list bool := flags_aux m 0 (m_atoms m).

(* new index of old atom i = number of kept atoms before it *)
Fixpoint renum_aux (fl : list bool) (next : nat) : list nat :=
  match fl with [] => [] | true :: r => next :: renum_aux r next | false :: r => next :: renum_aux r (S next) end.

Definition count_h_nbrs (fl : list bool) (nb : list (option nat)) : nat :=
  length (filter (fun o => match o with Some j => nth j fl false | None => false end) nb).

Fixpoint filter2 {A} (fl : list bool) (l : list A) : list A :=
  match fl, l with
  | f :: fr, x :: r => if f then filter2 fr r else x :: filter2 fr r
  | _, _ => []
  end.

Definition strip_h (m : mol) : mol :=
  let fl := h_flags m in
  if forallb negb fl then m else
  (* an H2 molecule or H bonded to H is left alone: only fold when the neighbour is kept *)
  let rn := renum_aux fl 0 in
  let atoms'' := map (fun '(i, (a, nb)) =>
                        let k := count_h_nbrs fl nb in
                        if Nat.eqb k 0 then a else
                        (* becoming a bracket atom: implicit hydrogens are made explicit *)
                        mkAtom (a_sym a) (a_arom a) true (a_iso a) (a_chir a)
                               (a_h a + impl_h m i a + k) (a_chg a))
                     (combine (seq 0 (length (m_atoms m))) (combine (m_atoms m) (m_nbrs m))) in
  let nbrs' := map (map (fun o => match o with
                                  | Some j => if nth j fl false then None else Some (nth j rn 0)
                                  | None => None end)) (m_nbrs m) in
  let bonds' := map (fun '(a, b, s) => (nth a rn 0, nth b rn 0, s))
                    (filter (fun '(a, b, _) => negb (nth a fl false) && negb (nth b fl false)) (m_bonds m)) in
  mkMol (filter2 fl atoms'') (filter2 fl nbrs') bonds'.

(* ------------------------------------------------------------------ labels and adjacency *)

Definition bond_between (m : mol) (a b : nat) : option bsym :=
  match find (fun '(x, y, _) => (Nat.eqb x a && Nat.eqb y b) || (Nat.eqb x b && Nat.eqb y a)) (m_bonds m) with
  | Some (_, _, s) => Some s
  | None => None
  end.

(* Two spellings of one molecule may place double bonds differently (Kekule forms) or write a ring aromatic:
   adjacency together with the per-atom hydrogen count and charge (in the labels) fixes the constitution, so
   bond orders as written are not compared *)
Definition bond_class (o : option bsym) : nat :=
  match o with None => 0 | Some _ => 1 end.

Definition label_eqb (m1 m2 : mol) (i j : nat) : bool :=
  match nth_error (m_atoms m1) i, nth_error (m_atoms m2) j with
  | Some a, Some b =>
      str_eqb (a_sym a) (a_sym b) && (a_chg a =? a_chg b)%Z
      && (total_h m1 i a =? total_h m2 j b) && (a_iso a =? a_iso b) && (degree m1 i =? degree m2 j)
  | _, _ => false
  end.

(* ------------------------------------------------------------------ search *)

(* phi : images of atoms 0 .. length phi - 1 of m1 *)
Definition consistent (m1 m2 : mol) (phi : list nat) (i j : nat) : bool :=
  negb (memb Nat.eqb j phi) && label_eqb m1 m2 i j &&
  forallb_i (fun k pk => bond_class (bond_between m1 k i) =? bond_class (bond_between m2 pk j)) 0 phi.

Fixpoint isos_from (m1 m2 : mol) (todo : list nat) (phi : list nat) : list (list nat) :=
  match todo with
  | [] => [phi]
  | i :: rest =>
      flat_map (fun j => if consistent m1 m2 phi i j then isos_from m1 m2 rest (phi ++ [j]) else [])
               (seq 0 (length (m_atoms m2)))
  end.

Definition all_isos (m1 m2 : mol) : list (list nat) :=
  if (length (m_atoms m1) =? length (m_atoms m2)) && (length (m_bonds m1) =? length (m_bonds m2))
  then isos_from m1 m2 (seq 0 (length (m_atoms m1))) [] else [].

(* ------------------------------------------------------------------ tetrahedral parity *)

Definition opt_nat_eqb (a b : option nat) : bool :=
  match a, b with
  | Some x, Some y => Nat.eqb x y
  | None, None => true
  | _, _ => false
  end.

Fixpoint index_of (x : option nat) (l : list (option nat)) : option nat :=
  match l with
  | [] => None
  | y :: r => if opt_nat_eqb x y then Some 0 else option_map S (index_of x r)
  end.

Fixpoint inversions (l : list nat) : nat :=
  match l with
  | [] => 0
  | x :: r => length (filter (fun y => y <? x) r) + inversions r
  end.

(* parity of the permutation that carries the ordered list l1 to the ordered list l2;
   None when they are not permutations of each other or contain a repeated element *)
Definition perm_parity (l1 l2 : list (option nat)) : option bool :=
  if negb (length l1 =? length l2) then None else
  if negb (nodupb opt_nat_eqb l1) then None else
  idx <- all_some (map (fun x => index_of x l2) l1) ;;
  Some (Nat.even (inversions idx)).

Inductive sdiff := SSame | SOpposite | SOnlyLeft | SOnlyRight | SBroken.

Definition sdiff_eqb (a b : sdiff) : bool :=
  match a, b with
  | SSame, SSame | SOpposite, SOpposite | SOnlyLeft, SOnlyLeft | SOnlyRight, SOnlyRight | SBroken, SBroken => true
  | _, _ => false
  end.

(* a centre with two equal-looking hydrogens etc. cannot be a stereocentre *)
Definition stereo_at (m1 m2 : mol) (phi : list nat) (i : nat) : sdiff :=
  match nth_error (m_atoms m1) i, nth_error (m_atoms m2) (nth i phi 0) with
  | Some a, Some b =>
      match a_chir a, a_chir b with
      | ChNone, ChNone => SSame
      | ChNone, _ => SOnlyRight
      | _, ChNone => SOnlyLeft
      | c1, c2 =>
          let l1 := map (option_map (fun k => nth k phi 0)) (nth i (m_nbrs m1) []) in
          let l2 := nth (nth i phi 0) (m_nbrs m2) [] in
          match perm_parity l1 l2 with
          | Some even => if Bool.eqb (chir_eqb c1 c2) even then SSame else SOpposite
          | None => SBroken
          end
      end
  | _, _ => SBroken
  end.

Definition stereo_profile (m1 m2 : mol) (phi : list nat) : list (nat * sdiff) :=
  filter (fun '(_, d) => negb (sdiff_eqb d SSame))
         (map (fun i => (i, stereo_at m1 m2 phi i)) (seq 0 (length (m_atoms m1)))).

(* ------------------------------------------------------------------ double-bond geometry *)

(* the bond a-x seen from a: Some true when x is written "up" from a.  A bond (p, q, "/") is stored with p the
   end written first, and says that q lies up from p *)
Definition dir_from (m : mol) (a x : nat) : option bool :=
  match find (fun '(p, q, _) => (Nat.eqb p a && Nat.eqb q x) || (Nat.eqb p x && Nat.eqb q a)) (m_bonds m) with
  | Some (p, _, BUp) => Some (Nat.eqb p a)
  | Some (p, _, BDown) => Some (negb (Nat.eqb p a))
  | _ => None
  end.

Definition nbr_list (m : mol) (a : nat) : list nat :=
  flat_map (fun o => match o with Some j => [j] | None => [] end) (nth a (m_nbrs m) []).

(* the side of substituent x of a, relative to the double bond a=b: its own mark, or else the opposite of the mark
   of the one other substituent of a *)
Definition side_of (m : mol) (a b x : nat) : option bool :=
  match dir_from m a x with
  | Some d => Some d
  | None => match filter (fun y => negb (Nat.eqb y b) && negb (Nat.eqb y x)) (nbr_list m a) with
            | [y] => option_map negb (dir_from m a y)
            | _ => None
            end
  end.

(* Some true: x (on a) and y (on b) lie on the same side of a=b; None: the geometry is not given *)
Definition cis_of (m : mol) (a b x y : nat) : option bool :=
  match side_of m a b x, side_of m b a y with
  | Some d1, Some d2 => Some (Bool.eqb d1 d2)
  | _, _ => None
  end.

Definition first_other (m : mol) (a b : nat) : option nat :=
  match filter (fun y => negb (Nat.eqb y b)) (nbr_list m a) with
  | y :: _ => Some y
  | [] => None
  end.

Definition opt_bool_eqb (a b : option bool) : bool :=
  match a, b with
  | Some x, Some y => Bool.eqb x y
  | None, None => true
  | _, _ => false
  end.

Definition geometry_count (m : mol) : nat :=
  length (filter (fun '(a, b, s) =>
                    match s, first_other m a b, first_other m b a with
                    | BDouble, Some x, Some y => match cis_of m a b x y with Some _ => true | None => false end
                    | _, _, _ => false
                    end) (m_bonds m)).

(* under phi every double bond of m1 has the geometry (cis, trans or not given) of its image, and m2 has no further
   double bond with a geometry *)
Definition ez_same (m1 m2 : mol) (phi : list nat) : bool :=
  forallb (fun '(a, b, s) =>
             match s, first_other m1 a b, first_other m1 b a with
             | BDouble, Some x, Some y =>
                 opt_bool_eqb (cis_of m1 a b x y) (cis_of m2 (nth a phi 0) (nth b phi 0) (nth x phi 0) (nth y phi 0))
             | _, _, _ => true
             end) (m_bonds m1)
  && (geometry_count m1 =? geometry_count m2).

(* ------------------------------------------------------------------ the relations the properties use *)

(* a marked centre carries no stereo information when inverting it alone gives back the same molecule:
   some automorphism fixes it, keeps every other centre, and turns its neighbours by an odd permutation
   (e.g. C3 of arabinitol, whose two branches are identical) *)
Definition void_centre (m : mol) (c : nat) : bool :=
  existsb (fun psi => Nat.eqb (nth c psi (S c)) c &&
                      match stereo_profile m m psi with
                      | [(c', SOpposite)] => Nat.eqb c' c
                      | _ => false
                      end && ez_same m m psi) (all_isos m m).

Definition diff_void (a b : mol) (phi : list nat) (d : nat * sdiff) : bool :=
  match d with
  | (i, SOpposite) => void_centre a i
  | (i, SOnlyLeft) => void_centre a i
  | (i, SOnlyRight) => void_centre b (nth i phi 0)
  | _ => false
  end.

Definition same_molecule (m1 m2 : mol) : bool :=
  let a := strip_h m1 in let b := strip_h m2 in
  let isos := all_isos a b in
  existsb (fun phi => match stereo_profile a b phi with [] => true | _ => false end && ez_same a b phi) isos ||
  existsb (fun phi => forallb (diff_void a b phi) (stereo_profile a b phi) && ez_same a b phi) isos.

Definition same_constitution (m1 m2 : mol) : bool :=
  match all_isos (strip_h m1) (strip_h m2) with [] => false | _ => true end.

Definition mirror_image (m1 m2 : mol) : bool :=
  let a := strip_h m1 in let b := strip_h m2 in
  existsb (fun phi => forallb (fun i =>
                                 let d := stereo_at a b phi i in
                                 match a_chir (nth i (m_atoms a) (mkAtom [] false false 0 ChNone 0 0%Z)) with
                                 | ChNone => sdiff_eqb d SSame || diff_void a b phi (i, d)
                                 | _ => sdiff_eqb d SOpposite || void_centre a i end)
                              (seq 0 (length (m_atoms a))) && ez_same a b phi)
          (all_isos a b).

(* every isomorphism profile, for reporting and for "differs exactly at" tests *)
Definition iso_profiles (m1 m2 : mol) : list (list (nat * sdiff)) :=
  let a := strip_h m1 in let b := strip_h m2 in
  map (stereo_profile a b) (all_isos a b).

(* ------------------------------------------------------------------ propositional reading *)

Definition is_bijection (n : nat) (phi : list nat) : Prop :=
  length phi = n /\ NoDup phi /\ Forall (fun j => j < n) phi.

Definition constitution_iso (m1 m2 : mol) (phi : list nat) : Prop :=
  length (m_atoms m1) = length (m_atoms m2) /\
  is_bijection (length (m_atoms m1)) phi /\
  (forall i, i < length (m_atoms m1) -> label_eqb m1 m2 i (nth i phi 0) = true) /\
  (forall i k, i < length (m_atoms m1) -> k < i ->
     bond_class (bond_between m1 k i) = bond_class (bond_between m2 (nth k phi 0) (nth i phi 0))).

(* the same molecule except, possibly, for the stereo marks of the atoms (of m1) that satisfy [ok] *)
Definition same_except_at (m1 m2 : mol) (ok : nat -> bool) : bool :=
  let a := strip_h m1 in let b := strip_h m2 in
  existsb (fun phi => forallb (fun d => ok (fst d) || diff_void a b phi d) (stereo_profile a b phi) && ez_same a b phi) (all_isos a b).

(* the same constitution, with opposite configuration at exactly the atoms (of m1) that satisfy [at_], equal elsewhere *)
Definition inverted_exactly_at (m1 m2 : mol) (at_ : nat -> bool) : bool :=
  let a := strip_h m1 in let b := strip_h m2 in
  existsb (fun phi =>
             forallb (fun i => let d := stereo_at a b phi i in
                               if at_ i then sdiff_eqb d SOpposite
                               else sdiff_eqb d SSame || diff_void a b phi (i, d))
                     (seq 0 (length (m_atoms a))) && ez_same a b phi) (all_isos a b).
