(* Spec/Graft.v -- what a glycosidic linkage means on molecule graphs: carbon numbering of a monosaccharide,
   the heteroatom a position names, and the condensation of a child onto a parent position.
   Specification (trusted definitions), independent of how GlyLES assembles text. *)
From Coq Require Import Ascii String ZArith Bool Arith Lia List.
From GV Require Import Base.Util Spec.Smiles Spec.Chem Spec.Iso.
Import ListNotations.
Open Scope list_scope.
Open Scope nat_scope.

Definition nbs (m : mol) (i : nat) : list nat :=
  flat_map (fun '(a, b, _) => if Nat.eqb a i then [b] else if Nat.eqb b i then [a] else []) (m_bonds m).

Definition el (m : mol) (i : nat) (e : string) : bool :=
  match nth_error (m_atoms m) i with Some a => sym_is a e | None => false end.

(* all simple paths with exactly [len] edges from [cur] to [target], never using the bond (x, y) *)
Fixpoint paths (m : mol) (x y : nat) (len : nat) (cur target : nat) (seen : list nat) : list (list nat) :=
  match len with
  | 0 => if Nat.eqb cur target then [[cur]] else []
  | S l =>
      flat_map (fun j =>
        if memb Nat.eqb j seen || ((Nat.eqb cur x && Nat.eqb j y) || (Nat.eqb cur y && Nat.eqb j x)) then []
        else map (cons cur) (paths m x y l j target (j :: seen))) (nbs m cur)
  end.

(* the ring through bond (c, o), as the path c ... o, trying sizes 3 .. 8 *)
Definition ring_path (m : mol) (c o : nat) : option (list nat) :=
  (fix try (sizes : list nat) :=
     match sizes with
     | [] => None
     | n :: r => match paths m c o (n - 1) c o [c] with
                 | p :: _ => Some p
                 | [] => try r
                 end
     end) [3; 4; 5; 6; 7; 8].

(* hemiacetal / hemiketal sites: carbon c with a ring oxygen o (degree 2, bond c-o on a ring) and an exocyclic
   O or N singly bonded to c. Returns (c, o, exocyclic heteroatoms) *)
Definition anomeric (m : mol) : list (nat * nat * list nat) :=
  flat_map (fun c =>
    if el m c "C" then
      let het := filter (fun j => (el m j "O" || el m j "N") && (bond_class (bond_between m c j) =? 1)) (nbs m c) in
      flat_map (fun o =>
        if el m o "O" && (degree m o =? 2) then
          match ring_path m c o with
          | Some ring =>
              let exo := filter (fun j => negb (memb Nat.eqb j ring)) het in
              match exo with [] => [] | _ => [(c, o, exo)] end
          | None => []
          end
        else []) het
    else []) (seq 0 (length (m_atoms m))).

(* longest carbon chain from [cur] that avoids [seen] (fuel bounds the depth) *)
Fixpoint cchain (m : mol) (fuel : nat) (cur : nat) (seen : list nat) : list nat :=
  match fuel with
  | 0 => [cur]
  | S f =>
      let nexts := filter (fun j => el m j "C" && negb (memb Nat.eqb j seen)) (nbs m cur) in
      let best := fold_left (fun acc j => let p := cchain m f j (j :: seen) in
                                          if length acc <? length p then p else acc) nexts [] in
      cur :: best
  end.

(* carbon numbering C1, C2, ... of a cyclic monosaccharide with exactly one anomeric site:
   (exocyclic carbon on the anomeric carbon, for 2-ketoses) ++ ring carbons from the anomeric carbon away from
   the ring oxygen ++ the carbon chain continuing from the last ring carbon *)
Definition backbone (m : mol) : option (list nat * (nat * nat * list nat)) :=
  match anomeric m with
  | [(c, o, exo)] =>
      match ring_path m c o with
      | Some ring =>
          let ringc := removelast ring in      (* c ... last ring carbon *)
          let pre := filter (fun j => el m j "C" && negb (memb Nat.eqb j ring)) (nbs m c) in
          let lastc := last ringc c in
          let tail := tl (cchain m 12 lastc ring) in
          match pre with
          | [] => Some (ringc ++ tail, (c, o, exo))
          | [p] => Some (p :: ringc ++ tail, (c, o, exo))
          | _ => None
          end
      | None => None
      end
  | _ => None
  end.

(* open-chain residues (alditols): the longest carbon chain, numbered from the end given by [from_first] *)
Definition chain_backbone (m : mol) : list nat :=
  let cs := filter (fun i => el m i "C") (seq 0 (length (m_atoms m))) in
  fold_left (fun acc i => let p := cchain m 12 i [i] in if length acc <? length p then p else acc) cs [].

(* the free hydroxyl (or primary amine) on carbon number p *)
Definition free_hetero (m : mol) (ring : list nat) (x : nat) : option nat :=
  let cand := filter (fun j => (el m j "O" || el m j "N") && (degree m j =? 1) &&
                               (bond_class (bond_between m x j) =? 1) && negb (memb Nat.eqb j ring)) (nbs m x) in
  match filter (fun j => el m j "O") cand with
  | o :: _ => Some o
  | [] => match cand with n :: _ => Some n | [] => None end
  end.

(* ------------------------------------------------------------------ condensation *)

Definition shift_idx (np oh j : nat) : nat := np + j - (if oh <? j then 1 else 0).

Fixpoint remove_nth {A} (n : nat) (l : list A) : list A :=
  match l, n with
  | [], _ => []
  | _ :: r, 0 => r
  | x :: r, S k => x :: remove_nth k r
  end.

(* parent P, heteroatom hp of P; child C with anomeric carbon ca and its own hydroxyl oh:
   the child's hydroxyl is dropped (with the hydrogen of hp: water), ca is bonded to hp in the slot the
   hydroxyl occupied -- so the configuration at ca is the one the child was given *)
Definition condense (P : mol) (hp : nat) (C : mol) (ca oh : nat) : mol :=
  let np := length (m_atoms P) in
  let sh := shift_idx np oh in
  let atomsC := remove_nth oh (m_atoms C) in
  let nbrsC := remove_nth oh (map (map (fun o => match o with
                                                | Some j => if Nat.eqb j oh then Some hp else Some (sh j)
                                                | None => None end)) (m_nbrs C)) in
  let nbrsP := upd_nth hp (fun l => l ++ [Some (sh ca)]) (m_nbrs P) in
  let bondsC := map (fun '(a, b, s) => (sh a, sh b, s))
                    (filter (fun '(a, b, _) => negb (Nat.eqb a oh || Nat.eqb b oh)) (m_bonds C)) in
  mkMol (m_atoms P ++ atomsC) (nbrsP ++ nbrsC) (m_bonds P ++ bondsC ++ [(hp, sh ca, BSingle)]).

(* the hydroxyl of the child's anomeric carbon: an exocyclic O with one bond *)
Definition anomeric_oh (C : mol) (exo : list nat) : option nat :=
  match filter (fun j => el C j "O" && (degree C j =? 1)) exo with
  | [o] => Some o
  | _ => None
  end.

(* join child C (a stand-alone residue with a defined or undefined anomeric configuration) to position ppos of
   parent P, where [numP] is P's carbon numbering and [ringP] its ring atoms *)
Definition link (P : mol) (numP ringP : list nat) (ppos : nat) (C : mol) : option mol :=
  match nth_error numP (ppos - 1), backbone C with
  | Some x, Some (_, (ca, _, exo)) =>
      match free_hetero P ringP x, anomeric_oh C exo with
      | Some hp, Some oh => if 0 <? ppos then Some (condense P hp C ca oh) else None
      | _, _ => None
      end
  | _, _ => None
  end.

(* ------------------------------------------------------------------ the glycan as a whole *)

(* a written glycan with stand-alone residue molecules in its nodes; kids carry the parent position *)
Inductive gtree := GT (m : mol) (kids : list (nat * gtree)).

(* numbering and ring atoms of a stand-alone residue; for an open-chain residue the chain in the direction
   [rev_chain] says *)
Definition residue_frame (rev_chain : bool) (m : mol) : option (list nat * list nat) :=
  match backbone m with
  | Some (num, (c, o, _)) => match ring_path m c o with Some ring => Some (num, ring) | None => None end
  | None =>
      match anomeric m with
      | [] => let ch := chain_backbone m in Some (if rev_chain then rev ch else ch, [])
      | _ => None
      end
  end.

(* [t]'s own residue is already part of [comp] under the embedding [emb] *)
Fixpoint attach_kids (rev_chain : bool) (t : gtree) (comp : mol) (emb : nat -> nat) : option mol :=
  match t with
  | GT m kids =>
      match residue_frame rev_chain m with
      | None => None
      | Some (num, ring) =>
          (fix go (ks : list (nat * gtree)) (comp : mol) : option mol :=
             match ks with
             | [] => Some comp
             | (ppos, sub) :: r =>
                 match sub with
                 | GT mc _ =>
                     match nth_error num (ppos - 1), backbone mc with
                     | Some x, Some (_, (ca, _, exo)) =>
                         match free_hetero comp (map emb ring) (emb x), anomeric_oh mc exo with
                         | Some hp, Some oh =>
                             if 0 <? ppos then
                               let np := length (m_atoms comp) in
                               match attach_kids false sub (condense comp hp mc ca oh) (shift_idx np oh) with
                               | Some comp' => go r comp'
                               | None => None
                               end
                             else None
                         | _, _ => None
                         end
                     | _, _ => None
                     end
                 end
             end) kids comp
      end
  end.

Definition glycan_mol (rev_chain : bool) (t : gtree) : option mol :=
  match t with GT m _ => attach_kids rev_chain t m (fun i => i) end.

(* does [out] denote the glycan [t]?  (for an open-chain root either numbering direction is accepted: the graph of
   an alditol does not tell its ends apart) *)
Definition denotes_with (same : mol -> mol -> bool) (out : mol) (t : gtree) : option bool :=
  let residues_plain := t in
  match glycan_mol false residues_plain with
  | None => None
  | Some g =>
      if same out g then Some true else
      match t with
      | GT m _ => match anomeric m with
                  | [] => match glycan_mol true t with
                          | Some g' => Some (same out g')
                          | None => Some false end
                  | _ => Some false
                  end
      end
  end.

Definition denotes (out : mol) (t : gtree) : option bool := denotes_with same_molecule out t.

Fixpoint strip_tree (t : gtree) : gtree :=
  match t with GT m kids => GT (strip_h m) (map (fun '(p, k) => (p, strip_tree k)) kids) end.
