(* Spec/Modify.v -- what a modification token means on the molecule graph: the group the abbreviation stands for
   is carried by the O / N of the named carbon, or (deoxy-type groups: amine, azide, halides, N-linked amino acids)
   takes its place. Specification (trusted definitions). *)
From Coq Require Import Ascii String ZArith Bool Arith Lia List.
From GV Require Import Base.Util Spec.Smiles Spec.Chem Spec.Iso Spec.Graft.
Import ListNotations.
Open Scope list_scope.
Open Scope nat_scope.

Inductive mkind := KCarry | KShareO | KReplace.

(* how a fragment, written from its attachment atom, relates to the position's heteroatom *)
Definition fragment_kind (F : mol) : mkind :=
  match m_atoms F with
  | a :: _ =>
      if sym_is a "N" || sym_is a "F" || sym_is a "Cl" || sym_is a "Br" || sym_is a "I" then KReplace
      else if sym_is a "O" then KShareO
      else KCarry
  | [] => KCarry
  end.

(* the fragment's first atom is identified with atom hp of M; [keep] says whose atom record survives *)
Definition fuse (M : mol) (hp : nat) (F : mol) (keep : bool) : mol :=
  let nM := length (m_atoms M) in
  let sh j := if Nat.eqb j 0 then hp else nM + j - 1 in
  let a0 := nth 0 (m_atoms F) (mkAtom [] false false 0 ChNone 0 0%Z) in
  let atomsM := if keep then m_atoms M else upd_nth hp (fun _ => a0) (m_atoms M) in
  let nb0 := map (option_map sh) (nth 0 (m_nbrs F) []) in
  mkMol (atomsM ++ tl (m_atoms F))
        (upd_nth hp (fun l => l ++ nb0) (m_nbrs M) ++ map (map (option_map sh)) (tl (m_nbrs F)))
        (m_bonds M ++ map (fun '(a, b, s) => (sh a, sh b, s)) (m_bonds F)).

(* the fragment's first atom is bonded to atom hp of M *)
Definition carry (M : mol) (hp : nat) (F : mol) : mol :=
  let nM := length (m_atoms M) in
  let sh j := nM + j in
  mkMol (m_atoms M ++ m_atoms F)
        (upd_nth hp (fun l => l ++ [Some nM]) (m_nbrs M) ++
         map (fun '(j, l) => if Nat.eqb j 0 then Some hp :: map (option_map sh) l else map (option_map sh) l)
             (combine (seq 0 (length (m_nbrs F))) (m_nbrs F)))
        (m_bonds M ++ map (fun '(a, b, s) => (sh a, sh b, s)) (m_bonds F) ++ [(hp, nM, BSingle)]).

(* modification of the free hydroxyl / amine on carbon number p of a stand-alone residue *)
Definition modify (M : mol) (p : nat) (F : mol) : option mol :=
  match residue_frame false M with
  | Some (num, ring) =>
      match nth_error num (p - 1) with
      | Some x =>
          match free_hetero M ring x with
          | Some hp =>
              if 0 <? p then
                Some (match fragment_kind F with
                      | KCarry => carry M hp F
                      | KShareO => fuse M hp F true
                      | KReplace => fuse M hp F false
                      end)
              else None
          | None => None
          end
      | None => None
      end
  | None => None
  end.

(* several modifications at different positions: the positions are looked up in the unmodified sugar, where they
   are still free; the order of application is immaterial for the result up to isomorphism (C04) *)
Fixpoint modify_all (M : mol) (orig : mol) (mods : list (nat * mol)) : option mol :=
  match mods with
  | [] => Some M
  | (p, F) :: r =>
      match residue_frame false orig with
      | Some (num, ring) =>
          match nth_error num (p - 1) with
          | Some x =>
              match free_hetero M ring x with
              | Some hp =>
                  let M' := match fragment_kind F with
                            | KCarry => carry M hp F
                            | KShareO => fuse M hp F true
                            | KReplace => fuse M hp F false
                            end in
                  modify_all M' orig r
              | None => None
              end
          | None => None
          end
      | None => None
      end
  end.
