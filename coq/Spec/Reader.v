(* Spec/Reader.v -- "the glycan as written": the tree a sequence of residues, linkages and brackets denotes.
   Items are the units the grammar cuts a brace-free glycan into (residue = rule deriv, linkage = rule con).
   The reader is the specification the tree walker is compared with; [read_render] shows that it inverts the
   notation for every tree, of any depth and width. *)
From Coq Require Import String Bool Arith Lia List.
Import ListNotations.
Open Scope list_scope.

Inductive rose := Rose (name : string) (kids : list (string * rose)).   (* (linkage to this node, child) *)
Inductive item := IRes (name : string) | ICon (label : string) | ILb | IRb.

(* the notation: main-chain child first, every further child in brackets, then the residue itself *)
Fixpoint render (t : rose) : list item :=
  match t with
  | Rose n kids =>
      match kids with
      | [] => []
      | (l, k) :: bs =>
          render k ++ [ICon l] ++
          (fix rb (ks : list (string * rose)) : list item :=
             match ks with
             | [] => []
             | (l', k') :: r => [ILb] ++ render k' ++ [ICon l'] ++ [IRb] ++ rb r
             end) bs
      end ++ [IRes n]
  end.

(* the reader scans from the right (the root is written last). [node f its] reads one residue with everything
   attached to it; bracketed children are met first (in reverse), the unbracketed main chain last *)
Fixpoint kids_loop (nodef : list item -> option (rose * list item)) (n : string) (g : nat) (its : list item)
         (acc : list (string * rose)) : option (rose * list item) :=
  match g with
  | 0 => None
  | S g' =>
      match its with
      | IRb :: ICon l :: r1 =>
          match nodef r1 with
          | Some (k, ILb :: r2) => kids_loop nodef n g' r2 ((l, k) :: acc)
          | _ => None
          end
      | ICon l :: r1 =>
          match nodef r1 with
          | Some (k, r2) => Some (Rose n ((l, k) :: acc), r2)
          | None => None
          end
      | _ => Some (Rose n acc, its)
      end
  end.

Fixpoint node (fuel : nat) (its : list item) : option (rose * list item) :=
  match fuel with
  | 0 => None
  | S f =>
      match its with
      | IRes n :: r => kids_loop (node f) n (S (length r)) r []
      | _ => None
      end
  end.

Definition read (its : list item) : option rose :=
  match node (S (length its)) (rev its) with
  | Some (t, []) => Some t
  | _ => None
  end.

(* ------------------------------------------------------------------ measures of a tree *)

Fixpoint size (t : rose) : nat :=
  match t with Rose _ kids => S (fold_right (fun lk acc => size (snd lk) + acc) 0 kids) end.

Fixpoint names (t : rose) : list string :=
  match t with Rose n kids => n :: flat_map (fun lk => names (snd lk)) kids end.

Fixpoint edges (t : rose) : list (string * string * string) :=     (* (child name, label, parent name) *)
  match t with
  | Rose n kids =>
      flat_map (fun lk => match snd lk with Rose c _ => (c, fst lk, n) :: edges (snd lk) end) kids
  end.

Fixpoint height (t : rose) : nat :=
  match t with Rose _ kids => fold_right (fun lk acc => Nat.max (S (height (snd lk))) acc) 0 kids end.

Definition root_name (t : rose) : string := match t with Rose n _ => n end.

Fixpoint leaves (t : rose) : list string :=
  match t with
  | Rose n [] => [n]
  | Rose _ kids => flat_map (fun lk => leaves (snd lk)) kids
  end.
