(* Spec/Ebnf.v -- EBNF grammars over token names: derivations (the specification), maximal-munch tokenisation
   with declaration-order priority, and an executable recogniser (verified in Proofs/Recog.v). *)
From Coq Require Import Ascii String Bool Arith Lia List.
Import ListNotations.
Open Scope list_scope.

Inductive expr :=
| Tok (t : string) | NT (n : string)
| Seq (a b : expr) | Alt (a b : expr)
| Star (a : expr) | Plus (a : expr) | Opt (a : expr) | Eps.

Inductive tokdef := TLits (l : list string) | TNum.     (* TNum: [1-9][0-9]* *)

Definition grammar := list (string * expr).

Fixpoint lookup_rule (n : string) (g : grammar) : option expr :=
  match g with [] => None | (m, e) :: r => if String.eqb n m then Some e else lookup_rule n r end.

(* ------------------------------------------------------------------ derivations *)

Inductive Der (g : grammar) : expr -> list string -> Prop :=
| DTok t : Der g (Tok t) [t]
| DNT n e w : lookup_rule n g = Some e -> Der g e w -> Der g (NT n) w
| DSeq a b u v : Der g a u -> Der g b v -> Der g (Seq a b) (u ++ v)
| DAltL a b u : Der g a u -> Der g (Alt a b) u
| DAltR a b u : Der g b u -> Der g (Alt a b) u
| DStar0 a : Der g (Star a) []
| DStarS a u v : Der g a u -> Der g (Star a) v -> Der g (Star a) (u ++ v)
| DPlus a u v : Der g a u -> Der g (Star a) v -> Der g (Plus a) (u ++ v)
| DOpt0 a : Der g (Opt a) []
| DOpt1 a u : Der g a u -> Der g (Opt a) u
| DEps : Der g Eps [].

(* ------------------------------------------------------------------ recogniser *)

Fixpoint concat_opt {A} (l : list (option (list A))) : option (list A) :=
  match l with
  | [] => Some []
  | None :: _ => None
  | Some x :: r => match concat_opt r with Some y => Some (x ++ y) | None => None end
  end.

(* [ends g fuel e w]: all w' such that w = u ++ w' for some u derived from e; None = fuel ran out *)
Fixpoint ends (g : grammar) (fuel : nat) (e : expr) (w : list string) : option (list (list string)) :=
  match fuel with
  | 0 => None
  | S f =>
      match e with
      | Tok t => match w with
                 | x :: r => if String.eqb x t then Some [r] else Some []
                 | [] => Some []
                 end
      | NT n => match lookup_rule n g with
                | Some b => ends g f b w
                | None => Some []
                end
      | Seq a b => match ends g f a w with
                   | Some l => concat_opt (map (ends g f b) l)
                   | None => None
                   end
      | Alt a b => match ends g f a w, ends g f b w with
                   | Some x, Some y => Some (x ++ y)
                   | _, _ => None
                   end
      | Star a => match ends g f a w with
                  | Some l =>
                      match concat_opt (map (ends g f (Star a)) (filter (fun w1 => length w1 <? length w) l)) with
                      | Some r => Some (w :: r)
                      | None => None
                      end
                  | None => None
                  end
      | Plus a => match ends g f a w with
                  | Some l => concat_opt (map (ends g f (Star a)) l)
                  | None => None
                  end
      | Opt a => match ends g f a w with Some l => Some (w :: l) | None => None end
      | Eps => Some [w]
      end
  end.

Definition recognise (g : grammar) (fuel : nat) (start : string) (w : list string) : option bool :=
  match ends g fuel (NT start) w with
  | Some l => Some (existsb (fun r => match r with [] => true | _ => false end) l)
  | None => None
  end.

(* ------------------------------------------------------------------ tokenisation *)

Definition is_digit (c : ascii) : bool := let n := nat_of_ascii c in (48 <=? n) && (n <=? 57).

Fixpoint prefix_len (p s : string) : option nat :=      (* Some (length p) if p is a prefix of s *)
  match p, s with
  | EmptyString, _ => Some 0
  | String a p', String b s' => if Ascii.eqb a b then option_map S (prefix_len p' s') else None
  | String _ _, EmptyString => None
  end.

Fixpoint digits_len (s : string) : nat :=
  match s with String c r => if is_digit c then S (digits_len r) else 0 | EmptyString => 0 end.

(* longest match of one token definition at the head of s (0 = no match) *)
Definition def_match (d : tokdef) (s : string) : nat :=
  match d with
  | TLits ls => fold_left (fun best l => match prefix_len l s with
                                         | Some n => if (best <? n) then n else best
                                         | None => best end) ls 0
  | TNum => match s with
            | String c _ => if is_digit c && negb (Ascii.eqb c "0"%char) then digits_len s else 0
            | EmptyString => 0
            end
  end.

(* maximal munch; among equally long matches the first definition of the table wins *)
Definition best_token (tbl : list (string * tokdef)) (s : string) : option (string * nat) :=
  fold_left (fun best '(nm, d) =>
               let n := def_match d s in
               match best with
               | Some (_, k) => if k <? n then Some (nm, n) else best
               | None => if 0 <? n then Some (nm, n) else None
               end) tbl None.

Fixpoint drop (n : nat) (s : string) : string :=
  match n, s with 0, _ => s | S k, String _ r => drop k r | S _, EmptyString => EmptyString end.
Fixpoint take (n : nat) (s : string) : string :=
  match n, s with 0, _ => EmptyString | S k, String c r => String c (take k r) | S _, EmptyString => EmptyString end.

(* tokens as (name, text); None when some position matches no token *)
Fixpoint lex (tbl : list (string * tokdef)) (fuel : nat) (s : string) : option (list (string * string)) :=
  match fuel with
  | 0 => None
  | S f =>
      match s with
      | EmptyString => Some []
      | _ => match best_token tbl s with
             | Some (nm, n) => option_map (cons (nm, take n s)) (lex tbl f (drop n s))
             | None => None
             end
      end
  end.

(* a written glycan is accepted iff '#' ++ s ++ '#' tokenises and the token names derive from the start rule *)
Definition accepts (tbl : list (string * tokdef)) (g : grammar) (start : string) (s : string) : option bool :=
  let full := ("#" ++ s ++ "#")%string in
  match lex tbl (S (String.length full)) full with
  | None => Some false
  | Some toks =>
      let names := map fst toks in
      recognise g (200 + 40 * length names) start names
  end.
