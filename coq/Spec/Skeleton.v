(* Spec/Skeleton.v -- graph-level meaning of the skeleton-changing prefixes and suffixes (C14):
   reduction to the alditol, oxidation of a terminal carbon to a carboxylic acid, deoxygenation, anhydro bridges.
   Specification (trusted definitions); every edit copies all other atoms, bonds and stereo slots. *)
From Coq Require Import Ascii String ZArith Bool Arith Lia List.
From GV Require Import Base.Util Spec.Smiles Spec.Chem Spec.Iso Spec.Graft.
Import ListNotations.
Open Scope list_scope.
Open Scope nat_scope.

Definition renum (k j : nat) : nat := if k <? j then j - 1 else j.

(* delete atom k with its bonds; its place in neighbours' slot lists becomes a hydrogen for bracket atoms
   (their hydrogen count grows) and simply disappears for the others (implicit hydrogens follow the valence) *)
Definition delete_atom (M : mol) (k : nat) : mol :=
  let nbs_k := nbs M k in
  let atoms := map (fun '(i, a) =>
                      if memb Nat.eqb i nbs_k && a_brk a
                      then mkAtom (a_sym a) (a_arom a) true (a_iso a) (a_chir a) (S (a_h a)) (a_chg a) else a)
                   (combine (seq 0 (length (m_atoms M))) (m_atoms M)) in
  let nbrs := map (fun '(i, (a, l)) =>
                     flat_map (fun o => match o with
                                        | Some j => if Nat.eqb j k then (if a_brk a then [None] else []) else [Some (renum k j)]
                                        | None => [None] end) l)
                  (combine (seq 0 (length (m_nbrs M))) (combine (m_atoms M) (m_nbrs M))) in
  mkMol (remove_nth k atoms) (remove_nth k nbrs)
        (map (fun '(a, b, s) => (renum k a, renum k b, s))
             (filter (fun '(a, b, _) => negb (Nat.eqb a k || Nat.eqb b k)) (m_bonds M))).

(* a centre that has two hydrogens (or fewer than three different heavy neighbours) is no stereocentre *)
Definition unstereo_if_ch2 (M : mol) : mol :=
  mkMol (map (fun a => if a_brk a && (2 <=? a_h a) then mkAtom (a_sym a) (a_arom a) true (a_iso a) ChNone (a_h a) (a_chg a) else a)
             (m_atoms M)) (m_nbrs M) (m_bonds M).

(* carbon number p and its free hydroxyl / amine in a stand-alone residue *)
Definition position (M : mol) (p : nat) : option (nat * option nat) :=
  match residue_frame false M with
  | Some (num, ring) =>
      match nth_error num (p - 1) with
      | Some x => if 0 <? p then Some (x, free_hetero M ring x) else None
      | None => None
      end
  | None => None
  end.

(* 'n d': the oxygen on carbon n is gone *)
Definition deoxy (M : mol) (p : nat) : option mol :=
  match position M p with
  | Some (_, Some hp) => Some (unstereo_if_ch2 (delete_atom M hp))
  | _ => None
  end.

(* 'x,y-Anhydro': the oxygen of carbon x is bonded to carbon y, whose own hydroxyl leaves (with a hydrogen of O-x:
   water); the oxygen takes the slot of the leaving hydroxyl, all other centres are untouched *)
Definition anhydro (M : mol) (x y : nat) : option mol :=
  match position M x, position M y with
  | Some (_, Some ox), Some (cy, Some oy) =>
      if Nat.eqb ox oy then None else
      let nbrs := map (fun '(i, l) =>
                         if Nat.eqb i cy then map (fun o => if opt_nat_eqb o (Some oy) then Some ox else o) l
                         else if Nat.eqb i ox then l ++ [Some cy] else l)
                      (combine (seq 0 (length (m_nbrs M))) (m_nbrs M)) in
      let M1 := mkMol (m_atoms M) nbrs (filter (fun '(a, b, _) => negb ((Nat.eqb a cy && Nat.eqb b oy) || (Nat.eqb a oy && Nat.eqb b cy))) (m_bonds M) ++ [(ox, cy, BSingle)]) in
      (* oy now has no bond: delete it without touching anybody's hydrogens *)
      Some (mkMol (remove_nth oy (m_atoms M1))
                  (remove_nth oy (map (map (option_map (renum oy))) (m_nbrs M1)))
                  (map (fun '(a, b, s) => (renum oy a, renum oy b, s)) (m_bonds M1)))
  | _, _ => None
  end.

(* a CH2OH carbon becomes a carboxylic acid: one more oxygen, doubly bonded *)
Definition oxidise (M : mol) (c : nat) : mol :=
  let n := length (m_atoms M) in
  mkMol (m_atoms M ++ [mkAtom (s2l "O") false false 0 ChNone 0 0%Z])
        (upd_nth c (fun l => l ++ [Some n]) (m_nbrs M) ++ [[Some c]])
        (m_bonds M ++ [(c, n, BDouble)]).

(* ring opening and reduction at the anomeric carbon (the alditol), keeping atom numbers *)
Definition add_h1 (a : atom) : atom :=
  if a_brk a then mkAtom (a_sym a) (a_arom a) true (a_iso a) ChNone (S (a_h a)) (a_chg a) else a.

Definition reduce_ring (M : mol) : option (mol * nat) :=
  match backbone M with
  | Some (_, (c, o, _)) =>
      let bonds := filter (fun '(a, b, _) => negb ((Nat.eqb a c && Nat.eqb b o) || (Nat.eqb a o && Nat.eqb b c))) (m_bonds M) in
      let nbrs := map (fun '(i, l) =>
                         if Nat.eqb i c then filter (fun x => negb (opt_nat_eqb x (Some o))) l
                         else if Nat.eqb i o then filter (fun x => negb (opt_nat_eqb x (Some c))) l else l)
                      (combine (seq 0 (length (m_nbrs M))) (m_nbrs M)) in
      Some (mkMol (upd_nth c add_h1 (m_atoms M)) nbrs bonds, c)
  | None => None
  end.

(* last carbon of the backbone (C6 of a hexose, C9 of Neu, ...) *)
Definition terminal_carbon (M : mol) : option nat :=
  match backbone M with
  | Some (num, _) => Some (last num 0)
  | None => None
  end.

(* number of carbons of the backbone *)
Definition chain_length (M : mol) : option nat :=
  match backbone M with Some (num, _) => Some (length num) | None => None end.
