(* Spec/Chem.v -- valence, implicit hydrogens, formula, components, rings, validity.
   Specification (trusted definitions), validated per instance against RDKit (O1). *)
From Coq Require Import Ascii String ZArith NArith Bool Arith Lia List.
From GV Require Import Base.Util Spec.Smiles.
Import ListNotations.
Open Scope nat_scope.

Definition bord (b : bsym) : nat :=
  match b with BSingle | BUp | BDown | BArom => 1 | BDouble => 2 | BTriple => 3 end.

(* sum of bond orders at atom i (aromatic bonds count 1) *)
Definition bond_sum (m : mol) (i : nat) : nat :=
  fold_left (fun acc '(a, b, s) => if Nat.eqb a i || Nat.eqb b i then acc + bord s else acc)
            (m_bonds m) 0.

Definition degree (m : mol) (i : nat) : nat :=
  fold_left (fun acc '(a, b, _) => if Nat.eqb a i || Nat.eqb b i then S acc else acc)
            (m_bonds m) 0.

Definition sym_is (a : atom) (s : string) : bool := str_eqb (a_sym a) (s2l s).

(* normal valences of the organic subset *)
Definition normal_valences (sym : str) : list nat :=
  if str_eqb sym (s2l "B") then [3] else
  if str_eqb sym (s2l "C") then [4] else
  if str_eqb sym (s2l "N") then [3] else
  if str_eqb sym (s2l "O") then [2] else
  if str_eqb sym (s2l "P") then [3; 5; 7] else
  if str_eqb sym (s2l "S") then [2; 4; 6] else
  if str_eqb sym (s2l "F") then [1] else
  if str_eqb sym (s2l "Cl") then [1] else
  if str_eqb sym (s2l "Br") then [1] else
  if str_eqb sym (s2l "I") then [1] else
  if str_eqb sym (s2l "Si") then [4] else
  if str_eqb sym (s2l "H") then [1] else [].

(* valences allowed for a charged atom: those of the isoelectronic neutral element *)
Definition charged_valences (sym : str) (q : Z) : list nat :=
  if Z.eqb q 0 then normal_valences sym else
  if Z.eqb q 1 then
    (if str_eqb sym (s2l "N") then [4] else if str_eqb sym (s2l "O") then [3] else
     if str_eqb sym (s2l "P") then [4] else if str_eqb sym (s2l "S") then [3; 5] else
     if str_eqb sym (s2l "C") then [3] else [])
  else if Z.eqb q (-1) then
    (if str_eqb sym (s2l "O") then [1] else if str_eqb sym (s2l "N") then [2] else
     if str_eqb sym (s2l "S") then [1] else if str_eqb sym (s2l "B") then [4] else
     if str_eqb sym (s2l "C") then [3] else [])
  else [].

Fixpoint first_ge (n : nat) (l : list nat) : option nat :=
  match l with [] => None | v :: r => if n <=? v then Some v else first_ge n r end.

(* implicit hydrogens of atom i (bracket atoms have none) *)
Definition impl_h (m : mol) (i : nat) (a : atom) : nat :=
  if a_brk a then 0 else
  let bs := bond_sum m i in
  if a_arom a then
    match normal_valences (a_sym a) with
    | v :: _ => v - 1 - bs
    | [] => 0
    end
  else
    match first_ge bs (normal_valences (a_sym a)) with
    | Some v => v - bs
    | None => 0
    end.

Definition total_h (m : mol) (i : nat) (a : atom) : nat := a_h a + impl_h m i a.

(* is the valence of atom i an ordinary one? *)
Definition valence_ok (m : mol) (i : nat) (a : atom) : bool :=
  let bs := bond_sum m i in
  if a_brk a then
    let v := bs + a_h a + (if a_arom a then 1 else 0) in
    if sym_is a "H" && (v =? 1) then true else
    memb Nat.eqb v (charged_valences (a_sym a) (a_chg a))
  else if a_arom a then
    match normal_valences (a_sym a) with
    | v :: _ => bs <=? v - 1 + (if sym_is a "O" || sym_is a "S" || sym_is a "N" then 1 else 0)
    | [] => false
    end
  else
    match first_ge bs (normal_valences (a_sym a)) with Some _ => true | None => false end.

Fixpoint forallb_i {A} (f : nat -> A -> bool) (i : nat) (l : list A) : bool :=
  match l with [] => true | x :: r => f i x && forallb_i f (S i) r end.

Definition all_valences_ok (m : mol) : bool := forallb_i (valence_ok m) 0 (m_atoms m).

(* ------------------------------------------------------------------ formula *)

(* formula as an association list symbol -> count, plus total charge *)
Fixpoint bump (sym : str) (n : nat) (f : list (str * nat)) : list (str * nat) :=
  match f with
  | [] => if n =? 0 then [] else [(sym, n)]
  | (s, k) :: r => if str_eqb s sym then (s, k + n) :: r else (s, k) :: bump sym n r
  end.

Fixpoint formula_aux (m : mol) (i : nat) (l : list atom) (f : list (str * nat)) : list (str * nat) :=
  match l with
  | [] => f
  | a :: r => formula_aux m (S i) r (bump (s2l "H") (total_h m i a) (bump (a_sym a) 1 f))
  end.

Definition formula (m : mol) : list (str * nat) := formula_aux m 0 (m_atoms m) [].
Definition charge (m : mol) : Z := fold_left (fun q a => (q + a_chg a)%Z) (m_atoms m) 0%Z.

Definition fcount (sym : string) (f : list (str * nat)) : nat :=
  match assoc (s2l sym) f with Some n => n | None => 0 end.

(* canonical comparison of formulas: same count for every symbol of either *)
Definition formula_eqb (f g : list (str * nat)) : bool :=
  forallb (fun '(s, n) => match assoc s g with Some k => n =? k | None => n =? 0 end) f &&
  forallb (fun '(s, n) => match assoc s f with Some k => n =? k | None => n =? 0 end) g.

Definition formula_add (f g : list (str * nat)) : list (str * nat) :=
  fold_left (fun acc '(s, n) => bump s n acc) g f.

(* f - g, None if some count would go negative *)
Fixpoint formula_sub (f g : list (str * nat)) : option (list (str * nat)) :=
  match g with
  | [] => Some f
  | (s, n) :: r =>
      let k := match assoc s f with Some k => k | None => 0 end in
      if k <? n then None else
      formula_sub (map (fun '(s', c) => if str_eqb s s' then (s', c - n) else (s', c)) f) r
  end.

(* ------------------------------------------------------------------ components and rings *)

(* union-find by repeated relabelling: comp[i] = smallest index of the component *)
Definition relabel_comp (x y : nat) (comp : list nat) : list nat :=
  let cx := nth x comp x in let cy := nth y comp y in
  let lo := Nat.min cx cy in let hi := Nat.max cx cy in
  map (fun c => if Nat.eqb c hi then lo else c) comp.

Definition components (m : mol) : list nat :=
  fold_left (fun comp '(a, b, _) => relabel_comp a b comp) (m_bonds m) (seq 0 (length (m_atoms m))).

Fixpoint count_distinct (l : list nat) : nat :=
  match l with [] => 0 | x :: r => (if memb Nat.eqb x r then 0 else 1) + count_distinct r end.

Definition n_components (m : mol) : nat := count_distinct (components m).

(* cyclomatic number = bonds - atoms + components = size of a smallest set of smallest rings *)
Definition n_rings (m : mol) : nat :=
  length (m_bonds m) + n_components m - length (m_atoms m).

Definition n_heavy (m : mol) : nat :=
  length (filter (fun a => negb (sym_is a "H")) (m_atoms m)).

(* ------------------------------------------------------------------ allowed elements, markers *)

Definition marker_syms : list string :=
  ["Ga"; "Ge"; "As"; "Se"; "In"; "Sn"; "Sb"; "Te"; "Tl"; "Pb"; "Bi"; "Po"; "Nh"; "Fl"; "Mc"; "Lv"; "Ts"; "Og"]%string.
Definition glycan_syms : list string :=
  ["C"; "H"; "N"; "O"; "P"; "S"; "F"; "Cl"; "Br"; "I"; "Si"]%string.

Definition is_marker (a : atom) : bool := existsb (sym_is a) marker_syms.
Definition elem_ok (a : atom) : bool := existsb (sym_is a) glycan_syms.

Definition no_markers (m : mol) : bool := forallb (fun a => negb (is_marker a)) (m_atoms m).
Definition elements_ok (m : mol) : bool := forallb elem_ok (m_atoms m).

(* no explicit [H] atoms left over, no duplicate bonds between a pair of atoms *)
Definition no_dup_bonds (m : mol) : bool :=
  nodupb (fun '(a, b, _) '(c, d, _) => (Nat.eqb a c && Nat.eqb b d) || (Nat.eqb a d && Nat.eqb b c))
         (m_bonds m).

(* the C02 verdict for a molecule *)
Definition mol_valid (m : mol) : bool :=
  no_markers m && elements_ok m && all_valences_ok m && (n_components m =? 1) && no_dup_bonds m.

(* text-level clauses of C02 that sem alone does not see *)
Definition no_empty_branch (s : str) : bool := negb (containsb (s2l "()") s).

Definition smiles_valid (s : str) : bool :=
  no_empty_branch s &&
  match sem_str s with
  | Some m => mol_valid m
  | None => false
  end.
