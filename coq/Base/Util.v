(* Base/Util.v -- small executable helpers shared by spec and model. Stdlib only. *)
From Coq Require Import Ascii String ZArith NArith Bool Arith Lia List.
Import ListNotations.
Open Scope nat_scope.

Definition str := list ascii.

Definition s2l (s : string) : str := list_ascii_of_string s.
Definition l2s (l : str) : string := string_of_list_ascii l.

Definition ascii_eqb (a b : ascii) : bool := Ascii.eqb a b.

Fixpoint str_eqb (a b : str) : bool :=
  match a, b with
  | [], [] => true
  | x :: a', y :: b' => Ascii.eqb x y && str_eqb a' b'
  | _, _ => false
  end.

Lemma str_eqb_eq a b : str_eqb a b = true <-> a = b.
Proof.
  revert b; induction a as [|x a IH]; intros [|y b]; cbn; split; intro H;
    try reflexivity; try discriminate.
  - apply andb_true_iff in H as [H1 H2]. apply Ascii.eqb_eq in H1. apply IH in H2. congruence.
  - inversion H; subst. apply andb_true_iff; split; [apply Ascii.eqb_refl | apply IH; reflexivity].
Qed.

Lemma str_eqb_refl a : str_eqb a a = true.
Proof. apply str_eqb_eq; reflexivity. Qed.

Definition is_digit (c : ascii) : bool :=
  let n := nat_of_ascii c in (48 <=? n) && (n <=? 57).
Definition is_upper (c : ascii) : bool :=
  let n := nat_of_ascii c in (65 <=? n) && (n <=? 90).
Definition is_lower (c : ascii) : bool :=
  let n := nat_of_ascii c in (97 <=? n) && (n <=? 122).
Definition digit_val (c : ascii) : nat := nat_of_ascii c - 48.
Definition digit_chr (n : nat) : ascii := ascii_of_nat (48 + n).

(* decimal rendering of a nat, fuel = the number itself + 1 is always enough *)
Fixpoint nat2str_aux (fuel n : nat) (acc : str) : str :=
  match fuel with
  | 0 => acc
  | S f => let acc' := digit_chr (n mod 10) :: acc in
           if n <? 10 then acc' else nat2str_aux f (n / 10) acc'
  end.
Definition nat2str (n : nat) : str := nat2str_aux (S n) n [].

Fixpoint str2nat_aux (l : str) (acc : nat) : nat :=
  match l with
  | [] => acc
  | c :: r => str2nat_aux r (acc * 10 + digit_val c)
  end.
Definition str2nat (l : str) : nat := str2nat_aux l 0.

Fixpoint span_digits (l : str) : str * str :=
  match l with
  | c :: r => if is_digit c then let (d, t) := span_digits r in (c :: d, t) else ([], l)
  | [] => ([], [])
  end.

Fixpoint upd_nth {A} (n : nat) (f : A -> A) (l : list A) : list A :=
  match l, n with
  | [], _ => []
  | x :: r, 0 => f x :: r
  | x :: r, S k => x :: upd_nth k f r
  end.

Lemma upd_nth_length {A} n (f : A -> A) l : length (upd_nth n f l) = length l.
Proof. revert n; induction l as [|x l IH]; intros [|n]; cbn; auto. Qed.

Fixpoint prefixb (p s : str) : bool :=
  match p, s with
  | [], _ => true
  | x :: p', y :: s' => Ascii.eqb x y && prefixb p' s'
  | _ :: _, [] => false
  end.

Lemma prefixb_spec p s : prefixb p s = true <-> exists t, s = p ++ t.
Proof.
  revert s; induction p as [|x p IH]; intros s; cbn.
  - split; [intros _; exists s; reflexivity | reflexivity].
  - destruct s as [|y s].
    + split; [discriminate | intros [t Ht]; discriminate].
    + rewrite andb_true_iff, Ascii.eqb_eq, IH. split.
      * intros [-> [t ->]]. exists t; reflexivity.
      * intros [t Ht]. inversion Ht; subst. split; [reflexivity | exists t; reflexivity].
Qed.

(* substring search: does [p] occur in [s] *)
Fixpoint containsb (p s : str) : bool :=
  prefixb p s || match s with [] => false | _ :: r => containsb p r end.

Definition opt_bind {A B} (o : option A) (f : A -> option B) : option B :=
  match o with Some a => f a | None => None end.
Notation "x <- o ;; k" := (opt_bind o (fun x => k)) (at level 61, o at next level, right associativity).

Fixpoint count_occ_b {A} (eqb : A -> A -> bool) (x : A) (l : list A) : nat :=
  match l with [] => 0 | y :: r => (if eqb x y then 1 else 0) + count_occ_b eqb x r end.

Fixpoint memb {A} (eqb : A -> A -> bool) (x : A) (l : list A) : bool :=
  match l with [] => false | y :: r => eqb x y || memb eqb x r end.

Fixpoint nodupb {A} (eqb : A -> A -> bool) (l : list A) : bool :=
  match l with [] => true | y :: r => negb (memb eqb y r) && nodupb eqb r end.

Fixpoint assoc {A} (k : str) (l : list (str * A)) : option A :=
  match l with [] => None | (k', v) :: r => if str_eqb k k' then Some v else assoc k r end.
