(* translator failed: get_smiles: the computation of the SMILES is not 'walk; checked_smiles(merge(...))': self.parse_tree, self.tree_full = TreeWalker(self.factory, False).parse(self.grammar_tree) | self.glycan_smiles = checked_smiles(Merger(self.factory).merge(self.parse_tree, start=self.start)) *)
Translation failed.
