(* translator failed: add_edge: expected five statements *)
Translation failed.
